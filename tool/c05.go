package main

import (
	"fmt"
	"go/ast"
	"go/constant"
	"go/token"
	"go/types"
	"sort"
	"strings"

	"golang.org/x/tools/go/packages"
	"golang.org/x/tools/go/ssa"
)

func init() {
	register(&propDef{
		ID:          "C05",
		Explanation: "Decides, for package safehtml and the routing into it — not a CSS tokenisation of outputs: R1 every path on which a value sanitiser (each function stored in the per-property table, and the default) returns its input unchanged is dominated, for every piece the function splits the input into, by a whole-piece validator in rejecting position: an anchored-regex MatchString, or a ContainsAny rejection whose set contains at least the string/token terminators \" \\ and newline (prefix/suffix tests and url.Parse are not validators: they constrain the ends or the URL grammar, not the alphabet); R2 every validating pattern is anchored at both ends and its alphabet (over-approximated from the regexp syntax tree) excludes ; : { } ( ) \" ' \\ < > @ and line breaks; (thorough) no string accepted by the regular-value pattern contains /*, */ or // (product of the compiled program with a substring automaton); R3 css-component expressions are emitted as templ.SanitizeCSS(<constant name>, <expr>) and constant properties as Go string literals (GEM); every write of the style-attribute builder is HTML-escaped and its content comes from safehtml.SanitizeCSS / SanitizeCSSProperty / SanitizeStyleValue or is typed SafeCSS / SafeCSSProperty (SSA), and a write directly followed by the ':' separator (a property name) comes from the name sanitiser or the name result of the pair sanitiser; the bypass in templ.SanitizeCSS is guarded by the reflect type test; R4 the property-name sanitiser returns a non-constant only after the identifier pattern matched, and an innocuous name forces the innocuous value; R5 the schemes compared in the url() check are within {http, https, mailto} and absolute URLs with other schemes are rejected; R6 the string-token escaper's arms cover NUL, <, \", \\, C0, DEL, C1, U+2028, U+2029. R7 a style attribute value passes exactly one HTML-escaping layer between the CSS sanitiser and the attribute (runtime writes and the generated sink are counted). NOT decided: CSS tokenisation of the emitted text by a browser.",
		Assumptions: []string{"regexp/syntax parses what regexp compiles", "a CSS string token ends only at its quote, at a newline, or through a backslash escape"},
		Trusted:     []string{"go/types", "go/parser", "regexp/syntax", "x/tools go/packages, go/cfg, go/ssa"},
		Run:         runC05,
	})
}

func runC05(c *Ctx) {
	c.load(".", "./runtime", "./safehtml", "./generator")
	sp := c.pkg("safehtml")
	quotedArmsBanDelimiters(c, sp, "C05.R1")
	info := sp.TypesInfo

	// the value sanitisers: functions stored in a map[string]func(string) string, plus the default used by the dispatcher
	sanitizers := map[string]bool{}
	for _, nm := range sp.Types.Scope().Names() {
		v, ok := sp.Types.Scope().Lookup(nm).(*types.Var)
		if !ok {
			continue
		}
		if mt, ok := v.Type().Underlying().(*types.Map); ok {
			if _, isFn := mt.Elem().Underlying().(*types.Signature); isFn {
				if m, ok := mapStringToIdent(info, pkgVarInit(sp, nm)); ok {
					for _, fn := range m {
						sanitizers[fn] = true
					}
					c.count("css_property_table_entries", len(m))
				}
			}
		}
	}
	// the default: function called by the dispatcher (the function that indexes the table) when the lookup fails
	for _, fd := range allFuncDecls(sp) {
		indexes := false
		ast.Inspect(fd.Body, func(n ast.Node) bool {
			if ix, ok := n.(*ast.IndexExpr); ok {
				if mt, ok := info.TypeOf(ix.X).Underlying().(*types.Map); ok {
					if _, isFn := mt.Elem().Underlying().(*types.Signature); isFn {
						indexes = true
					}
				}
			}
			return true
		})
		if indexes {
			if ret, ok := fd.Body.List[len(fd.Body.List)-1].(*ast.ReturnStmt); ok && len(ret.Results) == 1 {
				if call, ok := ret.Results[0].(*ast.CallExpr); ok {
					if id, ok := call.Fun.(*ast.Ident); ok {
						sanitizers[id.Name] = true
					}
				}
			}
		}
	}
	if len(sanitizers) < 3 {
		c.viol("C05.R1", "anchor-lost:value-sanitisers", "", fmt.Sprintf("only %d value sanitisers found through the per-property table", len(sanitizers)))
	}
	regexVars := map[string]string{}
	for _, nm := range sp.Types.Scope().Names() {
		if v, ok := sp.Types.Scope().Lookup(nm).(*types.Var); ok && v.Type().String() == "*regexp.Regexp" {
			if pat, ok := regexVarPattern(sp, nm); ok {
				regexVars[nm] = pat
			}
		}
	}
	var names []string
	for n := range sanitizers {
		names = append(names, n)
	}
	sort.Strings(names)
	for _, name := range names {
		fd := findFunc(sp, "", name)
		if fd == nil {
			c.viol("C05.R1", sp.PkgPath+"."+name+"|declared", "", "value sanitiser "+name+" is in the table but not declared in the package")
			continue
		}
		passThroughValidated(c, sp, fd, regexVars)
	}
	c.floor("C05.R1", 4)

	// R2 ------------------------------------------------------------
	forbidden := []rune{';', ':', '{', '}', '(', ')', '"', '\'', '\\', '<', '>', '@', '\n', '\r', '\f'}
	var rnames []string
	for n := range regexVars {
		rnames = append(rnames, n)
	}
	sort.Strings(rnames)
	for _, nm := range rnames {
		pat := regexVars[nm]
		acc, anchored, err := regexAlphabet(pat)
		key := sp.PkgPath + "." + nm
		if err != nil {
			c.undec("C05.R2", key, "", "pattern does not parse: "+err.Error())
			continue
		}
		bad := ""
		for _, r := range forbidden {
			if acc(r) {
				bad += fmt.Sprintf("%q ", string(r))
			}
		}
		c.check(anchored && bad == "", "C05.R2", key+"|anchored-safe-alphabet", "", "anchored ^…$; alphabet excludes the terminators: "+pat,
			fmt.Sprintf("pattern %s = %q is not anchored at both ends or admits %s: a value matching it can end its declaration", nm, pat, bad))
		if c.thorough() {
			alpha := []rune{'/', '*', 'a', '0', ' ', '-', '.', '!', '#', '%', '_', '\t', '+', ','}
			may, which, err := regexMayContain(pat, []string{"/*", "*/", "//"}, alpha)
			c.check(err == nil && !may, "C05.R2", key+"|no-comment-markers", "", "no accepted string contains /*, */ or // (product search over the compiled program)",
				fmt.Sprintf("pattern %s accepts a string containing %q: a comment could swallow the rest of the style sheet", nm, which))
		}
	}
	c.floor("C05.R2", 4)

	// R3 ------------------------------------------------------------
	g := c.gem()
	n := g.names()
	if !n.ok {
		c.undec("C05.R3", "emitted-names", "", n.why)
	} else {
		nsink := 0
		g.forEachEmittedCall(func(gf *GFunc, sk *Skeleton, call *ast.CallExpr) {
			se, ok := call.Fun.(*ast.SelectorExpr)
			if !ok || types.ExprString(se.X) != n.CSSBuilder || se.Sel.Name != "WriteString" || len(call.Args) != 1 {
				return
			}
			nsink++
			arg := ast.Unparen(call.Args[0])
			key := gf.Key + "|css-builder-write:" + normCallee(argShape(call))
			if bl, ok := arg.(*ast.BasicLit); ok && bl.Kind == token.STRING {
				c.ok("C05.R3", key, c.pos(gf.Decl.Pos()), "constant property written as a Go string literal")
				return
			}
			if be, ok := arg.(*ast.BinaryExpr); ok && allStringLits(be) {
				c.ok("C05.R3", key, c.pos(gf.Decl.Pos()), "constant property written as Go string literals")
				return
			}
			good := false
			if conv, ok := arg.(*ast.CallExpr); ok && callName(conv) == "string" && len(conv.Args) == 1 {
				if sc, ok := conv.Args[0].(*ast.CallExpr); ok && callName(sc) == "templ.SanitizeCSS" && len(sc.Args) == 2 {
					if bl, ok := sc.Args[0].(*ast.BasicLit); ok && bl.Kind == token.STRING {
						good = true
					}
				}
			}
			c.check(good, "C05.R3", key, c.pos(gf.Decl.Pos()), "string(templ.SanitizeCSS(`<name>`, <expr>))",
				gf.Name+" emits `"+types.ExprString(call)+"`: a dynamic CSS value reaches the class body without templ.SanitizeCSS")
		})
		if nsink < 2 {
			c.viol("C05.R3", "anchor-lost:css-builder-writes", "", fmt.Sprintf("only %d emitted writes to the CSS builder found", nsink))
		}
	}
	// style attribute builder writes (SSA)
	f := c.flow()
	rsp := c.ssaPkg("runtime")
	accept := func(ls []leaf) (bool, string) {
		for _, l := range ls {
			switch l.Kind {
			case "CONST", "SAFE":
			case "GLOBAL":
			case "ESCAPED":
				for _, in := range flattenKeepCalls(l.Inner) {
					switch in.Kind {
					case "CONST", "SAFE", "BUILDER":
					case "TYPE":
					case "CALL":
						okc := false
						for _, pre := range []string{modPath + "/safehtml.SanitizeCSS#", modPath + "/safehtml.SanitizeCSSProperty#", modPath + "/safehtml.SanitizeStyleValue#"} {
							if strings.HasPrefix(in.Info, pre) {
								okc = true
							}
						}
						if !okc {
							return false, "content comes from " + in.Info
						}
					default:
						return false, "content is " + in.String()
					}
				}
			default:
				return false, l.String() + " is written without the HTML escaper"
			}
		}
		return true, ""
	}
	nw := 0
	// the style attribute code: every function of the package reachable (static callees, closures) from the exported entry point
	styleFns := map[*ssa.Function]bool{}
	if entry := rsp.Func("SanitizeStyleAttributeValues"); entry != nil {
		work := []*ssa.Function{entry}
		for len(work) > 0 {
			fn := work[len(work)-1]
			work = work[:len(work)-1]
			if fn == nil || styleFns[fn] || fn.Blocks == nil || fn.Pkg != rsp {
				continue
			}
			styleFns[fn] = true
			work = append(work, fn.AnonFuncs...)
			for _, b := range fn.Blocks {
				for _, ins := range b.Instrs {
					if ci, ok := ins.(ssa.CallInstruction); ok {
						if cal := ci.Common().StaticCallee(); cal != nil {
							work = append(work, cal)
						}
					}
					// functions taken as values (passed to helpers)
					for _, op := range ins.Operands(nil) {
						if op != nil && *op != nil {
							if f2, ok := (*op).(*ssa.Function); ok {
								work = append(work, f2)
							}
							if mc, ok := (*op).(*ssa.MakeClosure); ok {
								if f2, ok := mc.Fn.(*ssa.Function); ok {
									work = append(work, f2)
								}
							}
						}
					}
				}
			}
		}
	} else {
		c.viol("C05.R3", "anchor-lost:SanitizeStyleAttributeValues", "", "runtime.SanitizeStyleAttributeValues (exported, called by generated code) not found")
	}
	c.count("style_attribute_functions", len(styleFns))
	for _, fn := range ssaFuncs(c.prog, rsp) {
		name := ssaFuncName(fn)
		if !styleFns[fn] {
			continue
		}
		ord := 0
		sinks := findSinks(fn)
		for si, s := range sinks {
			if s.Kind != "Builder.WriteString" {
				continue
			}
			ord++
			nw++
			ls := f.classify(s.Operands[0])
			ok, why := accept(ls)
			c.check(ok, "C05.R3", fmt.Sprintf("%s|style-write#%d", name, ord), c.pos(s.Pos), leavesString(ls),
				fmt.Sprintf("%s: %s — a style attribute value must be sanitised (safehtml.SanitizeCSS / SanitizeStyleValue) or typed SafeCSS, then HTML-escaped (classified %s)", name, why, leavesString(ls)))
			// a write directly followed by the ':' separator is a property NAME: only the name sanitiser (or the name result
			// of the pair sanitiser) constrains it to an identifier; the declaration-list sanitiser accepts `a:b;c`
			if si+1 < len(sinks) && sinks[si+1].Kind == "Builder.WriteRune" && sinks[si+1].Call.Block() == s.Call.Block() && len(sinks[si+1].Operands) == 1 {
				if k, isK := sinks[si+1].Operands[0].(*ssa.Const); isK && k.Value != nil && k.Int64() == ':' {
					nameOK, got := true, ""
					for _, l := range ls {
						if l.Kind != "ESCAPED" {
							continue
						}
						for _, in := range l.Inner {
							switch {
							case in.Kind == "CONST":
							case in.Kind == "CALL" && (strings.HasPrefix(in.Info, modPath+"/safehtml.SanitizeCSSProperty#") || strings.HasPrefix(in.Info, modPath+"/safehtml.SanitizeCSS#0")):
							default:
								nameOK, got = false, in.String()
							}
						}
					}
					if len(got) > 160 {
						got = got[:160] + "…"
					}
					c.check(nameOK, "C05.R3", fmt.Sprintf("%s|style-write#%d|name-position", name, ord), c.pos(s.Pos), "the text before ':' is the output of the property-name sanitiser",
						fmt.Sprintf("%s writes %s in property-name position (directly before ':'): only safehtml.SanitizeCSSProperty (or the name result of safehtml.SanitizeCSS) restricts a name to an identifier, so `color:red;background:url(x)` as a key becomes extra declarations", name, got))
				}
			}
		}
	}
	if nw < 8 {
		c.viol("C05.R3", "anchor-lost:style-attribute-writes", "", fmt.Sprintf("only %d builder writes found in the style attribute code", nw))
	}
	// R7: between the CSS sanitiser and the style attribute there is exactly ONE HTML-escaping layer. The browser
	// undoes one layer before the CSS parser runs; a second layer leaves character references in the CSS text, and the
	// ';' that ends every reference ends the declaration (a quoted font name `"a;color:red;b"`, valid as a CSS string,
	// turns into `&#34;a;color:red;b&#34;` — a second declaration).
	runtimeEscapes := 0
	for _, fn := range ssaFuncs(c.prog, rsp) {
		if !strings.Contains(strings.ToLower(fn.Name()), "style") && !strings.HasPrefix(fn.Name(), "process") && !strings.HasPrefix(fn.Name(), "handle") {
			continue
		}
		for _, sk := range findSinks(fn) {
			if sk.Kind != "Builder.WriteString" {
				continue
			}
			for _, l := range flatten(f.classify(sk.Operands[0])) {
				if l.Kind == "ESCAPED" {
					runtimeEscapes++
				}
			}
		}
	}
	en := g.names()
	nstyle := 0
	for _, gf := range g.order {
		if !gf.Emits {
			continue
		}
		for _, sk := range g.Skeletons(gf) {
			if sk.File == nil || !strings.Contains(sk.Src, "SanitizeStyleAttributeValues") {
				continue
			}
			direct := false
			for _, nd := range gf.Tree {
				if e, ok := nd.(Emit); ok {
					for _, pp := range e.Parts {
						if pp.Kind == PConst && strings.Contains(pp.Const, "SanitizeStyleAttributeValues") {
							direct = true
						}
					}
				}
			}
			if !direct {
				continue
			}
			// the variable assigned from the sanitiser, and how it is written
			gv := ""
			ast.Inspect(sk.File, func(x ast.Node) bool {
				if as, ok := x.(*ast.AssignStmt); ok && len(as.Rhs) == 1 {
					if call, ok := as.Rhs[0].(*ast.CallExpr); ok && strings.HasSuffix(types.ExprString(call.Fun), "SanitizeStyleAttributeValues") {
						gv = types.ExprString(as.Lhs[0])
					}
				}
				return true
			})
			generatorEscapes := false
			ast.Inspect(sk.File, func(x ast.Node) bool {
				if call, ok := x.(*ast.CallExpr); ok && en.ok && callName(call) == en.Buf+".WriteString" && len(call.Args) == 1 {
					if types.ExprString(call.Args[0]) == "templ.EscapeString("+gv+")" && gv != "" {
						generatorEscapes = true
					}
				}
				return true
			})
			nstyle++
			layers := 0
			if generatorEscapes {
				layers++
			}
			if runtimeEscapes > 0 {
				layers++
			}
			c.check(layers == 1, "C05.R7", fmt.Sprintf("%s|style-value-html-escaped-once|layers=%d", gf.Key, layers), c.pos(gf.Decl.Pos()), "one HTML-escaping layer between the CSS sanitiser and the style attribute",
				fmt.Sprintf("%s: a style attribute value passes through %d HTML-escaping layers (the runtime's SanitizeStyleAttributeValues escapes %d of its writes, and the generated code %s templ.EscapeString to the result). The browser undoes one; with two, the CSS parser sees character references such as &#34; whose ';' ends the declaration, so a value that is valid as one declaration (a quoted font name containing ';') becomes several; with none, the value can end the attribute", gf.Name, layers, runtimeEscapes, map[bool]string{true: "applies", false: "does not apply"}[generatorEscapes]))
			break
		}
	}
	if nstyle == 0 {
		c.viol("C05.R7", "anchor-lost:style-attribute-emission", "", "no generator function emits a call of SanitizeStyleAttributeValues")
	}
	// templ.SanitizeCSS bypass
	tp := c.pkg(".")
	if fd := findFunc(tp, "", "SanitizeCSS"); fd == nil {
		c.viol("C05.R3", "anchor-lost:templ.SanitizeCSS", "", "templ.SanitizeCSS (exported) not found")
	} else {
		key := funcKey(tp, fd)
		okAll, why, _ := cssSanitiserReturns(c, tp, fd, 0)
		c.check(okAll, "C05.R3", key+"|bypass-guarded-by-type", c.pos(fd.Pos()), "every return is computed from this call's arguments: unsanitised values pass only under reflect.TypeOf(value) == SafeCSSProperty, everything else through safehtml.SanitizeCSS; the name is sanitised on both paths",
			"templ.SanitizeCSS: "+why)
	}

	// R4 ------------------------------------------------------------
	if fd := findFunc(sp, "", "SanitizeCSSProperty"); fd == nil {
		c.viol("C05.R4", "anchor-lost:SanitizeCSSProperty", "", "safehtml.SanitizeCSSProperty (exported) not found")
	} else {
		passThroughValidated(c, sp, fd, regexVars)
		// rename rule id for clarity is not needed: same obligation shape
	}
	if fd := findFunc(sp, "", "SanitizeCSS"); fd == nil {
		c.viol("C05.R4", "anchor-lost:safehtml.SanitizeCSS", "", "safehtml.SanitizeCSS (exported) not found")
	} else {
		// property = SanitizeCSSProperty(property); if property == Innocuous { return Innocuous, Innocuous }; return property, SanitizeCSSValue(property, value)
		t := nodeText(c.fset, fd.Body)
		good := strings.Contains(t, "SanitizeCSSProperty(") && strings.Contains(t, "== InnocuousPropertyName") && strings.Contains(t, "return InnocuousPropertyName, InnocuousPropertyValue") && strings.Contains(t, "SanitizeCSSValue(")
		// the value is never returned raw
		var valueParam types.Object
		for _, prm := range fd.Type.Params.List {
			if len(prm.Names) > 0 {
				valueParam = info.Defs[prm.Names[len(prm.Names)-1]]
			}
		}
		raw := false
		ast.Inspect(fd.Body, func(x ast.Node) bool {
			if ret, ok := x.(*ast.ReturnStmt); ok {
				for _, r := range ret.Results {
					if id, ok := r.(*ast.Ident); ok && info.ObjectOf(id) == valueParam {
						raw = true
					}
				}
			}
			return true
		})
		c.check(good && !raw, "C05.R4", funcKey(sp, fd)+"|name-then-value", c.pos(fd.Pos()), "the name is sanitised first; an innocuous name forces the innocuous value; the value goes through the per-property sanitiser",
			"safehtml.SanitizeCSS no longer sanitises the name first / forces the innocuous value for an innocuous name / routes the value through SanitizeCSSValue")
	}

	if c.thorough() {
		generatedCSSSinks(c, "C05.R3")
	}

	// R5 ------------------------------------------------------------
	var urlFn *ast.FuncDecl
	for _, fd := range allFuncDecls(sp) {
		ast.Inspect(fd.Body, func(x ast.Node) bool {
			if call, ok := x.(*ast.CallExpr); ok {
				if fn := calleeOf(info, call); fn != nil && fullName(fn) == "net/url.Parse" {
					urlFn = fd
				}
			}
			return true
		})
	}
	if urlFn == nil {
		c.viol("C05.R5", "anchor-lost:url-check", "", "no function in safehtml parses a URL")
	} else {
		var schemes []string
		ast.Inspect(urlFn.Body, func(x ast.Node) bool {
			if call, ok := x.(*ast.CallExpr); ok {
				if fn := calleeOf(info, call); fn != nil && fullName(fn) == "strings.EqualFold" {
					if s, ok := constString(info, call.Args[1]); ok {
						schemes = append(schemes, s)
					}
				}
			}
			return true
		})
		sort.Strings(schemes)
		extra := ""
		for _, s := range schemes {
			if s != "http" && s != "https" && s != "mailto" {
				extra += s + " "
			}
		}
		c.check(extra == "" && len(schemes) > 0, "C05.R5", funcKey(sp, urlFn)+"|schemes", c.pos(urlFn.Pos()), "schemes: "+strings.Join(schemes, ", "),
			"the url() check accepts the scheme(s) "+extra+"outside {http, https, mailto}")
		// shape: if u.IsAbs() { if <scheme match> { return true }; return false }; parse error → false
		var abs *ast.IfStmt
		for _, st := range urlFn.Body.List {
			if is, ok := st.(*ast.IfStmt); ok && strings.HasSuffix(types.ExprString(is.Cond), ".IsAbs()") {
				abs = is
			}
		}
		good := false
		if abs != nil && len(abs.Body.List) == 2 {
			if inner, ok := abs.Body.List[0].(*ast.IfStmt); ok && strings.Contains(types.ExprString(inner.Cond), "EqualFold") && !strings.Contains(types.ExprString(inner.Cond), "&&") {
				if r1, ok := inner.Body.List[0].(*ast.ReturnStmt); ok && types.ExprString(r1.Results[0]) == "true" {
					if r2, ok := abs.Body.List[1].(*ast.ReturnStmt); ok && types.ExprString(r2.Results[0]) == "false" {
						good = true
					}
				}
			}
		}
		errFalse := false
		for _, st := range urlFn.Body.List {
			if is, ok := st.(*ast.IfStmt); ok && errVarOfCond(is.Cond) != "" {
				if r, ok := is.Body.List[0].(*ast.ReturnStmt); ok && types.ExprString(r.Results[0]) == "false" {
					errFalse = true
				}
			}
		}
		c.check(good && errFalse, "C05.R5", funcKey(sp, urlFn)+"|absolute-urls-need-allowed-scheme", c.pos(urlFn.Pos()), "absolute URLs pass only with an allowed scheme; unparsable URLs are rejected",
			"the url() check no longer rejects absolute URLs with other schemes and unparsable URLs")
	}

	// R6 ------------------------------------------------------------
	if fd := findFunc(sp, "", "SanitizeStyleValue"); fd == nil {
		c.viol("C05.R6", "anchor-lost:SanitizeStyleValue", "", "safehtml.SanitizeStyleValue (exported) not found")
	} else {
		var sw *ast.SwitchStmt
		var runeVar types.Object
		ast.Inspect(fd.Body, func(x ast.Node) bool {
			if rs, ok := x.(*ast.RangeStmt); ok && rs.Value != nil {
				if id, ok := rs.Value.(*ast.Ident); ok {
					runeVar = info.ObjectOf(id)
				}
			}
			if s, ok := x.(*ast.SwitchStmt); ok && s.Tag == nil {
				sw = s
			}
			return true
		})
		if sw == nil || runeVar == nil {
			c.undec("C05.R6", funcKey(sp, fd)+"|arms", c.pos(fd.Pos()), "the rune switch of the string-token escaper was not found")
		} else {
			escaped := func(r rune) (bool, bool) {
				for _, cl := range sw.Body.List {
					cc := cl.(*ast.CaseClause)
					if cc.List == nil {
						continue
					}
					for _, e := range cc.List {
						v, ok := evalRuneCond(info, e, runeVar, r)
						if !ok {
							return false, false
						}
						if v {
							// the arm must not copy the rune through
							copies := false
							for _, st := range cc.Body {
								if strings.Contains(nodeText(c.fset, st), "WriteRune(") {
									copies = true
								}
							}
							return !copies, true
						}
					}
				}
				return false, true
			}
			var req []rune
			for r := rune(0); r <= 0x1f; r++ {
				req = append(req, r)
			}
			req = append(req, '<', '"', '\\', 0x7f, 0x2028, 0x2029)
			for r := rune(0x80); r <= 0x9f; r++ {
				req = append(req, r)
			}
			missing := ""
			undecidable := false
			for _, r := range req {
				e, ok := escaped(r)
				if !ok {
					undecidable = true
				}
				if !e {
					missing += fmt.Sprintf("U+%04X ", r)
				}
			}
			if undecidable {
				c.undec("C05.R6", funcKey(sp, fd)+"|arms", c.pos(sw.Pos()), "a case condition of the escaper is not a comparison of the rune with constants")
			} else {
				c.check(missing == "", "C05.R6", funcKey(sp, fd)+"|arms", c.pos(sw.Pos()), fmt.Sprintf("%d required code points fall into an escaping arm", len(req)),
					"the CSS string-token escaper copies "+missing+"through unescaped")
			}
		}
	}
}

func allStringLits(e ast.Expr) bool {
	switch x := ast.Unparen(e).(type) {
	case *ast.BasicLit:
		return x.Kind == token.STRING
	case *ast.BinaryExpr:
		return x.Op == token.ADD && allStringLits(x.X) && allStringLits(x.Y)
	}
	return false
}

// flattenKeepCalls expands CALL wrappers of in-module helpers but keeps calls into safehtml as leaves.
func flattenKeepCalls(ls []leaf) []leaf {
	var out []leaf
	for _, l := range ls {
		if l.Kind == "CALL" && len(l.Inner) > 0 && !strings.HasPrefix(l.Info, modPath+"/safehtml.") {
			out = append(out, flattenKeepCalls(l.Inner)...)
			continue
		}
		out = append(out, l)
	}
	return out
}

// evalRuneCond evaluates a condition over the rune variable and constants for a concrete rune.
func evalRuneCond(info *types.Info, e ast.Expr, rv types.Object, r rune) (bool, bool) {
	e = ast.Unparen(e)
	be, ok := e.(*ast.BinaryExpr)
	if !ok {
		return false, false
	}
	switch be.Op {
	case token.LAND, token.LOR:
		a, ok1 := evalRuneCond(info, be.X, rv, r)
		b, ok2 := evalRuneCond(info, be.Y, rv, r)
		if !ok1 || !ok2 {
			return false, false
		}
		if be.Op == token.LAND {
			return a && b, true
		}
		return a || b, true
	}
	id, ok := be.X.(*ast.Ident)
	if !ok || info.ObjectOf(id) != rv {
		return false, false
	}
	tv, ok := info.Types[be.Y]
	if !ok || tv.Value == nil {
		return false, false
	}
	k, ok := constant.Int64Val(constant.ToInt(tv.Value))
	if !ok {
		return false, false
	}
	v := int64(r)
	switch be.Op {
	case token.EQL:
		return v == k, true
	case token.NEQ:
		return v != k, true
	case token.LEQ:
		return v <= k, true
	case token.GEQ:
		return v >= k, true
	case token.LSS:
		return v < k, true
	case token.GTR:
		return v > k, true
	}
	return false, false
}

// passThroughValidated: C05.R1 on one sanitiser function.
func passThroughValidated(c *Ctx, p *packages.Package, fd *ast.FuncDecl, regexVars map[string]string) {
	info := p.TypesInfo
	key := funcKey(p, fd)
	if len(fd.Type.Params.List) != 1 || len(fd.Type.Params.List[0].Names) != 1 {
		c.undec("C05.R1", key, c.pos(fd.Pos()), "sanitiser does not have a single named parameter")
		return
	}
	param := info.Defs[fd.Type.Params.List[0].Names[0]]
	fc := newFnCFG(fd.Body, info)
	// does the function return its parameter (or a ToLower of it) ?
	var passReturns []*ast.ReturnStmt
	ast.Inspect(fd.Body, func(n ast.Node) bool {
		if ret, ok := n.(*ast.ReturnStmt); ok && len(ret.Results) == 1 {
			r := ast.Unparen(ret.Results[0])
			if call, ok := r.(*ast.CallExpr); ok && len(call.Args) == 1 {
				if fn := calleeOf(info, call); fn != nil && (fullName(fn) == "strings.ToLower" || fullName(fn) == "strings.ToUpper") {
					r = call.Args[0]
				}
			}
			if id, ok := r.(*ast.Ident); ok && info.ObjectOf(id) == param {
				passReturns = append(passReturns, ret)
			}
		}
		return true
	})
	if len(passReturns) == 0 {
		c.ok("C05.R1", key+"|no-pass-through", c.pos(fd.Pos()), "never returns its input unchanged")
		return
	}
	// validators: if statements that reject (return a constant) when a validator atom is in its bad state
	type validator struct {
		is   *ast.IfStmt
		on   types.Object // variable validated
		kind string
	}
	var vals []validator
	ast.Inspect(fd.Body, func(n ast.Node) bool {
		is, ok := n.(*ast.IfStmt)
		if !ok || len(is.Body.List) == 0 {
			return true
		}
		ret, isRet := is.Body.List[len(is.Body.List)-1].(*ast.ReturnStmt)
		if !isRet || len(ret.Results) != 1 {
			return true
		}
		if tv, ok := info.Types[ret.Results[0]]; !ok || tv.Value == nil {
			return true // must return a constant
		}
		atomsRaw := boolAtomsRaw(is.Cond)
		var atomStrs []string
		for _, a := range atomsRaw {
			atomStrs = append(atomStrs, canonAtom(a))
		}
		for _, a := range atomsRaw {
			call, ok := a.(*ast.CallExpr)
			if !ok {
				continue
			}
			fn := calleeOf(info, call)
			if fn == nil {
				continue
			}
			var on types.Object
			kind := ""
			badState := false
			switch fullName(fn) {
			case "regexp.(Regexp).MatchString":
				if se, ok := call.Fun.(*ast.SelectorExpr); ok {
					if rid, ok := se.X.(*ast.Ident); ok {
						if _, known := regexVars[rid.Name]; known {
							on = rootVar(info, call.Args[0])
							kind = "pattern " + rid.Name
							badState = false // rejects when it does NOT match
						}
					}
				}
			case "strings.ContainsAny":
				if set, ok := constString(info, call.Args[1]); ok {
					if strings.Contains(set, `"`) && strings.Contains(set, `\`) && strings.Contains(set, "\n") {
						on = rootVar(info, call.Args[0])
						kind = fmt.Sprintf("ContainsAny %q", set)
						badState = true
					}
				}
			}
			if on == nil {
				continue
			}
			// rejecting position: with the atom in its bad state the condition is true whatever the others are
			rejects := true
			others := []string{}
			me := canonAtom(a)
			for _, s := range atomStrs {
				if s != me {
					others = append(others, s)
				}
			}
			for _, asg := range assignments(others) {
				asg[me] = badState
				if !evalBool(is.Cond, asg) {
					rejects = false
				}
			}
			if rejects {
				vals = append(vals, validator{is, on, kind})
			}
		}
		return true
	})
	// pieces: range variables over strings.Split(param, …) and locals derived from them by trimming/slicing
	type loopInfo struct {
		rs    *ast.RangeStmt
		piece types.Object
	}
	var loops []loopInfo
	ast.Inspect(fd.Body, func(n ast.Node) bool {
		if rs, ok := n.(*ast.RangeStmt); ok && rs.Value != nil {
			if call, ok := rs.X.(*ast.CallExpr); ok {
				if fn := calleeOf(info, call); fn != nil && strings.HasPrefix(fullName(fn), "strings.Split") {
					if id, ok := call.Args[0].(*ast.Ident); ok && info.ObjectOf(id) == param {
						if vid, ok := rs.Value.(*ast.Ident); ok {
							loops = append(loops, loopInfo{rs, info.ObjectOf(vid)})
						}
					}
				}
			}
		}
		return true
	})
	derivesFrom := func(v, root types.Object) bool {
		if v == root {
			return true
		}
		// v assigned (anywhere in the function) from an expression whose root variable is `root`
		res := false
		ast.Inspect(fd.Body, func(n ast.Node) bool {
			if as, ok := n.(*ast.AssignStmt); ok && len(as.Lhs) == len(as.Rhs) {
				for i, l := range as.Lhs {
					if id, ok := l.(*ast.Ident); ok && info.ObjectOf(id) == v && rootVar(info, as.Rhs[i]) == root {
						res = true
					}
				}
			}
			return true
		})
		return res
	}
	if len(loops) == 0 {
		// whole value: each pass-through return must be dominated by a validator on the parameter
		for i, ret := range passReturns {
			good, kind := false, ""
			for _, v := range vals {
				if derivesFrom(v.on, param) && fc.dominates(v.is, ret) {
					good, kind = true, v.kind
				}
			}
			c.check(good, "C05.R1", fmt.Sprintf("%s|pass-through#%d", key, i+1), c.pos(ret.Pos()), "dominated by whole-value validator: "+kind,
				fmt.Sprintf("%s returns its input unchanged at %s without a whole-value validator (anchored pattern match or terminator rejection) dominating that return", fd.Name.Name, c.pos(ret.Pos())))
		}
		return
	}
	for li, lp := range loops {
		// accept points of the piece: `continue` statements in the loop body and the end of the body
		var accepts []ast.Node
		directNodes(lp.rs.Body, func(n ast.Node) bool {
			if bs, ok := n.(*ast.BranchStmt); ok && bs.Tok == token.CONTINUE {
				// continues of inner loops do not accept the piece
				inner := false
				ast.Inspect(lp.rs.Body, func(m ast.Node) bool {
					switch m := m.(type) {
					case *ast.RangeStmt:
						if m.Body.Pos() <= bs.Pos() && bs.End() <= m.Body.End() {
							inner = true
						}
					case *ast.ForStmt:
						if m.Body.Pos() <= bs.Pos() && bs.End() <= m.Body.End() {
							inner = true
						}
					}
					return true
				})
				if !inner {
					accepts = append(accepts, bs)
				}
			}
			return true
		})
		last := lp.rs.Body.List[len(lp.rs.Body.List)-1]
		accepts = append(accepts, last)
		for ai, ap := range accepts {
			good, kind := false, ""
			for _, v := range vals {
				if !(lp.rs.Body.Pos() <= v.is.Pos() && v.is.End() <= lp.rs.Body.End()) {
					continue
				}
				if !derivesFrom(v.on, lp.piece) {
					continue
				}
				if v.is == ap || fc.dominates(v.is, ap) || precedesInBlock(lp.rs.Body, v.is, ap) {
					good, kind = true, v.kind
				}
				// a `continue` inside the validator's own else-path: the validator if encloses nothing; handled by dominance
			}
			what := "end of the loop body"
			if _, ok := ap.(*ast.BranchStmt); ok {
				what = "continue at " + c.pos(ap.Pos())
			}
			c.check(good, "C05.R1", fmt.Sprintf("%s|piece-loop#%d|accept#%d", key, li+1, ai+1), c.pos(ap.Pos()), what+" dominated by whole-piece validator: "+kind,
				fmt.Sprintf("%s accepts a piece of its input (%s) without a whole-piece validator dominating it — only its ends or its URL grammar were tested — and then returns the input unchanged: the piece can close its string/url token and continue with arbitrary CSS", fd.Name.Name, what))
		}
	}
}

// rootVar: the variable an expression is a view of (slices, TrimSpace/TrimPrefix/TrimSuffix results, conversions).
func rootVar(info *types.Info, e ast.Expr) types.Object {
	for {
		e = ast.Unparen(e)
		switch x := e.(type) {
		case *ast.Ident:
			return info.ObjectOf(x)
		case *ast.SliceExpr:
			e = x.X
		case *ast.CallExpr:
			// TrimSpace / TrimPrefix / TrimSuffix remove a fixed, known part; the cutset-based Trim* functions remove
			// arbitrarily many characters (strings.Trim(f, `"`) hides doubled quotes from a validator) and are not views
			if fn := calleeOf(info, x); fn != nil && fn.Pkg() != nil && fn.Pkg().Path() == "strings" && (fn.Name() == "TrimSpace" || fn.Name() == "TrimPrefix" || fn.Name() == "TrimSuffix") && len(x.Args) >= 1 {
				e = x.Args[0]
				continue
			}
			if tv, ok := info.Types[x.Fun]; ok && tv.IsType() && len(x.Args) == 1 {
				e = x.Args[0]
				continue
			}
			return nil
		default:
			return nil
		}
	}
}

var _ = ssa.BuildSerially

// precedesInBlock: a is an earlier sibling of b in the statement list that directly contains b
// (go/cfg has no node for branch statements, so dominance over a `continue` is read off the block structure:
// an earlier sibling if-statement whose body returns is passed on every path to b).
func precedesInBlock(root *ast.BlockStmt, a *ast.IfStmt, b ast.Node) bool {
	res := false
	ast.Inspect(root, func(n ast.Node) bool {
		var list []ast.Stmt
		switch x := n.(type) {
		case *ast.BlockStmt:
			list = x.List
		case *ast.CaseClause:
			list = x.Body
		}
		ia, ib := -1, -1
		for i, st := range list {
			if st == ast.Stmt(a) {
				ia = i
			}
			if ast.Node(st) == b {
				ib = i
			}
		}
		if ia >= 0 && ib > ia {
			res = true
		}
		return true
	})
	return res
}

// cssSanitiserReturns checks every return of templ.SanitizeCSS (and of an in-package function it delegates to):
// a return either uses the value raw inside a branch that pins its type to SafeCSSProperty (and sanitises the name),
// or is computed by safehtml.SanitizeCSS, or is the result of a delegate for which the same holds. A return of
// anything else — a value loaded from package-level state, for instance — is not computed from this call's
// arguments and is reported.
func cssSanitiserReturns(c *Ctx, tp *packages.Package, fd *ast.FuncDecl, depth int) (okAll bool, why string, usesSan bool) {
	info := tp.TypesInfo
	okAll = true
	var valueParam types.Object
	if len(fd.Type.Params.List) > 0 {
		last := fd.Type.Params.List[len(fd.Type.Params.List)-1]
		if len(last.Names) > 0 {
			valueParam = info.Defs[last.Names[len(last.Names)-1]]
		}
	}
	pinsType := func(is *ast.IfStmt) bool {
		txt := types.ExprString(is.Cond)
		if strings.HasPrefix(txt, "reflect.TypeOf(") && strings.Contains(txt, "== ") {
			rhs := strings.TrimSpace(txt[strings.Index(txt, "== ")+3:])
			if init := pkgVarInit(tp, rhs); init != nil && strings.Contains(types.ExprString(init), "SafeCSSProperty(") {
				return true
			}
		}
		if is.Init != nil {
			if as, ok := is.Init.(*ast.AssignStmt); ok && len(as.Rhs) == 1 {
				if ta, ok := as.Rhs[0].(*ast.TypeAssertExpr); ok && ta.Type != nil && strings.HasSuffix(types.ExprString(ta.Type), "SafeCSSProperty") && len(as.Lhs) == 2 && types.ExprString(is.Cond) == types.ExprString(as.Lhs[1]) {
					return true
				}
			}
		}
		return false
	}
	usesValue := func(e ast.Node) bool {
		raw := false
		ast.Inspect(e, func(y ast.Node) bool {
			if id, ok := y.(*ast.Ident); ok && valueParam != nil && info.ObjectOf(id) == valueParam {
				raw = true
			}
			return true
		})
		return raw
	}
	callsSanitiser := func(e ast.Node) bool {
		found := false
		ast.Inspect(e, func(y ast.Node) bool {
			if call, ok := y.(*ast.CallExpr); ok {
				if fn := calleeOf(info, call); fn != nil && fullName(fn) == modPath+"/safehtml.SanitizeCSS" {
					found = true
				}
			}
			return true
		})
		return found
	}
	// classify an expression that is returned (directly or through local variables)
	var classify func(e ast.Expr, at ast.Node, seen map[types.Object]bool) (string, string)
	classify = func(e ast.Expr, at ast.Node, seen map[types.Object]bool) (string, string) {
		e = ast.Unparen(e)
		if tv, ok := info.Types[e]; ok && tv.Value != nil {
			return "const", ""
		}
		if be, ok := e.(*ast.BinaryExpr); ok && be.Op == token.ADD && !usesValue(be) {
			vx, dx := classify(be.X, at, seen)
			vy, dy := classify(be.Y, at, seen)
			for _, v := range []string{"bad", "foreign"} {
				if vx == v {
					return vx, dx
				}
				if vy == v {
					return vy, dy
				}
			}
			if vx == "const" && vy == "const" {
				return "const", ""
			}
			return "sanitised", ""
		}
		if callsSanitiser(e) {
			usesSan = true
			return "sanitised", ""
		}
		if call, ok := e.(*ast.CallExpr); ok {
			// conversion
			if tv, ok := info.Types[call.Fun]; ok && tv.IsType() && len(call.Args) == 1 {
				if !usesValue(call.Args[0]) {
					return classify(call.Args[0], at, seen)
				}
			}
			if fn := calleeOf(info, call); fn != nil && fn.Pkg() == tp.Types && depth < 2 {
				if dfd := findFunc(tp, "", fn.Name()); dfd != nil && dfd != fd && usesValue(call) {
					ok2, why2, san2 := cssSanitiserReturns(c, tp, dfd, depth+1)
					if san2 {
						usesSan = true
					}
					if !ok2 {
						return "bad", "through " + fn.Name() + ": " + why2
					}
					return "delegated", ""
				}
			}
		}
		if usesValue(e) {
			return "raw", ""
		}
		if id, ok := e.(*ast.Ident); ok {
			ob := info.ObjectOf(id)
			if ob != nil && !seen[ob] && ob.Parent() != tp.Types.Scope() && ob.Parent() != types.Universe {
				seen[ob] = true
				verdict, detail := "", ""
				n := 0
				ast.Inspect(fd.Body, func(y ast.Node) bool {
					as, ok := y.(*ast.AssignStmt)
					if !ok {
						return true
					}
					for i, l := range as.Lhs {
						if lid, ok := l.(*ast.Ident); ok && info.ObjectOf(lid) == ob {
							n++
							rhs := as.Rhs[0]
							if len(as.Rhs) == len(as.Lhs) {
								rhs = as.Rhs[i]
							}
							v, d := classify(rhs, as, seen)
							if v == "raw" {
								v, d = "bad", "the value is stored unsanitised in "+ob.Name()+" and returned later"
							}
							if verdict == "" || v == "bad" || v == "foreign" {
								verdict, detail = v, d
							}
						}
					}
					return true
				})
				if n > 0 {
					return verdict, detail
				}
			}
		}
		return "foreign", "`" + types.ExprString(e) + "` is not computed from this call's arguments by the sanitiser (for example a value taken from a cache that the trusted SafeCSSProperty path also fills: the same text then comes back unsanitised for an untrusted string type)"
	}
	nret := 0
	ast.Inspect(fd.Body, func(x ast.Node) bool {
		if _, isLit := x.(*ast.FuncLit); isLit {
			return false
		}
		ret, ok := x.(*ast.ReturnStmt)
		if !ok || len(ret.Results) != 1 {
			return true
		}
		nret++
		v, d := classify(ret.Results[0], ret, map[types.Object]bool{})
		switch v {
		case "raw":
			guarded := false
			ast.Inspect(fd.Body, func(y ast.Node) bool {
				if is, ok := y.(*ast.IfStmt); ok && is.Body.Pos() <= ret.Pos() && ret.End() <= is.Body.End() && pinsType(is) {
					guarded = true
				}
				if cc, ok := y.(*ast.CaseClause); ok && cc.Pos() <= ret.Pos() && ret.End() <= cc.End() && len(cc.List) == 1 && strings.HasSuffix(types.ExprString(cc.List[0]), "SafeCSSProperty") {
					guarded = true
				}
				return true
			})
			if !guarded {
				okAll, why = false, "a return uses the value unsanitised ("+types.ExprString(ret.Results[0])+") outside a branch that pins its type to SafeCSSProperty: every other named string type bypasses the sanitiser"
			} else if !strings.Contains(types.ExprString(ret.Results[0]), "safehtml.SanitizeCSSProperty(") {
				okAll, why = false, "the SafeCSSProperty bypass does not sanitise the property name"
			}
		case "bad", "foreign":
			okAll, why = false, "return at "+c.pos(ret.Pos())+": "+d
		}
		return true
	})
	if nret == 0 {
		okAll, why = false, fd.Name.Name+" has no return"
	}
	if depth == 0 && !usesSan && okAll {
		okAll, why = false, "templ.SanitizeCSS no longer reaches safehtml.SanitizeCSS"
	}
	return
}

// quotedArmsBanDelimiters: C05.R1 — a sanitiser arm that passes a QUOTED value through as written accepts it only if
// the interior contains none of the characters that end a CSS string early: each quote character the arm accepts as an
// opening delimiter, the backslash (escapes the closing quote) and a line break (ends the string token). The accepted
// delimiters are read from the HasPrefix tests of the arm's condition, the banned set from the ContainsAny rejection
// inside it.
func quotedArmsBanDelimiters(c *Ctx, sp *packages.Package, rule string) {
	info := sp.TypesInfo
	n := 0
	for _, fd := range allFuncDecls(sp) {
		ord := 0
		ast.Inspect(fd.Body, func(x ast.Node) bool {
			is, ok := x.(*ast.IfStmt)
			if !ok {
				return true
			}
			var quotes []string
			ast.Inspect(is.Cond, func(y ast.Node) bool {
				if call, ok := y.(*ast.CallExpr); ok && len(call.Args) == 2 {
					if fn := calleeOf(info, call); fn != nil && fullName(fn) == "strings.HasPrefix" {
						if q, isC := constString(info, call.Args[1]); isC && (q == `"` || q == `'`) {
							quotes = append(quotes, q)
						}
					}
				}
				return true
			})
			if len(quotes) == 0 {
				return true
			}
			// the rejection inside the arm
			banned := ""
			found := false
			ast.Inspect(is.Body, func(y ast.Node) bool {
				if call, ok := y.(*ast.CallExpr); ok && len(call.Args) == 2 {
					if fn := calleeOf(info, call); fn != nil && fullName(fn) == "strings.ContainsAny" {
						if set, isC := constString(info, call.Args[1]); isC {
							banned += set
							found = true
						}
					}
				}
				return true
			})
			if !found {
				return true // not a pass-through arm with an interior test (other rules cover it)
			}
			ord++
			n++
			var missing []string
			for _, q := range append(quotes, `\`, "\n") {
				if !strings.Contains(banned, q) {
					missing = append(missing, fmt.Sprintf("%q", q))
				}
			}
			c.check(len(missing) == 0, rule, fmt.Sprintf("%s|quoted-arm#%d|interior-bans-its-delimiters", funcKey(sp, fd), ord), c.pos(is.Pos()),
				fmt.Sprintf("accepted opening quotes %q are all banned inside, with backslash and newline (banned set %q)", quotes, banned),
				fmt.Sprintf("%s passes a quoted value through as written when it starts with one of %q, but the interior test bans only %q — %s may occur inside: the value closes its own string early and the rest of it is read as CSS (`'a';}body{display:none;x:'b'` ends the declaration and the rule)", fd.Name.Name, quotes, banned, strings.Join(missing, ", ")))
			return true
		})
	}
	c.count("quoted_pass_through_arms", n)
	c.floor(rule, 1)
}
