package main

import (
	"fmt"
	"go/ast"
	"go/types"
	"sort"
	"strings"
)

// relOperandsResolvedAlike: a clause of C15.R11 — filepath.Rel compares its two paths as text. The base directory and
// the file name must therefore have been brought into the same form: if symbolic links are resolved
// (filepath.EvalSymlinks) on the way to ONE operand only, a root reached through a link no longer is a prefix of the
// file names below it, and the name compiled into the generated code becomes `../<link target>/…` — the same tree
// generates different files depending on how the root was reached.
func relOperandsResolvedAlike(c *Ctx, rule string) {
	p := c.pkg("cmd/templ/generatecmd")
	info := p.TypesInfo
	declOf := map[types.Object]*ast.FuncDecl{}
	for _, fd := range allFuncDecls(p) {
		declOf[info.Defs[fd.Name]] = fd
	}
	enclosing := func(n ast.Node) *ast.FuncDecl {
		for _, fd := range allFuncDecls(p) {
			if fd.Body != nil && fd.Pos() <= n.Pos() && n.End() <= fd.End() {
				return fd
			}
		}
		return nil
	}
	var prov func(e ast.Expr, in *ast.FuncDecl, depth int, seen map[types.Object]bool, out map[string]bool)
	prov = func(e ast.Expr, in *ast.FuncDecl, depth int, seen map[types.Object]bool, out map[string]bool) {
		if e == nil || depth > 5 {
			return
		}
		ast.Inspect(e, func(y ast.Node) bool {
			switch y := y.(type) {
			case *ast.CallExpr:
				cf := calleeOf(info, y)
				if cf == nil {
					return true
				}
				if cf.Pkg() != nil && cf.Pkg().Path() == "path/filepath" {
					out[cf.Name()] = true
				}
				if cfd := declOf[cf]; cfd != nil && cfd.Body != nil && !seen[cf] {
					seen[cf] = true
					ast.Inspect(cfd.Body, func(z ast.Node) bool {
						if _, isLit := z.(*ast.FuncLit); isLit {
							return false
						}
						if ret, ok := z.(*ast.ReturnStmt); ok && len(ret.Results) > 0 {
							if t := info.TypeOf(ret.Results[0]); t != nil && isStringType(t) {
								prov(ret.Results[0], cfd, depth+1, seen, out)
							}
						}
						return true
					})
				}
			case *ast.SelectorExpr:
				f, ok := info.Uses[y.Sel].(*types.Var)
				if !ok || !f.IsField() || seen[f] {
					return true
				}
				seen[f] = true
				for _, file := range p.Syntax {
					ast.Inspect(file, func(z ast.Node) bool {
						switch s := z.(type) {
						case *ast.KeyValueExpr:
							if k, ok := s.Key.(*ast.Ident); ok && info.Uses[k] == types.Object(f) {
								if efd := enclosing(s); efd != nil {
									prov(s.Value, efd, depth+1, seen, out)
								}
							}
						case *ast.AssignStmt:
							for i, l := range s.Lhs {
								if ls, ok := ast.Unparen(l).(*ast.SelectorExpr); ok && info.Uses[ls.Sel] == types.Object(f) && len(s.Rhs) == len(s.Lhs) {
									if efd := enclosing(s); efd != nil {
										prov(s.Rhs[i], efd, depth+1, seen, out)
									}
								}
							}
						}
						return true
					})
				}
				return false
			case *ast.Ident:
				ob := info.ObjectOf(y)
				v, ok := ob.(*types.Var)
				if !ok || v.IsField() || seen[ob] || in == nil || in.Body == nil {
					return true
				}
				seen[ob] = true
				ast.Inspect(in.Body, func(z ast.Node) bool {
					if as, ok := z.(*ast.AssignStmt); ok {
						for i, l := range as.Lhs {
							if lid, ok := l.(*ast.Ident); ok && info.ObjectOf(lid) == ob {
								if len(as.Rhs) == len(as.Lhs) {
									prov(as.Rhs[i], in, depth, seen, out)
								} else if len(as.Rhs) == 1 {
									prov(as.Rhs[0], in, depth, seen, out)
								}
							}
						}
					}
					return true
				})
			}
			return true
		})
	}
	n := 0
	for _, fd := range allFuncDecls(p) {
		if fd.Body == nil {
			continue
		}
		k := 0
		ast.Inspect(fd.Body, func(x ast.Node) bool {
			call, ok := x.(*ast.CallExpr)
			if !ok || len(call.Args) != 2 {
				return true
			}
			if fn := calleeOf(info, call); fn == nil || fullName(fn) != "path/filepath.Rel" {
				return true
			}
			n++
			k++
			base, target := map[string]bool{}, map[string]bool{}
			prov(call.Args[0], fd, 0, map[types.Object]bool{}, base)
			prov(call.Args[1], fd, 0, map[types.Object]bool{}, target)
			names := func(m map[string]bool) string {
				var l []string
				for s := range m {
					l = append(l, s)
				}
				sort.Strings(l)
				return strings.Join(l, ", ")
			}
			c.check(base["EvalSymlinks"] == target["EvalSymlinks"], rule, fmt.Sprintf("%s|Rel#%d|both-sides-resolved-alike", funcKey(p, fd), k), c.pos(call.Pos()),
				fmt.Sprintf("base through filepath.{%s}, target through filepath.{%s}: symbolic links are treated the same on both sides", names(base), names(target)),
				fmt.Sprintf("%s: filepath.Rel(%s, %s) compares a base that went through filepath.{%s} with a target that went through filepath.{%s} — symbolic links are resolved on one side only. With a root reached through a link the base is no longer a prefix of the file names, so the name compiled into the generated code becomes `../<target of the link>/…`: the same tree generates different files depending on how the root was reached", fd.Name.Name, types.ExprString(call.Args[0]), types.ExprString(call.Args[1]), names(base), names(target)))
			return true
		})
	}
	c.count("rel_calls", n)
}
