package main

import (
	"fmt"
	"go/ast"
	"go/types"
	"strings"
)

func partKey(p Part) string {
	var sb strings.Builder
	fmt.Fprintf(&sb, "%d:%s:%s:%s", p.Kind, p.Const, p.Fn, p.Src)
	for _, a := range p.Args {
		sb.WriteString("(")
		for _, q := range a {
			sb.WriteString(partKey(q))
			sb.WriteString(",")
		}
		sb.WriteString(")")
	}
	return sb.String()
}

func flattenEmitParts(path []Node) []Part {
	var out []Part
	for _, n := range path {
		switch n := n.(type) {
		case Emit:
			if !n.Lit {
				out = append(out, n.Parts...)
			}
		case Inline:
			out = append(out, flattenEmitParts(n.Body)...)
		}
	}
	return out
}

// scriptRegisteredUnderItsFunctionName: C12.R15 — the runtime keeps one definition per ComponentScript.Name in a
// context, and every call is written with the JavaScript name given to SafeScript / SafeScriptInline. The generator
// therefore emits ONE name into all of: the Name field, the `function <name>(` of the Function field, and both call
// fields — the name that carries the hash of the body. If Name is the bare script name, two script templates of the same
// name (in two packages, or two versions of one) share a registry entry: the second definition is never written although
// its calls are.
func scriptRegisteredUnderItsFunctionName(c *Ctx, rule string) {
	g := c.gem()
	n := 0
	for _, gf := range g.order {
		for pi, path := range g.Paths(gf) {
			parts := flattenEmitParts(path)
			isScript := false
			for _, p := range parts {
				if p.Kind == PConst && strings.Contains(p.Const, "templ.ComponentScript{") {
					isScript = true
				}
			}
			if !isScript {
				continue
			}
			after := func(suffix string) *Part {
				for i, p := range parts {
					if p.Kind == PConst && (strings.HasSuffix(p.Const, suffix) || strings.HasSuffix(p.Const, suffix+"`") || strings.HasSuffix(p.Const, suffix+"\"")) && i+1 < len(parts) {
						return &parts[i+1]
					}
				}
				return nil
			}
			name, call, inline, fn := after("Name: "), after("templ.SafeScript("), after("templ.SafeScriptInline("), after("Function: ")
			key := fmt.Sprintf("%s|path#%d|one-name-for-registry-definition-and-calls", gf.Key, pi)
			if name == nil || call == nil || inline == nil || fn == nil {
				if name != nil || fn != nil {
					c.undec(rule, key, c.pos(gf.Decl.Pos()), gf.Name+" emits a templ.ComponentScript literal, but its Name, Function, Call and CallInline fields could not all be found in the emitted text")
					n++
				}
				continue
			}
			n++
			bad := ""
			if partKey(*name) != partKey(*call) {
				bad = fmt.Sprintf("the Name field is emitted from %s, the name given to templ.SafeScript from %s", describePart(*name), describePart(*call))
			} else if partKey(*call) != partKey(*inline) {
				bad = fmt.Sprintf("templ.SafeScript is given %s, templ.SafeScriptInline %s", describePart(*call), describePart(*inline))
			} else {
				// the definition: `function ` followed by the same name text
				var nameInner []Part
				if len(name.Args) > 0 {
					nameInner = name.Args[0]
				}
				found := false
				var fparts []Part
				if len(fn.Args) > 0 {
					fparts = fn.Args[0]
				}
				for i, p := range fparts {
					if p.Kind == PConst && strings.HasSuffix(p.Const, "function ") && len(nameInner) > 0 && i+len(nameInner) < len(fparts)+0 {
						same := true
						for j, q := range nameInner {
							if partKey(fparts[i+1+j]) != partKey(q) {
								same = false
							}
						}
						if same {
							found = true
						}
					}
				}
				sawFunctionKeyword := false
				var scan func(ps []Part)
				scan = func(ps []Part) {
					for _, q := range ps {
						if q.Kind == PConst && strings.Contains(q.Const, "function ") {
							sawFunctionKeyword = true
						}
						for _, a := range q.Args {
							scan(a)
						}
					}
				}
				scan(fparts)
				if !found && sawFunctionKeyword {
					bad = fmt.Sprintf("the Function field does not define `function <name>(` with the name emitted into Name and the calls (%s)", describePart(*name))
				}
			}
			c.check(bad == "", rule, key, c.pos(gf.Decl.Pos()), "Name, the defined function and both calls carry the same emitted name ("+describePart(*name)+")",
				gf.Name+": "+bad+" — the runtime keeps one definition per Name in a context and writes calls under the JavaScript name: two script templates that share the bare name then share one registry entry, and the second one's function is never defined although its calls are written")
		}
	}
	c.count("script_literal_emissions", n)
	c.floor(rule, 1)
}

func describePart(p Part) string {
	if p.Src != "" {
		return "`" + p.Src + "`"
	}
	if p.Kind == PConst {
		return fmt.Sprintf("%q", p.Const)
	}
	s := p.Fn
	if i := strings.LastIndex(s, "."); i >= 0 {
		s = s[i+1:]
	}
	var args []string
	for _, a := range p.Args {
		var sb strings.Builder
		for _, q := range a {
			sb.WriteString(describePart(q))
		}
		args = append(args, sb.String())
	}
	return s + "(" + strings.Join(args, ", ") + ")"
}

// stylesheetServedFromLiveList: a clause of C12.R5. The middleware marks, per request, every class of the handler's
// class list as rendered (so it is never inlined); the stylesheet endpoint must therefore serve that same list as it is
// NOW. The list is an exported field. If the endpoint writes a copy of the CSS kept in another field (built by the
// constructor), a class added to the list afterwards is marked as served by the middleware but is missing from the
// stylesheet: it is emitted nowhere.
func stylesheetServedFromLiveList(c *Ctx, rule string, mw *ast.FuncDecl) {
	p := c.pkg(".")
	info := p.TypesInfo
	// the list the middleware ranges over when it records
	var listField *types.Var
	ast.Inspect(mw.Body, func(n ast.Node) bool {
		if rs, ok := n.(*ast.RangeStmt); ok {
			if se, ok := ast.Unparen(rs.X).(*ast.SelectorExpr); ok && se.Sel.Name == "Classes" {
				if f, ok := info.Uses[se.Sel].(*types.Var); ok && f.IsField() {
					listField = f
				}
			}
		}
		return true
	})
	if listField == nil {
		// (recorded through a helper: the field is found by name on the handler type)
		for _, fd := range allFuncDecls(p) {
			if fd.Body == nil {
				continue
			}
			ast.Inspect(fd.Body, func(n ast.Node) bool {
				if rs, ok := n.(*ast.RangeStmt); ok && listField == nil {
					if se, ok := ast.Unparen(rs.X).(*ast.SelectorExpr); ok && se.Sel.Name == "Classes" {
						if f, ok := info.Uses[se.Sel].(*types.Var); ok && f.IsField() {
							listField = f
						}
					}
				}
				return true
			})
		}
	}
	if listField == nil {
		return
	}
	// the endpoint: ServeHTTP of the struct type that has the field
	var endpoint *ast.FuncDecl
	for _, fd := range allFuncDecls(p) {
		if fd.Recv == nil || fd.Name.Name != "ServeHTTP" || fd.Body == nil || fd == mw {
			continue
		}
		rt := info.TypeOf(fd.Recv.List[0].Type)
		if pt, ok := rt.(*types.Pointer); ok {
			rt = pt.Elem()
		}
		if st, ok := rt.Underlying().(*types.Struct); ok {
			for i := 0; i < st.NumFields(); i++ {
				if st.Field(i) == listField {
					endpoint = fd
				}
			}
		}
	}
	if endpoint == nil {
		return
	}
	var recv types.Object
	if len(endpoint.Recv.List[0].Names) == 1 {
		recv = info.Defs[endpoint.Recv.List[0].Names[0]]
	}
	assigns := map[types.Object][]ast.Expr{}
	ast.Inspect(endpoint.Body, func(n ast.Node) bool {
		if as, ok := n.(*ast.AssignStmt); ok && len(as.Lhs) == len(as.Rhs) {
			for i, l := range as.Lhs {
				if id, ok := l.(*ast.Ident); ok && info.ObjectOf(id) != nil {
					assigns[info.ObjectOf(id)] = append(assigns[info.ObjectOf(id)], as.Rhs[i])
				}
			}
		}
		return true
	})
	var storedCopy func(e ast.Expr, depth int) string
	storedCopy = func(e ast.Expr, depth int) string {
		out := ""
		ast.Inspect(e, func(n ast.Node) bool {
			switch t := n.(type) {
			case *ast.SelectorExpr:
				if id, ok := ast.Unparen(t.X).(*ast.Ident); ok && recv != nil && info.ObjectOf(id) == recv {
					if f, ok := info.Uses[t.Sel].(*types.Var); ok && f.IsField() && f != listField {
						if _, isFn := f.Type().Underlying().(*types.Signature); !isFn {
							out = types.ExprString(t)
						}
					}
				}
			case *ast.Ident:
				if depth < 4 {
					for _, r := range assigns[info.ObjectOf(t)] {
						if s := storedCopy(r, depth+1); s != "" {
							out = s
						}
					}
				}
			}
			return true
		})
		return out
	}
	n := 0
	bad := ""
	ast.Inspect(endpoint.Body, func(x ast.Node) bool {
		call, ok := x.(*ast.CallExpr)
		if !ok {
			return true
		}
		_, what, isW := writerCall(info, call)
		if !isW {
			return true
		}
		n++
		for _, a := range call.Args {
			if s := storedCopy(a, 0); s != "" && bad == "" {
				bad = fmt.Sprintf("%s at %s writes %s", what, c.pos(call.Pos()), s)
			}
		}
		return true
	})
	key := funcKey(p, endpoint) + "|stylesheet-is-written-from-the-registered-list"
	if n == 0 {
		return
	}
	c.check(bad == "", rule, key, c.pos(endpoint.Pos()), fmt.Sprintf("the %d write(s) of the endpoint take their bytes from %s as it is at the request", n, listField.Name()),
		fmt.Sprintf("the stylesheet endpoint serves CSS kept in another field (%s) instead of the %s list the middleware records from at each request: a class added to the exported list after construction is marked as served — never inlined — and is missing from the stylesheet", bad, listField.Name()))
}

// scriptCallsWrittenAfterTheirDefinition: C12.R16 — the runtime writes a script's call (the Call / CallInline text of
// a ComponentScript) only in functions that have handed that script to RenderScriptItems first. Generated code gets its
// definitions from the hoisted RenderScriptItems call (R4, R10); any OTHER place of the runtime that puts a Call into
// the document — a spread-attribute case, a helper — writes a use whose definition was never emitted.
func scriptCallsWrittenAfterTheirDefinition(c *Ctx, rule string) {
	n := 0
	for _, rel := range []string{".", "runtime"} {
		p := c.pkg(rel)
		if p == nil {
			continue
		}
		info := p.TypesInfo
		for _, fd := range allFuncDecls(p) {
			if fd.Body == nil {
				continue
			}
			lhs := map[ast.Expr]bool{}
			ast.Inspect(fd.Body, func(x ast.Node) bool {
				if as, ok := x.(*ast.AssignStmt); ok {
					for _, l := range as.Lhs {
						lhs[ast.Unparen(l)] = true
					}
				}
				return true
			})
			var defs []*ast.CallExpr
			ast.Inspect(fd.Body, func(x ast.Node) bool {
				if call, ok := x.(*ast.CallExpr); ok {
					if fn := calleeOf(info, call); fn != nil && fn.Name() == "RenderScriptItems" {
						defs = append(defs, call)
					}
				}
				return true
			})
			k := 0
			ast.Inspect(fd.Body, func(x ast.Node) bool {
				se, ok := x.(*ast.SelectorExpr)
				if !ok || lhs[se] || (se.Sel.Name != "Call" && se.Sel.Name != "CallInline") {
					return true
				}
				f, ok := info.Uses[se.Sel].(*types.Var)
				if !ok || !f.IsField() {
					return true
				}
				if t := info.TypeOf(se.X); t == nil || !strings.HasSuffix(strings.TrimPrefix(t.String(), "*"), "templ.ComponentScript") {
					return true
				}
				k++
				n++
				before := false
				for _, d := range defs {
					if d.Pos() < se.Pos() {
						before = true
					}
				}
				// a helper that writes the call for a caller that has emitted the definition (Render: RenderScriptItems(…); c.writeCall(w))
				if !before {
					fobj := info.Defs[fd.Name]
					ncall, allBefore := 0, true
					for _, ofd := range allFuncDecls(p) {
						if ofd.Body == nil || ofd == fd {
							continue
						}
						var odefs []*ast.CallExpr
						ast.Inspect(ofd.Body, func(y ast.Node) bool {
							if c2, ok := y.(*ast.CallExpr); ok {
								if fn := calleeOf(info, c2); fn != nil && fn.Name() == "RenderScriptItems" {
									odefs = append(odefs, c2)
								}
							}
							return true
						})
						ast.Inspect(ofd.Body, func(y ast.Node) bool {
							c2, ok := y.(*ast.CallExpr)
							if !ok {
								return true
							}
							if fn := calleeOf(info, c2); fn == nil || types.Object(fn) != fobj {
								return true
							}
							ncall++
							ok2 := false
							for _, d := range odefs {
								if d.Pos() < c2.Pos() {
									ok2 = true
								}
							}
							if !ok2 {
								allBefore = false
							}
							return true
						})
					}
					if ncall > 0 && allBefore && !fd.Name.IsExported() {
						before = true
					}
				}
				key := fmt.Sprintf("%s|read:%s#%d|definition-emitted-first", funcKey(p, fd), se.Sel.Name, k)
				c.check(before, rule, key, c.pos(se.Pos()), "the function has handed the script to RenderScriptItems before it uses its "+se.Sel.Name,
					fmt.Sprintf("%s uses %s — the text of a call of a script template's function — without having handed the script to RenderScriptItems: the call is written into the document while the function's definition is emitted nowhere (the use does not get its definition at or before it)", fd.Name.Name, types.ExprString(se)))
				return true
			})
		}
	}
	c.count("script_call_reads", n)
	c.floor(rule, 1)
}
