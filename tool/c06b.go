package main

import (
	"fmt"
	"go/ast"
	"go/token"
	"go/types"
	"strings"
)

// lookAheadIndexGuarded: C06.R11 — the parser reads arbitrary input; an index one or more places AHEAD of a position,
// X[i+k] with a constant k ≥ 1, is evaluated only where a test that mentions len(X) has been passed: an earlier
// operand of the same && chain (`i+1 < len(s) && s[i+1] == …`), the condition of an enclosing if, or an earlier
// `if … len(X) … { return/continue/break }` of the same block. A loop's own `i < len(X)` bounds X[i], not X[i+1].
// Without it the parser panics with an index out of range on input that ends at that place (a file cut after a
// carriage return) instead of returning a tree or an error.
func lookAheadIndexGuarded(c *Ctx, rule string, rels ...string) {
	n := 0
	for _, rel := range rels {
		p := c.pkg(rel)
		if p == nil {
			continue
		}
		info := p.TypesInfo
		for _, fd := range allFuncDecls(p) {
			k := 0
			var conds []ast.Expr // conditions known to hold (or earlier && operands) at the node being visited
			mentionsLen := func(e ast.Expr, x string) bool {
				found := false
				ast.Inspect(e, func(y ast.Node) bool {
					if call, ok := y.(*ast.CallExpr); ok && len(call.Args) == 1 && types.ExprString(call.Fun) == "len" && types.ExprString(call.Args[0]) == x {
						found = true
					}
					return true
				})
				return found
			}
			var visitExpr func(e ast.Expr)
			var visitStmt func(s ast.Stmt)
			checkIndex := func(ix *ast.IndexExpr) {
				t := info.TypeOf(ix.X)
				if t == nil {
					return
				}
				switch t.Underlying().(type) {
				case *types.Slice, *types.Basic:
				default:
					return
				}
				be, ok := ast.Unparen(ix.Index).(*ast.BinaryExpr)
				if !ok || be.Op != token.ADD {
					return
				}
				kk, isC := constInt(info, be.Y)
				if !isC {
					kk, isC = constInt(info, be.X)
				}
				if !isC || kk < 1 {
					return
				}
				if tv, ok := info.Types[ix.Index]; ok && tv.Value != nil {
					return
				}
				x := types.ExprString(ix.X)
				k++
				n++
				guarded := false
				for _, cd := range conds {
					if mentionsLen(cd, x) {
						guarded = true
					}
				}
				// a slice of known length: x := y[a:a+3] — not followed; a range over X gives i < len(X) only
				c.check(guarded, rule, fmt.Sprintf("%s|look-ahead#%d:%s", funcKey(p, fd), k, types.ExprString(ix)), c.pos(ix.Pos()), "a test that mentions len("+x+") has been passed where the index is evaluated",
					fmt.Sprintf("%s reads %s, %d place(s) ahead of a position in input it does not control, and no test of len(%s) has been passed at that point (a loop's `i < len(…)` bounds the position itself, not the place after it): on input that ends right there — a file cut after a carriage return — the parser panics with an index out of range instead of returning a tree or a positioned error", fd.Name.Name, types.ExprString(ix), kk, x))
			}
			visitExpr = func(e ast.Expr) {
				if e == nil {
					return
				}
				switch t := e.(type) {
				case *ast.BinaryExpr:
					if t.Op == token.LAND {
						visitExpr(t.X)
						conds = append(conds, t.X)
						visitExpr(t.Y)
						conds = conds[:len(conds)-1]
						return
					}
					if t.Op == token.LOR {
						// the right side runs when the left is false: `i+1 >= len(s) || s[i+1] …`
						visitExpr(t.X)
						conds = append(conds, t.X)
						visitExpr(t.Y)
						conds = conds[:len(conds)-1]
						return
					}
				case *ast.FuncLit:
					saved := conds
					conds = nil
					visitStmt(t.Body)
					conds = saved
					return
				case *ast.IndexExpr:
					checkIndex(t)
				}
				ast.Inspect(e, func(y ast.Node) bool {
					if y == ast.Node(e) {
						return true
					}
					if sub, ok := y.(ast.Expr); ok {
						visitExpr(sub)
						return false
					}
					return true
				})
			}
			var visitBlock func(list []ast.Stmt)
			visitBlock = func(list []ast.Stmt) {
				added := 0
				for _, s := range list {
					visitStmt(s)
					// an earlier guard that leaves: what follows runs only when it did not fire
					if is, ok := s.(*ast.IfStmt); ok && is.Else == nil && blockLeaves(is.Body) {
						conds = append(conds, is.Cond)
						added++
					}
				}
				conds = conds[:len(conds)-added]
			}
			visitStmt = func(s ast.Stmt) {
				switch t := s.(type) {
				case nil:
				case *ast.BlockStmt:
					visitBlock(t.List)
				case *ast.IfStmt:
					visitStmt(t.Init)
					visitExpr(t.Cond)
					conds = append(conds, t.Cond)
					visitStmt(t.Body)
					visitStmt(t.Else)
					conds = conds[:len(conds)-1]
				case *ast.ForStmt:
					visitStmt(t.Init)
					visitExpr(t.Cond)
					visitStmt(t.Post)
					// (the loop's condition holds where the body starts: `for i := 0; i+1 < len(s); i++` bounds s[i+1];
					// a plain `i < len(s)` mentions len(s) too — it is the look-ahead distance that decides, so only a
					// condition that itself has an addition or subtraction next to the bound counts)
					pushed := false
					if t.Cond != nil && strings.ContainsAny(types.ExprString(t.Cond), "+-") {
						conds = append(conds, t.Cond)
						pushed = true
					}
					visitStmt(t.Body)
					if pushed {
						conds = conds[:len(conds)-1]
					}
				case *ast.RangeStmt:
					visitExpr(t.X)
					visitStmt(t.Body)
				case *ast.SwitchStmt:
					visitStmt(t.Init)
					visitExpr(t.Tag)
					for _, cc := range t.Body.List {
						cl := cc.(*ast.CaseClause)
						for _, e := range cl.List {
							visitExpr(e)
						}
						if t.Tag == nil {
							conds = append(conds, cl.List...)
						}
						visitBlock(cl.Body)
						// (a later clause is evaluated only where the earlier ones did not hold: their tests stay known)
					}
					if t.Tag == nil {
						for _, cc := range t.Body.List {
							conds = conds[:len(conds)-len(cc.(*ast.CaseClause).List)]
						}
					}
				case *ast.TypeSwitchStmt:
					for _, cc := range t.Body.List {
						visitBlock(cc.(*ast.CaseClause).Body)
					}
				case *ast.SelectStmt:
					for _, cc := range t.Body.List {
						visitBlock(cc.(*ast.CommClause).Body)
					}
				case *ast.LabeledStmt:
					visitStmt(t.Stmt)
				default:
					ast.Inspect(s, func(y ast.Node) bool {
						if y == ast.Node(s) {
							return true
						}
						if e, ok := y.(ast.Expr); ok {
							visitExpr(e)
							return false
						}
						if st, ok := y.(ast.Stmt); ok {
							visitStmt(st)
							return false
						}
						return true
					})
				}
			}
			visitStmt(fd.Body)
		}
	}
	c.count("look_ahead_indexes", n)
	if n == 0 {
		c.ok(rule, "no-look-ahead-index", "", "no index of the form X[i+k] in the scanned packages")
	}
	_ = strings.TrimSpace
}
