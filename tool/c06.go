package main

import (
	"fmt"
	"go/ast"
	"go/token"
	"go/types"
	"regexp"
	"regexp/syntax"
	"sort"
	"strings"

	"golang.org/x/tools/go/packages"
)

func init() {
	register(&propDef{
		ID:          "C06",
		Explanation: "Totality and promptness of the parser over all byte strings are runtime facts and are R4 (termination of the top-level loop) every parser that has read one of the template keywords (templ / css / script) turns each later failed sub-parse into an error — it never declines with ok=false and a nil error, because the Go-code reader un-reads keyword lines containing an opening parenthesis and asks these parsers again; R5 every write into a strings.Builder whose String() becomes an Expression's text is text consumed from the input (result of Parse/Take), never a constant. R6 every `until` lookahead handed to the node-list parser (which rewinds after a match) is flat: it does not reach the node-list parser again, so no branch is parsed twice per nesting level. R7 the text handed to the whole-file entry points (ParseString, parse.NewInput) in parser/v2, the LSP proxy and generatecmd is the text that was read: no strings/bytes/regexp/unicode call that produces text lies on its way (a stripped BOM or converted line ending shifts every recorded position against the file); the un-read test of R4 may be a regular expression, whose required prefixes are then enumerated from the pattern. Decides the position-provenance clauses of the property, for all sites of package parser/v2 and goexpression: R1 every Expression/Range built by the parser goes through NewExpression/NewRange with positions that are parse.Position values obtained from the input being parsed (Position()/PositionAt(), or locals/parameters of that type); no Position, Range or Expression composite literal with position fields exists outside the three constructors, and the constructors copy index, line and column field by field; direct writes to Index/Line/Col exist only as a paired adjustment of Index and Col of the same position by the same constant; R2 every NameRange is NewRange(PositionAt(Index() − len(X.Name)), Position()) where X.Name is the field assigned by the name parser in the statement just before, for the same X; R3 (clamps) the bounds that come from go/parser positions are clamped before they are used to slice the source: in the extractor wrapper `end > len(content) → end = len(content)` and `start > end → start = end` follow the prefix subtraction and precede the return, and every slice bound taken from a go/ast End() position is tested (rejected or clamped) before the slice; parseGo slices and advances with the extractor's own start/end and converts them with PositionAt(from+start / from+end). NOT decided: absence of panics and hangs on arbitrary input, that the recorded text equals the source at the recorded range for every construct (value-level), error positions. R5 also: the text handed to NewExpression is the consumed input, untransformed (no trimming / case folding of a slice of the input); R8 a look-ahead that un-reads a line and hands over to other parsers tests the line as it was read. R9 where an expression's text is made of parser results, its range brackets them: the end is read after the last contributing parser ran, the start before the first one of the same loop round (never between them, never only before the loop); R10 in the Go-fragment scanner the last element of a stack is accessed only where the stack is known to be non-empty (in the method, or at every one of its call sites). R3 also: a caller that hands the extraction wrapper a text with a second synthetic prefix subtracts that prefix from the wrapper's results, after the wrapper's clamp (never inside the extractor closure). R11 an index one or more places ahead of a position, X[i+k] with constant k ≥ 1, is evaluated only where a test that mentions len(X) has been passed (an earlier operand of the same && chain, an enclosing condition, an earlier guard that leaves): a loop's own i < len(X) bounds X[i], not X[i+1].",
		Assumptions: []string{"github.com/a-h/parse Input.Position/PositionAt derive line and column from the byte index through its newline table"},
		Trusted:     []string{"go/types", "x/tools go/packages, go/cfg"},
		Run:         runC06,
	})
}

func runC06(c *Ctx) {
	c.load("./parser/v2", "./parser/v2/goexpression", "./cmd/templ/lspcmd/proxy", "./cmd/templ/generatecmd")
	parseInputIsTheFileText(c, "C06.R7", "parser/v2", "cmd/templ/lspcmd/proxy", "cmd/templ/generatecmd")
	c.floor("C06.R7", 3)
	committedPrefixParsers(c, "C06.R4")
	parsedTextRange(c, "C06.R9")
	lastElementGuarded(c, "C06.R10")
	lookAheadIndexGuarded(c, "C06.R11", "parser/v2", "parser/v2/goexpression")
	expressionTextFromInput(c, "C06.R5")
	lookAheadTestsTheLineAsRead(c, "C06.R8")
	lookaheadParsersFlat(c, "C06.R6")
	p := c.pkg("parser/v2")
	info := p.TypesInfo
	isParsePos := func(t types.Type) bool { return t != nil && t.String() == "github.com/a-h/parse.Position" }

	// R1 ------------------------------------------------------------
	ctors := map[string]bool{"NewExpression": true, "NewRange": true, "NewPosition": true}
	// (a) constructor bodies copy field by field
	for _, name := range []string{"NewExpression", "NewRange"} {
		fd := findFunc(p, "", name)
		if fd == nil {
			c.viol("C06.R1", "anchor-lost:"+name, "", "parser."+name+" (exported) not found")
			continue
		}
		good := true
		why := ""
		n := 0
		ast.Inspect(fd.Body, func(x ast.Node) bool {
			kv, ok := x.(*ast.KeyValueExpr)
			if !ok {
				return true
			}
			k := types.ExprString(kv.Key)
			if k != "Index" && k != "Line" && k != "Col" {
				return true
			}
			n++
			// value: conv(<param>.<same field>) ; and the param matches the enclosing From/To
			v := types.ExprString(kv.Value)
			if !strings.HasSuffix(v, "."+k+")") {
				good, why = false, k+": "+v
			}
			return true
		})
		// From uses `from`, To uses `to`
		ast.Inspect(fd.Body, func(x ast.Node) bool {
			kv, ok := x.(*ast.KeyValueExpr)
			if !ok {
				return true
			}
			k := types.ExprString(kv.Key)
			if k != "From" && k != "To" {
				return true
			}
			want := strings.ToLower(k)
			ast.Inspect(kv.Value, func(y ast.Node) bool {
				if se, ok := y.(*ast.SelectorExpr); ok {
					if id, ok := se.X.(*ast.Ident); ok {
						if _, isParam := info.ObjectOf(id).(*types.Var); isParam && isParsePos(info.TypeOf(id)) && id.Name != want {
							good, why = false, k+" is built from "+id.Name
						}
					}
				}
				return true
			})
			return true
		})
		// a constructor may build its range with another of the constructors, given its own from/to in that order
		if n == 0 && good {
			delegated := false
			ast.Inspect(fd.Body, func(x ast.Node) bool {
				call, ok := x.(*ast.CallExpr)
				if !ok || len(call.Args) != 2 {
					return true
				}
				fn := calleeOf(info, call)
				if fn == nil || fn.Pkg() != p.Types || !ctors[fn.Name()] || fn.Name() == name {
					return true
				}
				a0, ok0 := ast.Unparen(call.Args[0]).(*ast.Ident)
				a1, ok1 := ast.Unparen(call.Args[1]).(*ast.Ident)
				if ok0 && ok1 && a0.Name == "from" && a1.Name == "to" && isParsePos(info.TypeOf(a0)) && isParsePos(info.TypeOf(a1)) {
					delegated = true
				}
				return true
			})
			if delegated {
				n = 6
			}
		}
		c.check(good && n == 6, "C06.R1", funcKey(p, fd)+"|copies-fields", c.pos(fd.Pos()), "From/To copy index, line and column of the matching argument",
			name+" no longer copies Index/Line/Col of its from/to arguments field by field ("+why+")")
	}
	// (b) literals with position fields outside the constructors
	nlit := 0
	for _, fd := range fileScopes(p) {
		if ctors[fd.Name.Name] && fd.Recv == nil {
			continue
		}
		ast.Inspect(fd.Body, func(x ast.Node) bool {
			cl, ok := x.(*ast.CompositeLit)
			if !ok {
				return true
			}
			t := info.TypeOf(cl)
			if t == nil {
				return true
			}
			ts := t.String()
			if ts != pkgParser+".Position" && ts != pkgParser+".Range" && ts != "github.com/a-h/parse.Position" {
				if ts != pkgParser+".Expression" {
					return true
				}
			}
			// only literals that set position fields
			sets := false
			for _, el := range cl.Elts {
				if kv, ok := el.(*ast.KeyValueExpr); ok {
					switch types.ExprString(kv.Key) {
					case "Index", "Line", "Col", "From", "To", "Range":
						sets = true
					}
				} else {
					sets = true
				}
			}
			if sets {
				nlit++
				c.viol("C06.R1", fmt.Sprintf("%s|position-literal#%d", funcKey(p, fd), nlit), c.pos(cl.Pos()), fd.Name.Name+" builds a "+ts+" literal with hand-written position fields instead of taking them from the input's position table")
			}
			return true
		})
	}
	c.ok("C06.R1", p.PkgPath+"|no-position-literals", "", fmt.Sprintf("%d position literals outside the constructors", nlit))
	// (c) constructor calls: position arguments come from the input
	ncall := 0
	for _, f := range p.Syntax {
		if isGeneratedFile(f) {
			continue
		}
		var encl *ast.FuncDecl
		ast.Inspect(f, func(x ast.Node) bool {
			if fd, ok := x.(*ast.FuncDecl); ok {
				encl = fd
			}
			call, ok := x.(*ast.CallExpr)
			if !ok {
				return true
			}
			fn := calleeOf(info, call)
			if fn == nil || fn.Pkg() != p.Types || (fn.Name() != "NewExpression" && fn.Name() != "NewRange") {
				return true
			}
			ncall++
			where := "package level"
			if encl != nil {
				where = funcKey(p, encl)
			}
			for i, a := range call.Args {
				if !isParsePos(info.TypeOf(a)) {
					continue
				}
				key := fmt.Sprintf("%s|%s#%d|arg%d", where, fn.Name(), ncall, i)
				ok, how := posProvenance(info, a)
				c.check(ok, "C06.R1", key, c.pos(a.Pos()), how,
					"the position "+types.ExprString(a)+" given to "+fn.Name()+" does not come from the input's Position()/PositionAt(): "+how)
			}
			return true
		})
	}
	c.count("constructor_call_sites", ncall)
	positionFieldWrites(c, "C06.R1", "")
	c.floor("C06.R1", 20)

	// R2 ------------------------------------------------------------
	nnr := 0
	for _, fd := range allFuncDecls(p) {
		checkNameRanges(c, p.TypesInfo, fd.Body, funcKey(p, fd), &nnr)
	}
	// parsers defined as package-level function literals
	for _, f := range p.Syntax {
		for _, d := range f.Decls {
			gd, ok := d.(*ast.GenDecl)
			if !ok || gd.Tok != token.VAR {
				continue
			}
			for _, sp := range gd.Specs {
				vs := sp.(*ast.ValueSpec)
				for i, v := range vs.Values {
					ast.Inspect(v, func(x ast.Node) bool {
						if fl, ok := x.(*ast.FuncLit); ok && i < len(vs.Names) {
							checkNameRanges(c, p.TypesInfo, fl.Body, p.PkgPath+"."+vs.Names[i].Name, &nnr)
							return false
						}
						return true
					})
				}
			}
		}
	}
	c.count("name_range_sites", nnr)
	c.floor("C06.R2", 5)

	// R3 ------------------------------------------------------------
	gp := c.pkg("parser/v2/goexpression")
	ginfo := gp.TypesInfo
	// the extractor wrapper: the function that subtracts len(prefix) from named results start and end
	var wrap *ast.FuncDecl
	for _, fd := range allFuncDecls(gp) {
		subs := 0
		for _, st := range fd.Body.List {
			if as, ok := st.(*ast.AssignStmt); ok && as.Tok == token.SUB_ASSIGN && strings.HasPrefix(types.ExprString(as.Rhs[0]), "len(") {
				subs++
			}
		}
		// (the clamping may be a step of its own that is handed the content and the two positions)
		hasContent := false
		for _, prm := range paramObjs(ginfo, fd) {
			if prm != nil && isStringType(prm.Type()) {
				hasContent = true
			}
		}
		if subs == 2 && hasContent {
			wrap = fd
		}
	}
	if wrap == nil {
		c.viol("C06.R3", "anchor-lost:extract-wrapper", "", "the go/parser extraction wrapper (prefix subtraction of start and end) was not found")
	} else {
		key := funcKey(gp, wrap)
		var content types.Object
		for _, prm := range paramObjs(ginfo, wrap) {
			if prm != nil && isStringType(prm.Type()) && content == nil {
				content = prm
			}
		}
		lastSub := token.NoPos
		for _, st := range wrap.Body.List {
			if as, ok := st.(*ast.AssignStmt); ok && as.Tok == token.SUB_ASSIGN {
				lastSub = as.End()
			}
		}
		clampEnd, clampStart := false, false
		for _, st := range wrap.Body.List {
			is, ok := st.(*ast.IfStmt)
			if !ok || is.Pos() < lastSub || len(is.Body.List) != 1 {
				continue
			}
			be, ok := is.Cond.(*ast.BinaryExpr)
			as, ok2 := is.Body.List[0].(*ast.AssignStmt)
			if !ok || !ok2 || be.Op != token.GTR {
				continue
			}
			x, y := types.ExprString(be.X), types.ExprString(be.Y)
			l, r := types.ExprString(as.Lhs[0]), types.ExprString(as.Rhs[0])
			if content != nil && y == "len("+content.Name()+")" && l == x && r == y {
				clampEnd = true
			}
			if l == x && r == y && !strings.HasPrefix(y, "len(") && clampEnd {
				clampStart = true
			}
		}
		// the same clamps written with the min builtin: end = min(end, len(content)); start = min(start, end)
		for _, st := range wrap.Body.List {
			as, ok := st.(*ast.AssignStmt)
			if !ok || as.Pos() < lastSub || as.Tok != token.ASSIGN || len(as.Lhs) != 1 || len(as.Rhs) != 1 {
				continue
			}
			call, ok := as.Rhs[0].(*ast.CallExpr)
			if !ok || len(call.Args) != 2 {
				continue
			}
			if id, ok := call.Fun.(*ast.Ident); !ok || id.Name != "min" {
				continue
			}
			l := types.ExprString(as.Lhs[0])
			a, b := types.ExprString(call.Args[0]), types.ExprString(call.Args[1])
			other := ""
			switch {
			case a == l:
				other = b
			case b == l:
				other = a
			default:
				continue
			}
			if content != nil && other == "len("+content.Name()+")" {
				clampEnd = true
			}
			if !strings.HasPrefix(other, "len(") && clampEnd {
				clampStart = true
			}
		}
		_, lastIsRet := wrap.Body.List[len(wrap.Body.List)-1].(*ast.ReturnStmt)
		c.check(clampEnd && lastIsRet, "C06.R3", key+"|end-clamped-to-content", c.pos(wrap.Pos()), "end is clamped to len(content) after the prefix subtraction",
			"the extraction wrapper no longer clamps `end` to len(content) after subtracting the synthetic prefix: go/parser positions past the input (error recovery) would slice out of range")
		c.check(clampStart, "C06.R3", key+"|start-clamped-to-end", c.pos(wrap.Pos()), "start is clamped to end",
			"the extraction wrapper no longer clamps `start` to `end`: src[start:end] panics when go/parser reports an end before the start")
	}
	// callers that hand the wrapper MORE than their own content (a second synthetic prefix, `"switch {\n" + content`):
	// the wrapper clamps against the text it is given, so such a caller removes its prefix's length from the wrapper's
	// RESULTS — after the clamp. Removing it inside the extractor closure (before the clamp) leaves `end` bounded by the
	// wrapped text, up to len(prefix) past the caller's content: src[:end] panics on input that stops mid-clause.
	if wrap != nil {
		nwrapped := 0
		for _, fd := range allFuncDecls(gp) {
			if fd == wrap || fd.Body == nil {
				continue
			}
			var ownContent types.Object
			for _, prm := range paramObjs(ginfo, fd) {
				if prm != nil && isStringType(prm.Type()) && ownContent == nil {
					ownContent = prm
				}
			}
			ast.Inspect(fd.Body, func(x ast.Node) bool {
				call, ok := x.(*ast.CallExpr)
				if !ok || types.Object(calleeOf(ginfo, call)) != ginfo.Defs[wrap.Name] || len(call.Args) == 0 {
					return true
				}
				arg := unfoldLocals(gp, fd, call.Args[0])
				if id, ok := ast.Unparen(arg).(*ast.Ident); ok && ginfo.ObjectOf(id) == ownContent {
					return true // the caller's content as it is
				}
				be, ok := ast.Unparen(arg).(*ast.BinaryExpr)
				if !ok || be.Op != token.ADD {
					return true
				}
				nwrapped++
				// the statement the call sits in, at the top level of the caller
				after := 0
				var callStmt ast.Stmt
				for _, st := range fd.Body.List {
					if st.Pos() <= call.Pos() && call.End() <= st.End() {
						callStmt = st
						continue
					}
					if callStmt != nil {
						if as, ok := st.(*ast.AssignStmt); ok && as.Tok == token.SUB_ASSIGN && len(as.Rhs) == 1 {
							after++
						}
						if as, ok := st.(*ast.AssignStmt); ok && as.Tok == token.ASSIGN && len(as.Rhs) == 1 && len(as.Lhs) == 1 {
							if sub, ok := ast.Unparen(as.Rhs[0]).(*ast.BinaryExpr); ok && sub.Op == token.SUB && types.ExprString(sub.X) == types.ExprString(as.Lhs[0]) {
								after++
							}
						}
					}
				}
				_, direct := callStmt.(*ast.ReturnStmt)
				c.check(after >= 2 && !direct, "C06.R3", funcKey(gp, fd)+"|own-prefix-removed-after-the-clamp", c.pos(call.Pos()), "the caller's own prefix is subtracted from the wrapper's results (after the wrapper clamped them)",
					fmt.Sprintf("%s hands %s a text with a second synthetic prefix but does not subtract that prefix's length from the returned start and end: the wrapper's clamp bounds `end` by the wrapped text, so it can lie up to len(prefix) past the real content — the parser then slices beyond its input (panic) on a clause that is cut off", fd.Name.Name, wrap.Name.Name))
				return true
			})
		}
		c.count("extract_callers_with_own_prefix", nwrapped)
	}
	// function-declaration extractor: guard before slicing
	for _, fd := range allFuncDecls(gp) {
		ast.Inspect(fd.Body, func(x ast.Node) bool {
			sl, ok := x.(*ast.SliceExpr)
			if !ok || sl.High == nil {
				return true
			}
			// only slices whose high bound derives from a go/ast End() position in the same function literal
			hi, ok := sl.High.(*ast.Ident)
			if !ok {
				return true
			}
			hob := ginfo.ObjectOf(hi)
			fromAST, clamped := false, false
			var guard *ast.IfStmt
			ast.Inspect(fd.Body, func(y ast.Node) bool {
				switch y := y.(type) {
				case *ast.AssignStmt:
					for i, l := range y.Lhs {
						if id, ok := l.(*ast.Ident); ok && ginfo.ObjectOf(id) == hob && i < len(y.Rhs) && strings.Contains(types.ExprString(y.Rhs[i]), ".End()") {
							fromAST = true
						}
						// the clamp written with the builtin: to = min(to, limit)
						if id, ok := l.(*ast.Ident); ok && ginfo.ObjectOf(id) == hob && len(y.Lhs) == len(y.Rhs) && y.End() < sl.Pos() {
							if call, ok := ast.Unparen(y.Rhs[i]).(*ast.CallExpr); ok && len(call.Args) >= 2 {
								if fid, ok := call.Fun.(*ast.Ident); ok && fid.Name == "min" {
									if _, isBuiltin := ginfo.Uses[fid].(*types.Builtin); isBuiltin {
										for _, a := range call.Args {
											if aid, ok := ast.Unparen(a).(*ast.Ident); ok && ginfo.ObjectOf(aid) == hob {
												clamped = true
											}
										}
									}
								}
							}
						}
					}
				case *ast.IfStmt:
					// a bound test: the condition mentions the bound, and the body leaves or re-assigns (clamps) the bound
					if exprMentions(y.Cond, hi.Name) && y.End() < sl.Pos() && (containsReturn(y.Body) || assignsTo(ginfo, y.Body, hob)) {
						guard = y
					}
				}
				return true
			})
			if !fromAST {
				return true
			}
			c.check(guard != nil || clamped, "C06.R3", funcKey(gp, fd)+"|slice-bound-guarded:"+hi.Name, c.pos(sl.Pos()), "the bound taken from a go/ast End() is tested (rejected or clamped) before slicing",
				fd.Name.Name+" slices the source at a go/ast End() position without a preceding bound test that rejects or clamps it")
			return true
		})
	}
	// the generic Go-expression parser: the function that calls an extractor-typed parameter — text, advance and range
	// must all use the extractor's own (start, end), relative to the index taken before
	for _, fd := range allFuncDecls(p) {
		var exCall *ast.CallExpr
		ast.Inspect(fd.Body, func(x ast.Node) bool {
			if call, ok := x.(*ast.CallExpr); ok {
				if id, ok := call.Fun.(*ast.Ident); ok {
					if v, ok := info.ObjectOf(id).(*types.Var); ok {
						if sig, ok := v.Type().Underlying().(*types.Signature); ok && sig.Results().Len() == 3 && sig.Params().Len() == 1 {
							exCall = call
						}
					}
				}
			}
			return true
		})
		if exCall == nil {
			continue
		}
		var startOb, endOb, fromOb types.Object
		ast.Inspect(fd.Body, func(x ast.Node) bool {
			if as, ok := x.(*ast.AssignStmt); ok && len(as.Rhs) == 1 {
				if as.Rhs[0] == ast.Expr(exCall) && len(as.Lhs) == 3 {
					if a, ok := as.Lhs[0].(*ast.Ident); ok {
						startOb = info.ObjectOf(a)
					}
					if b, ok := as.Lhs[1].(*ast.Ident); ok {
						endOb = info.ObjectOf(b)
					}
				}
				if call, ok := as.Rhs[0].(*ast.CallExpr); ok && strings.HasSuffix(types.ExprString(call.Fun), ".Index") && len(as.Lhs) == 1 && as.Pos() < exCall.Pos() {
					if f, ok := as.Lhs[0].(*ast.Ident); ok {
						fromOb = info.ObjectOf(f)
					}
				}
			}
			return true
		})
		isOb := func(e ast.Expr, ob types.Object) bool {
			id, ok := ast.Unparen(e).(*ast.Ident)
			return ok && ob != nil && info.ObjectOf(id) == ob
		}
		isSum := func(e ast.Expr, a, b types.Object) bool {
			be, ok := ast.Unparen(e).(*ast.BinaryExpr)
			return ok && be.Op == token.ADD && ((isOb(be.X, a) && isOb(be.Y, b)) || (isOb(be.X, b) && isOb(be.Y, a)))
		}
		sliceOK, takeOK, posOK := false, false, false
		ast.Inspect(fd.Body, func(x ast.Node) bool {
			switch y := x.(type) {
			case *ast.SliceExpr:
				if isOb(y.Low, startOb) && isOb(y.High, endOb) && len(exCall.Args) == 1 && types.ExprString(y.X) == types.ExprString(exCall.Args[0]) {
					sliceOK = true
				}
			case *ast.CallExpr:
				if strings.HasSuffix(types.ExprString(y.Fun), ".Take") && len(y.Args) == 1 && isOb(y.Args[0], endOb) {
					takeOK = true
				}
				if fn := calleeOf(info, y); fn != nil && fn.Name() == "NewExpression" && len(y.Args) == 3 {
					a1, ok1 := y.Args[1].(*ast.CallExpr)
					a2, ok2 := y.Args[2].(*ast.CallExpr)
					if ok1 && ok2 && len(a1.Args) == 1 && len(a2.Args) == 1 && strings.HasSuffix(types.ExprString(a1.Fun), ".PositionAt") && strings.HasSuffix(types.ExprString(a2.Fun), ".PositionAt") {
						posOK = isSum(a1.Args[0], fromOb, startOb) && isSum(a2.Args[0], fromOb, endOb)
					}
				}
			}
			return true
		})
		c.check(sliceOK && takeOK && posOK, "C06.R3", funcKey(p, fd)+"|consistent-start-end", c.pos(fd.Pos()), "text = src[start:end], advance = end, range = PositionAt(index+start) … PositionAt(index+end)",
			fmt.Sprintf("%s: the expression text, the amount of input consumed and the recorded range no longer all use the extractor's (start, end) relative to the index taken before the call (slice %v, advance %v, positions %v): text and range of the expression drift apart", fd.Name.Name, sliceOK, takeOK, posOK))
	}
	c.floor("C06.R3", 3)
}

// posProvenance: the expression is X.Position(), X.PositionAt(…), or an identifier of type parse.Position.
func posProvenance(info *types.Info, e ast.Expr) (bool, string) {
	e = ast.Unparen(e)
	switch x := e.(type) {
	case *ast.CallExpr:
		if fn := calleeOf(info, x); fn != nil {
			switch fullName(fn) {
			case "github.com/a-h/parse.(Input).Position", "github.com/a-h/parse.(Input).PositionAt":
				return true, types.ExprString(e)
			}
		}
		return false, "result of " + types.ExprString(x.Fun)
	case *ast.Ident:
		if v, ok := info.ObjectOf(x).(*types.Var); ok {
			return true, "variable " + x.Name + " of type " + v.Type().String() + " (only the input's position table produces values of this type: literals are excluded by the no-literal rule)"
		}
	case *ast.SelectorExpr:
		return true, "field " + types.ExprString(x)
	}
	return false, "unrecognised expression"
}

// checkNameRanges finds `X.NameRange = NewRange(PositionAt(Index()-len(X.Name)), Position())` sites.
func checkNameRanges(c *Ctx, info *types.Info, body *ast.BlockStmt, where string, n *int) {
	var lists [][]ast.Stmt
	ast.Inspect(body, func(x ast.Node) bool {
		switch b := x.(type) {
		case *ast.BlockStmt:
			lists = append(lists, b.List)
		case *ast.CaseClause:
			lists = append(lists, b.Body)
		}
		return true
	})
	for _, list := range lists {
		for i, st := range list {
			as, ok := st.(*ast.AssignStmt)
			if ok && len(as.Lhs) == len(as.Rhs) && len(as.Lhs) > 1 {
				// x.Name, x.NameRange = pair.Text, pair.Range
				for li, l := range as.Lhs {
					if lse, isSel := l.(*ast.SelectorExpr); isSel && lse.Sel.Name == "NameRange" {
						if rse, isSel := ast.Unparen(as.Rhs[li]).(*ast.SelectorExpr); isSel && rse.Sel.Name == "Range" {
							if _, isLocal := ast.Unparen(rse.X).(*ast.Ident); isLocal {
								*n++
								c.ok("C06.R2", fmt.Sprintf("%s|name-range:%s#%d", where, types.ExprString(lse.X), *n), c.pos(as.Pos()), "copied from the (name, range) pair the name parser returned")
							}
						}
					}
				}
			}
			if !ok || len(as.Lhs) != 1 || len(as.Rhs) != 1 {
				continue
			}
			lse, ok := as.Lhs[0].(*ast.SelectorExpr)
			if !ok || (lse.Sel.Name != "NameRange" && lse.Sel.Name != "Range") {
				continue
			}
			// the text field the range belongs to: <owner>.Name — or, for a (text, range) pair built by a shared
			// combinator, the field of the same owner that the statement just before filled from a Parse call
			textField := "Name"
			if lse.Sel.Name == "Range" {
				textField = ""
				if i > 0 {
					var init ast.Stmt
					switch pst := list[i-1].(type) {
					case *ast.IfStmt:
						init = pst.Init
					case *ast.AssignStmt:
						init = pst
					}
					if pas, ok := init.(*ast.AssignStmt); ok && len(pas.Lhs) >= 1 && len(pas.Rhs) == 1 {
						if pse, ok := pas.Lhs[0].(*ast.SelectorExpr); ok && types.ExprString(pse.X) == types.ExprString(lse.X) {
							if pc, ok := pas.Rhs[0].(*ast.CallExpr); ok && strings.HasSuffix(types.ExprString(pc.Fun), ".Parse") {
								textField = pse.Sel.Name
							}
						}
					}
				}
				if textField == "" {
					continue
				}
			}
			call, ok := as.Rhs[0].(*ast.CallExpr)
			if !ok {
				// plain copy of an existing range; a copy out of a (text, range) pair that a parser returned counts as a
				// site of its own (the pair's range is checked where it is built)
				if rse, isSel := ast.Unparen(as.Rhs[0]).(*ast.SelectorExpr); isSel && rse.Sel.Name == "Range" && lse.Sel.Name == "NameRange" {
					if _, isLocal := ast.Unparen(rse.X).(*ast.Ident); isLocal {
						*n++
						c.ok("C06.R2", fmt.Sprintf("%s|name-range:%s#%d", where, types.ExprString(lse.X), *n), c.pos(as.Pos()), "copied from the (name, range) pair the name parser returned")
					}
				}
				continue
			}
			*n++
			owner := types.ExprString(lse.X)
			key := fmt.Sprintf("%s|name-range:%s#%d", where, owner, *n)
			good, why := false, ""
			fn := calleeOf(info, call)
			if fn != nil && fn.Name() == "NewRange" && len(call.Args) == 2 {
				a0 := nodeText(c.fset, call.Args[0])
				a1 := nodeText(c.fset, call.Args[1])
				wantLen := "len(" + owner + "." + textField + ")"
				// … or the start is the position taken in the statement just before the name parser ran
				takenBefore := false
				if id, isID := ast.Unparen(call.Args[0]).(*ast.Ident); isID && i >= 2 {
					// (statements in between that call nothing cannot move the input: l := nameStart.Line)
					for k := i - 2; k >= 0; k-- {
						if das, ok := list[k].(*ast.AssignStmt); ok && len(das.Lhs) == 1 && len(das.Rhs) == 1 {
							if lid, ok := das.Lhs[0].(*ast.Ident); ok && info.ObjectOf(lid) == info.ObjectOf(id) && info.ObjectOf(id) != nil {
								if pc, ok := ast.Unparen(das.Rhs[0]).(*ast.CallExpr); ok && len(pc.Args) == 0 {
									if pf := calleeOf(info, pc); pf != nil && fullName(pf) == "github.com/a-h/parse.(Input).Position" {
										takenBefore = true
									}
								}
								break
							}
						}
						calls := false
						ast.Inspect(list[k], func(m ast.Node) bool {
							if ce, ok := m.(*ast.CallExpr); ok {
								if tv, isConv := info.Types[ce.Fun]; !isConv || !tv.IsType() {
									calls = true
								}
							}
							return true
						})
						if calls {
							break
						}
					}
				}
				if strings.HasSuffix(a1, ".Position()") && strings.Contains(a0, ".PositionAt(") && strings.Contains(a0, ".Index() - "+wantLen) {
					good = true
				} else if strings.HasSuffix(a1, ".Position()") && takenBefore {
					good = true
				} else {
					why = "the range is NewRange(" + a0 + ", " + a1 + "), expected PositionAt(Index() - " + wantLen + ") … Position()"
				}
			} else if fn != nil && fn.Pkg() != nil && fn.Pkg().Path() == pkgParser && len(call.Args) == 2 {
				// a package-local helper (input, name) that returns NewRange(PositionAt(Index()-len(name)), Position())
				okHelper := false
				for _, hfd := range allFuncDeclsOfPkgPath(c, pkgParser) {
					if hfd.Name.Name != fn.Name() || hfd.Recv != nil || hfd.Body == nil || len(hfd.Body.List) == 0 {
						continue
					}
					// (plain definitions of locals in front of the return are substituted: to := pi.Position())
					localText := map[string]string{}
					plain := true
					for _, st := range hfd.Body.List[:len(hfd.Body.List)-1] {
						as, isAs := st.(*ast.AssignStmt)
						if !isAs || as.Tok != token.DEFINE || len(as.Lhs) != 1 || len(as.Rhs) != 1 {
							plain = false
							break
						}
						if lid, isID := as.Lhs[0].(*ast.Ident); isID {
							localText[lid.Name] = nodeText(c.fset, as.Rhs[0])
						}
					}
					if !plain {
						continue
					}
					ret, isRet := hfd.Body.List[len(hfd.Body.List)-1].(*ast.ReturnStmt)
					if !isRet || len(ret.Results) != 1 {
						continue
					}
					rc, isCall := ret.Results[0].(*ast.CallExpr)
					if !isCall || len(rc.Args) != 2 || types.ExprString(rc.Fun) != "NewRange" {
						continue
					}
					var prmNames []string
					for _, prm := range hfd.Type.Params.List {
						for _, nm := range prm.Names {
							prmNames = append(prmNames, nm.Name)
						}
					}
					if len(prmNames) != 2 {
						continue
					}
					h0, h1 := nodeText(c.fset, rc.Args[0]), nodeText(c.fset, rc.Args[1])
					for nm, txt := range localText {
						re := regexp.MustCompile(`\b` + regexp.QuoteMeta(nm) + `\b`)
						h0, h1 = re.ReplaceAllLiteralString(h0, txt), re.ReplaceAllLiteralString(h1, txt)
					}
					h0 = strings.ReplaceAll(h0, " ", "")
					if h1 == prmNames[0]+".Position()" && strings.Contains(h0, prmNames[0]+".PositionAt(") && (strings.Contains(h0, prmNames[0]+".Index()-len("+prmNames[1]+")") || strings.Contains(h0, prmNames[0]+".Position().Index-len("+prmNames[1]+")")) {
						okHelper = true
					}
				}
				if okHelper && nodeText(c.fset, call.Args[1]) == owner+".Name" {
					good = true
				} else {
					why = "NameRange is built by " + fn.Name() + "(" + nodeText(c.fset, call.Args[0]) + ", " + nodeText(c.fset, call.Args[1]) + "), which is not NewRange(PositionAt(Index() - len(" + owner + ".Name)), Position())"
				}
			} else {
				why = "NameRange is not built by NewRange"
			}
			// previous statement assigns owner.Name from a Parse call
			prevOK := false
			if i > 0 {
				var init ast.Stmt
				switch pst := list[i-1].(type) {
				case *ast.IfStmt:
					init = pst.Init
				case *ast.AssignStmt:
					init = pst
				}
				if pas, ok := init.(*ast.AssignStmt); ok && len(pas.Lhs) >= 1 && types.ExprString(pas.Lhs[0]) == owner+"."+textField && len(pas.Rhs) == 1 {
					if pc, ok := pas.Rhs[0].(*ast.CallExpr); ok && strings.HasSuffix(types.ExprString(pc.Fun), ".Parse") {
						prevOK = true
					}
				}
			}
			if good && !prevOK {
				good, why = false, "the statement just before does not assign "+owner+".Name from the name parser: the input may have advanced past the name"
			}
			c.check(good, "C06.R2", key, c.pos(as.Pos()), "range = [Index()-len("+owner+".Name), Position()) right after the name was parsed",
				where+": "+why+" — the recorded name range would not cover exactly the name")
		}
	}
}

// fileScopes: function declarations plus one pseudo-declaration per package-level variable initialiser
// (most parsers are package-level function literals).
func fileScopes(p *packages.Package) []*ast.FuncDecl {
	out := allFuncDecls(p)
	for _, f := range p.Syntax {
		if isGeneratedFile(f) {
			continue
		}
		for _, d := range f.Decls {
			gd, ok := d.(*ast.GenDecl)
			if !ok || gd.Tok != token.VAR {
				continue
			}
			for _, sp := range gd.Specs {
				vs := sp.(*ast.ValueSpec)
				for i, v := range vs.Values {
					name := "_"
					if i < len(vs.Names) {
						name = vs.Names[i].Name
					}
					body := &ast.BlockStmt{List: []ast.Stmt{&ast.ExprStmt{X: v}}, Lbrace: v.Pos(), Rbrace: v.End()}
					out = append(out, &ast.FuncDecl{Name: &ast.Ident{Name: name, NamePos: v.Pos()}, Type: &ast.FuncType{Params: &ast.FieldList{}}, Body: body})
				}
			}
		}
	}
	return out
}

// committedPrefixParsers: C06.R4 — termination of the top-level loop. When a line starts with one of the template
// keywords and contains "(", the Go-code reader un-reads it and hands it back to the template / css / script parsers.
// The loop makes progress only if the parser for that keyword, once it has seen its keyword, either succeeds or
// returns an ERROR; a parser that declines (ok=false, err=nil) after its keyword leaves the input where it was and the
// loop spins forever on that line.
func committedPrefixParsers(c *Ctx, rule string) {
	pp := c.pkg("parser/v2")
	info := pp.TypesInfo
	// the keywords: constants K of strings.HasPrefix(<line>, K) disjunctions next to an un-read (Seek) in one function
	keywords := map[string]bool{}
	var reKeywordUndecided []string
	for _, fd := range allFuncDecls(pp) {
		hasSeek := false
		var ks []string
		ast.Inspect(fd.Body, func(x ast.Node) bool {
			if call, ok := x.(*ast.CallExpr); ok {
				if fn := calleeOf(info, call); fn != nil {
					if fullName(fn) == "strings.HasPrefix" && len(call.Args) == 2 {
						if s, isC := constString(info, call.Args[1]); isC && strings.HasSuffix(s, " ") {
							ks = append(ks, s)
						}
					}
					if fn.Name() == "Seek" {
						hasSeek = true
					}
					// the regexp form of the same test: <pkg-level regexp>.MatchString(<line>) — the prefixes it
					// accepts are enumerated from the pattern (literal alternatives followed by a literal or a small class)
					if fullName(fn) == "regexp.(Regexp).MatchString" {
						if se, ok := call.Fun.(*ast.SelectorExpr); ok {
							if id, ok := se.X.(*ast.Ident); ok {
								if init, ok := pkgVarInit(pp, id.Name).(*ast.CallExpr); ok && len(init.Args) == 1 {
									if pat, isC := constString(info, init.Args[0]); isC {
										if pre, okp := regexRequiredPrefixes(pat); okp {
											ks = append(ks, pre...)
										} else {
											reKeywordUndecided = append(reKeywordUndecided, fmt.Sprintf("%s: %s", c.pos(call.Pos()), pat))
										}
									}
								}
							}
						}
					}
				}
			}
			return true
		})
		if hasSeek && len(ks) >= 2 {
			for _, k := range ks {
				keywords[k] = true
			}
		}
	}
	if len(keywords) == 0 && len(reKeywordUndecided) > 0 {
		c.undec(rule, "keyword-line-unread|regexp-prefixes", "", "the un-read condition is a regular expression whose required prefixes could not be enumerated: "+strings.Join(reKeywordUndecided, "; "))
		return
	}
	if len(keywords) == 0 {
		c.viol(rule, "anchor-lost:keyword-line-unread", "", "the top-level loop that un-reads lines starting with a template keyword was not found")
		return
	}
	n := 0
	seen := map[string]bool{}
	for _, sc := range fileScopes(pp) {
		// function literals inside this scope that have (…, ok bool, err error) results, or the scope itself
		var bodies []*ast.BlockStmt
		ast.Inspect(sc.Body, func(x ast.Node) bool {
			if fl, ok := x.(*ast.FuncLit); ok {
				bodies = append(bodies, fl.Body)
			}
			return true
		})
		if sc.Recv != nil || len(bodies) == 0 {
			bodies = append(bodies, sc.Body)
		}
		for _, body := range bodies {
			kw := ""
			prefixIdx := -1
			for i, st := range body.List {
				is, ok := st.(*ast.IfStmt)
				if !ok {
					continue
				}
				ast.Inspect(is, func(x ast.Node) bool {
					if x == ast.Node(is.Body) {
						return false
					}
					if e, ok := x.(ast.Expr); ok {
						if s, isC := constString(info, e); isC && keywords[s] && prefixIdx < 0 {
							kw = s
							prefixIdx = i
						}
					}
					return true
				})
				if prefixIdx >= 0 {
					break
				}
			}
			if prefixIdx < 0 {
				continue
			}
			seen[kw] = true
			ord := 0
			for _, st := range body.List[prefixIdx+1:] {
				is, ok := st.(*ast.IfStmt)
				if !ok {
					continue
				}
				declines := false
				ast.Inspect(is.Cond, func(y ast.Node) bool {
					if ue, ok := y.(*ast.UnaryExpr); ok && ue.Op == token.NOT {
						declines = true
					}
					return true
				})
				if !declines {
					continue
				}
				ord++
				n++
				setsErr := false
				bad := ""
				for _, bs := range is.Body.List {
					switch s := bs.(type) {
					case *ast.AssignStmt:
						for _, l := range s.Lhs {
							if id, ok := l.(*ast.Ident); ok && id.Name == "err" {
								setsErr = true
							}
						}
					case *ast.ReturnStmt:
						if len(s.Results) == 0 && !setsErr {
							bad = "returns with ok=false and whatever err was (nil when the sub-parser simply did not match)"
						}
						if len(s.Results) > 0 && types.ExprString(s.Results[len(s.Results)-1]) == "nil" {
							bad = "returns a nil error"
						}
					}
				}
				key := fmt.Sprintf("%s|after-keyword %q|decline#%d-is-an-error", funcKey(pp, sc), strings.TrimSpace(kw), ord)
				c.check(bad == "", rule, key, c.pos(is.Pos()), "a failed sub-parse after the keyword sets an error",
					fmt.Sprintf("%s: after the keyword %q was read, the branch `%s` %s. The top-level loop un-reads every line that starts with %q and contains \"(\" and asks this parser again, so declining without an error makes Parse loop forever on such a line (e.g. `%s_x(a string) {`)", sc.Name.Name, kw, types.ExprString(is.Cond), bad, kw, kw))
			}
		}
	}
	var ksorted []string
	for k := range keywords {
		ksorted = append(ksorted, k)
	}
	sort.Strings(ksorted)
	for _, k := range ksorted {
		if !seen[k] {
			c.viol(rule, fmt.Sprintf("top-level-loop|un-reads-prefix %q|some-parser-commits", k), "", fmt.Sprintf("the top-level loop un-reads every line that starts with %q (and contains \"(\") and asks the template / css / script parsers again, but no parser tests that prefix: all of them decline without consuming anything, so Parse spins forever on such a line", k))
		}
	}
	c.count("post_keyword_decline_branches", n)
	c.floor(rule, 3)
}

// expressionTextFromInput: C06.R5 — when the text of an Expression is accumulated in a strings.Builder, everything
// written to the builder is text that was consumed from the input (the result of a Parse / Take call), never a constant:
// a constant that stands in for consumed text (a "\n" for a matched line break, say) makes Value differ from the source at
// Range.From for the inputs where the two are not the same bytes (CRLF files).
func expressionTextFromInput(c *Ctx, rule string) {
	pp := c.pkg("parser/v2")
	info := pp.TypesInfo
	n := 0
	for _, sc := range fileScopes(pp) {
		// builders whose String() reaches NewExpression in this scope
		builders := map[types.Object]bool{}
		ast.Inspect(sc.Body, func(x ast.Node) bool {
			call, ok := x.(*ast.CallExpr)
			if !ok {
				return true
			}
			if fn := calleeOf(info, call); fn == nil || fn.Name() != "NewExpression" || fn.Pkg() != pp.Types || len(call.Args) == 0 {
				return true
			}
			ast.Inspect(call.Args[0], func(y ast.Node) bool {
				if c2, ok := y.(*ast.CallExpr); ok {
					if se, ok := c2.Fun.(*ast.SelectorExpr); ok && se.Sel.Name == "String" {
						if id, ok := se.X.(*ast.Ident); ok {
							if t := info.TypeOf(id); t != nil && strings.HasSuffix(strings.TrimPrefix(t.String(), "*"), "strings.Builder") {
								builders[info.ObjectOf(id)] = true
							}
						}
					}
				}
				return true
			})
			return true
		})
		// constants concatenated directly into an Expression's text must be text that was consumed verbatim:
		// the same constant handed to parse.String / parse.Rune and parsed in this scope
		consumedConsts := map[string]bool{}
		ast.Inspect(sc.Body, func(x ast.Node) bool {
			if call, ok := x.(*ast.CallExpr); ok && len(call.Args) == 1 {
				if se, ok := call.Fun.(*ast.SelectorExpr); ok && (se.Sel.Name == "String" || se.Sel.Name == "Rune") {
					if ob := info.Uses[se.Sel]; ob != nil && ob.Pkg() != nil && ob.Pkg().Path() == "github.com/a-h/parse" {
						if k, isC := constString(info, call.Args[0]); isC {
							consumedConsts[k] = true
						} else if v, isI := constInt(info, call.Args[0]); isI {
							consumedConsts[string(rune(v))] = true
						}
					}
				}
			}
			return true
		})
		nexp, ntext := 0, 0
		ast.Inspect(sc.Body, func(x ast.Node) bool {
			call, ok := x.(*ast.CallExpr)
			if !ok || len(call.Args) == 0 {
				return true
			}
			if fn := calleeOf(info, call); fn == nil || fn.Name() != "NewExpression" || fn.Pkg() != pp.Types {
				return true
			}
			// the text is what was consumed, as it stands: a trimmed / re-cased / replaced copy no longer starts at the
			// recorded From and no longer has the recorded length
			{
				transformed := ""
				argExpr := unfoldLocals(pp, sc, call.Args[0])
				ast.Inspect(argExpr, func(y ast.Node) bool {
					if c2, ok := y.(*ast.CallExpr); ok {
						if fn := calleeOf(info, c2); fn != nil && fn.Pkg() != nil && fn.Pkg().Path() == "strings" {
							switch fn.Name() {
							case "TrimRight", "TrimRightFunc", "TrimSuffix":
								// cut from the end only: the text still begins at the recorded start, which is what the property states
							case "TrimSpace", "Trim", "TrimLeft", "TrimPrefix", "TrimFunc", "TrimLeftFunc", "ToLower", "ToUpper", "Replace", "ReplaceAll", "Title", "Map":
								transformed = "strings." + fn.Name()
							}
						}
					}
					return true
				})
				// (text accumulated piece by piece in a builder is judged by the builder rule below: what is trimmed there
				// is the white space after the last piece, the start having been taken after the leading white space)
				fromBuilder := false
				ast.Inspect(argExpr, func(y ast.Node) bool {
					if c2, ok := y.(*ast.CallExpr); ok {
						if se, ok := c2.Fun.(*ast.SelectorExpr); ok && se.Sel.Name == "String" {
							if t := info.TypeOf(se.X); t != nil && strings.HasSuffix(strings.TrimPrefix(t.String(), "*"), "strings.Builder") {
								fromBuilder = true
							}
						}
					}
					return true
				})
				// … but only what is cut from the END: the start was taken where the parser's white-space skip stopped, and
				// a left trim with a wider class than that skip (strings.TrimSpace cuts U+00A0, U+3000 …, the skip is ASCII)
				// takes characters off the text that are still inside the recorded range
				leftTrim := ""
				ast.Inspect(argExpr, func(y ast.Node) bool {
					if c2, ok := y.(*ast.CallExpr); ok {
						if fn := calleeOf(info, c2); fn != nil && fn.Pkg() != nil && fn.Pkg().Path() == "strings" {
							switch fn.Name() {
							case "TrimRight", "TrimRightFunc", "TrimSuffix":
							case "TrimSpace", "Trim", "TrimLeft", "TrimPrefix", "TrimFunc", "TrimLeftFunc":
								leftTrim = "strings." + fn.Name()
							}
						}
					}
					return true
				})
				if fromBuilder {
					transformed = ""
					if leftTrim != "" {
						ntext++
						c.viol(rule, fmt.Sprintf("%s|NewExpression#%d|text-as-consumed", funcKey(pp, sc), ntext), c.pos(call.Pos()),
							fmt.Sprintf("%s cuts the accumulated text on the LEFT with %s while the recorded start is where the parser's ASCII white-space skip stopped: a Unicode space in front of the code (U+00A0, U+3000) is removed from the text but stays inside the range, so the source at Range.From does not begin with the recorded text — in a file that still generates and formats, because the generator writes the trimmed text", funcKey(pp, sc), leftTrim))
						return true
					}
				}
				ntext++
				c.check(transformed == "", rule, fmt.Sprintf("%s|NewExpression#%d|text-as-consumed", funcKey(pp, sc), ntext), c.pos(call.Pos()), "the expression text is the consumed input, untransformed",
					fmt.Sprintf("%s passes the expression text through %s before storing it with positions that were taken for the untransformed text: the recorded range no longer starts at the first byte of the text (leading white space) or has its length, so every position derived from it (source map, diagnostics, formatting) is shifted", funcKey(pp, sc), transformed))
			}
			bad := ""
			var walk func(e ast.Expr)
			walk = func(e ast.Expr) {
				e = ast.Unparen(e)
				if be, ok := e.(*ast.BinaryExpr); ok && be.Op == token.ADD {
					walk(be.X)
					walk(be.Y)
					return
				}
				if k, isC := constString(info, e); isC && k != "" && !consumedConsts[k] {
					bad = fmt.Sprintf("%q", k)
				}
			}
			walk(call.Args[0])
			if _, isBin := ast.Unparen(call.Args[0]).(*ast.BinaryExpr); isBin {
				nexp++
				n++
				c.check(bad == "", rule, fmt.Sprintf("%s|NewExpression#%d|constants-were-consumed", funcKey(pp, sc), nexp), c.pos(call.Pos()), "constant parts of the text are constants that were parsed verbatim",
					fmt.Sprintf("%s builds an Expression's text with the constant %s, which is not what a parser consumed in this function: where the input spells that part differently (a CRLF line break for \"\\n\") the recorded text differs from the source at the recorded range", sc.Name.Name, bad))
			}
			return true
		})
		if len(builders) == 0 {
			continue
		}
		// variables holding consumed input: results of calls into the parse library / Parse methods
		consumed := map[types.Object]bool{}
		ast.Inspect(sc.Body, func(x ast.Node) bool {
			as, ok := x.(*ast.AssignStmt)
			if !ok || len(as.Rhs) != 1 {
				return true
			}
			call, ok := as.Rhs[0].(*ast.CallExpr)
			if !ok {
				return true
			}
			se, ok := call.Fun.(*ast.SelectorExpr)
			if !ok || !(se.Sel.Name == "Parse" || se.Sel.Name == "Take" || se.Sel.Name == "Peek") {
				return true
			}
			if id, ok := as.Lhs[0].(*ast.Ident); ok && id.Name != "_" {
				consumed[info.ObjectOf(id)] = true
			}
			return true
		})
		ord := 0
		ast.Inspect(sc.Body, func(x ast.Node) bool {
			call, ok := x.(*ast.CallExpr)
			if !ok {
				return true
			}
			se, ok := call.Fun.(*ast.SelectorExpr)
			if !ok || !strings.HasPrefix(se.Sel.Name, "Write") {
				return true
			}
			id, ok := se.X.(*ast.Ident)
			if !ok || !builders[info.ObjectOf(id)] || len(call.Args) != 1 {
				return true
			}
			ord++
			n++
			bad := ""
			var walk func(e ast.Expr)
			walk = func(e ast.Expr) {
				e = ast.Unparen(e)
				if tv, ok := info.Types[e]; ok && tv.Value != nil {
					bad = "the constant " + types.ExprString(e)
					return
				}
				switch e := e.(type) {
				case *ast.BinaryExpr:
					walk(e.X)
					walk(e.Y)
				case *ast.Ident:
					if !consumed[info.ObjectOf(e)] {
						bad = "the variable " + e.Name + ", which is not the result of a Parse/Take call"
					}
				case *ast.CallExpr:
					if tv, ok := info.Types[e.Fun]; ok && tv.IsType() && len(e.Args) == 1 {
						walk(e.Args[0])
						return
					}
					bad = "the result of " + types.ExprString(e.Fun)
				default:
					bad = "`" + types.ExprString(e) + "`"
				}
			}
			walk(call.Args[0])
			c.check(bad == "", rule, fmt.Sprintf("%s|%s.%s#%d|consumed-input-only", funcKey(pp, sc), id.Name, se.Sel.Name, ord), c.pos(call.Pos()), "writes text consumed from the input",
				fmt.Sprintf("%s accumulates the text of an Expression in %s and writes %s into it: the recorded text then differs from the source bytes at the recorded range whenever the input spells that part differently (a CRLF line break for a written \"\\n\"), so Value no longer starts at Range.From and the index arithmetic of later positions is off", sc.Name.Name, id.Name, bad))
			return true
		})
	}
	c.count("expression_builder_writes", n)
	c.floor(rule, 3)
}

// lookaheadParsersFlat: C06.R6 — "terminates promptly". The node-list parser asks its `until` parser at every node
// boundary whether the list has ended and rewinds the input when it has, so whatever `until` consumed is parsed again
// by the caller. An `until` parser that itself parses a nested node list makes every level of nesting double the work
// (2^depth): it must be a flat token lookahead, i.e. not reach the node-list parser.
func lookaheadParsersFlat(c *Ctx, rule string) {
	pp := c.pkg("parser/v2")
	info := pp.TypesInfo
	scope := pp.Types.Scope()
	ctor, _ := scope.Lookup("newTemplateNodeParser").(*types.Func)
	if ctor == nil {
		c.viol(rule, "anchor-lost:newTemplateNodeParser", "", "the constructor of the node-list parser was not found")
		return
	}
	// the node-list parser rewinds after a successful lookahead
	rewinds := false
	for _, fd := range allFuncDecls(pp) {
		if fd.Recv == nil || fd.Name.Name != "Parse" || !strings.HasPrefix(recvTypeName(fd.Recv.List[0].Type), "templateNodeParser") {
			continue
		}
		ast.Inspect(fd.Body, func(x ast.Node) bool {
			is, ok := x.(*ast.IfStmt)
			if !ok || types.ExprString(is.Cond) != "ok" {
				return true
			}
			for _, st := range is.Body.List {
				if es, ok := st.(*ast.ExprStmt); ok {
					if call, ok := es.X.(*ast.CallExpr); ok {
						if se, ok := call.Fun.(*ast.SelectorExpr); ok && se.Sel.Name == "Seek" {
							rewinds = true
						}
					}
				}
			}
			return true
		})
	}
	if !rewinds {
		c.ok(rule, pp.PkgPath+"|node-list-parser-does-not-rewind", "", "the node-list parser no longer rewinds after its lookahead matched: nothing is parsed twice")
		return
	}
	// reference graph over package-level objects
	refs := map[types.Object]map[types.Object]bool{}
	addRefs := func(from types.Object, n ast.Node) {
		if refs[from] == nil {
			refs[from] = map[types.Object]bool{}
		}
		ast.Inspect(n, func(x ast.Node) bool {
			switch x := x.(type) {
			case *ast.Ident:
				if ob := info.Uses[x]; ob != nil && ob.Pkg() == pp.Types && (ob.Parent() == scope) {
					refs[from][ob] = true
				}
			case *ast.SelectorExpr:
				if sel, ok := info.Selections[x]; ok {
					if fn, ok := sel.Obj().(*types.Func); ok && fn.Pkg() == pp.Types {
						refs[from][fn] = true
					}
				}
			}
			return true
		})
	}
	methodsOf := map[types.Object][]types.Object{}
	for _, f := range pp.Syntax {
		for _, d := range f.Decls {
			switch d := d.(type) {
			case *ast.GenDecl:
				for _, sp := range d.Specs {
					if vs, ok := sp.(*ast.ValueSpec); ok {
						for i, nm := range vs.Names {
							ob := info.Defs[nm]
							if i < len(vs.Values) {
								addRefs(ob, vs.Values[i])
							} else if len(vs.Values) == 1 {
								addRefs(ob, vs.Values[0])
							}
							if vs.Type != nil {
								addRefs(ob, vs.Type)
							}
						}
					}
				}
			case *ast.FuncDecl:
				if d.Body == nil {
					continue
				}
				ob := info.Defs[d.Name]
				addRefs(ob, d.Body)
				if d.Recv != nil {
					if tn, ok := scope.Lookup(recvTypeName(d.Recv.List[0].Type)).(*types.TypeName); ok {
						methodsOf[tn] = append(methodsOf[tn], ob)
					}
				}
			}
		}
	}
	reaches := func(start ast.Expr) (bool, []string) {
		seen := map[types.Object]bool{}
		var path []string
		var found bool
		var visit func(ob types.Object, trail []string)
		visit = func(ob types.Object, trail []string) {
			if found || seen[ob] {
				return
			}
			seen[ob] = true
			trail = append(trail, ob.Name())
			if ob == types.Object(ctor) {
				found = true
				path = append([]string{}, trail...)
				return
			}
			for r := range refs[ob] {
				visit(r, trail)
			}
			for _, m := range methodsOf[ob] {
				visit(m, trail)
			}
		}
		tmp := types.NewVar(token.NoPos, pp.Types, "<until>", nil)
		addRefs(tmp, start)
		for r := range refs[tmp] {
			visit(r, nil)
		}
		return found, path
	}
	n := 0
	for _, sc := range fileScopes(pp) {
		ord := 0
		ast.Inspect(sc.Body, func(x ast.Node) bool {
			call, ok := x.(*ast.CallExpr)
			if !ok || len(call.Args) < 1 {
				return true
			}
			if fn := calleeOf(info, call); fn == nil || fn != ctor {
				return true
			}
			ord++
			n++
			rec, path := reaches(call.Args[0])
			c.check(!rec, rule, fmt.Sprintf("%s|until#%d:%s|flat-lookahead", funcKey(pp, sc), ord, types.ExprString(call.Args[0])), c.pos(call.Pos()), "the lookahead does not parse nested node lists",
				fmt.Sprintf("%s ends its node list with the lookahead %s, which reaches the node-list parser again (%s): the lookahead parses the whole following branch, the node-list parser rewinds, and the branch is parsed a second time — every level of nesting doubles the work (16 nested if/else: seconds; 30: hours), so parsing does not terminate promptly", sc.Name.Name, types.ExprString(call.Args[0]), strings.Join(path, " → ")))
			return true
		})
	}
	c.count("node_list_lookaheads", n)
	c.floor(rule, 5)
}

// regexRequiredPrefixes enumerates the literal prefixes a match of the anchored pattern must start with: a leading ^,
// then literals / alternations of literals / captures of those, extended by ONE following literal or character class of
// at most 16 runes (the separator after a keyword). ok=false if the pattern is not of that shape.
func regexRequiredPrefixes(pat string) ([]string, bool) {
	re, err := syntax.Parse(pat, syntax.Perl)
	if err != nil {
		return nil, false
	}
	re = re.Simplify()
	if re.Op != syntax.OpConcat || len(re.Sub) < 2 || re.Sub[0].Op != syntax.OpBeginText {
		return nil, false
	}
	var lits func(r *syntax.Regexp) ([]string, bool)
	lits = func(r *syntax.Regexp) ([]string, bool) {
		switch r.Op {
		case syntax.OpLiteral:
			if r.Flags&syntax.FoldCase != 0 {
				return nil, false
			}
			return []string{string(r.Rune)}, true
		case syntax.OpCapture:
			return lits(r.Sub[0])
		case syntax.OpCharClass:
			var out []string
			for i := 0; i+1 < len(r.Rune); i += 2 {
				for x := r.Rune[i]; x <= r.Rune[i+1]; x++ {
					out = append(out, string(x))
					if len(out) > 16 {
						return nil, false
					}
				}
			}
			return out, true
		case syntax.OpAlternate:
			var out []string
			for _, sub := range r.Sub {
				l, ok := lits(sub)
				if !ok {
					return nil, false
				}
				out = append(out, l...)
			}
			return out, true
		case syntax.OpConcat:
			cur := []string{""}
			for _, sub := range r.Sub {
				l, ok := lits(sub)
				if !ok {
					return nil, false
				}
				var nxt []string
				for _, a := range cur {
					for _, b := range l {
						nxt = append(nxt, a+b)
					}
				}
				cur = nxt
			}
			return cur, true
		}
		return nil, false
	}
	cur := []string{""}
	took := 0
	for _, sub := range re.Sub[1:] {
		l, ok := lits(sub)
		if !ok {
			break
		}
		var nxt []string
		for _, a := range cur {
			for _, b := range l {
				nxt = append(nxt, a+b)
			}
		}
		if len(nxt) > 64 {
			return nil, false
		}
		cur = nxt
		took++
		if took == 2 {
			break
		}
	}
	if took == 0 {
		return nil, false
	}
	return cur, true
}

// positionFieldWrites: direct writes to the Index / Line / Col fields of a position exist only as a paired adjustment
// of Index and Col of the same position by the same constant (a step over a one-byte delimiter on the same line).
// Anything else (a computed distance, one coordinate alone) lets index, line and column of a recorded position disagree.
func positionFieldWrites(c *Ctx, rule, suffix string) {
	p := c.pkg("parser/v2")
	info := p.TypesInfo
	isParsePos := func(t types.Type) bool { return t != nil && t.String() == "github.com/a-h/parse.Position" }
	// (d) direct field writes
	type fw struct {
		base, field, op, val string
		pos                  token.Pos
		fn                   string
	}
	var writes []fw
	for _, fd := range fileScopes(p) {
		if fd.Recv != nil && recvTypeName(fd.Recv.List[0].Type) == "SourceMap" {
			continue // target-side bookkeeping, C07
		}
		ast.Inspect(fd.Body, func(x ast.Node) bool {
			as, ok := x.(*ast.AssignStmt)
			if !ok || len(as.Lhs) != 1 {
				return true
			}
			se, ok := as.Lhs[0].(*ast.SelectorExpr)
			if !ok {
				return true
			}
			if se.Sel.Name != "Index" && se.Sel.Name != "Line" && se.Sel.Name != "Col" {
				return true
			}
			if t := info.TypeOf(se.X); t == nil || (t.String() != pkgParser+".Position" && !isParsePos(t)) {
				return true
			}
			writes = append(writes, fw{types.ExprString(se.X), se.Sel.Name, as.Tok.String(), types.ExprString(as.Rhs[0]), as.Pos(), funcKey(p, fd)})
			return true
		})
	}
	for i, w := range writes {
		paired := false
		for j, o := range writes {
			if i != j && o.base == w.base && o.fn == w.fn && o.op == w.op && o.val == w.val && ((w.field == "Col" && o.field == "Index") || (w.field == "Index" && o.field == "Col")) {
				paired = true
			}
		}
		_, isConst := 0, false
		if w.op == "-=" || w.op == "+=" {
			isConst = strings.Trim(w.val, "0123456789") == ""
		}
		c.check(paired && isConst, rule, fmt.Sprintf("%s|adjusts:%s.%s", w.fn, w.base, w.field), c.pos(w.pos), "paired constant adjustment of Index and Col",
			fmt.Sprintf("%s writes %s.%s %s %s without the same adjustment of the other coordinate: index and column of the position no longer agree"+suffix, w.fn, w.base, w.field, w.op, w.val))
	}
	c.count("position_field_writes", len(writes))
}

func allFuncDeclsOfPkgPath(c *Ctx, path string) []*ast.FuncDecl {
	for pth, p := range c.loaded {
		if pth == path {
			return allFuncDecls(p)
		}
	}
	return nil
}

// lookAheadTestsTheLineAsRead: C06.R8 — a parser loop that reads a line ahead, decides from it that the line belongs
// to someone else, un-reads it (pi.Seek(<index taken before>)) and leaves its loop hands over to parsers that look at
// the input at that very position. If the decision was made on a transformed copy of the line (leading white space
// trimmed, case folded), it can say "a template starts here" where none of those parsers matches: nothing is consumed,
// the enclosing loop comes back to the same position and the parser never returns. So: the prefix tests of such a
// hand-over condition are applied to the line as it was read.
func lookAheadTestsTheLineAsRead(c *Ctx, rule string) {
	pp := c.pkg("parser/v2")
	info := pp.TypesInfo
	n := 0
	for _, sc := range fileScopes(pp) {
		if sc.Body == nil {
			continue
		}
		ast.Inspect(sc.Body, func(x ast.Node) bool {
			is, ok := x.(*ast.IfStmt)
			if !ok {
				return true
			}
			// the body un-reads and leaves a loop
			seeks, leaves := false, false
			for _, st := range is.Body.List {
				switch s := st.(type) {
				case *ast.ExprStmt:
					if call, ok := s.X.(*ast.CallExpr); ok {
						if se, ok := call.Fun.(*ast.SelectorExpr); ok && se.Sel.Name == "Seek" && len(call.Args) == 1 {
							if _, isID := ast.Unparen(call.Args[0]).(*ast.Ident); isID {
								seeks = true
							}
						}
					}
				case *ast.BranchStmt:
					if s.Tok == token.BREAK {
						leaves = true
					}
				}
			}
			if !seeks || !leaves {
				return true
			}
			// the prefix tests of the condition (boolean locals read through)
			cond := unfoldLocals(pp, sc, is.Cond)
			ntests, bad := 0, ""
			ast.Inspect(cond, func(y ast.Node) bool {
				call, ok := y.(*ast.CallExpr)
				if !ok || len(call.Args) != 2 {
					return true
				}
				fn := calleeOf(info, call)
				if fn == nil || (fullName(fn) != "strings.HasPrefix" && fullName(fn) != "strings.Contains") {
					return true
				}
				ntests++
				// the tested text: a variable that a Parse call filled, not the result of a strings function
				arg := ast.Unparen(call.Args[0])
				if id, isID := arg.(*ast.Ident); isID {
					arg = ast.Unparen(unfoldLocals(pp, sc, id))
				}
				if tc, isCall := arg.(*ast.CallExpr); isCall {
					if tf := calleeOf(info, tc); tf != nil && tf.Pkg() != nil && tf.Pkg().Path() == "strings" {
						bad = "strings." + tf.Name() + "(…)"
					}
				}
				return true
			})
			// (a condition in another form — a pattern match on the line — has no text argument to judge here; the
			// look-ahead is still counted)
			ast.Inspect(cond, func(y ast.Node) bool {
				if call, ok := y.(*ast.CallExpr); ok && len(call.Args) == 1 {
					if fn := calleeOf(info, call); fn != nil && fullName(fn) == "regexp.(Regexp).MatchString" {
						ntests++
						arg := ast.Unparen(call.Args[0])
						if id, isID := arg.(*ast.Ident); isID {
							arg = ast.Unparen(unfoldLocals(pp, sc, id))
						}
						if tc, isCall := arg.(*ast.CallExpr); isCall {
							if tf := calleeOf(info, tc); tf != nil && tf.Pkg() != nil && tf.Pkg().Path() == "strings" {
								bad = "strings." + tf.Name() + "(…)"
							}
						}
					}
				}
				return true
			})
			if ntests == 0 {
				return true
			}
			n++
			c.check(bad == "", rule, fmt.Sprintf("%s|look-ahead#%d|tests-line-as-read", funcKey(pp, sc), n), c.pos(is.Pos()), fmt.Sprintf("%d prefix test(s) on the line as it was read", ntests),
				fmt.Sprintf("%s decides to un-read a line and hand over to other parsers on %s of the line, not on the line itself: where the two differ (an indented `script := …` in a Go block) no parser matches at the un-read position and the file parser loops forever", funcKey(pp, sc), bad))
			return true
		})
	}
	c.count("un_read_look_aheads", n)
	c.floor(rule, 1)
}
