package main

import (
	"fmt"
	"go/ast"
	"go/token"
	"go/types"
	"strings"
)

// goSourceLineLoops: C08.R8 — when a formatter function writes Go source text line by line and gives lines an
// indentation prefix, it must also have a way to write a line WITHOUT a prefix: the continuation lines of a raw string
// literal belong to the string's value, and gofmt itself never touches them. A loop that prefixes every line changes
// the value of every multi-line raw string in that position (and adds to it again on every run).
func goSourceLineLoops(c *Ctx, rule string) {
	pp := c.pkg("parser/v2")
	info := pp.TypesInfo
	exprT, _ := pp.Types.Scope().Lookup("Expression").(*types.TypeName)
	isSourceSel := func(e ast.Expr) bool {
		se, ok := ast.Unparen(e).(*ast.SelectorExpr)
		if !ok || se.Sel.Name != "Value" || exprT == nil {
			return false
		}
		t := info.TypeOf(se.X)
		return t != nil && types.Identical(t, exprT.Type())
	}
	fds := allFuncDecls(pp)
	// interprocedural: functions whose results carry Go source text
	returnsSource := map[types.Object]bool{}
	paramSource := map[types.Object]bool{} // parameters that some call in the package hands Go source text
	declOf := map[types.Object]*ast.FuncDecl{}
	for _, fd := range fds {
		declOf[info.Defs[fd.Name]] = fd
	}
	taintOf := func(fd *ast.FuncDecl) map[types.Object]bool {
		tainted := map[types.Object]bool{}
		for _, prm := range fd.Type.Params.List {
			for _, nm := range prm.Names {
				if ob := info.Defs[nm]; ob != nil && paramSource[ob] {
					tainted[ob] = true
				}
			}
		}
		var has func(e ast.Node) bool
		has = func(e ast.Node) bool {
			found := false
			ast.Inspect(e, func(x ast.Node) bool {
				switch x := x.(type) {
				case *ast.SelectorExpr:
					if isSourceSel(x) {
						found = true
					}
				case *ast.Ident:
					if ob := info.ObjectOf(x); ob != nil && tainted[ob] {
						found = true
					}
				case *ast.CallExpr:
					if fn := calleeOf(info, x); fn != nil && returnsSource[fn] {
						found = true
					}
				}
				return !found
			})
			return found
		}
		for changed := true; changed; {
			changed = false
			ast.Inspect(fd.Body, func(x ast.Node) bool {
				switch s := x.(type) {
				case *ast.AssignStmt:
					rhsT := false
					for _, r := range s.Rhs {
						if has(r) {
							rhsT = true
						}
					}
					if rhsT {
						for _, l := range s.Lhs {
							// a store into an element or field of a local (exp[i].text = line) taints the local
							root := l
							for {
								switch r := ast.Unparen(root).(type) {
								case *ast.IndexExpr:
									root = r.X
									continue
								case *ast.SelectorExpr:
									if _, isField := info.Selections[r]; isField {
										root = r.X
										continue
									}
								}
								break
							}
							if id, ok := ast.Unparen(root).(*ast.Ident); ok && id.Name != "_" && id.Name != "err" {
								if ob := info.ObjectOf(id); ob != nil && !tainted[ob] {
									if v, isVar := ob.(*types.Var); isVar && !v.IsField() && v.Parent() != nil && v.Parent() != v.Pkg().Scope() {
										tainted[ob] = true
										changed = true
									}
								}
							}
						}
					}
				case *ast.RangeStmt:
					if has(s.X) {
						for _, v := range []ast.Expr{s.Value} {
							if id, ok := v.(*ast.Ident); ok && id.Name != "_" {
								if ob := info.ObjectOf(id); ob != nil && !tainted[ob] {
									tainted[ob] = true
									changed = true
								}
							}
						}
					}
				}
				return true
			})
		}
		tainted[nil] = false
		return tainted
	}
	for round := 0; round < 3; round++ {
		for _, fd := range fds {
			t := taintOf(fd)
			ob := info.Defs[fd.Name]
			// arguments: what this function hands to the package's other functions
			ast.Inspect(fd.Body, func(x ast.Node) bool {
				call, ok := x.(*ast.CallExpr)
				if !ok || call.Ellipsis.IsValid() {
					return true
				}
				callee := declOf[calleeOf(info, call)]
				if callee == nil {
					return true
				}
				var prms []types.Object
				for _, prm := range callee.Type.Params.List {
					for _, nm := range prm.Names {
						prms = append(prms, info.Defs[nm])
					}
				}
				if len(prms) != len(call.Args) {
					return true
				}
				for i, a := range call.Args {
					carries := false
					ast.Inspect(a, func(y ast.Node) bool {
						switch y := y.(type) {
						case *ast.SelectorExpr:
							if isSourceSel(y) {
								carries = true
							}
						case *ast.Ident:
							if o := info.ObjectOf(y); o != nil && t[o] {
								carries = true
							}
						case *ast.CallExpr:
							if fn := calleeOf(info, y); fn != nil && returnsSource[fn] {
								carries = true
							}
						}
						return true
					})
					if carries && prms[i] != nil {
						paramSource[prms[i]] = true
					}
				}
				return true
			})
			ast.Inspect(fd.Body, func(x ast.Node) bool {
				if _, ok := x.(*ast.FuncLit); ok {
					return false
				}
				if ret, ok := x.(*ast.ReturnStmt); ok {
					for _, r := range ret.Results {
						isT := false
						ast.Inspect(r, func(y ast.Node) bool {
							switch y := y.(type) {
							case *ast.SelectorExpr:
								if isSourceSel(y) {
									isT = true
								}
							case *ast.Ident:
								if o := info.ObjectOf(y); o != nil && t[o] {
									isT = true
								}
							}
							return true
						})
						if isT && ob != nil {
							returnsSource[ob] = true
						}
					}
				}
				return true
			})
		}
	}
	// in-package writers that add indentation: they call strings.Repeat
	addsIndent := map[types.Object]bool{}
	for _, fd := range fds {
		ast.Inspect(fd.Body, func(x ast.Node) bool {
			if call, ok := x.(*ast.CallExpr); ok {
				if fn := calleeOf(info, call); fn != nil && (fullName(fn) == "strings.Repeat" || fullName(fn) == "bytes.Repeat") {
					addsIndent[info.Defs[fd.Name]] = true
				}
			}
			return true
		})
	}
	nloops := 0
	for _, fd := range fds {
		tainted := taintOf(fd)
		isT := func(e ast.Node) bool {
			found := false
			ast.Inspect(e, func(x ast.Node) bool {
				switch x := x.(type) {
				case *ast.SelectorExpr:
					if isSourceSel(x) {
						found = true
					}
				case *ast.Ident:
					if ob := info.ObjectOf(x); ob != nil && tainted[ob] {
						found = true
					}
				case *ast.CallExpr:
					if fn := calleeOf(info, x); fn != nil && returnsSource[fn] {
						found = true
					}
				}
				return !found
			})
			return found
		}
		ord := 0
		ast.Inspect(fd.Body, func(x ast.Node) bool {
			rs, ok := x.(*ast.RangeStmt)
			if !ok || !isT(rs.X) {
				return true
			}
			// a sequence of lines: []string or [][]byte
			if st, ok := info.TypeOf(rs.X).Underlying().(*types.Slice); !ok {
				return true
			} else if !(st.Elem().String() == "string" || st.Elem().String() == "[]byte") {
				// or a sequence of records that carry a line of text (struct with a string field)
				hasText := false
				if rec, ok := st.Elem().Underlying().(*types.Struct); ok {
					for i := 0; i < rec.NumFields(); i++ {
						if isStringType(rec.Field(i).Type()) {
							hasText = true
						}
					}
				}
				if !hasText {
					return true
				}
			}
			var elem types.Object
			if id, ok := rs.Value.(*ast.Ident); ok && id.Name != "_" {
				elem = info.ObjectOf(id)
			}
			var idx types.Object
			if id, ok := rs.Key.(*ast.Ident); ok && id.Name != "_" {
				idx = info.ObjectOf(id)
			}
			// is the element variable reassigned inside the loop?
			reassigned := false
			ast.Inspect(rs.Body, func(y ast.Node) bool {
				if as, ok := y.(*ast.AssignStmt); ok {
					for _, l := range as.Lhs {
						if id, ok := l.(*ast.Ident); ok && elem != nil && info.ObjectOf(id) == elem {
							reassigned = true
						}
					}
				}
				return true
			})
			isElem := func(e ast.Expr) bool {
				e = ast.Unparen(e)
				if call, ok := e.(*ast.CallExpr); ok && len(call.Args) == 1 { // string(x) / []byte(x)
					if tv, ok := info.Types[call.Fun]; ok && tv.IsType() {
						e = ast.Unparen(call.Args[0])
					}
				}
				switch e := e.(type) {
				case *ast.Ident:
					return elem != nil && info.ObjectOf(e) == elem && !reassigned
				case *ast.SelectorExpr:
					// the text field of a line record
					if id, ok := ast.Unparen(e.X).(*ast.Ident); ok && elem != nil && info.ObjectOf(id) == elem && !reassigned {
						if t := info.TypeOf(e); t != nil && isStringType(t) {
							return true
						}
					}
					return false
				case *ast.IndexExpr:
					if id, ok := e.Index.(*ast.Ident); ok && idx != nil && info.ObjectOf(id) == idx {
						return isT(e.X)
					}
				}
				return false
			}
			mentionsElem := func(e ast.Node) bool {
				found := false
				ast.Inspect(e, func(y ast.Node) bool {
					switch y := y.(type) {
					case *ast.Ident:
						if elem != nil && info.ObjectOf(y) == elem {
							found = true
						}
					case *ast.IndexExpr:
						if id, ok := y.Index.(*ast.Ident); ok && idx != nil && info.ObjectOf(id) == idx && isT(y.X) {
							found = true
						}
					}
					return true
				})
				return found
			}
			leftmost := func(e ast.Expr) ast.Expr {
				for {
					be, ok := ast.Unparen(e).(*ast.BinaryExpr)
					if !ok || be.Op != token.ADD {
						return ast.Unparen(e)
					}
					e = be.X
				}
			}
			var prefixed, verbatim []string
			ast.Inspect(rs.Body, func(y ast.Node) bool {
				call, ok := y.(*ast.CallExpr)
				if !ok {
					return true
				}
				fn := calleeOf(info, call)
				if fn == nil {
					return true
				}
				full := fullName(fn)
				isWrite := full == "io.WriteString" || strings.HasSuffix(full, ").Write") || strings.HasSuffix(full, ").WriteString") || strings.HasPrefix(full, "fmt.Fprint") || (fn.Pkg() == pp.Types)
				if !isWrite {
					return true
				}
				for _, a := range call.Args {
					if !mentionsElem(a) {
						continue
					}
					if addsIndent[fn] {
						prefixed = append(prefixed, types.ExprString(call))
					} else if isElem(leftmost(a)) {
						verbatim = append(verbatim, types.ExprString(call))
					} else {
						prefixed = append(prefixed, types.ExprString(call))
					}
				}
				return true
			})
			if len(prefixed) == 0 && len(verbatim) == 0 {
				return true
			}
			ord++
			nloops++
			key := fmt.Sprintf("%s|go-source-lines-loop#%d", funcKey(pp, fd), ord)
			c.check(len(prefixed) == 0 || len(verbatim) > 0, rule, key+"|raw-string-lines-verbatim", c.pos(rs.Pos()),
				fmt.Sprintf("%d prefixed write(s), %d verbatim write(s) of a line", len(prefixed), len(verbatim)),
				fmt.Sprintf("%s writes the lines of a Go expression one by one and every write adds a prefix to the line (%s); there is no path that writes a line as it is, so the continuation lines of a multi-line raw string literal get the indentation too: the formatted template contains a different string constant (and the next run indents it again)", fd.Name.Name, strings.Join(prefixed, "; ")))
			return true
		})
	}
	c.count("go_source_line_loops", nloops)
	c.floor(rule, 2)
}

// importAliasesKept: C08.R6 — `templ fmt` rewrites the import block; an import that is re-inserted keeps its alias.
func importAliasesKept(c *Ctx, rule string) {
	p := c.pkg("cmd/templ/imports")
	if p == nil {
		c.viol(rule, "anchor-lost:cmd/templ/imports", "", "package cmd/templ/imports not loaded")
		return
	}
	info := p.TypesInfo
	const astutilPkg = "golang.org/x/tools/go/ast/astutil."
	n := 0
	for _, fd := range allFuncDecls(p) {
		// name/path pairs defined together from one import spec
		type pair struct{ name, path types.Object }
		var pairs []pair
		ast.Inspect(fd.Body, func(x ast.Node) bool {
			as, ok := x.(*ast.AssignStmt)
			if !ok || len(as.Rhs) != 1 || len(as.Lhs) < 2 {
				return true
			}
			call, ok := as.Rhs[0].(*ast.CallExpr)
			if !ok || len(call.Args) != 1 {
				return true
			}
			if t := info.TypeOf(call.Args[0]); t == nil || t.String() != "*go/ast.ImportSpec" {
				return true
			}
			a, ok1 := as.Lhs[0].(*ast.Ident)
			b, ok2 := as.Lhs[1].(*ast.Ident)
			if ok1 && ok2 {
				pairs = append(pairs, pair{info.ObjectOf(a), info.ObjectOf(b)})
			}
			return true
		})
		ord := 0
		ast.Inspect(fd.Body, func(x ast.Node) bool {
			call, ok := x.(*ast.CallExpr)
			if !ok {
				return true
			}
			fn := calleeOf(info, call)
			// an edit applied through a function value of astutil's shape — func(*token.FileSet, *ast.File, name, path string) bool:
			// the name and the path it is handed come from one spec
			if fn == nil && len(call.Args) == 4 {
				if sig, ok := info.TypeOf(call.Fun).Underlying().(*types.Signature); ok && sig.Params().Len() == 4 &&
					sig.Params().At(0).Type().String() == "*go/token.FileSet" && sig.Params().At(1).Type().String() == "*go/ast.File" &&
					isStringType(sig.Params().At(2).Type()) && isStringType(sig.Params().At(3).Type()) {
					ord++
					n++
					okPair := false
					na, ok1 := ast.Unparen(call.Args[2]).(*ast.Ident)
					pa, ok2 := ast.Unparen(call.Args[3]).(*ast.Ident)
					if ok1 && ok2 {
						for _, pr := range pairs {
							if info.ObjectOf(na) == pr.name && info.ObjectOf(pa) == pr.path {
								okPair = true
							}
						}
					}
					c.check(okPair, rule, fmt.Sprintf("%s|import-edit#%d|name-and-path-of-one-spec", funcKey(p, fd), ord), c.pos(call.Pos()), "name and path come from the same import spec",
						fmt.Sprintf("%s applies an import edit with a name (%s) and a path (%s) that were not taken together from one import spec: the import is written with a different alias than the one the file uses", fd.Name.Name, types.ExprString(call.Args[2]), types.ExprString(call.Args[3])))
				}
				return true
			}
			if fn == nil || !strings.HasPrefix(fullName(fn), astutilPkg) {
				return true
			}
			switch fn.Name() {
			case "AddImport":
				ord++
				n++
				c.viol(rule, fmt.Sprintf("%s|astutil.AddImport#%d", funcKey(p, fd), ord), c.pos(call.Pos()), fd.Name.Name+" inserts an import with astutil.AddImport, which has no name argument: an aliased import (import str \"strings\") loses its alias while the template body still uses it, so the formatted file no longer compiles")
			case "AddNamedImport", "DeleteNamedImport":
				ord++
				n++
				okPair := false
				if len(call.Args) == 4 {
					na, ok1 := ast.Unparen(call.Args[2]).(*ast.Ident)
					pa, ok2 := ast.Unparen(call.Args[3]).(*ast.Ident)
					if ok1 && ok2 {
						for _, pr := range pairs {
							if info.ObjectOf(na) == pr.name && info.ObjectOf(pa) == pr.path {
								okPair = true
							}
						}
					}
				}
				c.check(okPair, rule, fmt.Sprintf("%s|%s#%d|name-and-path-of-one-spec", funcKey(p, fd), fn.Name(), ord), c.pos(call.Pos()), "name and path come from the same import spec",
					fmt.Sprintf("%s calls astutil.%s with a name (%s) and a path (%s) that were not taken together from one import spec: the import is written with a different alias than the one the file uses", fd.Name.Name, fn.Name(), types.ExprString(call.Args[2]), types.ExprString(call.Args[len(call.Args)-1])))
			}
			return true
		})
	}
	// the function that splits a spec into name and path returns the spec's own name
	found := false
	for _, fd := range allFuncDecls(p) {
		if len(fd.Type.Params.List) != 1 || fd.Type.Results == nil {
			continue
		}
		if t := info.TypeOf(fd.Type.Params.List[0].Type); t == nil || t.String() != "*go/ast.ImportSpec" {
			continue
		}
		found = true
		readsName := false
		ast.Inspect(fd.Body, func(x ast.Node) bool {
			if se, ok := x.(*ast.SelectorExpr); ok && se.Sel.Name == "Name" {
				if inner, ok := se.X.(*ast.SelectorExpr); ok && inner.Sel.Name == "Name" {
					readsName = true
				}
			}
			return true
		})
		c.check(readsName, rule, funcKey(p, fd)+"|returns-spec-name", c.pos(fd.Pos()), "the alias is read from the import spec", fd.Name.Name+" no longer reads <spec>.Name.Name: aliases are dropped")
	}
	if !found {
		c.viol(rule, "anchor-lost:import-spec-splitter", "", "no function taking an *ast.ImportSpec found in cmd/templ/imports")
	}
	c.count("import_rewrite_calls", n)
	c.floor(rule, 2) // (the edits may share one helper that applies them)
}

// derivedFlagsFresh: C08.R7 — a boolean field that the parser derives from the content of a sibling field is derived
// from the value that field finally has: the formatter prints the final value and chooses quoting / layout by the flag.
func derivedFlagsFresh(c *Ctx, rule string) {
	pp := c.pkg("parser/v2")
	info := pp.TypesInfo
	n := 0
	for _, fdScope := range fileScopes(pp) {
		body := struct {
			node ast.Node
			name string
		}{fdScope.Body, pp.PkgPath + "." + fdScope.Name.Name}
		if fdScope.Recv != nil {
			body.name = funcKey(pp, fdScope)
		}
		type deriv struct {
			base       types.Object
			flag, from string
			pos        token.Pos
			node       *ast.AssignStmt
		}
		var derivs []deriv
		type store struct {
			base  types.Object
			field string
			pos   token.Pos
		}
		var stores []store
		ast.Inspect(body.node, func(x ast.Node) bool {
			as, ok := x.(*ast.AssignStmt)
			if !ok {
				return true
			}
			for i, l := range as.Lhs {
				se, ok := l.(*ast.SelectorExpr)
				if !ok {
					continue
				}
				bid, ok := se.X.(*ast.Ident)
				if !ok {
					continue
				}
				base := info.ObjectOf(bid)
				stores = append(stores, store{base, se.Sel.Name, as.Pos()})
				if t := info.TypeOf(se); t == nil || t.String() != "bool" || len(as.Rhs) != len(as.Lhs) {
					continue
				}
				ast.Inspect(as.Rhs[i], func(y ast.Node) bool {
					if rs, ok := y.(*ast.SelectorExpr); ok {
						if rid, ok := rs.X.(*ast.Ident); ok && info.ObjectOf(rid) == base && rs.Sel.Name != se.Sel.Name {
							if t := info.TypeOf(rs); t != nil && t.String() == "string" {
								derivs = append(derivs, deriv{base, se.Sel.Name, rs.Sel.Name, as.Pos(), as})
							}
						}
					}
					return true
				})
			}
			return true
		})
		for _, d := range derivs {
			n++
			stale := ""
			for _, s := range stores {
				if s.base == d.base && s.field == d.from && s.pos > d.pos {
					// re-derived afterwards?
					re := false
					for _, d2 := range derivs {
						if d2.base == d.base && d2.flag == d.flag && d2.from == d.from && d2.pos > s.pos {
							re = true
						}
					}
					if !re {
						stale = c.pos(s.pos)
					}
				}
			}
			key := fmt.Sprintf("%s|%s-derived-from-final-%s", body.name, d.flag, d.from)
			c.check(stale == "", rule, key, c.pos(d.pos), "."+d.flag+" is computed from the final value of ."+d.from,
				fmt.Sprintf("%s: .%s is computed from .%s, but .%s is assigned again afterwards (%s) and the flag is not recomputed: the formatter writes the final .%s using a decision taken on an earlier text (e.g. a value whose quotes only appear after decoding is wrapped in the wrong quote character and no longer parses)", body.name, d.flag, d.from, d.from, stale, d.from))
		}
	}
	// the same staleness with the flag carried by something else: the node's text field receives a TRANSFORMED value
	// (Y.F = g(A), A not Y.F itself) while the node's flag is decided on A — directly, through a boolean local or the
	// flag of another struct, or as a second result of the helper that produced A.
	helperDerives := func(call *ast.CallExpr, i, j int) bool {
		// result j of the called package function is computed from its result i
		fn := calleeOf(info, call)
		if fn == nil || fn.Pkg() != pp.Types {
			return false
		}
		for _, hfd := range allFuncDecls(pp) {
			if info.Defs[hfd.Name] != types.Object(fn) || hfd.Body == nil {
				continue
			}
			var resNames []types.Object
			if hfd.Type.Results != nil {
				for _, f := range hfd.Type.Results.List {
					for _, nm := range f.Names {
						resNames = append(resNames, info.Defs[nm])
					}
				}
			}
			mentionsObj := func(e ast.Expr, ob types.Object) bool {
				hit := false
				ast.Inspect(e, func(m ast.Node) bool {
					if id, ok := m.(*ast.Ident); ok && ob != nil && info.ObjectOf(id) == ob {
						hit = true
					}
					return !hit
				})
				return hit
			}
			derives := false
			ast.Inspect(hfd.Body, func(m ast.Node) bool {
				switch st := m.(type) {
				case *ast.ReturnStmt:
					if i < len(st.Results) && j < len(st.Results) {
						if id, ok := ast.Unparen(st.Results[i]).(*ast.Ident); ok {
							if _, isVar := info.ObjectOf(id).(*types.Var); isVar && mentionsObj(st.Results[j], info.ObjectOf(id)) {
								derives = true
							}
							// … or through a boolean local assigned from an expression over result i's variable
							if jid, ok := ast.Unparen(st.Results[j]).(*ast.Ident); ok {
								ast.Inspect(hfd.Body, func(q ast.Node) bool {
									if as, ok := q.(*ast.AssignStmt); ok && len(as.Lhs) == len(as.Rhs) {
										for k, l := range as.Lhs {
											if lid, ok := l.(*ast.Ident); ok && info.ObjectOf(lid) == info.ObjectOf(jid) && mentionsObj(as.Rhs[k], info.ObjectOf(id)) {
												derives = true
											}
										}
									}
									return true
								})
							}
						}
					}
				case *ast.AssignStmt:
					if i < len(resNames) && j < len(resNames) && len(st.Lhs) == len(st.Rhs) {
						for k, l := range st.Lhs {
							if lid, ok := l.(*ast.Ident); ok && info.ObjectOf(lid) == resNames[j] && mentionsObj(st.Rhs[k], resNames[i]) {
								derives = true
							}
						}
					}
				}
				return true
			})
			return derives
		}
		return false
	}
	np := 0
	for _, sc := range fileScopes(pp) {
		name := pp.PkgPath + "." + sc.Name.Name
		if sc.Recv != nil {
			name = funcKey(pp, sc)
		}
		type fieldStore struct {
			base  types.Object
			field string
			lhs   *ast.SelectorExpr
			as    *ast.AssignStmt
			idx   int
		}
		var stores []fieldStore
		ast.Inspect(sc.Body, func(x ast.Node) bool {
			as, ok := x.(*ast.AssignStmt)
			if !ok {
				return true
			}
			for i, l := range as.Lhs {
				if se, ok := ast.Unparen(l).(*ast.SelectorExpr); ok {
					if bid, ok := ast.Unparen(se.X).(*ast.Ident); ok {
						stores = append(stores, fieldStore{info.ObjectOf(bid), se.Sel.Name, se, as, i})
					}
				}
			}
			return true
		})
		rhsOf := func(st fieldStore) ast.Expr {
			if len(st.as.Rhs) == len(st.as.Lhs) {
				return st.as.Rhs[st.idx]
			}
			return nil
		}
		for _, tf := range stores {
			// Y.F = g(A): a string field assigned the result of a call over A (an identifier or X.F'), A ≠ Y.F
			ft := info.TypeOf(tf.lhs)
			r := rhsOf(tf)
			if ft == nil || ft.String() != "string" || r == nil {
				continue
			}
			gcall, ok := ast.Unparen(r).(*ast.CallExpr)
			if !ok || len(gcall.Args) != 1 {
				continue
			}
			if tv, isConv := info.Types[gcall.Fun]; isConv && tv.IsType() {
				continue
			}
			aKey := types.ExprString(ast.Unparen(gcall.Args[0]))
			if aKey == types.ExprString(tf.lhs) {
				continue
			}
			switch ast.Unparen(gcall.Args[0]).(type) {
			case *ast.Ident, *ast.SelectorExpr:
			default:
				continue
			}
			// (a field of a carrier struct is the same field in whichever function literal of the package it is written)
			fieldOf := func(ex ast.Expr) types.Object {
				if se, ok := ast.Unparen(ex).(*ast.SelectorExpr); ok {
					if sel, ok := info.Selections[se]; ok && sel.Kind() == types.FieldVal {
						if _, local := ast.Unparen(se.X).(*ast.Ident); local {
							return sel.Obj()
						}
					}
				}
				return nil
			}
			keyField := map[string]types.Object{aKey: fieldOf(gcall.Args[0])}
			mentionsKey := func(e ast.Expr, key string) bool {
				hit := false
				ast.Inspect(e, func(m ast.Node) bool {
					if ex, ok := m.(ast.Expr); ok {
						switch ex.(type) {
						case *ast.Ident, *ast.SelectorExpr:
							if types.ExprString(ex) == key {
								hit = true
							}
							if kf := keyField[key]; kf != nil && key != types.ExprString(tf.lhs) && fieldOf(ex) == kf {
								hit = true
							}
						}
					}
					return !hit
				})
				return hit
			}
			// the flags of the same node
			for _, bf := range stores {
				if bf.base != tf.base || bf.field == tf.field {
					continue
				}
				bt := info.TypeOf(bf.lhs)
				if bt == nil || bt.String() != "bool" {
					continue
				}
				// decided on A?
				var decidedOn func(e ast.Expr, depth int) bool
				decidedOn = func(e ast.Expr, depth int) bool {
					if e == nil || depth > 3 {
						return false
					}
					if mentionsKey(e, aKey) {
						return true
					}
					// boolean carriers: locals and fields of other structs assigned in this scope
					found := false
					ast.Inspect(e, func(m ast.Node) bool {
						ex, ok := m.(ast.Expr)
						if !ok {
							return true
						}
						switch ex.(type) {
						case *ast.Ident, *ast.SelectorExpr:
						default:
							return true
						}
						if t := info.TypeOf(ex); t == nil || t.String() != "bool" {
							return true
						}
						key := types.ExprString(ex)
						if key == types.ExprString(bf.lhs) {
							return true
						}
						carrierField := fieldOf(ex)
						searchIn := []ast.Node{sc.Body}
						if carrierField != nil {
							searchIn = nil
							for _, other := range fileScopes(pp) {
								searchIn = append(searchIn, other.Body)
							}
						}
						for _, root := range searchIn {
							ast.Inspect(root, func(q ast.Node) bool {
								as, ok := q.(*ast.AssignStmt)
								if !ok {
									return true
								}
								for k, l := range as.Lhs {
									if carrierField != nil {
										if fieldOf(l) != carrierField || ast.Unparen(l) == ast.Expr(bf.lhs) {
											continue
										}
									} else if types.ExprString(ast.Unparen(l)) != key {
										continue
									}
									if len(as.Lhs) == len(as.Rhs) {
										if decidedOn(as.Rhs[k], depth+1) {
											found = true
										}
									}
								}
								return true
							})
						}
						return !found
					})
					return found
				}
				stale := false
				if r2 := rhsOf(bf); r2 != nil {
					stale = decidedOn(r2, 0)
				} else if len(bf.as.Rhs) == 1 {
					// a tuple from a helper: is A assigned by the same tuple, and does the helper derive the flag from it?
					if hc, ok := ast.Unparen(bf.as.Rhs[0]).(*ast.CallExpr); ok {
						for k, l := range bf.as.Lhs {
							if types.ExprString(ast.Unparen(l)) == aKey && helperDerives(hc, k, bf.idx) {
								stale = true
							}
						}
					}
				}
				if !stale {
					continue
				}
				// re-derived from the final Y.F afterwards?
				re := false
				for _, bf2 := range stores {
					if bf2.base == bf.base && bf2.field == bf.field && bf2.as.Pos() > tf.as.Pos() {
						if r3 := rhsOf(bf2); r3 != nil && mentionsKey(r3, types.ExprString(tf.lhs)) {
							re = true
						}
					}
				}
				np++
				c.check(re, rule, fmt.Sprintf("%s|%s-decided-on-what-%s-holds", name, bf.field, tf.field), c.pos(bf.as.Pos()), "."+bf.field+" is recomputed from the final ."+tf.field,
					fmt.Sprintf("%s: .%s is decided on %s, but .%s is assigned %s — a transformed text. The formatter prints .%s and chooses by .%s: a value whose quotes only appear after decoding (&quot;) is wrapped in the wrong quote character, and the formatted file no longer parses", name, bf.field, aKey, tf.field, types.ExprString(r), tf.field, bf.field))
			}
		}
	}
	c.count("flags_decided_on_a_pre-image", np)
	c.count("derived_flag_assignments", n)
	if n == 0 && np > 0 {
		return // the derivation exists, in the carried form: its anchor is the obligation just recorded
	}
	c.floor(rule, 1)
}

// layoutFlagAfterWhitespace: C08.R9 — a layout flag that records "the construct spans several lines" is decided after
// the whitespace in front of the closing delimiter has been consumed. Decided earlier, a construct whose only line
// break is that whitespace is taken for a single-line one and re-written on one line — and when its last line ends in
// a // comment, the closing delimiter ends up inside the comment and the formatted file does not parse.
func layoutFlagAfterWhitespace(c *Ctx, rule string) {
	pp := c.pkg("parser/v2")
	info := pp.TypesInfo
	n := 0
	for _, sc := range fileScopes(pp) {
		var bodies []*ast.BlockStmt
		ast.Inspect(sc.Body, func(x ast.Node) bool {
			if fl, ok := x.(*ast.FuncLit); ok {
				bodies = append(bodies, fl.Body)
			}
			return true
		})
		bodies = append(bodies, sc.Body)
		for _, body := range bodies {
			for i, st := range body.List {
				is, ok := st.(*ast.IfStmt)
				if !ok {
					continue
				}
				// if <saved line> != <input>.Position().Line { <x>.Multiline = true }
				be, ok := is.Cond.(*ast.BinaryExpr)
				if !ok || be.Op != token.NEQ || !strings.HasSuffix(types.ExprString(be.Y), ".Position().Line") && !strings.HasSuffix(types.ExprString(be.X), ".Position().Line") {
					continue
				}
				flag := ""
				for _, bs := range is.Body.List {
					if as, ok := bs.(*ast.AssignStmt); ok && len(as.Lhs) == 1 {
						if se, ok := as.Lhs[0].(*ast.SelectorExpr); ok && types.ExprString(as.Rhs[0]) == "true" {
							if t := info.TypeOf(se); t != nil && t.String() == "bool" {
								// only constructs that hold Go source (a // comment can end their last line)
								holdsGo := false
								if st, ok := info.TypeOf(se.X).Underlying().(*types.Struct); ok {
									for fi := 0; fi < st.NumFields(); fi++ {
										if nt, ok := st.Field(fi).Type().(*types.Named); ok && nt.Obj().Name() == "Expression" {
											holdsGo = true
										}
									}
								}
								if holdsGo {
									flag = se.Sel.Name
								}
							}
						}
					}
				}
				if flag == "" {
					continue
				}
				n++
				late := ""
				for _, later := range body.List[i+1:] {
					consumesWS := false
					ast.Inspect(later, func(y ast.Node) bool {
						if call, ok := y.(*ast.CallExpr); ok {
							if se, ok := call.Fun.(*ast.SelectorExpr); ok && se.Sel.Name == "Parse" && strings.Contains(types.ExprString(se.X), "Whitespace") {
								consumesWS = true
							}
						}
						return true
					})
					if consumesWS {
						late = c.pos(later.Pos())
						break
					}
					// stop at the first statement that parses something else (the closing delimiter)
					parses := false
					ast.Inspect(later, func(y ast.Node) bool {
						if call, ok := y.(*ast.CallExpr); ok {
							if se, ok := call.Fun.(*ast.SelectorExpr); ok && se.Sel.Name == "Parse" {
								parses = true
							}
						}
						return true
					})
					if parses {
						break
					}
				}
				c.check(late == "", rule, fmt.Sprintf("%s|%s-decided-after-trailing-whitespace", funcKey(pp, sc), flag), c.pos(is.Pos()), "."+flag+" is decided after the whitespace before the closing delimiter was read",
					fmt.Sprintf("%s decides .%s and only then consumes whitespace (%s) in front of the closing delimiter: a line break there is not counted, the formatter joins the construct onto one line, and when the last line ends in a // comment the closing delimiter lands inside the comment (`{{ x := 1 // note` + newline + `}}` becomes `{{ x := 1 // note }}`, which does not parse)", sc.Name.Name, flag, late))
			}
		}
	}
	c.count("line_span_flag_decisions", n)
	c.floor(rule, 1)
}
