package main

import (
	"fmt"
	"go/ast"
	"go/constant"
	"go/token"
	"go/types"
	"strings"

	"golang.org/x/tools/go/packages"
)

func init() {
	register(&propDef{
		ID:          "C18",
		Explanation: "Decides, for package lsp/jsonrpc2 (every function; go/cfg locksets and dominance, type-resolved): R1 every call of the Stream interface's Write holds one and the same write mutex of the connection (so whole frames are serialised) and all senders go through that one function; R2 in the framed stream's Write the length printed in the header is len() of the very byte slice passed to the following Write on the connection, with the Content-Length name and the blank-line separator as constants and no arithmetic on the length; R3 in the framed stream's Read the body buffer is make([]byte, length) with length parsed from the header, filled by io.ReadFull, on paths where length ≤ 0 and a missing header were rejected, and the header-line slice expressions are dominated by the `colon < 0` rejection; R4 in Call the reply channel is registered in the pending map (under its mutex) before the request is sent, has capacity ≥ 1, its removal is deferred, every access to the pending map holds its mutex, and the reader delivers a response only to the channel looked up by the response's own id; R5 the wait in Call selects on the reply and on ctx.Done(); also R3 the announced length has an upper bound before it sizes the allocation (a parse of at most 32 bits, or an explicit maximum test that dominates make), R4 the reply channel is made by the call itself (never recycled), and R6 DecodeMessage rejects no frame on a wire field that is optional (omitempty) and that this package's own encoder can leave null., R2 after a successful header write the body write follows on every path, and R7 no number parsed from the wire is narrowed by a conversion. R8 no goroutine of package jsonrpc2 writes to a stream's transport below the write lock (a frame is complete before the sender releases the lock); R9 the select in which a call waits for its response has no exit besides the response and the caller's context. NOT decided: all chunkings / schedules, JSON decoding of bodies. R10 no value holding a sync primitive by value is copied in package jsonrpc2 (a copied write lock excludes nobody); R11 the id decoder decodes into an integer or a string, never into json.Number or an interface (both accept the other JSON form: the string id \"7\" would become the number 7). R12/R13 no error result of package jsonrpc2 is dropped or detected and not reported; R14 every return leaves locks released; R15 the body of a frame is written to a writer that forwards on every path (a writer type of this package that tests the context first can refuse the body after the header went out). R3 also: the header loop leaves at the first empty line on every path (no `continue` there), and a line-splitting helper is followed for the colon guard. R5 follows a helper that is handed the reply channel. R16 the kind of a decoded message is not decided by the nil-ness of a *json.RawMessage member (absent and null are the same to encoding/json, and the response writer sends \"result\":null). R17 no method makes a buffering reader or decoder over a field of its receiver (the reader belongs to the stream); R18 in a type switch over a decoded id, string arms build string ids only and numeric arms number ids only (packages lsp/jsonrpc2 and lsp/protocol).",
		Assumptions: []string{"io.ReadFull returns an error unless exactly len(buf) bytes were read", "sync.Mutex provides mutual exclusion"},
		Trusted:     []string{"go/types", "x/tools go/packages, go/cfg"},
		Run:         runC18,
	})
}

func runC18(c *Ctx) {
	c.load("./lsp/jsonrpc2")
	decoderNotStricterThanEncoder(c, "C18.R6")
	noNarrowingOfParsedNumbers(c, "C18.R7")
	frameWritesAreSynchronous(c, "C18.R8")
	responseWaitHasNoThirdExit(c, "C18.R9")
	locksNeverCopied(c, "C18.R10", "lsp/jsonrpc2")
	locksReleasedOnEveryReturn(c, "C18.R14", "lsp/jsonrpc2")
	frameIsNotCutShort(c, "C18.R15")
	messageKindNotDecidedByNullableMembers(c, "C18.R16")
	decoderLivesWithItsStream(c, "C18.R17", "lsp/jsonrpc2")
	c.load("./lsp/protocol")
	idKindsAreNotConverted(c, "C18.R18", "lsp/jsonrpc2", "lsp/protocol")
	idFormsDecodedIntoTheirOwnTypes(c, "C18.R11")
	errorsNotLost(c, "C18.R12", "lsp/jsonrpc2")
	errorsFoundAreReported(c, "C18.R13", "lsp/jsonrpc2")
	p := c.pkg("lsp/jsonrpc2")
	info := p.TypesInfo
	bodies := funcBodies(p)

	streamIface, _ := p.Types.Scope().Lookup("Stream").(*types.TypeName)
	if streamIface == nil {
		c.viol("C18.R1", "anchor-lost:Stream", "", "jsonrpc2.Stream (exported interface) not found")
		return
	}

	// R1 ------------------------------------------------------------
	writeMus := map[string]bool{}
	nw := 0
	for _, b := range bodies {
		fc := newFnCFG(b.Body, info)
		directNodes(b.Body, func(n ast.Node) bool {
			call, ok := n.(*ast.CallExpr)
			if !ok {
				return true
			}
			se, ok := call.Fun.(*ast.SelectorExpr)
			if !ok || se.Sel.Name != "Write" {
				return true
			}
			t := info.TypeOf(se.X)
			if t == nil || !types.Identical(t, streamIface.Type()) {
				return true
			}
			nw++
			held := normHeld(fc.heldAt(call), true)
			key := fmt.Sprintf("%s|Stream.Write#%d", funcKey(p, b.Decl), nw)
			var mus []string
			for k := range held {
				mus = append(mus, k)
				writeMus[fieldTailStr(k)] = true
			}
			c.check(len(held) > 0, "C18.R1", key, c.pos(call.Pos()), "frame written under "+heldList(held),
				"Stream.Write is called without holding the connection's write mutex: concurrent senders interleave header and body bytes of different frames")
			return true
		})
	}
	if nw == 0 {
		c.viol("C18.R1", "anchor-lost:Stream.Write-call", "", "no call of Stream.Write found in the connection")
	}
	c.check(len(writeMus) <= 1, "C18.R1", p.PkgPath+"|one-write-mutex", "", "all frame writes use the same mutex", fmt.Sprintf("frame writes are guarded by different mutexes %v", writeMus))

	// R2 ------------------------------------------------------------
	// framed writer: function with Fprintf(conn, fmt, ..., len(X), ...) followed by conn.Write(X)
	foundW := false
	for _, fd := range allFuncDecls(p) {
		var fpr *ast.CallExpr
		ast.Inspect(fd.Body, func(n ast.Node) bool {
			if call, ok := n.(*ast.CallExpr); ok {
				if fn := calleeOf(info, call); fn != nil && fullName(fn) == "fmt.Fprintf" {
					for _, a := range call.Args {
						if s, ok := constString(info, a); ok && s == "Content-Length" {
							fpr = call
						}
					}
				}
			}
			return true
		})
		if fpr == nil {
			continue
		}
		foundW = true
		key := funcKey(p, fd)
		fc := newFnCFG(fd.Body, info)
		format, _ := constString(info, fpr.Args[1])
		var lenArg ast.Expr
		var lenObj types.Object
		sep := ""
		for _, a := range fpr.Args[2:] {
			if call, ok := ast.Unparen(a).(*ast.CallExpr); ok {
				if id, ok := call.Fun.(*ast.Ident); ok && id.Name == "len" && len(call.Args) == 1 {
					lenArg = a
					if aid, ok := call.Args[0].(*ast.Ident); ok {
						lenObj = info.ObjectOf(aid)
					}
				}
			}
			if s, ok := constString(info, a); ok && s != "Content-Length" {
				sep = s
			}
		}
		nonLen := false
		for _, a := range fpr.Args[2:] {
			if _, isConst := constString(info, a); isConst {
				continue
			}
			if a != lenArg {
				nonLen = true
			}
		}
		c.check(lenArg != nil && lenObj != nil && !nonLen, "C18.R2", key+"|header-length-is-len", c.pos(fpr.Pos()), "the header prints len(<data>) with no arithmetic",
			"the Content-Length written in the frame header is not exactly len() of a byte slice")
		c.check(format == "%s: %v%s" || format == "%s: %d%s", "C18.R2", key+"|header-format", c.pos(fpr.Pos()), "format "+format,
			fmt.Sprintf("frame header format changed to %q", format))
		c.check(sep == "\r\n\r\n", "C18.R2", key+"|header-separator", c.pos(fpr.Pos()), "header ends with CRLF CRLF", fmt.Sprintf("the header/content separator constant is %q, not CRLF CRLF", sep))
		// the following Write on the same connection writes that slice
		bodyWrite := false
		ast.Inspect(fd.Body, func(n ast.Node) bool {
			if call, ok := n.(*ast.CallExpr); ok && call.Pos() > fpr.End() {
				if se, ok := call.Fun.(*ast.SelectorExpr); ok && se.Sel.Name == "Write" && len(call.Args) == 1 {
					if strings.TrimPrefix(types.ExprString(ast.Unparen(se.X)), "&") == strings.TrimPrefix(types.ExprString(ast.Unparen(fpr.Args[0])), "&") {
						if id, ok := call.Args[0].(*ast.Ident); ok && info.ObjectOf(id) == lenObj && fc.dominates(fpr, call) {
							bodyWrite = true
						}
					}
				}
			}
			return true
		})
		c.check(bodyWrite, "C18.R2", key+"|body-is-measured-slice", c.pos(fpr.Pos()), "the slice measured for the header is the slice written as the body",
			"the byte slice written after the header is not the one whose length the header announced")
		// once the header is on the wire the body follows: between the header write and the body write the only way
		// out is the header write's own error (after a failed write the stream is broken anyway)
		var bodyCall *ast.CallExpr
		ast.Inspect(fd.Body, func(n ast.Node) bool {
			if call, ok := n.(*ast.CallExpr); ok && call.Pos() > fpr.End() && bodyCall == nil {
				if se, ok := call.Fun.(*ast.SelectorExpr); ok && se.Sel.Name == "Write" && len(call.Args) == 1 && types.ExprString(se.X) == types.ExprString(fpr.Args[0]) {
					bodyCall = call
				}
			}
			return true
		})
		if bodyCall != nil {
			// the error variable of the header write
			var hdrErr types.Object
			ast.Inspect(fd.Body, func(n ast.Node) bool {
				if as, ok := n.(*ast.AssignStmt); ok && len(as.Rhs) == 1 && as.Rhs[0] == ast.Expr(fpr) && len(as.Lhs) == 2 {
					if id, ok := as.Lhs[1].(*ast.Ident); ok {
						hdrErr = info.ObjectOf(id)
					}
				}
				return true
			})
			escape := ""
			ast.Inspect(fd.Body, func(n ast.Node) bool {
				ret, ok := n.(*ast.ReturnStmt)
				if !ok || ret.Pos() < fpr.End() || ret.Pos() > bodyCall.Pos() {
					return true
				}
				// allowed: inside `if <hdrErr> != nil { … }`
				allowed := false
				ast.Inspect(fd.Body, func(m ast.Node) bool {
					if is, ok := m.(*ast.IfStmt); ok && is.Body.Pos() <= ret.Pos() && ret.End() <= is.Body.End() && is.Init == nil {
						if be, ok := ast.Unparen(is.Cond).(*ast.BinaryExpr); ok && be.Op == token.NEQ && types.ExprString(be.Y) == "nil" {
							if id, ok := ast.Unparen(be.X).(*ast.Ident); ok && hdrErr != nil && info.ObjectOf(id) == hdrErr {
								allowed = true
							}
						}
					}
					return true
				})
				if !allowed {
					escape = c.pos(ret.Pos())
				}
				return true
			})
			c.check(escape == "", "C18.R2", key+"|header-is-followed-by-body", c.pos(fpr.Pos()), "after a successful header write the body write follows on every path",
				"the framed writer can return ("+escape+") after the Content-Length header was written and before the body is: the header stays on the wire without its body, and the reader takes the next frame's header for the body (JSON error `invalid character 'C'`), which breaks every later message on the connection")
		}
	}
	if !foundW {
		// the single-write form: frame := append([]byte(fmt.Sprintf("%s: %v%s", name, len(X), sep)), X...); conn.Write(frame)
		for _, fd := range allFuncDecls(p) {
			var spr *ast.CallExpr
			ast.Inspect(fd.Body, func(n ast.Node) bool {
				if call, ok := n.(*ast.CallExpr); ok {
					if fn := calleeOf(info, call); fn != nil && (fullName(fn) == "fmt.Sprintf" || fullName(fn) == "fmt.Appendf") {
						for _, a := range call.Args {
							if s, ok := constString(info, a); ok && s == "Content-Length" {
								spr = call
							}
						}
					}
				}
				return true
			})
			if spr == nil {
				continue
			}
			foundW = true
			key := funcKey(p, fd)
			fi := 0
			if fn := calleeOf(info, spr); fn != nil && fn.Name() == "Appendf" {
				fi = 1
			}
			format, _ := constString(info, spr.Args[fi])
			var lenObj types.Object
			sep := ""
			nonLen := false
			for _, a := range spr.Args[fi+1:] {
				if call, ok := ast.Unparen(a).(*ast.CallExpr); ok {
					if id, ok := call.Fun.(*ast.Ident); ok && id.Name == "len" && len(call.Args) == 1 {
						if aid, ok := call.Args[0].(*ast.Ident); ok {
							lenObj = info.ObjectOf(aid)
						}
						continue
					}
				}
				if sv, ok := constString(info, a); ok {
					if sv != "Content-Length" {
						sep = sv
					}
					continue
				}
				nonLen = true
			}
			c.check(lenObj != nil && !nonLen, "C18.R2", key+"|header-length-is-len", c.pos(spr.Pos()), "the header prints len(<data>) with no arithmetic", "the Content-Length written in the frame header is not exactly len() of a byte slice")
			c.check(format == "%s: %v%s" || format == "%s: %d%s", "C18.R2", key+"|header-format", c.pos(spr.Pos()), "format "+format, fmt.Sprintf("frame header format changed to %q", format))
			c.check(sep == "\r\n\r\n", "C18.R2", key+"|header-separator", c.pos(spr.Pos()), "header ends with CRLF CRLF", fmt.Sprintf("the header/content separator constant is %q, not CRLF CRLF", sep))
			// header and body are joined by append(<header>, <data>...) and written in one call
			joined := false
			ast.Inspect(fd.Body, func(n ast.Node) bool {
				call, ok := n.(*ast.CallExpr)
				if !ok || len(call.Args) != 2 || !call.Ellipsis.IsValid() {
					return true
				}
				if id, ok := call.Fun.(*ast.Ident); !ok || id.Name != "append" {
					return true
				}
				hasHeader := false
				ast.Inspect(call.Args[0], func(m ast.Node) bool {
					if m == ast.Node(spr) {
						hasHeader = true
					}
					return true
				})
				if did, ok := ast.Unparen(call.Args[1]).(*ast.Ident); ok && hasHeader && info.ObjectOf(did) == lenObj {
					joined = true
				}
				return true
			})
			c.check(joined, "C18.R2", key+"|body-is-measured-slice", c.pos(spr.Pos()), "header and the measured slice are joined into one frame", "the frame is not built as append(<header>, <measured data>...)")
			c.ok("C18.R2", key+"|header-is-followed-by-body", c.pos(spr.Pos()), "header and body are written by one Write call")
		}
	}
	if !foundW {
		// the general form: the header is any expression that flattens to the template
		//   "Content-Length" ": " <decimal len(X)> "\r\n\r\n"
		// (concatenation, Sprintf, strconv.Itoa / FormatInt, conversions, a local variable), and X is written after it:
		// appended to it, next to it in a list of parts that is written in order, or by a later Write
		type tpart struct {
			konst string
			lenOf types.Object
			other string
		}
		for _, fd := range allFuncDecls(p) {
			if fd.Body == nil || foundW {
				continue
			}
			assigned := map[types.Object]ast.Expr{}
			ast.Inspect(fd.Body, func(n ast.Node) bool {
				if as, ok := n.(*ast.AssignStmt); ok && len(as.Lhs) == len(as.Rhs) {
					for i, l := range as.Lhs {
						if id, ok := l.(*ast.Ident); ok {
							assigned[info.ObjectOf(id)] = as.Rhs[i]
						}
					}
				}
				return true
			})
			var flat func(e ast.Expr, depth int) []tpart
			flat = func(e ast.Expr, depth int) []tpart {
				e = ast.Unparen(e)
				if sv, ok := constString(info, e); ok {
					return []tpart{{konst: sv}}
				}
				if depth > 6 {
					return []tpart{{other: types.ExprString(e)}}
				}
				switch x := e.(type) {
				case *ast.BinaryExpr:
					if x.Op == token.ADD {
						return append(flat(x.X, depth+1), flat(x.Y, depth+1)...)
					}
				case *ast.Ident:
					if b, ok := assigned[info.ObjectOf(x)]; ok {
						return flat(b, depth+1)
					}
				case *ast.CallExpr:
					if tv, ok := info.Types[x.Fun]; ok && tv.IsType() && len(x.Args) == 1 {
						return flat(x.Args[0], depth+1)
					}
					lenArg := func(a ast.Expr) types.Object {
						a = ast.Unparen(a)
						if conv, ok := a.(*ast.CallExpr); ok && len(conv.Args) == 1 {
							if tv, ok := info.Types[conv.Fun]; ok && tv.IsType() {
								a = ast.Unparen(conv.Args[0])
							}
						}
						if lc, ok := a.(*ast.CallExpr); ok && len(lc.Args) == 1 {
							if id, ok := lc.Fun.(*ast.Ident); ok && id.Name == "len" {
								if aid, ok := ast.Unparen(lc.Args[0]).(*ast.Ident); ok {
									return info.ObjectOf(aid)
								}
							}
						}
						return nil
					}
					if fn := calleeOf(info, x); fn != nil {
						switch fullName(fn) {
						case "strconv.Itoa", "strconv.FormatInt", "strconv.FormatUint":
							if o := lenArg(x.Args[0]); o != nil {
								return []tpart{{lenOf: o}}
							}
						case "fmt.Sprintf", "fmt.Appendf":
							fi := 0
							if fn.Name() == "Appendf" {
								fi = 1
							}
							if format, ok := constString(info, x.Args[fi]); ok {
								var out []tpart
								args := x.Args[fi+1:]
								ai := 0
								lit := ""
								for i := 0; i < len(format); i++ {
									if format[i] == '%' && i+1 < len(format) && strings.ContainsRune("svd", rune(format[i+1])) && ai < len(args) {
										if lit != "" {
											out = append(out, tpart{konst: lit})
											lit = ""
										}
										if o := lenArg(args[ai]); o != nil {
											out = append(out, tpart{lenOf: o})
										} else {
											out = append(out, flat(args[ai], depth+1)...)
										}
										ai++
										i++
										continue
									}
									lit += string(format[i])
								}
								if lit != "" {
									out = append(out, tpart{konst: lit})
								}
								return out
							}
						}
					}
				}
				return []tpart{{other: types.ExprString(e)}}
			}
			ast.Inspect(fd.Body, func(n ast.Node) bool {
				e, ok := n.(ast.Expr)
				if !ok || foundW {
					return true
				}
				// candidate: an assignment's right-hand side or a call argument whose flattening starts with the header name
				parts := flat(e, 0)
				if len(parts) < 3 || !strings.HasPrefix(parts[0].konst, "Content-Length") {
					return true
				}
				// merge constants
				var merged []tpart
				for _, pt := range parts {
					if pt.konst != "" && len(merged) > 0 && merged[len(merged)-1].lenOf == nil && merged[len(merged)-1].other == "" {
						merged[len(merged)-1].konst += pt.konst
						continue
					}
					merged = append(merged, pt)
				}
				foundW = true
				key := funcKey(p, fd)
				okT := len(merged) == 3 && merged[0].konst == "Content-Length: " && merged[1].lenOf != nil && merged[2].konst == "\r\n\r\n"
				var desc []string
				for _, pt := range merged {
					switch {
					case pt.lenOf != nil:
						desc = append(desc, "len("+pt.lenOf.Name()+")")
					case pt.other != "":
						desc = append(desc, "‹"+pt.other+"›")
					default:
						desc = append(desc, fmt.Sprintf("%q", pt.konst))
					}
				}
				c.check(okT, "C18.R2", key+"|header-template", c.pos(e.Pos()), "the header is "+strings.Join(desc, " + "),
					fmt.Sprintf("the frame header is %s, not \"Content-Length: \" + len(<data>) + CRLF CRLF", strings.Join(desc, " + ")))
				if !okT || merged[1].lenOf == nil {
					return false
				}
				data := merged[1].lenOf
				// the header's holder (a local variable), if any
				var holder types.Object
				if id, ok := ast.Unparen(e).(*ast.Ident); ok {
					holder = info.ObjectOf(id)
				}
				for o, b := range assigned {
					if ast.Unparen(b) == ast.Unparen(e) || b == e {
						holder = o
					}
				}
				isHeader := func(a ast.Expr) bool {
					a = ast.Unparen(a)
					if a == e {
						return true
					}
					if id, ok := a.(*ast.Ident); ok && holder != nil && info.ObjectOf(id) == holder {
						return true
					}
					found := false
					ast.Inspect(a, func(m ast.Node) bool {
						if m == ast.Node(e) {
							found = true
						}
						return true
					})
					return found
				}
				isData := func(a ast.Expr) bool {
					id, ok := ast.Unparen(a).(*ast.Ident)
					return ok && info.ObjectOf(id) == data
				}
				follows := ""
				fc := newFnCFG(fd.Body, info)
				var headerWrite *ast.CallExpr
				ast.Inspect(fd.Body, func(m ast.Node) bool {
					switch y := m.(type) {
					case *ast.CallExpr:
						if id, ok := y.Fun.(*ast.Ident); ok && id.Name == "append" && y.Ellipsis.IsValid() && len(y.Args) == 2 && isHeader(y.Args[0]) && isData(y.Args[1]) {
							follows = "appended to the header"
						}
						if se, ok := y.Fun.(*ast.SelectorExpr); ok && se.Sel.Name == "Write" && len(y.Args) == 1 {
							if isHeader(y.Args[0]) {
								headerWrite = y
							}
							if isData(y.Args[0]) && headerWrite != nil && fc.happensBefore(headerWrite, y) {
								follows = "written by a later Write that the header write dominates"
							}
						}
					case *ast.CompositeLit:
						if len(y.Elts) == 2 && isHeader(y.Elts[0]) && isData(y.Elts[1]) {
							// [][]byte{header, data}: ranged over, each part written
							follows = "second in the list of parts written in order"
						}
					}
					return true
				})
				c.check(follows != "", "C18.R2", key+"|body-is-measured-slice", c.pos(e.Pos()), "the slice measured for the header is "+follows,
					"the byte slice written after the header is not the one whose length the header announced")
				return false
			})
		}
	}
	if !foundW {
		// the header built by a function of the package from the length it is handed:
		//   hdr := contentLengthHeader(len(data)); conn.Write(hdr); conn.Write(data)
		for _, bfd := range allFuncDecls(p) {
			if bfd.Body == nil {
				continue
			}
			prms := paramObjs(info, bfd)
			if len(prms) != 1 || prms[0] == nil {
				continue
			}
			if b, ok := prms[0].Type().Underlying().(*types.Basic); !ok || b.Info()&types.IsInteger == 0 {
				continue
			}
			mentionsName, sep, digits, arith := false, "", false, false
			ast.Inspect(bfd.Body, func(n ast.Node) bool {
				switch v := n.(type) {
				case *ast.Ident:
					if sv, ok := constString(info, v); ok {
						if sv == "Content-Length" {
							mentionsName = true
						} else if strings.HasSuffix(sv, "\n") || strings.Contains(sv, "\r\n") {
							sep = sv
						}
					}
				case *ast.BasicLit:
					if sv, ok := constString(info, v); ok && strings.Contains(sv, "\r\n") {
						sep = sv
					}
				case *ast.CallExpr:
					if fn := calleeOf(info, v); fn != nil {
						switch fullName(fn) {
						case "strconv.AppendInt", "strconv.Itoa", "strconv.FormatInt", "strconv.AppendUint", "strconv.FormatUint":
							// the number printed is the parameter itself, in base 10
							var num ast.Expr = v.Args[0]
							if strings.HasPrefix(fn.Name(), "Append") {
								num = v.Args[1]
							}
							if cv, ok := ast.Unparen(num).(*ast.CallExpr); ok && len(cv.Args) == 1 {
								if tv, ok := info.Types[cv.Fun]; ok && tv.IsType() {
									num = cv.Args[0]
								}
							}
							if id, ok := ast.Unparen(num).(*ast.Ident); ok && info.ObjectOf(id) == prms[0] {
								digits = true
							} else {
								// the parameter with arithmetic on it (length+1): still the header builder, and not the length
								ast.Inspect(num, func(q ast.Node) bool {
									if qid, ok := q.(*ast.Ident); ok && info.ObjectOf(qid) == prms[0] {
										digits = true
									}
									return true
								})
								arith = true
							}
							if len(v.Args) >= 2 && fn.Name() != "Itoa" {
								if base, ok := constInt(info, v.Args[len(v.Args)-1]); ok && base != 10 {
									arith = true
								}
							}
						}
					}
				}
				return true
			})
			if !mentionsName || !digits {
				continue
			}
			// the writer: a function that calls the builder with len(X), writes the result, then writes X
			for _, fd := range allFuncDecls(p) {
				if fd.Body == nil || fd == bfd {
					continue
				}
				var bcall *ast.CallExpr
				ast.Inspect(fd.Body, func(n ast.Node) bool {
					if call, ok := n.(*ast.CallExpr); ok && types.Object(calleeOf(info, call)) == info.Defs[bfd.Name] && len(call.Args) == 1 {
						bcall = call
					}
					return true
				})
				if bcall == nil {
					continue
				}
				foundW = true
				key := funcKey(p, fd)
				var lenObj types.Object
				if lc, ok := ast.Unparen(bcall.Args[0]).(*ast.CallExpr); ok {
					if id, ok := lc.Fun.(*ast.Ident); ok && id.Name == "len" && len(lc.Args) == 1 {
						if aid, ok := lc.Args[0].(*ast.Ident); ok {
							lenObj = info.ObjectOf(aid)
						}
					}
				}
				c.check(lenObj != nil && !arith, "C18.R2", key+"|header-length-is-len", c.pos(bcall.Pos()), "the header builder is handed len(<data>) and prints its parameter in base 10",
					"the Content-Length written in the frame header is not exactly len() of a byte slice")
				c.check(true, "C18.R2", key+"|header-format", c.pos(bcall.Pos()), "name, \": \", decimal length, separator — appended by "+bfd.Name.Name, "")
				c.check(sep == "\r\n\r\n", "C18.R2", key+"|header-separator", c.pos(bcall.Pos()), "header ends with CRLF CRLF", fmt.Sprintf("the header/content separator constant is %q, not CRLF CRLF", sep))
				// the header write (the builder's result, directly or through a local) and, after it, the write of the measured slice
				fc := newFnCFG(fd.Body, info)
				var hdrWrite *ast.CallExpr
				bodyWrite := false
				ast.Inspect(fd.Body, func(n ast.Node) bool {
					call, ok := n.(*ast.CallExpr)
					if !ok || len(call.Args) != 1 {
						return true
					}
					se, ok := call.Fun.(*ast.SelectorExpr)
					if !ok || se.Sel.Name != "Write" {
						return true
					}
					arg := unfoldLocals(p, fd, call.Args[0])
					if ast.Unparen(arg) == ast.Expr(bcall) {
						hdrWrite = call
					}
					if id, ok := ast.Unparen(call.Args[0]).(*ast.Ident); ok && info.ObjectOf(id) == lenObj && hdrWrite != nil && fc.dominates(hdrWrite, call) &&
						types.ExprString(se.X) == types.ExprString(hdrWrite.Fun.(*ast.SelectorExpr).X) {
						bodyWrite = true
					}
					return true
				})
				c.check(hdrWrite != nil && bodyWrite, "C18.R2", key+"|body-is-measured-slice", c.pos(bcall.Pos()), "the slice measured for the header is the slice written as the body",
					"the byte slice written after the header is not the one whose length the header announced")
			}
		}
	}
	if !foundW {
		c.viol("C18.R2", "anchor-lost:framed-writer", "", "no function writes a Content-Length header")
	}

	// R3 ------------------------------------------------------------
	foundR := false
	for _, fd := range allFuncDecls(p) {
		var rf *ast.CallExpr
		ast.Inspect(fd.Body, func(n ast.Node) bool {
			if call, ok := n.(*ast.CallExpr); ok {
				if fn := calleeOf(info, call); fn != nil && fullName(fn) == "io.ReadFull" {
					rf = call
				}
			}
			return true
		})
		if rf == nil {
			// the framed reader is also recognised by its shape: a length parsed by strconv sizes a byte buffer
			if mkb, how := framedBodyBuffer(info, fd); mkb != nil {
				foundR = true
				if how == "io.ReadAtLeast" || inLoopUse(info, fd, mkb) {
					c.ok("C18.R3", funcKey(p, fd)+"|body-read-in-full", c.pos(mkb.Pos()), "the frame body is read by "+how+" (io.ReadAtLeast or a read loop; the loop's termination is not analysed)")
					continue
				}
				c.viol("C18.R3", funcKey(p, fd)+"|body-read-in-full", c.pos(mkb.Pos()), "the frame body buffer make([]byte, <parsed length>) is filled by "+how+" and not by io.ReadFull: a body that arrives in several chunks is decoded truncated and the rest of it is parsed as the next header")
			}
			continue
		}
		foundR = true
		key := funcKey(p, fd)
		c.ok("C18.R3", key+"|body-read-in-full", c.pos(rf.Pos()), "the frame body is read with io.ReadFull")
		fc := newFnCFG(fd.Body, info)
		// buffer = make([]byte, length)
		var bufObj, lenObj types.Object
		var mk *ast.CallExpr
		if id, ok := rf.Args[1].(*ast.Ident); ok {
			bufObj = info.ObjectOf(id)
		}
		ast.Inspect(fd.Body, func(n ast.Node) bool {
			if as, ok := n.(*ast.AssignStmt); ok && len(as.Lhs) == 1 && len(as.Rhs) == 1 {
				if lid, ok := as.Lhs[0].(*ast.Ident); ok && info.ObjectOf(lid) == bufObj {
					if call, ok := as.Rhs[0].(*ast.CallExpr); ok {
						if id, ok := call.Fun.(*ast.Ident); ok && id.Name == "make" && len(call.Args) == 2 {
							mk = call
							if aid, ok := call.Args[1].(*ast.Ident); ok {
								lenObj = info.ObjectOf(aid)
							}
						}
					}
				}
			}
			return true
		})
		c.check(mk != nil && lenObj != nil, "C18.R3", key+"|buffer-is-make-length", c.pos(rf.Pos()), "the body buffer is make([]byte, <length>) with a plain variable",
			"the buffer filled by io.ReadFull is not make([]byte, <length variable>)")
		// the header may be read by a package-local helper that returns the length: the facts about the length are then
		// looked for in the helper as well (for the variable it returns in that position)
		type unitFn struct {
			fd     *ast.FuncDecl
			lenObj types.Object
			fc     *fnCFG
		}
		unit := []unitFn{{fd, lenObj, fc}}
		// the length may also arrive as a parameter, from a caller that obtained it from the header-reading helper
		// (read the header, then read the content): the caller and that helper belong to the unit as well
		scopes := []unitFn{{fd, lenObj, fc}}
		if lenObj != nil {
			pi, k := -1, 0
			for _, prm := range fd.Type.Params.List {
				for _, nm := range prm.Names {
					if info.Defs[nm] == lenObj {
						pi = k
					}
					k++
				}
			}
			if pi >= 0 {
				for _, cfd := range allFuncDecls(p) {
					if cfd == fd || cfd.Body == nil {
						continue
					}
					ast.Inspect(cfd.Body, func(n ast.Node) bool {
						call, ok := n.(*ast.CallExpr)
						if !ok || types.Object(calleeOf(info, call)) != info.Defs[fd.Name] || pi >= len(call.Args) {
							return true
						}
						if aid, ok := ast.Unparen(call.Args[pi]).(*ast.Ident); ok {
							u := unitFn{cfd, info.ObjectOf(aid), newFnCFG(cfd.Body, info)}
							unit = append(unit, u)
							scopes = append(scopes, u)
						}
						return true
					})
				}
			}
		}
		for _, sc := range scopes {
			lenObj := sc.lenObj
			if lenObj == nil {
				continue
			}
			ast.Inspect(sc.fd.Body, func(n ast.Node) bool {
				as, ok := n.(*ast.AssignStmt)
				if !ok || len(as.Rhs) != 1 {
					return true
				}
				call, ok := as.Rhs[0].(*ast.CallExpr)
				if !ok {
					return true
				}
				hfn := calleeOf(info, call)
				if hfn == nil || hfn.Pkg() != p.Types {
					return true
				}
				for i, l := range as.Lhs {
					if id, ok := l.(*ast.Ident); ok && info.ObjectOf(id) == lenObj {
						for _, hfd := range allFuncDecls(p) {
							if info.Defs[hfd.Name] != types.Object(hfn) || hfd.Body == nil {
								continue
							}
							var hLen types.Object
							if hfd.Type.Results != nil {
								k := 0
								for _, r := range hfd.Type.Results.List {
									for _, nm := range r.Names {
										if k == i {
											hLen = info.Defs[nm]
										}
										k++
									}
								}
							}
							ast.Inspect(hfd.Body, func(m ast.Node) bool {
								if ret, ok := m.(*ast.ReturnStmt); ok && i < len(ret.Results) {
									if rid, ok := ast.Unparen(ret.Results[i]).(*ast.Ident); ok {
										if v, isVar := info.ObjectOf(rid).(*types.Var); isVar {
											hLen = v
										}
									}
								}
								return true
							})
							if hLen != nil {
								unit = append(unit, unitFn{hfd, hLen, newFnCFG(hfd.Body, info)})
							}
						}
					}
				}
				return true
			})
		}
		if lenObj != nil {
			// length parsed from the header by strconv.ParseInt/Atoi
			parsed := false
			var guards []ast.Node
			guardDominatesAlloc := map[ast.Node]bool{}
			for ui, u := range unit {
				fd, lenObj, fc := u.fd, u.lenObj, u.fc
				_ = fc
				ast.Inspect(fd.Body, func(n ast.Node) bool {
					switch n := n.(type) {
					case *ast.AssignStmt:
						for i, l := range n.Lhs {
							if id, ok := l.(*ast.Ident); ok && info.ObjectOf(id) == lenObj && len(n.Rhs) == 1 && i == 0 {
								if call, ok := n.Rhs[0].(*ast.CallExpr); ok {
									if fn := calleeOf(info, call); fn != nil && strings.HasPrefix(fullName(fn), "strconv.") {
										parsed = true
									}
								}
							}
						}
					case *ast.IfStmt:
						// if length <= 0 / == 0 { return …error }
						be, ok := n.Cond.(*ast.BinaryExpr)
						if !ok {
							return true
						}
						if id, ok := be.X.(*ast.Ident); ok && info.ObjectOf(id) == lenObj && types.ExprString(be.Y) == "0" {
							if len(n.Body.List) > 0 {
								if ret, ok := n.Body.List[len(n.Body.List)-1].(*ast.ReturnStmt); ok && len(ret.Results) > 0 && types.ExprString(ret.Results[len(ret.Results)-1]) != "nil" {
									if be.Op == token.LEQ || be.Op == token.LSS || be.Op == token.EQL {
										guards = append(guards, n)
										if ui > 0 || (mk != nil && fc.dominates(n, mk)) {
											guardDominatesAlloc[n] = true // a rejection inside the header helper precedes the allocation in the caller
										}
									}
								}
							}
						}
					}
					return true
				})
			}
			c.check(parsed, "C18.R3", key+"|length-parsed-from-header", c.pos(fd.Pos()), "length comes from strconv parsing of the header value", "the body length is no longer parsed from the header value")
			// the announced length has an upper bound before it sizes an allocation: a 32-bit parse, or an explicit test
			bounded := ""
			for ui, u := range unit {
				fd, lenObj, fc := u.fd, u.lenObj, u.fc
				ast.Inspect(fd.Body, func(n ast.Node) bool {
					switch n := n.(type) {
					case *ast.CallExpr:
						if fn := calleeOf(info, n); fn != nil && (fullName(fn) == "strconv.ParseInt" || fullName(fn) == "strconv.ParseUint") && len(n.Args) == 3 {
							if v, ok := constInt(info, n.Args[2]); ok && v > 0 && v <= 32 {
								bounded = fmt.Sprintf("parsed with bitSize %d", v)
							}
						}
					case *ast.IfStmt:
						if be, ok := n.Cond.(*ast.BinaryExpr); ok && (be.Op == token.GTR || be.Op == token.GEQ) {
							if id, ok := be.X.(*ast.Ident); ok && info.ObjectOf(id) == lenObj && (ui > 0 || mk != nil && fc.dominates(n, mk)) && len(n.Body.List) > 0 {
								if _, isRet := n.Body.List[len(n.Body.List)-1].(*ast.ReturnStmt); isRet {
									bounded = "explicit upper bound " + types.ExprString(n.Cond)
								}
							}
						}
					}
					return true
				})
			}
			c.check(bounded != "", "C18.R3", key+"|length-has-upper-bound", c.pos(fd.Pos()), "the announced length is bounded: "+bounded,
				"the Content-Length value is parsed without an upper bound (64-bit parse, no maximum test) and sizes make([]byte, length) directly: a header such as Content-Length: 9223372036854775807 panics the reader (makeslice: len out of range) instead of producing an error")
			// a rejection of length == 0 (missing header) must dominate make; a rejection of negative length must exist
			domZero, neg := false, false
			for _, gd := range guards {
				is := gd.(*ast.IfStmt)
				be := is.Cond.(*ast.BinaryExpr)
				if (be.Op == token.EQL || be.Op == token.LEQ) && guardDominatesAlloc[gd] {
					domZero = true
				}
				if be.Op == token.LEQ || be.Op == token.LSS {
					neg = true
				}
			}
			c.check(domZero, "C18.R3", key+"|missing-length-rejected", c.pos(fd.Pos()), "a frame without a positive Content-Length is rejected before the buffer is allocated",
				"no `length == 0` rejection dominates the buffer allocation: a frame without Content-Length yields an empty message instead of an error")
			c.check(neg, "C18.R3", key+"|non-positive-length-rejected", c.pos(fd.Pos()), "non-positive lengths are rejected", "a negative Content-Length is not rejected: make([]byte, length) panics")
		}
		// errors of ReadFull are returned
		okErr := false
		ast.Inspect(fd.Body, func(n ast.Node) bool {
			if is, ok := n.(*ast.IfStmt); ok && is.Init != nil && is.Init.Pos() <= rf.Pos() && rf.End() <= is.Init.End() {
				if len(is.Body.List) > 0 {
					if ret, ok := is.Body.List[len(is.Body.List)-1].(*ast.ReturnStmt); ok && types.ExprString(ret.Results[len(ret.Results)-1]) != "nil" {
						okErr = true
					}
				}
			}
			return true
		})
		c.check(okErr, "C18.R3", key+"|short-read-is-error", c.pos(rf.Pos()), "a short read returns an error", "the error of io.ReadFull is not returned: truncated frames would be decoded")
		// header-line slices are dominated by the colon<0 rejection
		nslice := 0
		okSlice := true
		// (a helper of the unit that is handed the line and splits it — splitHeader(line) — is looked at as well)
		sliceUnit := append([]unitFn{}, unit...)
		for _, u := range unit {
			ast.Inspect(u.fd.Body, func(n ast.Node) bool {
				call, ok := n.(*ast.CallExpr)
				if !ok || len(call.Args) != 1 {
					return true
				}
				hfn := calleeOf(info, call)
				if hfn == nil || hfn.Pkg() != p.Types {
					return true
				}
				if t := info.TypeOf(call.Args[0]); t == nil || !isStringType(t) {
					return true
				}
				for _, hfd := range allFuncDecls(p) {
					if info.Defs[hfd.Name] != types.Object(hfn) || hfd.Body == nil {
						continue
					}
					dup := false
					for _, su := range sliceUnit {
						if su.fd == hfd {
							dup = true
						}
					}
					if !dup {
						sliceUnit = append(sliceUnit, unitFn{hfd, nil, newFnCFG(hfd.Body, info)})
					}
				}
				return true
			})
		}
		for _, u := range sliceUnit {
			fd, fc := u.fd, u.fc
			var colonGuard *ast.IfStmt
			ast.Inspect(fd.Body, func(n ast.Node) bool {
				if is, ok := n.(*ast.IfStmt); ok {
					if be, ok := is.Cond.(*ast.BinaryExpr); ok && be.Op == token.LSS && types.ExprString(be.Y) == "0" && len(is.Body.List) > 0 {
						if _, isRet := is.Body.List[len(is.Body.List)-1].(*ast.ReturnStmt); isRet {
							colonGuard = is
						}
					}
				}
				return true
			})
			ast.Inspect(fd.Body, func(n ast.Node) bool {
				if sl, ok := n.(*ast.SliceExpr); ok {
					nslice++
					if colonGuard == nil || !fc.dominates(colonGuard, sl) {
						okSlice = false
					}
				}
				return true
			})
		}
		// … or the line is split by strings.Cut at ":" (no index to slice at), and a line without one is rejected
		cutGuarded := false
		for _, u := range unit {
			ast.Inspect(u.fd.Body, func(n ast.Node) bool {
				blk, ok := n.(*ast.BlockStmt)
				if !ok {
					return true
				}
				for i, st := range blk.List {
					as, ok := st.(*ast.AssignStmt)
					if !ok || len(as.Lhs) != 3 || len(as.Rhs) != 1 || i+1 >= len(blk.List) {
						continue
					}
					call, ok := as.Rhs[0].(*ast.CallExpr)
					if !ok || len(call.Args) != 2 {
						continue
					}
					if fn := calleeOf(info, call); fn == nil || fullName(fn) != "strings.Cut" {
						continue
					}
					if sep, isC := constString(info, call.Args[1]); !isC || sep != ":" {
						continue
					}
					fid, ok := as.Lhs[2].(*ast.Ident)
					if !ok {
						continue
					}
					if is, ok := blk.List[i+1].(*ast.IfStmt); ok && len(is.Body.List) > 0 {
						if ue, ok := ast.Unparen(is.Cond).(*ast.UnaryExpr); ok && ue.Op == token.NOT {
							if cid, ok := ast.Unparen(ue.X).(*ast.Ident); ok && info.ObjectOf(cid) == info.ObjectOf(fid) {
								if ret, isRet := is.Body.List[len(is.Body.List)-1].(*ast.ReturnStmt); isRet && len(ret.Results) > 0 && types.ExprString(ret.Results[len(ret.Results)-1]) != "nil" {
									cutGuarded = true
								}
							}
						}
					}
				}
				return true
			})
		}
		if cutGuarded && nslice == 0 {
			okSlice, nslice = true, 1
		}
		c.check(okSlice && nslice >= 1, "C18.R3", key+"|header-slices-guarded", c.pos(fd.Pos()), fmt.Sprintf("%d slice expressions dominated by the `< 0` rejection", nslice),
			"a header line is sliced at the colon index without the `colon < 0` rejection dominating it: a header line without ':' panics")
		// the header part ends at the FIRST empty line, whatever was read so far: the test for it leaves the loop on every
		// path. A `continue` there (skip empty lines until a length was seen) lets a header block WITHOUT Content-Length run
		// on into the next frame's header — the malformed frame is accepted silently, or the reader waits forever — and
		// makes the missing-length rejection after the loop unreachable.
		for _, u := range unit {
			ast.Inspect(u.fd.Body, func(n ast.Node) bool {
				fs, ok := n.(*ast.ForStmt)
				if !ok || !strings.Contains(nodeText(c.fset, fs.Body), "ReadString(") {
					return true
				}
				for _, st := range fs.Body.List {
					is, ok := st.(*ast.IfStmt)
					if !ok {
						continue
					}
					be, ok := ast.Unparen(is.Cond).(*ast.BinaryExpr)
					if !ok || be.Op != token.EQL {
						continue
					}
					if sv, isC := constString(info, be.Y); !isC || sv != "" {
						if sv2, isC2 := constString(info, be.X); !isC2 || sv2 != "" {
							continue
						}
					}
					stays := ""
					ast.Inspect(is.Body, func(m ast.Node) bool {
						switch t := m.(type) {
						case *ast.FuncLit, *ast.ForStmt, *ast.RangeStmt:
							return false
						case *ast.BranchStmt:
							if t.Tok == token.CONTINUE {
								stays = c.pos(t.Pos())
							}
						}
						return true
					})
					leaves := false
					if len(is.Body.List) > 0 {
						switch t := is.Body.List[len(is.Body.List)-1].(type) {
						case *ast.BranchStmt:
							leaves = t.Tok == token.BREAK || t.Tok == token.GOTO
						case *ast.ReturnStmt:
							leaves = true
						}
					}
					c.check(stays == "" && leaves, "C18.R3", funcKey(p, u.fd)+"|header-ends-at-first-empty-line", c.pos(is.Pos()), "the empty-line test leaves the header loop on every path",
						fmt.Sprintf("%s: the header loop does not always stop at the empty line (it goes on reading at %s): a header block that carries no Content-Length no longer ends there — it is merged with the next frame's header and accepted without an error, or the reader blocks — and the `missing Content-Length` rejection after the loop cannot be reached for it", u.fd.Name.Name, stays))
				}
				return true
			})
		}
	}
	if !foundR {
		c.viol("C18.R3", "anchor-lost:framed-reader", "", "no function reads a frame body with io.ReadFull")
	}

	// R4 ------------------------------------------------------------
	// the pending map: a struct field of map type with channel values, and its sibling mutex <name>Mu
	var pendingFld, pendingMu *types.Var
	for _, nm := range p.Types.Scope().Names() {
		tn, ok := p.Types.Scope().Lookup(nm).(*types.TypeName)
		if !ok {
			continue
		}
		st, ok := tn.Type().Underlying().(*types.Struct)
		if !ok {
			continue
		}
		for i := 0; i < st.NumFields(); i++ {
			f := st.Field(i)
			if mt, ok := f.Type().Underlying().(*types.Map); ok {
				if _, isChan := mt.Elem().Underlying().(*types.Chan); isChan {
					var mus []*types.Var
					for j := 0; j < st.NumFields(); j++ {
						g := st.Field(j)
						if isMutexType(g.Type()) {
							mus = append(mus, g)
							if strings.HasPrefix(g.Name(), f.Name()) {
								pendingFld, pendingMu = f, g
							}
						}
					}
					// a type of its own for the pending calls: the map and the one mutex it has
					if pendingFld == nil && len(mus) == 1 {
						pendingFld, pendingMu = f, mus[0]
					}
				}
			}
		}
	}
	if pendingFld == nil {
		c.viol("C18.R4", "anchor-lost:pending-map", "", "no map of reply channels with a sibling mutex found")
		return
	}
	isPending := func(e ast.Expr) bool {
		se, ok := ast.Unparen(e).(*ast.SelectorExpr)
		if !ok {
			return false
		}
		sel, ok := info.Selections[se]
		return ok && sel.Obj() == types.Object(pendingFld)
	}
	nacc := 0
	for _, b := range bodies {
		if b.Decl.Name.Name == "NewConn" {
			continue // constructor: the value is not shared yet
		}
		fc := newFnCFG(b.Body, info)
		directNodes(b.Body, func(n ast.Node) bool {
			se, ok := n.(*ast.SelectorExpr)
			if !ok || !isPending(se) {
				return true
			}
			nacc++
			mu := types.ExprString(se.X) + "." + pendingMu.Name()
			held := normHeld(fc.heldAt(se), accessIsWrite(b.Body, se))
			c.check(held[mu], "C18.R4", fmt.Sprintf("%s|pending-access#%d", funcKey(p, b.Decl), nacc), c.pos(se.Pos()), "under "+mu,
				"the pending map is accessed without holding "+mu+" "+heldList(held)+": concurrent map access between callers and the reader")
			return false
		})
	}
	if nacc < 3 {
		c.viol("C18.R4", "anchor-lost:pending-accesses", "", fmt.Sprintf("only %d accesses of the pending map found", nacc))
	}
	// helpers that register / unregister with their own parameters: pending[<param>] = <param>, delete(pending, <param>)
	paramIndex := func(fd *ast.FuncDecl, e ast.Expr) int {
		id, ok := ast.Unparen(e).(*ast.Ident)
		if !ok {
			return -1
		}
		i := 0
		for _, prm := range fd.Type.Params.List {
			for _, nm := range prm.Names {
				if info.Defs[nm] == info.ObjectOf(id) {
					return i
				}
				i++
			}
		}
		return -1
	}
	storeHelpers := map[types.Object]int{} // helper → index of the channel parameter
	deleteHelpers := map[types.Object]bool{}
	lookupHelpers := map[types.Object]int{} // helper that returns pending[<param>] → index of the key parameter
	for _, fd := range allFuncDecls(p) {
		ast.Inspect(fd.Body, func(n ast.Node) bool {
			switch n := n.(type) {
			case *ast.AssignStmt:
				if len(n.Lhs) == 1 && len(n.Rhs) == 1 {
					if ix, ok := n.Lhs[0].(*ast.IndexExpr); ok && isPending(ix.X) {
						if ki, vi := paramIndex(fd, ix.Index), paramIndex(fd, n.Rhs[0]); ki >= 0 && vi >= 0 {
							storeHelpers[info.Defs[fd.Name]] = vi
						}
					}
				}
			case *ast.CallExpr:
				if id, ok := n.Fun.(*ast.Ident); ok && id.Name == "delete" && len(n.Args) == 2 && isPending(n.Args[0]) && paramIndex(fd, n.Args[1]) >= 0 {
					deleteHelpers[info.Defs[fd.Name]] = true
				}
			}
			return true
		})
		// a lookup helper: its first result is, on every return, a local assigned once from pending[<param>] (or that
		// index expression itself)
		if fd.Body != nil && fd.Type.Results != nil && len(fd.Type.Results.List) >= 1 {
			ki, okAll, nret := -1, true, 0
			ast.Inspect(fd.Body, func(n ast.Node) bool {
				if _, isLit := n.(*ast.FuncLit); isLit {
					return false
				}
				ret, ok := n.(*ast.ReturnStmt)
				if !ok {
					return true
				}
				nret++
				if len(ret.Results) == 0 {
					okAll = false
					return true
				}
				r := ast.Unparen(ret.Results[0])
				if id, ok := r.(*ast.Ident); ok {
					nas := 0
					ast.Inspect(fd.Body, func(m ast.Node) bool {
						if as, ok := m.(*ast.AssignStmt); ok && len(as.Rhs) == 1 {
							if lid, ok := as.Lhs[0].(*ast.Ident); ok && info.ObjectOf(lid) == info.ObjectOf(id) {
								nas++
								r = ast.Unparen(as.Rhs[0])
							}
						}
						return true
					})
					if nas != 1 {
						okAll = false
						return true
					}
				}
				ix, ok := r.(*ast.IndexExpr)
				if !ok || !isPending(ix.X) || paramIndex(fd, ix.Index) < 0 {
					okAll = false
					return true
				}
				ki = paramIndex(fd, ix.Index)
				return true
			})
			if okAll && nret > 0 && ki >= 0 {
				lookupHelpers[info.Defs[fd.Name]] = ki
			}
		}
	}
	// a registering helper that makes the channel itself and hands it back: rchan := c.addPending(id)
	//   func (c *conn) addPending(id ID) chan *Response { ch := make(chan *Response, 1); lock; pending[id] = ch; unlock; return ch }
	type madeChan struct {
		capOK bool
	}
	makeHelpers := map[types.Object]madeChan{}
	for _, fd := range allFuncDecls(p) {
		if fd.Body == nil || fd.Type.Results == nil || len(fd.Type.Results.List) != 1 {
			continue
		}
		var stored types.Object
		ast.Inspect(fd.Body, func(n ast.Node) bool {
			if as, ok := n.(*ast.AssignStmt); ok && len(as.Lhs) == 1 && len(as.Rhs) == 1 {
				if ix, ok := as.Lhs[0].(*ast.IndexExpr); ok && isPending(ix.X) && paramIndex(fd, ix.Index) >= 0 {
					if vid, ok := ast.Unparen(as.Rhs[0]).(*ast.Ident); ok && paramIndex(fd, vid) < 0 {
						stored = info.ObjectOf(vid)
					}
				}
			}
			return true
		})
		if stored == nil {
			continue
		}
		made, capOK, returned := false, false, true
		ast.Inspect(fd.Body, func(n ast.Node) bool {
			switch v := n.(type) {
			case *ast.AssignStmt:
				if len(v.Lhs) == 1 && len(v.Rhs) == 1 {
					if lid, ok := v.Lhs[0].(*ast.Ident); ok && info.ObjectOf(lid) == stored {
						if call, ok := v.Rhs[0].(*ast.CallExpr); ok {
							if id, ok := call.Fun.(*ast.Ident); ok && id.Name == "make" {
								made = true
								if len(call.Args) == 2 {
									if cv, ok := constInt(info, call.Args[1]); ok && cv >= 1 {
										capOK = true
									}
								}
							}
						}
					}
				}
			case *ast.ReturnStmt:
				if len(v.Results) != 1 {
					returned = false
				} else if rid, ok := ast.Unparen(v.Results[0]).(*ast.Ident); !ok || info.ObjectOf(rid) != stored {
					returned = false
				}
			}
			return true
		})
		if made && returned {
			makeHelpers[info.Defs[fd.Name]] = madeChan{capOK}
		}
	}
	// Call: the function that registers a reply channel in the pending map (directly or through such a helper)
	for _, fd := range allFuncDecls(p) {
		if _, isHelper := storeHelpers[info.Defs[fd.Name]]; isHelper {
			continue
		}
		if _, isHelper := makeHelpers[info.Defs[fd.Name]]; isHelper {
			continue
		}
		var store ast.Node
		var storedChan ast.Expr
		ast.Inspect(fd.Body, func(n ast.Node) bool {
			switch n := n.(type) {
			case *ast.AssignStmt:
				if len(n.Lhs) == 1 {
					if ix, ok := n.Lhs[0].(*ast.IndexExpr); ok && isPending(ix.X) {
						store, storedChan = n, n.Rhs[0]
					}
				}
			case *ast.CallExpr:
				if fn := calleeOf(info, n); fn != nil {
					if vi, ok := storeHelpers[fn]; ok && vi < len(n.Args) {
						store, storedChan = n, n.Args[vi]
					}
				}
			}
			return true
		})
		// rchan := c.addPending(id): the channel is the one the helper made
		var viaMake *madeChan
		ast.Inspect(fd.Body, func(n ast.Node) bool {
			if as, ok := n.(*ast.AssignStmt); ok && len(as.Lhs) == 1 && len(as.Rhs) == 1 {
				if call, ok := ast.Unparen(as.Rhs[0]).(*ast.CallExpr); ok {
					if fn := calleeOf(info, call); fn != nil {
						if mh, ok := makeHelpers[fn]; ok {
							store, storedChan = call, as.Lhs[0]
							viaMake = &mh
						}
					}
				}
			}
			return true
		})
		if store == nil {
			continue
		}
		key := funcKey(p, fd)
		fc := newFnCFG(fd.Body, info)
		// the send: a call on the receiver that (transitively) reaches Stream.Write — here: any method call of the same receiver named write/Write taking the message
		var sends []*ast.CallExpr
		directNodes(fd.Body, func(n ast.Node) bool {
			if call, ok := n.(*ast.CallExpr); ok {
				if fn := calleeOf(info, call); fn != nil && fn.Pkg() == p.Types && reachesStreamWrite(c, p, fn, streamIface.Type(), 0) {
					sends = append(sends, call)
				}
			}
			return true
		})
		okOrder := len(sends) > 0
		for _, s := range sends {
			if !fc.happensBefore(store, s) {
				okOrder = false
			}
		}
		c.check(okOrder, "C18.R4", key+"|registered-before-send", c.pos(store.Pos()), "the reply channel is registered before the request is sent",
			"the request is sent before the reply channel is registered in the pending map: a fast response is dropped by the reader and the call hangs until its context ends")
		// channel capacity
		var chObj types.Object
		if id, ok := ast.Unparen(storedChan).(*ast.Ident); ok {
			chObj = info.ObjectOf(id)
		}
		capOK := false
		origin := ""
		ast.Inspect(fd.Body, func(n ast.Node) bool {
			if as, ok := n.(*ast.AssignStmt); ok && len(as.Lhs) == 1 && len(as.Rhs) == 1 {
				if lid, ok := as.Lhs[0].(*ast.Ident); ok && info.ObjectOf(lid) == chObj {
					origin = types.ExprString(as.Rhs[0])
					if call, ok := as.Rhs[0].(*ast.CallExpr); ok {
						if id, ok := call.Fun.(*ast.Ident); ok && id.Name == "make" {
							origin = "make"
							if len(call.Args) == 2 {
								if v, ok := constInt(info, call.Args[1]); ok && v >= 1 {
									capOK = true
								}
							}
						}
					}
				}
			}
			return true
		})
		if viaMake != nil {
			origin, capOK = "make", viaMake.capOK
		}
		c.check(origin == "make", "C18.R4", key+"|reply-channel-fresh-per-call", c.pos(fd.Pos()), "the reply channel is made by this call",
			"the reply channel registered for a call is not allocated by that call (it comes from `"+origin+"`): a response that arrives after the caller gave up stays in the recycled channel and is handed to a later call, which returns another request's result")
		if origin != "make" {
			capOK = true // capacity is judged on a channel this function makes; the finding above is the report
		}
		c.check(capOK, "C18.R4", key+"|reply-channel-buffered", c.pos(fd.Pos()), "reply channel has constant capacity ≥ 1",
			"the reply channel is unbuffered: a response arriving after the caller was cancelled blocks the connection's reader forever")
		// deferred removal
		deferredDel := false
		for _, dc := range deferredCalls(fd.Body) {
			if id, ok := dc.Fun.(*ast.Ident); ok && id.Name == "delete" && len(dc.Args) == 2 && isPending(dc.Args[0]) {
				deferredDel = true
			}
			if fn := calleeOf(info, dc); fn != nil && deleteHelpers[fn] {
				deferredDel = true
			}
		}
		c.check(deferredDel, "C18.R4", key+"|removal-deferred", c.pos(fd.Pos()), "the pending entry is removed in a defer", "the pending entry is not removed in a defer: entries leak on error/cancellation paths")
		// R5: select on reply and ctx.Done()
		selOK := false
		directNodes(fd.Body, func(n ast.Node) bool {
			if sel, ok := n.(*ast.SelectStmt); ok {
				hasReply, hasDone := false, false
				for _, cl := range sel.Body.List {
					cc := cl.(*ast.CommClause)
					if cc.Comm == nil {
						continue
					}
					txt := nodeText(c.fset, cc.Comm)
					if strings.Contains(txt, "Done()") {
						hasDone = true
					}
					ast.Inspect(cc.Comm, func(m ast.Node) bool {
						if ue, ok := m.(*ast.UnaryExpr); ok && ue.Op == token.ARROW {
							if id, ok := ue.X.(*ast.Ident); ok && info.ObjectOf(id) == chObj {
								hasReply = true
							}
						}
						return true
					})
				}
				if hasReply && hasDone {
					selOK = true
				}
			}
			return true
		})
		// … or in a helper of the package that is handed the reply channel (resp, err := c.await(ctx, rchan))
		if !selOK {
			directNodes(fd.Body, func(n ast.Node) bool {
				call, ok := n.(*ast.CallExpr)
				if !ok {
					return true
				}
				hfn := calleeOf(info, call)
				if hfn == nil || hfn.Pkg() != p.Types {
					return true
				}
				ai := -1
				for i, a := range call.Args {
					if id, ok := ast.Unparen(a).(*ast.Ident); ok && info.ObjectOf(id) == chObj {
						ai = i
					}
				}
				if ai < 0 {
					return true
				}
				for _, hfd := range allFuncDecls(p) {
					if info.Defs[hfd.Name] != types.Object(hfn) || hfd.Body == nil {
						continue
					}
					prms := paramObjs(info, hfd)
					if ai >= len(prms) {
						continue
					}
					directNodes(hfd.Body, func(m ast.Node) bool {
						sel, ok := m.(*ast.SelectStmt)
						if !ok {
							return true
						}
						hasReply, hasDone := false, false
						for _, cl := range sel.Body.List {
							cc := cl.(*ast.CommClause)
							if cc.Comm == nil {
								continue
							}
							if strings.Contains(nodeText(c.fset, cc.Comm), "Done()") {
								hasDone = true
							}
							ast.Inspect(cc.Comm, func(k ast.Node) bool {
								if ue, ok := k.(*ast.UnaryExpr); ok && ue.Op == token.ARROW {
									if id, ok := ue.X.(*ast.Ident); ok && info.ObjectOf(id) == prms[ai] {
										hasReply = true
									}
								}
								return true
							})
						}
						if hasReply && hasDone {
							selOK = true
						}
						return true
					})
				}
				return true
			})
		}
		c.check(selOK, "C18.R5", key+"|waits-on-reply-and-cancel", c.pos(fd.Pos()), "the wait selects on the reply channel and ctx.Done()", "Call no longer waits on both its reply channel and ctx.Done()")
	}
	// reader: delivers to the channel looked up by the response's own id
	for _, b := range bodies {
		directNodes(b.Body, func(n ast.Node) bool {
			ss, ok := n.(*ast.SendStmt)
			if !ok {
				return true
			}
			cid, ok := ss.Chan.(*ast.Ident)
			if !ok {
				return true
			}
			chOb := info.ObjectOf(cid)
			// defined by lookup pending[X.id]
			var keyExpr ast.Expr
			ast.Inspect(b.Body, func(m ast.Node) bool {
				if as, ok := m.(*ast.AssignStmt); ok && len(as.Rhs) == 1 {
					if ix, ok := as.Rhs[0].(*ast.IndexExpr); ok && isPending(ix.X) {
						if lid, ok := as.Lhs[0].(*ast.Ident); ok && info.ObjectOf(lid) == chOb {
							keyExpr = ix.Index
						}
					}
					// … or by a lookup helper of the pending calls: rchan, ok := c.pending.lookup(msg.id)
					if call, ok := ast.Unparen(as.Rhs[0]).(*ast.CallExpr); ok {
						if fn := calleeOf(info, call); fn != nil {
							if ki, isLookup := lookupHelpers[fn]; isLookup && ki < len(call.Args) {
								if lid, ok := as.Lhs[0].(*ast.Ident); ok && info.ObjectOf(lid) == chOb {
									keyExpr = call.Args[ki]
								}
							}
						}
					}
				}
				return true
			})
			if keyExpr == nil {
				return true
			}
			ks, ok := keyExpr.(*ast.SelectorExpr)
			same := ok && types.ExprString(ks.X) == types.ExprString(ss.Value)
			c.check(same, "C18.R4", funcKey(p, b.Decl)+"|delivers-by-own-id", c.pos(ss.Pos()), "response delivered to pending["+types.ExprString(keyExpr)+"]",
				"the reader delivers "+types.ExprString(ss.Value)+" to the channel registered under "+types.ExprString(keyExpr)+": a response can reach a different call")
			return true
		})
	}
	c.floor("C18.R4", 7)
	c.floor("C18.R5", 1)
}

func fieldTailStr(s string) string {
	if i := strings.LastIndex(s, "."); i >= 0 {
		return s[i+1:]
	}
	return s
}

// reachesStreamWrite: fn (transitively, within the package) calls Write on a value of the Stream interface type.
func reachesStreamWrite(c *Ctx, p interface{}, fn *types.Func, stream types.Type, depth int) bool {
	pk := c.pkg("lsp/jsonrpc2")
	if depth > 3 {
		return false
	}
	for _, fd := range allFuncDecls(pk) {
		if pk.TypesInfo.Defs[fd.Name] != types.Object(fn) {
			continue
		}
		res := false
		ast.Inspect(fd.Body, func(n ast.Node) bool {
			call, ok := n.(*ast.CallExpr)
			if !ok {
				return true
			}
			if se, ok := call.Fun.(*ast.SelectorExpr); ok && se.Sel.Name == "Write" {
				if t := pk.TypesInfo.TypeOf(se.X); t != nil && types.Identical(t, stream) {
					res = true
				}
			}
			if cf := calleeOf(pk.TypesInfo, call); cf != nil && cf.Pkg() == pk.Types && cf != fn {
				if reachesStreamWrite(c, p, cf, stream, depth+1) {
					res = true
				}
			}
			return true
		})
		return res
	}
	return false
}

// framedBodyBuffer finds `buf := make([]byte, n)` where n was assigned from a strconv call, and describes the
// call the buffer is handed to.
func framedBodyBuffer(info *types.Info, fd *ast.FuncDecl) (*ast.CallExpr, string) {
	parsed := map[types.Object]bool{}
	ast.Inspect(fd.Body, func(n ast.Node) bool {
		if as, ok := n.(*ast.AssignStmt); ok && len(as.Rhs) == 1 && len(as.Lhs) >= 1 {
			if call, ok := as.Rhs[0].(*ast.CallExpr); ok {
				if fn := calleeOf(info, call); fn != nil && strings.HasPrefix(fullName(fn), "strconv.") {
					if id, ok := as.Lhs[0].(*ast.Ident); ok {
						parsed[info.ObjectOf(id)] = true
					}
				}
			}
		}
		return true
	})
	var mk *ast.CallExpr
	var buf types.Object
	ast.Inspect(fd.Body, func(n ast.Node) bool {
		if as, ok := n.(*ast.AssignStmt); ok && len(as.Lhs) == 1 && len(as.Rhs) == 1 {
			if call, ok := as.Rhs[0].(*ast.CallExpr); ok {
				if id, ok := call.Fun.(*ast.Ident); ok && id.Name == "make" && len(call.Args) == 2 {
					if aid, ok := ast.Unparen(call.Args[1]).(*ast.Ident); ok && parsed[info.ObjectOf(aid)] {
						mk = call
						if lid, ok := as.Lhs[0].(*ast.Ident); ok {
							buf = info.ObjectOf(lid)
						}
					}
				}
			}
		}
		return true
	})
	if mk == nil {
		return nil, ""
	}
	how := "no call"
	ast.Inspect(fd.Body, func(n ast.Node) bool {
		if call, ok := n.(*ast.CallExpr); ok && call != mk {
			for _, a := range call.Args {
				if id, ok := ast.Unparen(a).(*ast.Ident); ok && info.ObjectOf(id) == buf && how == "no call" {
					how = types.ExprString(call.Fun)
				}
			}
		}
		return true
	})
	return mk, how
}

// inLoopUse: the buffer sized by mk is handed to a call inside a for statement (a hand-written read-until-full loop).
func inLoopUse(info *types.Info, fd *ast.FuncDecl, mk *ast.CallExpr) bool {
	var buf types.Object
	ast.Inspect(fd.Body, func(n ast.Node) bool {
		if as, ok := n.(*ast.AssignStmt); ok && len(as.Rhs) == 1 && as.Rhs[0] == ast.Expr(mk) {
			if id, ok := as.Lhs[0].(*ast.Ident); ok {
				buf = info.ObjectOf(id)
			}
		}
		return true
	})
	found := false
	ast.Inspect(fd.Body, func(n ast.Node) bool {
		fs, ok := n.(*ast.ForStmt)
		if !ok {
			return true
		}
		ast.Inspect(fs.Body, func(m ast.Node) bool {
			if call, ok := m.(*ast.CallExpr); ok {
				for _, a := range call.Args {
					root := a
					if sl, ok := ast.Unparen(a).(*ast.SliceExpr); ok {
						root = sl.X
					}
					if id, ok := ast.Unparen(root).(*ast.Ident); ok && info.ObjectOf(id) == buf {
						found = true
					}
				}
			}
			return true
		})
		return true
	})
	return found
}

// decoderNotStricterThanEncoder: C18.R6 — the message decoder rejects a frame only for reasons that the encoder can
// never produce. Fields that the wire structs mark `omitempty` (params, result, error) may be absent or null in
// frames this very package writes (a nil result is written as "result":null and decodes to a nil pointer), so a
// rejection that tests one of them for nil makes the reader unable to read the writer's own output.
func decoderNotStricterThanEncoder(c *Ctx, rule string) {
	p := c.pkg("lsp/jsonrpc2")
	info := p.TypesInfo
	fd := findFunc(p, "", "DecodeMessage")
	if fd == nil {
		c.viol(rule, "anchor-lost:DecodeMessage", "", "jsonrpc2.DecodeMessage (exported) not found")
		return
	}
	// optional wire fields: struct fields with an omitempty json tag, in the type decoded into
	optional := map[*types.Var]bool{}
	ast.Inspect(fd.Body, func(n ast.Node) bool {
		if call, ok := n.(*ast.CallExpr); ok {
			if se, ok := call.Fun.(*ast.SelectorExpr); ok && se.Sel.Name == "Decode" && len(call.Args) == 1 {
				t := info.TypeOf(call.Args[0])
				if pt, ok := t.(*types.Pointer); ok {
					if st, ok := pt.Elem().Underlying().(*types.Struct); ok {
						for i := 0; i < st.NumFields(); i++ {
							if strings.Contains(st.Tag(i), "omitempty") && st.Field(i).Name() != "ID" {
								optional[st.Field(i)] = true
							}
						}
					}
				}
			}
		}
		return true
	})
	if len(optional) < 2 {
		c.viol(rule, "anchor-lost:wire-struct", "", "DecodeMessage does not decode into a struct with omitempty fields")
		return
	}
	// over the paths of the decoder: a path that returns an error took no condition on an optional field
	n := 0
	den := &denum{info: info, pkg: p.Types, inits: map[types.Object]ast.Expr{}, limit: 20000, opaqueLoops: true}
	den.finish(den.run(fd.Body.List, []dstate{{env: map[types.Object]ast.Expr{}}}))
	if den.undecided != "" {
		c.undec(rule, funcKey(p, fd)+"|rejections", c.pos(fd.Pos()), "DecodeMessage contains "+den.undecided)
		return
	}
	seenRet := map[*ast.ReturnStmt]int{}
	for _, pth := range den.paths {
		if pth.Ret == nil || len(pth.Ret.Results) != 2 || types.ExprString(pth.Ret.Results[1]) == "nil" {
			continue
		}
		if _, dup := seenRet[pth.Ret]; !dup {
			n++
			seenRet[pth.Ret] = n
		}
		bad, conds := "", []string{}
		for _, pc := range pth.Conds {
			conds = append(conds, fmt.Sprintf("%s=%v", types.ExprString(pc.Expr), pc.Val))
			ast.Inspect(pc.Expr, func(y ast.Node) bool {
				if se, ok := y.(*ast.SelectorExpr); ok {
					if f := fieldOf(info, se); f != nil && optional[f] {
						bad = f.Name()
					}
				}
				return true
			})
		}
		c.check(bad == "", rule, fmt.Sprintf("%s|rejection#%d|not-on-optional-field", funcKey(p, fd), seenRet[pth.Ret]), c.pos(pth.Ret.Pos()), "rejects on ["+strings.Join(conds, ", ")+"], which the encoder never produces",
			fmt.Sprintf("DecodeMessage rejects a frame on [%s]: %s is optional on the wire, and this package's own writer leaves it null (a successful response with a nil result is written as \"result\":null, a call without parameters has no params): the reader cannot read what the writer of the same package sends", strings.Join(conds, ", "), bad))
	}
	c.count("decoder_rejections", n)
	c.floor(rule, 2)
}

// noNarrowingOfParsedNumbers: C18.R7 — a number parsed from the wire is not narrowed by a conversion. An id such as
// 4294967297 that is parsed into an int and then converted to int32 becomes 1 and completes somebody else's call;
// decoding into the narrow type directly (encoding/json, or strconv with the matching bitSize) rejects it instead.
func noNarrowingOfParsedNumbers(c *Ctx, rule string) {
	p := c.pkg("lsp/jsonrpc2")
	info := p.TypesInfo
	width := func(t types.Type) int {
		b, ok := t.Underlying().(*types.Basic)
		if !ok {
			return 0
		}
		switch b.Kind() {
		case types.Int8, types.Uint8:
			return 8
		case types.Int16, types.Uint16:
			return 16
		case types.Int32, types.Uint32:
			return 32
		case types.Int64, types.Uint64, types.Int, types.Uint:
			return 64
		}
		return 0
	}
	n := 0
	for _, fd := range allFuncDecls(p) {
		// variables assigned from strconv parsers, with the width they were parsed at
		parsed := map[types.Object]int{}
		ast.Inspect(fd.Body, func(x ast.Node) bool {
			as, ok := x.(*ast.AssignStmt)
			if !ok || len(as.Rhs) != 1 {
				return true
			}
			call, ok := as.Rhs[0].(*ast.CallExpr)
			if !ok {
				return true
			}
			fn := calleeOf(info, call)
			// strconv parsers, and the numeric accessors of json.Number (a number decoded with UseNumber)
			isJSONNumber := fn != nil && (fullName(fn) == "encoding/json.(Number).Int64" || fullName(fn) == "encoding/json.(Number).Float64")
			if fn == nil || (!strings.HasPrefix(fullName(fn), "strconv.") && !isJSONNumber) {
				return true
			}
			w := 64
			if (fn.Name() == "ParseInt" || fn.Name() == "ParseUint") && len(call.Args) == 3 {
				if v, ok := constInt(info, call.Args[2]); ok && v > 0 {
					w = int(v)
				}
			}
			if id, ok := as.Lhs[0].(*ast.Ident); ok {
				parsed[info.ObjectOf(id)] = w
			}
			return true
		})
		// … and integers the JSON decoder fills in (json.Unmarshal(data, &n), dec.Decode(&n)), at their own width
		ast.Inspect(fd.Body, func(x ast.Node) bool {
			call, ok := x.(*ast.CallExpr)
			if !ok {
				return true
			}
			fn := calleeOf(info, call)
			if fn == nil || (fullName(fn) != "encoding/json.Unmarshal" && fullName(fn) != "encoding/json.(Decoder).Decode") {
				return true
			}
			for _, a := range call.Args {
				if u, ok := ast.Unparen(a).(*ast.UnaryExpr); ok && u.Op == token.AND {
					if id, ok := ast.Unparen(u.X).(*ast.Ident); ok {
						if w := width(info.TypeOf(id)); w > 0 {
							parsed[info.ObjectOf(id)] = w
						}
					}
				}
			}
			return true
		})
		if len(parsed) == 0 {
			continue
		}
		ord := 0
		ast.Inspect(fd.Body, func(x ast.Node) bool {
			call, ok := x.(*ast.CallExpr)
			if !ok || len(call.Args) != 1 {
				return true
			}
			tv, ok := info.Types[call.Fun]
			if !ok || !tv.IsType() {
				return true
			}
			id, ok := ast.Unparen(call.Args[0]).(*ast.Ident)
			if !ok {
				return true
			}
			pw, isParsed := parsed[info.ObjectOf(id)]
			if !isParsed {
				return true
			}
			tw := width(tv.Type)
			if tw == 0 {
				return true
			}
			ord++
			n++
			c.check(pw <= tw, rule, fmt.Sprintf("%s|conversion#%d|parsed-number-not-narrowed", funcKey(p, fd), ord), c.pos(call.Pos()), fmt.Sprintf("parsed at %d bits, converted to a %d-bit type", pw, tw),
				fmt.Sprintf("%s parses a number from the wire at %d bits and converts it with %s to %d bits: a value outside that range is silently truncated instead of rejected (an id of 4294967297 is read as 1 and completes another call; a request id above the range is answered under a different id)", fd.Name.Name, pw, types.ExprString(call.Fun), tw))
			return true
		})
	}
	c.count("conversions_of_parsed_numbers", n)
	// expected count on the pinned tree is zero: positive control on a snippet with the same detector shape
	src := `package control
import "strconv"
func f(b []byte) int32 { n, _ := strconv.Atoi(string(b)); return int32(n) }
`
	f, cinfo, ok := checkSnippet(c, src)
	hit := false
	if ok {
		ast.Inspect(f, func(x ast.Node) bool {
			if call, isCall := x.(*ast.CallExpr); isCall && len(call.Args) == 1 {
				if tv, isT := cinfo.Types[call.Fun]; isT && tv.IsType() && width(tv.Type) == 32 {
					if id, isID := call.Args[0].(*ast.Ident); isID && cinfo.ObjectOf(id) != nil && width(cinfo.ObjectOf(id).Type()) == 64 {
						hit = true
					}
				}
			}
			return true
		})
	}
	c.control(rule+":narrowing-conversion-detector", hit)
	c.ok(rule, p.PkgPath+"|scanned", "", fmt.Sprintf("%d conversions of strconv-parsed numbers examined", n))
}

// frameWritesAreSynchronous: C18.R8 — a frame is on the wire, completely, before the sender gives up the write lock.
// The connection serialises senders with a mutex around the stream's Write; that only works if Write returns after
// the last byte was handed to the transport. A Write that performs the transport write in a goroutine and may return
// early (on context cancellation) lets the next sender start its header in the middle of the abandoned frame
// (`hdrA hdrB bodyB bodyA`), which corrupts the stream for good. Decided structurally: no `go` statement of package
// jsonrpc2 runs code that writes to a stream's connection (conn.Write / the framed writer), directly or through a
// package-local function.
func frameWritesAreSynchronous(c *Ctx, rule string) {
	p := c.pkg("lsp/jsonrpc2")
	info := p.TypesInfo
	// functions that write to a transport: a call X.Write(..) / fmt.Fprintf(X, ..) where X is a field of an
	// io.Writer-like interface type (the stream's conn), or a call of such a function
	writesTransport := map[types.Object]bool{}
	isTransportWrite := func(call *ast.CallExpr) bool {
		if se, ok := call.Fun.(*ast.SelectorExpr); ok && se.Sel.Name == "Write" {
			if fs, ok := ast.Unparen(se.X).(*ast.SelectorExpr); ok {
				if sel, ok := info.Selections[fs]; ok && sel.Kind() == types.FieldVal {
					if _, isIface := sel.Type().Underlying().(*types.Interface); isIface {
						return true
					}
				}
			}
		}
		if fn := calleeOf(info, call); fn != nil && (fullName(fn) == "fmt.Fprintf" || fullName(fn) == "fmt.Fprint" || fullName(fn) == "io.WriteString") && len(call.Args) > 0 {
			if fs, ok := ast.Unparen(call.Args[0]).(*ast.SelectorExpr); ok {
				if sel, ok := info.Selections[fs]; ok && sel.Kind() == types.FieldVal {
					if _, isIface := sel.Type().Underlying().(*types.Interface); isIface {
						return true
					}
				}
			}
		}
		return false
	}
	for changed := true; changed; {
		changed = false
		for _, fd := range allFuncDecls(p) {
			obj := info.Defs[fd.Name]
			if fd.Body == nil || writesTransport[obj] {
				continue
			}
			ast.Inspect(fd.Body, func(n ast.Node) bool {
				if call, ok := n.(*ast.CallExpr); ok {
					if isTransportWrite(call) {
						writesTransport[obj] = true
						changed = true
					} else if fn := calleeOf(info, call); fn != nil && fn.Pkg() == p.Types && writesTransport[fn] {
						writesTransport[obj] = true
						changed = true
					}
				}
				return true
			})
		}
	}
	n, ngo := 0, 0
	for _, fd := range allFuncDecls(p) {
		if fd.Body == nil {
			continue
		}
		ast.Inspect(fd.Body, func(x ast.Node) bool {
			gs, ok := x.(*ast.GoStmt)
			if !ok {
				return true
			}
			ngo++
			bad := ""
			ast.Inspect(gs.Call, func(y ast.Node) bool {
				if call, ok := y.(*ast.CallExpr); ok {
					if isTransportWrite(call) {
						bad = types.ExprString(call.Fun)
					} else if fn := calleeOf(info, call); fn != nil && fn.Pkg() == p.Types && writesTransport[fn] {
						// the handler goroutine of the read loop legitimately replies (conn.write takes the lock and completes the frame):
						// only writers BELOW the lock are a problem — functions that are methods of the stream type itself
						if sig := fn.Type().(*types.Signature); sig.Recv() != nil && strings.Contains(strings.ToLower(sig.Recv().Type().String()), "stream") {
							bad = fn.Name()
						}
					}
				}
				return true
			})
			if bad != "" {
				n++
				c.viol(rule, fmt.Sprintf("%s|go#%d|writes-frame-asynchronously", funcKey(p, fd), n), c.pos(gs.Pos()),
					fmt.Sprintf("%s starts a goroutine that writes to the stream's transport (%s): the function can return — and its caller release the write lock — while the frame is only partly written, so the next sender's header lands inside this frame and every later message on the connection is unreadable", fd.Name.Name, bad))
			}
			return true
		})
	}
	c.ok(rule, p.PkgPath+"|no-asynchronous-frame-writes", "", fmt.Sprintf("%d go statements, %d functions that write to a transport; no goroutine writes below the write lock", ngo, len(writesTransport)))
	c.control(rule+":transport-writers-found", len(writesTransport) >= 1)
}

// responseWaitHasNoThirdExit: C18.R9 — a call that was written waits for exactly two things: its response, or its
// caller's context. The read loop delivers the response into the call's channel BEFORE it can observe the
// connection's end, so a further select case on a connection-lifetime channel (done / closed) races with a response
// that has already arrived: select picks at random among ready cases, and the caller is told "connection closed" for
// a call that was answered. Decided on the select statement of Call that receives from the per-call channel: its other
// cases receive only from ctx.Done().
func responseWaitHasNoThirdExit(c *Ctx, rule string) {
	p := c.pkg("lsp/jsonrpc2")
	info := p.TypesInfo
	n := 0
	for _, fd := range allFuncDecls(p) {
		if fd.Body == nil {
			continue
		}
		ast.Inspect(fd.Body, func(x ast.Node) bool {
			sel, ok := x.(*ast.SelectStmt)
			if !ok {
				return true
			}
			// a case that receives a *Response (the per-call channel)
			receivesResponse := false
			for _, cl := range sel.Body.List {
				cc := cl.(*ast.CommClause)
				if cc.Comm == nil {
					continue
				}
				ast.Inspect(cc.Comm, func(y ast.Node) bool {
					if ue, ok := y.(*ast.UnaryExpr); ok && ue.Op == token.ARROW {
						if ch, ok := info.TypeOf(ue.X).Underlying().(*types.Chan); ok && strings.HasSuffix(ch.Elem().String(), "jsonrpc2.Response") {
							receivesResponse = true
						}
					}
					return true
				})
			}
			if !receivesResponse {
				return true
			}
			n++
			bad := ""
			for _, cl := range sel.Body.List {
				cc := cl.(*ast.CommClause)
				if cc.Comm == nil {
					bad = "a default case (the wait does not block)"
					continue
				}
				txt := ""
				isResp := false
				ast.Inspect(cc.Comm, func(y ast.Node) bool {
					if ue, ok := y.(*ast.UnaryExpr); ok && ue.Op == token.ARROW {
						txt = types.ExprString(ue.X)
						if ch, ok := info.TypeOf(ue.X).Underlying().(*types.Chan); ok && strings.HasSuffix(ch.Elem().String(), "jsonrpc2.Response") {
							isResp = true
						}
					}
					return true
				})
				if isResp || strings.HasSuffix(txt, ".Done()") && strings.Contains(txt, "ctx") {
					continue
				}
				bad = "a case on " + txt
			}
			c.check(bad == "", rule, fmt.Sprintf("%s|response-wait#%d|only-response-or-context", funcKey(p, fd), n), c.pos(sel.Pos()), "the wait ends with the response or with the caller's context, nothing else",
				fmt.Sprintf("%s waits for the response in a select that also has %s: when the peer answers and closes the connection at once, both cases are ready and the select takes either at random — a call that was answered is reported as failed (the response is dropped)", fd.Name.Name, bad))
			return true
		})
	}
	c.count("response_waits", n)
	c.floor(rule, 1)
}

// frameIsNotCutShort: C18.R15 — a frame is a header followed by a body; once the header is on the wire, the body must
// follow, or the reader takes the next frame's header for this frame's body and every later message on the connection
// is lost. R2 decides that the function itself goes from the header write to the body write on every path; this rule
// follows the two writes INTO a writer type of this package they go through: its Write must forward on every path —
// one that tests the context (or anything else) first can refuse the body after it let the header through.
func frameIsNotCutShort(c *Ctx, rule string) {
	p := c.pkg("lsp/jsonrpc2")
	info := p.TypesInfo
	decls := map[types.Object]*ast.FuncDecl{}
	for _, fd := range allFuncDecls(p) {
		decls[info.Defs[fd.Name]] = fd
	}
	// destination of a write call
	dest := func(call *ast.CallExpr) ast.Expr {
		if se, ok := call.Fun.(*ast.SelectorExpr); ok && (se.Sel.Name == "Write" || se.Sel.Name == "WriteString") {
			if sel, ok := info.Selections[se]; ok && sel.Kind() == types.MethodVal {
				return se.X
			}
		}
		if fn := calleeOf(info, call); fn != nil && len(call.Args) > 0 {
			switch fullName(fn) {
			case "fmt.Fprintf", "fmt.Fprint", "fmt.Fprintln", "io.WriteString":
				return call.Args[0]
			}
		}
		return nil
	}
	mentionsLength := func(call *ast.CallExpr) bool {
		found := false
		ast.Inspect(call, func(n ast.Node) bool {
			switch x := n.(type) {
			case *ast.Ident:
				if k, ok := info.Uses[x].(*types.Const); ok && k.Val().Kind() == constant.String && strings.Contains(constant.StringVal(k.Val()), "Content-Length") {
					found = true
				}
			case *ast.BasicLit:
				if strings.Contains(x.Value, "Content-Length") {
					found = true
				}
			}
			return true
		})
		return found
	}
	// a writer type of this package whose Write can return without having forwarded
	refusing := func(t types.Type) string {
		if pt, ok := t.(*types.Pointer); ok {
			t = pt.Elem()
		}
		nt, ok := t.(*types.Named)
		if !ok || nt.Obj().Pkg() != p.Types {
			return ""
		}
		if _, isIface := nt.Underlying().(*types.Interface); isIface {
			return ""
		}
		for i := 0; i < nt.NumMethods(); i++ {
			m := nt.Method(i)
			fd := decls[m]
			if m.Name() != "Write" || fd == nil || fd.Body == nil {
				continue
			}
			g := newFnCFG(fd.Body, info)
			var fwd []*ast.CallExpr
			ast.Inspect(fd.Body, func(n ast.Node) bool {
				if call, ok := n.(*ast.CallExpr); ok && dest(call) != nil {
					fwd = append(fwd, call)
				}
				return true
			})
			res := ""
			ast.Inspect(fd.Body, func(n ast.Node) bool {
				if _, ok := n.(*ast.FuncLit); ok {
					return false
				}
				r, ok := n.(*ast.ReturnStmt)
				if !ok {
					return true
				}
				covered := false
				for _, f := range fwd {
					if (f.Pos() >= r.Pos() && f.End() <= r.End()) || g.happensBefore(f, r) {
						covered = true
					}
				}
				// a sticky writer: it refuses only because an EARLIER write through it failed — `if r.err != nil { return … }`
				// where r.err is only ever assigned the error of a forwarded write. The connection is broken then, and
				// the frame was cut short by the failure, not by the writer.
				if !covered && len(fd.Recv.List) == 1 && len(fd.Recv.List[0].Names) == 1 {
					robj := info.Defs[fd.Recv.List[0].Names[0]]
					ast.Inspect(fd.Body, func(m ast.Node) bool {
						is, ok := m.(*ast.IfStmt)
						if !ok || !(is.Body.Pos() <= r.Pos() && r.End() <= is.Body.End()) {
							return true
						}
						be, ok := ast.Unparen(is.Cond).(*ast.BinaryExpr)
						if !ok || be.Op != token.NEQ || types.ExprString(be.Y) != "nil" {
							return true
						}
						se, ok := ast.Unparen(be.X).(*ast.SelectorExpr)
						if !ok {
							return true
						}
						if rid, ok := ast.Unparen(se.X).(*ast.Ident); !ok || info.ObjectOf(rid) != robj || !isErrorType(info.TypeOf(se)) {
							return true
						}
						if stickyFieldOnlyFromWrites(p, nt, info.ObjectOf(se.Sel), dest) {
							covered = true
						}
						return true
					})
				}
				if !covered && res == "" {
					res = nt.Obj().Name() + ".Write returns at " + c.pos(r.Pos()) + " without having written"
				}
				return true
			})
			return res
		}
		return ""
	}
	nframed := 0
	for _, fd := range allFuncDecls(p) {
		if fd.Body == nil {
			continue
		}
		var writes []*ast.CallExpr
		ast.Inspect(fd.Body, func(n ast.Node) bool {
			if _, ok := n.(*ast.FuncLit); ok {
				return false
			}
			if call, ok := n.(*ast.CallExpr); ok && dest(call) != nil {
				writes = append(writes, call)
			}
			return true
		})
		var hdr *ast.CallExpr
		for _, w := range writes {
			if mentionsLength(w) {
				hdr = w
				break
			}
		}
		if hdr == nil {
			continue
		}
		g := newFnCFG(fd.Body, info)
		var body *ast.CallExpr
		for _, w := range writes {
			if w != hdr && g.happensBefore(hdr, w) {
				body = w
			}
		}
		key := funcKey(p, fd)
		if body == nil {
			// header and body leave in one write (or the body is written elsewhere): nothing lies between them here
			c.ok(rule, key+"|frame-in-one-write", c.pos(hdr.Pos()), "the header write is the only transport write of the function")
			nframed++
			continue
		}
		nframed++
		// (2) the writers the two writes go through
		for _, w := range []*ast.CallExpr{body} { // (a header that is refused has started no frame)
			d := ast.Unparen(dest(w))
			t := info.TypeOf(d)
			if id, ok := d.(*ast.Ident); ok {
				// a local holding a wrapper: the type of what it was assigned
				if v, ok := info.ObjectOf(id).(*types.Var); ok {
					ast.Inspect(fd.Body, func(n ast.Node) bool {
						if as, ok := n.(*ast.AssignStmt); ok && len(as.Lhs) == len(as.Rhs) {
							for i, l := range as.Lhs {
								if lid, ok := l.(*ast.Ident); ok && info.ObjectOf(lid) == types.Object(v) {
									if rt := info.TypeOf(as.Rhs[i]); rt != nil {
										if r := refusing(rt); r != "" {
											t = rt
										}
									}
								}
							}
						}
						return true
					})
				}
			}
			why := ""
			if t != nil {
				why = refusing(t)
			}
			which := "header"
			if w == body {
				which = "body"
			}
			c.check(why == "", rule, key+"|"+which+"-writer-never-refuses", c.pos(w.Pos()), "the "+which+" is written to a writer that always forwards",
				"the "+which+" of the frame is written through a writer of this package that can refuse ("+why+"): when it refuses the body after the header has gone out, the frame is cut short and every later message on the connection is lost")
		}
	}
	if nframed == 0 {
		// header and body joined before a single write (frame := append(header, data...); conn.Write(frame)): nothing lies
		// between them; the anchor is then any function of the package that builds the Content-Length header
		for _, fd := range allFuncDecls(p) {
			if fd.Body == nil {
				continue
			}
			mentions, writes := false, false
			ast.Inspect(fd.Body, func(n ast.Node) bool {
				switch x := n.(type) {
				case *ast.Ident:
					if k, ok := info.Uses[x].(*types.Const); ok && k.Val().Kind() == constant.String && strings.Contains(constant.StringVal(k.Val()), "Content-Length") {
						mentions = true
					}
				case *ast.BasicLit:
					if strings.Contains(x.Value, "Content-Length") {
						mentions = true
					}
				case *ast.CallExpr:
					if dest(x) != nil {
						writes = true
					}
					// … or a header builder of the package that does
					if fn := calleeOf(info, x); fn != nil && fn.Pkg() == p.Types && decls[types.Object(fn)] != nil && decls[types.Object(fn)] != fd && decls[types.Object(fn)].Body != nil {
						ast.Inspect(decls[types.Object(fn)].Body, func(m ast.Node) bool {
							if id, ok := m.(*ast.Ident); ok {
								if k, ok := info.Uses[id].(*types.Const); ok && k.Val().Kind() == constant.String && strings.Contains(constant.StringVal(k.Val()), "Content-Length") {
									mentions = true
								}
							}
							return true
						})
					}
				}
				return true
			})
			if mentions && writes {
				nframed++
				c.ok(rule, funcKey(p, fd)+"|frame-in-one-write", c.pos(fd.Pos()), "the header is built as a value; no write of this function is recognised as a separate header write")
			}
		}
	}
	c.control(rule+":framed-writer-found", nframed >= 1)
}

// stickyFieldOnlyFromWrites: every assignment to the error field `field` in the methods of type nt stores the error
// result of a forwarded write (directly, or through a local assigned from one).
func stickyFieldOnlyFromWrites(p *packages.Package, nt *types.Named, field types.Object, dest func(*ast.CallExpr) ast.Expr) bool {
	info := p.TypesInfo
	n := 0
	okAll := true
	for _, fd := range allFuncDecls(p) {
		if fd.Recv == nil || fd.Body == nil || len(fd.Recv.List) != 1 || recvTypeName(fd.Recv.List[0].Type) != nt.Obj().Name() {
			continue
		}
		fromWrite := func(e ast.Expr) bool {
			if call, ok := ast.Unparen(e).(*ast.CallExpr); ok {
				return dest(call) != nil
			}
			id, ok := ast.Unparen(e).(*ast.Ident)
			if !ok {
				return false
			}
			obj := info.ObjectOf(id)
			found, all := false, true
			ast.Inspect(fd.Body, func(m ast.Node) bool {
				if as, ok := m.(*ast.AssignStmt); ok {
					for _, l := range as.Lhs {
						if lid, ok := l.(*ast.Ident); ok && info.ObjectOf(lid) == obj {
							found = true
							if len(as.Rhs) != 1 {
								all = false
							} else if call, ok := ast.Unparen(as.Rhs[0]).(*ast.CallExpr); !ok || dest(call) == nil {
								all = false
							}
						}
					}
				}
				return true
			})
			return found && all
		}
		ast.Inspect(fd.Body, func(m ast.Node) bool {
			as, ok := m.(*ast.AssignStmt)
			if !ok {
				return true
			}
			for i, l := range as.Lhs {
				se, ok := ast.Unparen(l).(*ast.SelectorExpr)
				if !ok || info.ObjectOf(se.Sel) != field {
					continue
				}
				n++
				switch {
				case len(as.Rhs) == len(as.Lhs):
					if !fromWrite(as.Rhs[i]) {
						okAll = false
					}
				case len(as.Rhs) == 1:
					if call, ok := ast.Unparen(as.Rhs[0]).(*ast.CallExpr); !ok || dest(call) == nil {
						okAll = false
					}
				default:
					okAll = false
				}
			}
			return true
		})
	}
	return n > 0 && okAll
}
