package main

import (
	"fmt"
	"go/ast"
	"go/types"
	"strings"
)

// parseInputIsTheFileText: the text handed to the whole-file parser is the text of the file, byte for byte. Every
// position the parser records (index, line, column) is an offset into ITS input; the generator's source map, the error
// lines, the LSP and the formatter's "changed?" comparison all relate those positions and the re-serialised text to the
// file. A caller that strips a BOM, converts CRLF, trims or otherwise rewrites the text first shifts every recorded
// position against the file (C06) and makes the formatter rewrite content it was not asked to touch — a CRLF inside a
// raw Go string or a <pre> is part of the rendered value (C08).
//
// Decided on the AST: at every call of the parser's entry points (ParseString, parse.NewInput and Parse-by-filename
// wrappers that read the file themselves) in the given packages, the text argument — and every value assigned in the
// enclosing function to the variable it names — contains no call into a text-transforming package
// (strings, bytes, regexp, unicode, unicode/utf8, golang.org/x/text).
func parseInputIsTheFileText(c *Ctx, rule string, rels ...string) {
	transforming := textTransforming
	_ = transforming
	isEntry := isParseEntry
	_ = isEntry
	parseInputBody(c, rule, rels, transforming, isEntry)
}

func textTransforming(fn *types.Func) bool {
	{
		if fn == nil || fn.Pkg() == nil {
			return false
		}
		switch p := fn.Pkg().Path(); {
		case p == "strings", p == "bytes", p == "regexp", p == "unicode", strings.HasPrefix(p, "unicode/"), strings.HasPrefix(p, "golang.org/x/text"):
			sig, _ := fn.Type().(*types.Signature)
			if sig == nil || sig.Results().Len() == 0 {
				return false
			}
			// only calls that produce text: predicates (HasPrefix, Contains, Index…) do not change the input
			switch t := sig.Results().At(0).Type().Underlying().(type) {
			case *types.Basic:
				return t.Info()&types.IsString != 0
			case *types.Slice:
				return true
			}
		}
		return false
	}
}

func isParseEntry(fn *types.Func) (int, bool) {
	if fn == nil || fn.Pkg() == nil {
		return 0, false
	}
	switch fullName(fn) {
	case modPath + "/parser/v2.ParseString", "github.com/a-h/parse.NewInput":
		return 0, true
	}
	return 0, false
}

func parseInputBody(c *Ctx, rule string, rels []string, transforming func(*types.Func) bool, isEntry func(*types.Func) (int, bool)) {
	n := 0
	for _, rel := range rels {
		p := c.pkg(rel)
		if p == nil {
			c.viol(rule, "anchor-lost:package:"+rel, "", "package "+rel+" was not loaded")
			continue
		}
		info := p.TypesInfo
		for _, fd := range allFuncDecls(p) {
			if fd.Body == nil {
				continue
			}
			ord := 0
			ast.Inspect(fd.Body, func(x ast.Node) bool {
				call, ok := x.(*ast.CallExpr)
				if !ok {
					return true
				}
				fn := calleeOf(info, call)
				ai, isE := isEntry(fn)
				if !isE || ai >= len(call.Args) {
					return true
				}
				// a parser combinator test helper inside parser/v2 builds inputs for sub-parsers from already-consumed text:
				// only whole-file entry points matter, i.e. callers that are not themselves given a *parse.Input
				if fullName(fn) == "github.com/a-h/parse.NewInput" && hasParseInputParam(info, fd) {
					return true
				}
				ord++
				n++
				key := fmt.Sprintf("%s|%s#%d|input-is-file-text", funcKey(p, fd), fn.Name(), ord)
				bad := transformedOnTheWay(info, p.Types, fd.Body, call.Args[ai], transforming)
				c.check(bad == "", rule, key, c.pos(call.Pos()), "the text parsed is the text read (no transforming call on its way to the parser)",
					fmt.Sprintf("%s passes the file's text through %s before parsing it: every position the parser records is then an offset into the rewritten text, not into the file (ranges, error lines and the source map shift), and what is written back differs from the source in bytes the user did not ask to change (a CRLF in a raw string or <pre>, a BOM)", fd.Name.Name, bad))
				return true
			})
		}
	}
	// the functions that READ the file for those callers: what they return as text is what they read
	nr := 0
	for _, rel := range rels {
		p := c.pkg(rel)
		if p == nil {
			continue
		}
		info := p.TypesInfo
		for _, fd := range allFuncDecls(p) {
			if fd.Body == nil {
				continue
			}
			ord := 0
			var visit func(body *ast.BlockStmt, ft *ast.FuncType)
			visit = func(body *ast.BlockStmt, ft *ast.FuncType) {
				reads := false
				var rets []*ast.ReturnStmt
				ast.Inspect(body, func(x ast.Node) bool {
					switch x := x.(type) {
					case *ast.FuncLit:
						visit(x.Body, x.Type)
						return false
					case *ast.CallExpr:
						if fn := calleeOf(info, x); fn != nil && (fullName(fn) == "os.ReadFile" || fullName(fn) == "io.ReadAll") {
							reads = true
						}
					case *ast.ReturnStmt:
						rets = append(rets, x)
					}
					return true
				})
				if !reads || ft.Results == nil {
					return
				}
				hasText := false
				for _, r := range ft.Results.List {
					if t := info.TypeOf(r.Type); t != nil && (t.String() == "string" || t.String() == "[]byte") {
						hasText = true
					}
				}
				if !hasText {
					return
				}
				ord++
				nr++
				bad := ""
				for _, r := range rets {
					for _, e := range r.Results {
						if t := info.TypeOf(e); t != nil && (t.String() == "string" || t.String() == "[]byte") {
							if b := transformedOnTheWay(info, p.Types, fd.Body, e, transforming); b != "" {
								bad = b
							}
						}
					}
				}
				c.check(bad == "", rule, fmt.Sprintf("%s|file-reader#%d|returns-what-it-read", funcKey(p, fd), ord), c.pos(body.Pos()), "the text returned is the text read",
					fmt.Sprintf("%s reads a file and returns its text after passing it through %s: the parser's positions and the re-serialised file are then relative to a rewritten text, not to the file", fd.Name.Name, bad))
			}
			visit(fd.Body, fd.Type)
		}
	}
	c.count("whole_file_parse_entry_calls", n)
	c.count("file_readers", nr)
}

// transformedOnTheWay follows expr, and every value assigned within body to the local variables it names, and returns
// the name of the first text-transforming call found ("" if none).
func transformedOnTheWay(info *types.Info, pkg *types.Package, body *ast.BlockStmt, expr ast.Expr, transforming func(*types.Func) bool) string {
	bad := ""
	exprs := []ast.Expr{expr}
	seen := map[types.Object]bool{}
	for i := 0; i < len(exprs) && i < 64; i++ {
		ast.Inspect(exprs[i], func(y ast.Node) bool {
			switch y := y.(type) {
			case *ast.CallExpr:
				if tf := calleeOf(info, y); transforming(tf) {
					bad = fullName(tf)
				}
			case *ast.Ident:
				ob := info.ObjectOf(y)
				v, isVar := ob.(*types.Var)
				if !isVar || seen[ob] || v.Parent() == nil || v.Pkg() != pkg || v.Parent() == pkg.Scope() {
					return true
				}
				seen[ob] = true
				ast.Inspect(body, func(z ast.Node) bool {
					switch s := z.(type) {
					case *ast.AssignStmt:
						for li, l := range s.Lhs {
							if id, ok := l.(*ast.Ident); ok && info.ObjectOf(id) == ob {
								if len(s.Rhs) == len(s.Lhs) {
									exprs = append(exprs, s.Rhs[li])
								} else if len(s.Rhs) == 1 {
									exprs = append(exprs, s.Rhs[0])
								}
							}
						}
					case *ast.ValueSpec:
						for li, id := range s.Names {
							if info.ObjectOf(id) == ob && li < len(s.Values) {
								exprs = append(exprs, s.Values[li])
							}
						}
					}
					return true
				})
			}
			return true
		})
	}
	return bad
}

func hasParseInputParam(info *types.Info, fd *ast.FuncDecl) bool {
	obj, _ := info.Defs[fd.Name].(*types.Func)
	if obj == nil {
		return false
	}
	sig := obj.Type().(*types.Signature)
	for i := 0; i < sig.Params().Len(); i++ {
		if strings.HasSuffix(sig.Params().At(i).Type().String(), "github.com/a-h/parse.Input") {
			return true
		}
	}
	return false
}
