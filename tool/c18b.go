package main

import (
	"fmt"
	"go/ast"
	"go/token"
	"go/types"
	"strings"
)

// messageKindNotDecidedByNullableMembers: C18.R16 — the function that turns a decoded frame into a Call, Notification
// or Response may not choose the KIND by whether a *json.RawMessage member (result, params) is nil. encoding/json
// leaves such a pointer nil for a member that is absent AND for one that is `null` — and the response writer sends
// "result":null for a call without a result (LSP shutdown). A test `msg.Result != nil` therefore reads the response to
// a void call as something else: the waiting caller never gets its answer. The kind is decided by members the writers
// always set: the method string and the id.
func messageKindNotDecidedByNullableMembers(c *Ctx, rule string) {
	p := c.pkg("lsp/jsonrpc2")
	info := p.TypesInfo
	msgT, _ := p.Types.Scope().Lookup("Message").(*types.TypeName)
	if msgT == nil {
		c.viol(rule, "anchor-lost:Message", "", "jsonrpc2.Message (exported interface) not found")
		return
	}
	n := 0
	for _, fd := range allFuncDecls(p) {
		if fd.Body == nil || fd.Type.Results == nil || len(fd.Type.Results.List) == 0 {
			continue
		}
		if t := info.TypeOf(fd.Type.Results.List[0].Type); t == nil || !types.Identical(t, msgT.Type()) {
			continue
		}
		// only a classifier: it returns more than one concrete message type
		kinds := map[string]bool{}
		ast.Inspect(fd.Body, func(x ast.Node) bool {
			if ret, ok := x.(*ast.ReturnStmt); ok && len(ret.Results) > 0 {
				if t := info.TypeOf(ret.Results[0]); t != nil && !types.Identical(t, msgT.Type()) && types.ExprString(ret.Results[0]) != "nil" {
					kinds[t.String()] = true
				}
			}
			return true
		})
		if len(kinds) < 2 {
			continue
		}
		nullable := func(cond ast.Expr) string {
			out := ""
			ast.Inspect(cond, func(y ast.Node) bool {
				be, ok := y.(*ast.BinaryExpr)
				if !ok || (be.Op != token.NEQ && be.Op != token.EQL) {
					return true
				}
				for _, pair := range [][2]ast.Expr{{be.X, be.Y}, {be.Y, be.X}} {
					if types.ExprString(pair[1]) != "nil" {
						continue
					}
					if t := info.TypeOf(pair[0]); t != nil && strings.HasSuffix(t.String(), "json.RawMessage") {
						out = types.ExprString(be)
					}
				}
				return true
			})
			return out
		}
		var conds []ast.Expr
		k := 0
		var walk func(root ast.Node)
		walk = func(root ast.Node) {
			ast.Inspect(root, func(x ast.Node) bool {
				switch t := x.(type) {
				case *ast.FuncLit:
					return false
				case *ast.IfStmt:
					if t.Init != nil {
						walk(t.Init)
					}
					conds = append(conds, t.Cond)
					walk(t.Body)
					if t.Else != nil {
						walk(t.Else) // the else side is chosen by the same test
					}
					conds = conds[:len(conds)-1]
					return false
				case *ast.SwitchStmt:
					if t.Tag != nil {
						return true
					}
					// a clause is reached when its own test holds and the earlier ones did not: all tests up to it decide
					var upto []ast.Expr
					for _, cc := range t.Body.List {
						cl := cc.(*ast.CaseClause)
						upto = append(upto, cl.List...)
						if len(cl.List) == 0 { // default: every test of the switch decides it
							upto = nil
							for _, cc2 := range t.Body.List {
								upto = append(upto, cc2.(*ast.CaseClause).List...)
							}
						}
						conds = append(conds, upto...)
						for _, st := range cl.Body {
							walk(st)
						}
						conds = conds[:len(conds)-len(upto)]
					}
					return false
				case *ast.ReturnStmt:
					if len(t.Results) == 0 {
						return true
					}
					rt := info.TypeOf(t.Results[0])
					if rt == nil || types.Identical(rt, msgT.Type()) || types.ExprString(t.Results[0]) == "nil" {
						return true
					}
					k++
					n++
					bad := ""
					for _, cd := range conds {
						if s := nullable(cd); s != "" {
							bad = s
						}
					}
					c.check(bad == "", rule, fmt.Sprintf("%s|return#%d:%s|kind-by-method-and-id", funcKey(p, fd), k, strings.TrimPrefix(rt.String(), "*"+p.PkgPath+".")), c.pos(t.Pos()),
						"the tests that lead to this kind of message read no *json.RawMessage member",
						fmt.Sprintf("%s decides that a frame is a %s by the test `%s` on a *json.RawMessage member: encoding/json leaves that pointer nil for an absent member and for `null` alike, and the response writer sends \"result\":null for a call without a result — such a response is read back as another kind of message and the caller that waits for it never gets its answer", fd.Name.Name, strings.TrimPrefix(rt.String(), "*"+p.PkgPath+"."), bad))
				}
				return true
			})
		}
		walk(fd.Body)
	}
	c.count("message_kind_returns", n)
	c.floor(rule, 3)
}
