package main

import (
	"fmt"
	"go/ast"
	"go/constant"
	"go/token"
	"go/types"
	"os"
	"sort"
	"strings"

	"golang.org/x/tools/go/packages"
)

func init() {
	register(&propDef{
		ID:          "C09",
		Explanation: "The fixpoint equation fmt(fmt(x)) == fmt(x) itself is not decided. Decides the structural necessary condition named by the property's anchors — line-break decisions depend only on layout flags that re-parsing the output reproduces: the parser derives each layout flag (Element.IndentChildren, Element.IndentAttrs, GoCode.Multiline) from the presence of a line break inside a source span, so on the flag=false branch the formatter itself must add no line break inside that span, and on the flag=true branch it must add one. R1 in the node-list writer, the line-break constant can reach the trailing-space write only under the `indent` mode (every assignment of a newline-containing constant to the written value is control-dependent on the indent parameter; values taken from the source node are carried over, not added); R2 for each flag, the constants written directly on the false branch contain no line break and the true branch writes at least one; R3 no attribute writer (they run inside the open-tag span) writes a line-break constant unconditionally; R5 a formatter function that writes a trimmed copy of a field tests that same copy (not the raw field) for line breaks; R6 the import rewriter that `templ fmt` runs takes its decision on the number of imports only after the import set is final; R7 the node-list writer takes the recorded trailing space of every node kind that records one (through the interface, or a type switch covering all implementers); R8 the language server's formatting answer is one edit from 0:0 to <number of lines>:0 carrying the formatter's output, so format-on-save and `templ fmt` produce the same file; R9 (= C08.R7) a flag derived from a sibling field is derived from its final value (a quote choice taken before decoding yields output that the next pass cannot parse); R10 the import rewriter does not mutate a file's import list while ranging over it; R4 (purity) no formatter function (Write/String methods of parser nodes and what they call in the package) reads mutable package-level state, the clock, the environment or iterates a map. R11 the whitespace classifier (string → TrailingSpace) returns the vertical value only after a test for \"\\n\" — the one character the formatter writes, and every other layout decision counts, as a line break. NOT decided: nodes whose grammar allows but does not require a line break inside a single-line element (block component calls), expression text re-formatting by go/format, the fixpoint on concrete files. R12 content text is written untransformed whatever the layout flags say (run of C08.R4 for idempotence). R13 the raw-string probe (indent every line, gofmt again) is run on gofmt's output or the original source, never on a piece cut out of it. R11 also: only a line feed makes trailing space vertical. R14 a value a branch computes for an outer variable is assigned to it, not to a shadowing declaration. R15 parallel slices of lines are cut at the same index. R9 also the pre-image clause of C08.R7. R13 also: the probe's result is read position by position. R16 the formatted file is written so that it replaces the old content (os.WriteFile / atomic rename / O_TRUNC). R17 a writer that takes strings.TrimSpace of an expression's text uses only the trimmed text (a raw use on another path writes the padding out again, one space more per run); R18 where the Go-expression slicer walks a list's elements to find its end it keeps the LAST element's end (assignment per iteration or running maximum), never a running minimum. R19 (= C08.R22) the per-line raw-string flags are computed for every line that is handed on and are cut at the same offset as the lines.",
		Assumptions: []string{"the parser sets a layout flag iff the corresponding source span contains a line break (elementparser.go / gocodeparser.go)"},
		Trusted:     []string{"go/types", "x/tools go/packages"},
		Run:         runC09,
	})
}

func hasNL(info *types.Info, e ast.Expr) bool {
	found := false
	ast.Inspect(e, func(n ast.Node) bool {
		if x, ok := n.(ast.Expr); ok {
			if s, ok := constString(info, x); ok && strings.Contains(s, "\n") {
				found = true
			}
		}
		return true
	})
	return found
}

// writeCalls: calls that write text (w.Write, writeIndent-like helpers, io.WriteString, writeStrings) with their text arguments.
func formatterWrites(info *types.Info, root ast.Node, f func(call *ast.CallExpr, textArgs []ast.Expr)) {
	ast.Inspect(root, func(n ast.Node) bool {
		call, ok := n.(*ast.CallExpr)
		if !ok || len(call.Args) == 0 {
			return true
		}
		takesWriter := false
		if se, ok := call.Fun.(*ast.SelectorExpr); ok && se.Sel.Name == "Write" {
			if t := info.TypeOf(se.X); t != nil && t.String() == "io.Writer" {
				takesWriter = true
				f(call, call.Args)
				return true
			}
		}
		var text []ast.Expr
		for _, a := range call.Args {
			if t := info.TypeOf(a); t != nil && t.String() == "io.Writer" {
				takesWriter = true
				continue
			}
			if t := info.TypeOf(a); t != nil && (isStringType(t) || t.String() == "[]byte") {
				text = append(text, a)
			}
		}
		if takesWriter && len(text) > 0 {
			f(call, text)
		}
		return true
	})
}

func runC09(c *Ctx) {
	c.load("./parser/v2", "./generator", "./cmd/templ/imports", "./cmd/templ/lspcmd/proxy", "./cmd/templ/fmtcmd")
	shadowedValueNeverArrives(c, "C09.R14", "cmd/templ/fmtcmd", "cmd/templ/imports", "parser/v2")
	trailerInterfaceCovered(c, "C09.R7")
	formatEditCoversDocument(c, "C09.R8")
	derivedFlagsFresh(c, "C09.R9")
	importListNotMutatedWhileRanged(c, "C09.R10")
	lineBreakIsNewlineOnly(c, "C09.R11")
	shiftProbeOnWholeSource(c, "C09.R13")
	flagsParallelToLines(c, "C09.R19")
	parallelSlicesCutAlike(c, "C09.R15")
	outputFilesReplacedIn(c, "C09.R16", "/cmd/templ/fmtcmd", 1)
	trimmedValueIsTheOneUsed(c, "C09.R17")
	listEndIsTheLastElementsEnd(c, "C09.R18")
	contentVerbatimRule = "C09.R12"
	contentVerbatim(c, c.pkg("parser/v2"), c.pkg("generator"))
	contentVerbatimRule = "C08.R4"
	p := c.pkg("parser/v2")
	info := p.TypesInfo

	// R1 ------------------------------------------------------------
	// every function of the formatter that takes the node list and the indent mode (the list writer and any helper it
	// delegates the decision to): a line-break constant becomes the trailing space — by assignment to a TrailingSpace
	// variable or by being returned — only under the indent mode
	nWriters, nBreaks := 0, 0
	for _, nodesWriter := range allFuncDecls(p) {
		if nodesWriter.Body == nil {
			continue
		}
		var indentParam types.Object
		var policies []policyArg
		hasNodes := false
		// a method of an unexported writer type: the mode may be a boolean field of the receiver
		if nodesWriter.Recv != nil {
			if len(nodesWriter.Recv.List) != 1 {
				continue
			}
			rt := info.TypeOf(nodesWriter.Recv.List[0].Type)
			if pt, ok := rt.(*types.Pointer); ok {
				rt = pt.Elem()
			}
			nt, ok := rt.(*types.Named)
			if !ok || nt.Obj().Exported() {
				continue
			}
			st, ok := nt.Underlying().(*types.Struct)
			if !ok {
				continue
			}
			nbool := 0
			for i := 0; i < st.NumFields(); i++ {
				if b, ok := st.Field(i).Type().Underlying().(*types.Basic); ok && b.Kind() == types.Bool {
					indentParam = st.Field(i)
					nbool++
				}
			}
			if nbool != 1 {
				continue
			}
		}
		for _, prm := range nodesWriter.Type.Params.List {
			t := info.TypeOf(prm.Type)
			if t == nil {
				continue
			}
			if t.String() == "bool" && len(prm.Names) == 1 {
				indentParam = info.Defs[prm.Names[0]]
			}
			// … or a small enumeration of the package (layoutInline / layoutIndented): the mode is then tested as
			// `mode == <constant>`
			if nt, ok := t.(*types.Named); ok && len(prm.Names) == 1 && nt.Obj().Pkg() == p.Types && !nt.Obj().Exported() {
				if b, ok := nt.Underlying().(*types.Basic); ok && b.Info()&types.IsInteger != 0 {
					indentParam = info.Defs[prm.Names[0]]
				}
			}
			// … or the mode is a predicate the entry points hand in; then the single-line entry point must hand in one
			// that is constantly false
			if sig, ok := t.Underlying().(*types.Signature); ok && len(prm.Names) == 1 && sig.Results().Len() == 1 && sig.Results().At(0).Type().String() == "bool" {
				if alwaysFalseArgument(p, nodesWriter, info.Defs[prm.Names[0]]) {
					indentParam = info.Defs[prm.Names[0]]
				}
			}
			// … or a policy that gives the trailing space itself; then the single-line entry point must hand in one that
			// never gives a line break, and the breaks are the ones the other policies give
			if sig, ok := t.Underlying().(*types.Signature); ok && len(prm.Names) == 1 && sig.Results().Len() == 1 && strings.HasSuffix(sig.Results().At(0).Type().String(), "TrailingSpace") {
				pols := policyArguments(p, nodesWriter, info.Defs[prm.Names[0]])
				plain := false
				for _, pol := range pols {
					if !pol.breaks {
						plain = true
					}
				}
				if plain {
					indentParam = info.Defs[prm.Names[0]]
					policies = pols
				}
			}
			if strings.HasSuffix(t.String(), "[]"+pkgParser+".Node") || t.String() == "[]"+pkgParser+".Node" {
				hasNodes = true
			}
		}
		if indentParam == nil || !hasNodes {
			continue
		}
		nWriters++
		key := funcKey(p, nodesWriter)
		for _, pol := range policies {
			if pol.breaks {
				nBreaks++
				c.ok("C09.R1", key+"|policy:"+pol.name, c.pos(pol.pos), "gives line breaks; chosen by the entry point that indents")
			} else {
				c.ok("C09.R1", key+"|policy:"+pol.name, c.pos(pol.pos), "never gives a line break: the single-line mode")
			}
		}
		isTS := func(e ast.Expr) bool {
			t := info.TypeOf(e)
			return t != nil && strings.HasSuffix(t.String(), "TrailingSpace")
		}
		n := 0
		var stack []ast.Node
		ast.Inspect(nodesWriter.Body, func(x ast.Node) bool {
			if x == nil {
				stack = stack[:len(stack)-1]
				return true
			}
			stack = append(stack, x)
			var valExpr ast.Expr
			kind := ""
			switch st := x.(type) {
			case *ast.AssignStmt:
				if len(st.Lhs) != 1 || len(st.Rhs) != 1 {
					return true
				}
				id, ok := st.Lhs[0].(*ast.Ident)
				if !ok || !isTS(id) {
					return true
				}
				valExpr = st.Rhs[0]
				kind = "assignment"
				if st.Tok == token.DEFINE {
					kind = "default"
				}
			case *ast.ReturnStmt:
				if len(st.Results) != 1 || !isTS(st.Results[0]) {
					return true
				}
				valExpr = st.Results[0]
				kind = "return"
			case *ast.ValueSpec:
				if len(st.Names) != 1 || len(st.Values) != 1 || !isTS(st.Names[0]) {
					return true
				}
				valExpr = st.Values[0]
				kind = "default"
			default:
				return true
			}
			if !hasNL(info, valExpr) {
				return true // not a line-break constant (e.g. carried over from the source node)
			}
			n++
			nBreaks++
			guarded := false
			for i := len(stack) - 2; i >= 0; i-- {
				if is, ok := stack[i].(*ast.IfStmt); ok && is.Body.Pos() <= x.Pos() && x.End() <= is.Body.End() {
					if conjunctHas(info, is.Cond, indentParam) {
						guarded = true
					}
				}
			}
			// the early-return form: an earlier `if !indent { return … }` at the top level of the function
			for _, top := range nodesWriter.Body.List {
				if top.End() > x.Pos() {
					break
				}
				if is, ok := top.(*ast.IfStmt); ok && len(is.Body.List) > 0 {
					if _, isRet := is.Body.List[len(is.Body.List)-1].(*ast.ReturnStmt); isRet {
						if ue, ok := ast.Unparen(is.Cond).(*ast.UnaryExpr); ok && ue.Op == token.NOT {
							if id, ok := ast.Unparen(ue.X).(*ast.Ident); ok && info.ObjectOf(id) == indentParam {
								guarded = true
							}
							if se, ok := ast.Unparen(ue.X).(*ast.SelectorExpr); ok && info.ObjectOf(se.Sel) == indentParam {
								guarded = true
							}
						}
					}
				}
			}
			c.check(guarded, "C09.R1", fmt.Sprintf("%s|line-break-%s#%d", key, kind, n), c.pos(x.Pos()), "only under the indent mode",
				fmt.Sprintf("%s: the trailing space written after a node is set to a line break (%s at %s) without being conditional on the indent mode: in a single-line element (`<p>a{ x }b</p>`) every run of `templ fmt` then adds line breaks that the next run indents — the output is not a fixed point", nodesWriter.Name.Name, kind, c.pos(x.Pos())))
			return true
		})
	}
	if nWriters == 0 {
		c.viol("C09.R1", "anchor-lost:node-list-writer", "", "no function (…, []Node, indent bool) found in the formatter")
	} else if nBreaks == 0 {
		c.viol("C09.R1", pkgParser+"|line-break-assignments", "", "no line-break constant ever becomes the trailing space: indented layouts would never get their line breaks")
	}

	// R2 ------------------------------------------------------------
	flags := []struct{ typ, field string }{{"Element", "IndentChildren"}, {"Element", "IndentAttrs"}, {"GoCode", "Multiline"}}
	// Over the paths of each Write method (any arrangement of if / switch / separator variables): a path on which every
	// layout flag it tests is false writes no line break (the single-line form stays on one line), and for each flag
	// there is a path that took it as true and writes one (the multi-line form reproduces itself).
	byType := map[string][]string{}
	for _, fl := range flags {
		byType[fl.typ] = append(byType[fl.typ], fl.field)
	}
	for _, typ := range []string{"Element", "GoCode"} {
		fd := findFunc(p, typ, "Write")
		if fd == nil {
			c.viol("C09.R2", fmt.Sprintf("anchor-lost:%s.Write", typ), "", typ+".Write not found")
			continue
		}
		// (helpers and methods of the same type that the writer is split into are followed into; the writers of child
		// lists and of other nodes are not)
		decls2 := map[types.Object]*ast.FuncDecl{}
		noInline := map[types.Object]bool{}
		for _, hfd := range allFuncDecls(p) {
			if hfd == fd || hfd.Body == nil {
				continue
			}
			ob := info.Defs[hfd.Name]
			decls2[ob] = hfd
			for _, prm := range hfd.Type.Params.List {
				if t := info.TypeOf(prm.Type); t != nil && strings.HasSuffix(t.String(), "[]"+pkgParser+".Node") {
					noInline[ob] = true
				}
			}
			if hfd.Recv != nil && recvTypeName(hfd.Recv.List[0].Type) != typ {
				noInline[ob] = true
			}
		}
		den := &denum{info: info, pkg: p.Types, inits: map[types.Object]ast.Expr{}, limit: 50000, loopsOnce: true, decls: decls2, inlineVals: true, noInline: noInline}
		den.finish(den.run(fd.Body.List, []dstate{{env: map[types.Object]ast.Expr{}}}))
		if os.Getenv("TEMPLVET_DEBUG") != "" {
			fmt.Fprintf(os.Stderr, "DEBUG C09.R2 %s inlined enumeration: undecided=%q paths=%d\n", typ, den.undecided, len(den.paths))
			for i, pth := range den.paths {
				var took []string
				for _, pc := range pth.Conds {
					took = append(took, fmt.Sprintf("%s=%v", types.ExprString(pc.Expr), pc.Val))
				}
				if i < 40 {
					fmt.Fprintf(os.Stderr, "DEBUG   path %d: %s\n", i, strings.Join(took, ", "))
				}
			}
		}
		if den.undecided != "" {
			// fall back to the writer's own body alone
			den = &denum{info: info, pkg: p.Types, inits: map[types.Object]ast.Expr{}, limit: 50000, loopsOnce: true}
			den.finish(den.run(fd.Body.List, []dstate{{env: map[types.Object]ast.Expr{}}}))
		}
		if den.undecided != "" {
			c.undec("C09.R2", funcKey(p, fd)+"|flags", c.pos(fd.Pos()), typ+".Write contains "+den.undecided)
			continue
		}
		isFlag := func(e ast.Expr) string {
			if se, ok := ast.Unparen(e).(*ast.SelectorExpr); ok {
				for _, f := range byType[typ] {
					if se.Sel.Name == f {
						return f
					}
				}
			}
			return ""
		}
		writesNL := func(pth dpath) (bool, string) {
			found, where := false, ""
			var nodes []ast.Node
			for _, st := range pth.Trace {
				nodes = append(nodes, st)
			}
			if pth.Ret != nil {
				nodes = append(nodes, pth.Ret)
			}
			for _, nd := range nodes {
				formatterWrites(info, nd, func(call *ast.CallExpr, text []ast.Expr) {
					for _, t := range text {
						if hasNL(info, t) {
							found, where = true, c.pos(call.Pos())
						}
						// a separator held in a variable: what the variable is bound to on this path
						ast.Inspect(t, func(m ast.Node) bool {
							if id, ok := m.(*ast.Ident); ok {
								if b, bound := pth.Env[info.ObjectOf(id)]; bound && hasNL(info, b) {
									found, where = true, c.pos(call.Pos())
								}
							}
							return true
						})
					}
				})
			}
			return found, where
		}
		tested := map[string]bool{}
		trueNL := map[string]bool{}
		badSingle := ""
		for _, pth := range den.paths {
			vals := map[string]bool{}
			for _, pc := range pth.Conds {
				if f := isFlag(pc.Expr); f != "" {
					vals[f] = pc.Val
					tested[f] = true
				}
			}
			nl, where := writesNL(pth)
			allFalse := true
			for _, v := range vals {
				if v {
					allFalse = false
				}
			}
			for f, v := range vals {
				if v && nl {
					trueNL[f] = true
				}
			}
			if allFalse && len(vals) == len(byType[typ]) && nl {
				badSingle = where
			}
		}
		for i, f := range byType[typ] {
			key := fmt.Sprintf("%s|flag:%s#%d", funcKey(p, fd), f, i+1)
			if !tested[f] {
				c.viol("C09.R2", fmt.Sprintf("%s|flag:%s", funcKey(p, fd), f), c.pos(fd.Pos()), typ+".Write no longer branches on "+f+": the layout chosen by the author cannot be reproduced")
				continue
			}
			c.check(trueNL[f], "C09.R2", key+"|true-branch-adds-line-break", c.pos(fd.Pos()), "a path with "+f+"=true writes a line break",
				fmt.Sprintf("%s.Write writes no line break on any path with %s=true: the re-parsed output has the flag cleared", typ, f))
		}
		c.check(badSingle == "", "C09.R2", funcKey(p, fd)+"|false-branch-adds-no-line-break", c.pos(fd.Pos()), "with every layout flag false no line break is written",
			fmt.Sprintf("%s.Write writes a line break (%s) on a path where every layout flag (%s) is false: the re-parsed output has a flag set and is formatted differently", typ, badSingle, strings.Join(byType[typ], ", ")))
	}
	// the parser sets each flag from a line comparison
	for _, fl := range flags {
		set := false
		for _, f := range p.Syntax {
			ast.Inspect(f, func(x ast.Node) bool {
				is, ok := x.(*ast.IfStmt)
				if !ok {
					return true
				}
				if !strings.Contains(types.ExprString(is.Cond), ".Line") {
					return true
				}
				for _, st := range is.Body.List {
					if as, ok := st.(*ast.AssignStmt); ok && len(as.Lhs) == 1 {
						if se, ok := as.Lhs[0].(*ast.SelectorExpr); ok && se.Sel.Name == fl.field && types.ExprString(as.Rhs[0]) == "true" {
							set = true
						}
					}
				}
				return true
			})
		}
		// … or the flag is assigned the comparison itself (X.f = from.Line != to.Line), directly or as the result of a
		// package-local function that computes it
		if !set {
			if st, ok := p.Types.Scope().Lookup(fl.typ).(*types.TypeName); ok {
				if stt, ok := st.Type().Underlying().(*types.Struct); ok {
					for i := 0; i < stt.NumFields(); i++ {
						if stt.Field(i).Name() != fl.field {
							continue
						}
						for _, sto := range fieldStoresOf(p, stt.Field(i)) {
							lineCmp := func(e ast.Expr) bool {
								found := false
								ast.Inspect(e, func(n ast.Node) bool {
									if be, ok := n.(*ast.BinaryExpr); ok && (be.Op == token.NEQ || be.Op == token.EQL || be.Op == token.GTR || be.Op == token.LSS) && strings.Contains(types.ExprString(be), ".Line") {
										found = true
									}
									return true
								})
								return found
							}
							if lineCmp(sto.Rhs) {
								set = true
							}
							if call, isCall := ast.Unparen(sto.Rhs).(*ast.CallExpr); isCall {
								if fn := calleeOf(info, call); fn != nil && fn.Pkg() == p.Types {
									for _, hfd := range allFuncDecls(p) {
										if info.Defs[hfd.Name] != types.Object(fn) || hfd.Body == nil {
											continue
										}
										// the result in that position: returned expressions, or what is assigned to the named result
										var named types.Object
										k := 0
										if hfd.Type.Results != nil {
											for _, r := range hfd.Type.Results.List {
												for _, nm := range r.Names {
													if k == sto.Res {
														named = info.Defs[nm]
													}
													k++
												}
											}
										}
										ast.Inspect(hfd.Body, func(n ast.Node) bool {
											switch x := n.(type) {
											case *ast.ReturnStmt:
												if sto.Res < len(x.Results) && lineCmp(x.Results[sto.Res]) {
													set = true
												}
											case *ast.AssignStmt:
												for li, l := range x.Lhs {
													if id, ok := l.(*ast.Ident); ok && named != nil && info.ObjectOf(id) == named && len(x.Lhs) == len(x.Rhs) && lineCmp(x.Rhs[li]) {
														set = true
													}
												}
											}
											return true
										})
									}
								}
							}
						}
					}
				}
			}
		}
		c.check(set, "C09.R2", pkgParser+"|flag-from-line-comparison:"+fl.field, "", "set when the span crosses a line",
			"the parser no longer derives "+fl.field+" from a line comparison: the flag would not reproduce the formatter's own layout")
	}

	// R3 ------------------------------------------------------------
	attrIface, _ := p.Types.Scope().Lookup("Attribute").(*types.TypeName)
	if attrIface == nil {
		c.viol("C09.R3", "anchor-lost:Attribute", "", "parser.Attribute interface not found")
	} else {
		var kinds []string
		for _, nm := range p.Types.Scope().Names() {
			tn, ok := p.Types.Scope().Lookup(nm).(*types.TypeName)
			if !ok || tn == attrIface {
				continue
			}
			if _, isIface := tn.Type().Underlying().(*types.Interface); isIface {
				continue
			}
			if types.Implements(tn.Type(), attrIface.Type().Underlying().(*types.Interface)) {
				kinds = append(kinds, nm)
			}
		}
		sort.Strings(kinds)
		// the interface is just Write(w, indent): narrow to the types that occur as cases of a type switch over an Attribute value
		isAttrKind := map[string]bool{}
		for _, pk := range []*packages.Package{p, c.pkg("generator")} {
			for _, f := range pk.Syntax {
				ast.Inspect(f, func(x ast.Node) bool {
					ts, ok := x.(*ast.TypeSwitchStmt)
					if !ok {
						return true
					}
					var tag ast.Expr
					switch a := ts.Assign.(type) {
					case *ast.AssignStmt:
						if ta, ok := a.Rhs[0].(*ast.TypeAssertExpr); ok {
							tag = ta.X
						}
					case *ast.ExprStmt:
						if ta, ok := a.X.(*ast.TypeAssertExpr); ok {
							tag = ta.X
						}
					}
					if tag == nil {
						return true
					}
					if t := pk.TypesInfo.TypeOf(tag); t == nil || !types.Identical(t, attrIface.Type()) {
						return true
					}
					for _, cl := range ts.Body.List {
						for _, e := range cl.(*ast.CaseClause).List {
							if nt, ok := pk.TypesInfo.TypeOf(e).(*types.Named); ok {
								isAttrKind[nt.Obj().Name()] = true
							}
						}
					}
					return true
				})
			}
		}
		var narrowed []string
		for _, k := range kinds {
			if isAttrKind[k] {
				narrowed = append(narrowed, k)
			}
		}
		kinds = narrowed
		for _, k := range kinds {
			fd := findFunc(p, k, "Write")
			if fd == nil {
				continue
			}
			where := ""
			// unconditional = at the top level of the method body or inside plain blocks / loops, not inside an if/switch on the node's text
			var visit func(list []ast.Stmt)
			visit = func(list []ast.Stmt) {
				for _, st := range list {
					switch s := st.(type) {
					case *ast.IfStmt:
						// the condition of the if itself (init; cond) may write: `if err := w.Write(...); err != nil`
						if s.Init != nil {
							formatterWrites(info, s.Init, func(call *ast.CallExpr, text []ast.Expr) {
								for _, t := range text {
									if hasNL(info, t) {
										where = c.pos(call.Pos())
									}
								}
							})
						}
						if isErrNil(s.Cond) {
							continue // error-return branch
						}
						// conditional on data: not "unconditional"; if it can return, everything after it is conditional too
						if containsReturn(s) {
							return
						}
					case *ast.BlockStmt:
						visit(s.List)
					case *ast.ForStmt:
						visit(s.Body.List)
					case *ast.RangeStmt:
						visit(s.Body.List)
					default:
						formatterWrites(info, st, func(call *ast.CallExpr, text []ast.Expr) {
							for _, t := range text {
								if hasNL(info, t) {
									where = c.pos(call.Pos())
								}
							}
						})
					}
				}
			}
			visit(fd.Body.List)
			c.check(where == "", "C09.R3", fmt.Sprintf("%s.(%s).Write|no-unconditional-line-break", p.PkgPath, k), c.pos(fd.Pos()), "writes no line break of its own",
				fmt.Sprintf("%s.Write always writes a line break (%s): inside a single-line open tag (`<div if c { class=\"a\" }>`) the formatter's output puts attributes on several lines, the next parse sets IndentAttrs and the second formatting differs", k, where))
		}
		c.count("attribute_kinds", len(kinds))
	}

	// R4 ------------------------------------------------------------
	formatterPurity(c, p)
	layoutTestsOnNormalisedText(c, p)
	importCountDecidedLast(c)
	c.floor("C09.R2", 6)
	c.floor("C09.R3", 5)
}

func isErrNil(e ast.Expr) bool {
	be, ok := ast.Unparen(e).(*ast.BinaryExpr)
	return ok && be.Op == token.NEQ && types.ExprString(be.Y) == "nil" && strings.Contains(strings.ToLower(types.ExprString(be.X)), "err")
}

func blockEndsInReturn(b *ast.BlockStmt) bool {
	if len(b.List) == 0 {
		return false
	}
	_, ok := b.List[len(b.List)-1].(*ast.ReturnStmt)
	return ok
}

// conjunctHas: v is a conjunct of the condition (cond = v && …).
func paramObjs(info *types.Info, fd *ast.FuncDecl) []types.Object {
	var out []types.Object
	for _, prm := range fd.Type.Params.List {
		for _, nm := range prm.Names {
			out = append(out, info.Defs[nm])
		}
	}
	return out
}

// alwaysFalseArgument: some call of fd in the package passes, for the parameter prm, a declared function (or literal)
// whose body is `return false`.
func alwaysFalseArgument(p *packages.Package, fd *ast.FuncDecl, prm types.Object) bool {
	info := p.TypesInfo
	idx := -1
	for i, ob := range paramObjs(info, fd) {
		if ob == prm {
			idx = i
		}
	}
	if idx < 0 {
		return false
	}
	constFalse := func(body *ast.BlockStmt) bool {
		if body == nil || len(body.List) != 1 {
			return false
		}
		ret, ok := body.List[0].(*ast.ReturnStmt)
		if !ok || len(ret.Results) != 1 {
			return false
		}
		tv, ok := info.Types[ret.Results[0]]
		return ok && tv.Value != nil && tv.Value.String() == "false"
	}
	found := false
	for _, f := range allFuncDecls(p) {
		ast.Inspect(f, func(n ast.Node) bool {
			call, ok := n.(*ast.CallExpr)
			if !ok || calleeOf(info, call) != info.Defs[fd.Name] || idx >= len(call.Args) {
				return true
			}
			switch a := ast.Unparen(call.Args[idx]).(type) {
			case *ast.FuncLit:
				found = found || constFalse(a.Body)
			case *ast.Ident:
				if fn, ok := info.Uses[a].(*types.Func); ok {
					if d := findFunc(p, "", fn.Name()); d != nil {
						found = found || constFalse(d.Body)
					}
				}
			}
			return true
		})
	}
	return found
}

// policyArguments: the functions (declared or literal) the calls of fd pass for the function-typed parameter prm, each
// with whether a line-break constant occurs in it.
type policyArg struct {
	name   string
	pos    token.Pos
	breaks bool
}

func policyArguments(p *packages.Package, fd *ast.FuncDecl, prm types.Object) []policyArg {
	info := p.TypesInfo
	idx := -1
	for i, ob := range paramObjs(info, fd) {
		if ob == prm {
			idx = i
		}
	}
	if idx < 0 {
		return nil
	}
	var out []policyArg
	unknown := false
	for _, f := range allFuncDecls(p) {
		ast.Inspect(f, func(n ast.Node) bool {
			call, ok := n.(*ast.CallExpr)
			if !ok || calleeOf(info, call) != info.Defs[fd.Name] || idx >= len(call.Args) {
				return true
			}
			switch a := ast.Unparen(call.Args[idx]).(type) {
			case *ast.FuncLit:
				out = append(out, policyArg{"func literal", a.Pos(), hasNL(info, &ast.ParenExpr{X: a})})
			case *ast.Ident:
				if fn, ok := info.Uses[a].(*types.Func); ok {
					if d := findFunc(p, "", fn.Name()); d != nil && d.Body != nil {
						brk := false
						ast.Inspect(d.Body, func(m ast.Node) bool {
							if e, ok := m.(ast.Expr); ok && hasNL(info, e) {
								brk = true
							}
							return !brk
						})
						out = append(out, policyArg{fn.Name(), d.Pos(), brk})
						return true
					}
				}
				if info.ObjectOf(a) != prm { // (the writer handing its own policy on to itself for the children is fine)
					unknown = true
				}
			default:
				unknown = true
			}
			return true
		})
	}
	if unknown {
		return nil
	}
	return out
}

func conjunctHas(info *types.Info, cond ast.Expr, v types.Object) bool {
	cond = ast.Unparen(cond)
	if id, ok := cond.(*ast.Ident); ok {
		return info.ObjectOf(id) == v
	}
	// the mode as a field of the writer: nw.breakLines
	if se, ok := cond.(*ast.SelectorExpr); ok {
		return info.ObjectOf(se.Sel) == v
	}
	// the mode as a predicate handed in by the caller: mode(…)
	if call, ok := cond.(*ast.CallExpr); ok {
		if id, ok := ast.Unparen(call.Fun).(*ast.Ident); ok {
			return info.ObjectOf(id) == v
		}
	}
	if be, ok := cond.(*ast.BinaryExpr); ok && be.Op == token.LAND {
		return conjunctHas(info, be.X, v) || conjunctHas(info, be.Y, v)
	}
	// the mode as an enumeration: mode == <constant of its type>
	if be, ok := cond.(*ast.BinaryExpr); ok && be.Op == token.EQL {
		for _, pair := range [][2]ast.Expr{{be.X, be.Y}, {be.Y, be.X}} {
			if id, ok := ast.Unparen(pair[0]).(*ast.Ident); ok && info.ObjectOf(id) == v {
				if _, isBool := v.Type().Underlying().(*types.Basic); isBool && v.Type().Underlying().(*types.Basic).Kind() != types.Bool {
					if tv, ok := info.Types[pair[1]]; ok && tv.Value != nil {
						return true
					}
				}
			}
		}
	}
	return false
}

func formatterPurity(c *Ctx, p *packages.Package) {
	info := p.TypesInfo
	byObj := map[types.Object]*ast.FuncDecl{}
	var work []*ast.FuncDecl
	for _, fd := range allFuncDecls(p) {
		byObj[info.Defs[fd.Name]] = fd
		if fd.Recv != nil && (fd.Name.Name == "Write" || fd.Name.Name == "String") {
			work = append(work, fd)
		}
	}
	// package-level variables that are written somewhere (mutable)
	mutable := map[types.Object]bool{}
	for _, nm := range p.Types.Scope().Names() {
		if v, ok := p.Types.Scope().Lookup(nm).(*types.Var); ok {
			for _, u := range collectVarUses([]*packages.Package{p}, v) {
				if u.write {
					mutable[v] = true
				}
			}
		}
	}
	seen := map[*ast.FuncDecl]bool{}
	nbad := 0
	for len(work) > 0 {
		fd := work[len(work)-1]
		work = work[:len(work)-1]
		if seen[fd] {
			continue
		}
		seen[fd] = true
		ast.Inspect(fd.Body, func(n ast.Node) bool {
			switch x := n.(type) {
			case *ast.CallExpr:
				if fn := calleeOf(info, x); fn != nil {
					if cfd := byObj[fn]; cfd != nil {
						work = append(work, cfd)
					}
					switch fullName(fn) {
					case "time.Now", "os.Getenv", "os.LookupEnv", "time.Since":
						nbad++
						c.viol("C09.R4", funcKey(p, fd)+"|calls:"+fullName(fn), c.pos(x.Pos()), "a formatter function calls "+fullName(fn)+": two formatting runs need not agree")
					}
					if fn.Pkg() != nil && strings.HasPrefix(fn.Pkg().Path(), "math/rand") {
						nbad++
						c.viol("C09.R4", funcKey(p, fd)+"|calls:rand", c.pos(x.Pos()), "a formatter function uses randomness")
					}
				}
			case *ast.Ident:
				if v, ok := info.Uses[x].(*types.Var); ok && mutable[v] {
					nbad++
					c.viol("C09.R4", funcKey(p, fd)+"|reads-mutable-global:"+x.Name, c.pos(x.Pos()), "a formatter function reads the mutable package-level variable "+x.Name)
				}
			case *ast.RangeStmt:
				if _, isMap := info.TypeOf(x.X).Underlying().(*types.Map); isMap {
					nbad++
					c.viol("C09.R4", funcKey(p, fd)+"|map-range", c.pos(x.Pos()), "a formatter function ranges over a map: output order depends on randomised iteration")
				}
			}
			return true
		})
	}
	c.count("formatter_functions", len(seen))
	c.ok("C09.R4", p.PkgPath+"|formatter-purity", "", fmt.Sprintf("%d formatter functions scanned; %d impure constructs", len(seen), nbad))
}

func containsReturn(n ast.Node) bool {
	found := false
	ast.Inspect(n, func(x ast.Node) bool {
		if _, ok := x.(*ast.FuncLit); ok {
			return false
		}
		if _, ok := x.(*ast.ReturnStmt); ok {
			found = true
		}
		return true
	})
	return found
}

// layoutTestsOnNormalisedText: C09.R5 — when a formatter function writes a trimmed copy of a field, its line-break test
// must look at that same trimmed copy: surrounding whitespace of the raw field is not reproduced by the formatter's own
// output, so a test on the raw field takes a different branch on the second run.
func layoutTestsOnNormalisedText(c *Ctx, p *packages.Package) {
	info := p.TypesInfo
	n := 0
	for _, fd := range allFuncDecls(p) {
		// trimmed copies: local := strings.TrimSpace(<expr>)
		trimmedOf := map[string]string{} // raw expr text → local name
		ast.Inspect(fd.Body, func(x ast.Node) bool {
			as, ok := x.(*ast.AssignStmt)
			if !ok || len(as.Lhs) != 1 || len(as.Rhs) != 1 {
				return true
			}
			call, ok := as.Rhs[0].(*ast.CallExpr)
			if !ok || len(call.Args) != 1 {
				return true
			}
			if fn := calleeOf(info, call); fn != nil && fullName(fn) == "strings.TrimSpace" {
				if id, ok := as.Lhs[0].(*ast.Ident); ok {
					trimmedOf[types.ExprString(call.Args[0])] = id.Name
				}
			}
			return true
		})
		if len(trimmedOf) == 0 {
			continue
		}
		ast.Inspect(fd.Body, func(x ast.Node) bool {
			call, ok := x.(*ast.CallExpr)
			if !ok || len(call.Args) < 2 {
				return true
			}
			fn := calleeOf(info, call)
			if fn == nil || fn.Pkg() == nil || fn.Pkg().Path() != "strings" {
				return true
			}
			switch fn.Name() {
			case "Contains", "ContainsRune", "Count", "Split", "Index", "ContainsAny":
			default:
				return true
			}
			if !hasNL(info, call.Args[1]) {
				return true
			}
			n++
			raw := types.ExprString(call.Args[0])
			key := fmt.Sprintf("%s|line-break-test-on:%s", funcKey(p, fd), raw)
			if local, isRaw := trimmedOf[raw]; isRaw {
				c.viol("C09.R5", key, c.pos(call.Pos()), fmt.Sprintf("%s decides its layout by looking for a line break in the raw %s although it writes the trimmed copy %s: a line break that only surrounds the text (`attr={⏎x⏎}`) is not reproduced by the formatter's own output, so the second run takes the other branch", fd.Name.Name, raw, local))
			} else {
				c.ok("C09.R5", key, c.pos(call.Pos()), "the line-break test looks at the text that is written")
			}
			return true
		})
	}
	c.count("line_break_tests_in_trimming_functions", n)
}

// importCountDecidedLast: C09.R6 — templ fmt also rewrites the import block; a decision on the number of imports must be
// taken on the final import set (after unused imports were deleted and missing ones added), otherwise the next run, which
// starts from that final set, decides differently.
func importCountDecidedLast(c *Ctx) {
	p := c.pkg("cmd/templ/imports")
	info := p.TypesInfo
	n := 0
	isMutator := func(fn *types.Func) bool {
		if fn == nil || fn.Pkg() == nil || !strings.HasSuffix(fn.Pkg().Path(), "ast/astutil") {
			return false
		}
		switch fn.Name() {
		case "AddNamedImport", "DeleteNamedImport", "AddImport", "DeleteImport", "DeleteUnusedImports":
			return true
		}
		return false
	}
	// a call that edits the import list: one of astutil's editors, a call that is handed one of them as a function
	// value (editImport(astutil.DeleteNamedImport, …)), or a helper of the package that does either
	var mutates func(call *ast.CallExpr, depth int) bool
	mutates = func(call *ast.CallExpr, depth int) bool {
		fn := calleeOf(info, call)
		if isMutator(fn) {
			return true
		}
		for _, a := range call.Args {
			switch v := ast.Unparen(a).(type) {
			case *ast.SelectorExpr:
				if f2, ok := info.Uses[v.Sel].(*types.Func); ok && isMutator(f2) {
					return true
				}
			case *ast.Ident:
				if f2, ok := info.Uses[v].(*types.Func); ok && isMutator(f2) {
					return true
				}
			}
		}
		if fn != nil && fn.Pkg() == p.Types && depth < 2 {
			for _, hd := range allFuncDecls(p) {
				if info.Defs[hd.Name] == types.Object(fn) && hd.Body != nil {
					found := false
					ast.Inspect(hd.Body, func(m ast.Node) bool {
						if c2, ok := m.(*ast.CallExpr); ok && mutates(c2, depth+1) {
							found = true
						}
						return !found
					})
					return found
				}
			}
		}
		return false
	}
	for _, fd := range allFuncDecls(p) {
		var tests []*ast.IfStmt
		var muts []*ast.CallExpr
		ast.Inspect(fd.Body, func(x ast.Node) bool {
			switch y := x.(type) {
			case *ast.IfStmt:
				// a test on the number of imports: len(X.Imports), or len of a local that holds (a copy of) that list
				isCount := false
				ast.Inspect(y.Cond, func(m ast.Node) bool {
					if lc, ok := m.(*ast.CallExpr); ok && len(lc.Args) == 1 && types.ExprString(lc.Fun) == "len" {
						if strings.Contains(types.ExprString(unfold(p, fd, lc.Args[0], 0)), ".Imports") {
							isCount = true
						}
						// a local that is assigned (a copy of) the list somewhere in the function
						if id, ok := ast.Unparen(lc.Args[0]).(*ast.Ident); ok {
							ob := info.ObjectOf(id)
							ast.Inspect(fd.Body, func(q ast.Node) bool {
								if as, ok := q.(*ast.AssignStmt); ok && len(as.Lhs) == len(as.Rhs) {
									for i, l := range as.Lhs {
										if lid, ok := l.(*ast.Ident); ok && info.ObjectOf(lid) == ob && strings.Contains(types.ExprString(as.Rhs[i]), ".Imports") {
											isCount = true
										}
									}
								}
								return true
							})
						}
					}
					return true
				})
				if isCount {
					tests = append(tests, y)
				}
			case *ast.CallExpr:
				if mutates(y, 0) {
					muts = append(muts, y)
				}
			}
			return true
		})
		for _, t := range tests {
			n++
			late := ""
			for _, m := range muts {
				if m.Pos() > t.End() {
					late = c.pos(m.Pos())
				}
			}
			c.check(late == "", "C09.R6", funcKey(p, fd)+"|import-count-decided-on-final-set", c.pos(t.Pos()), "no import is added or deleted after the test on the number of imports",
				fmt.Sprintf("%s tests %s and afterwards still adds or deletes imports (%s): the layout chosen for the import block is based on a count that the same run changes, so the next run — starting from the final set — rewrites the block again", fd.Name.Name, types.ExprString(t.Cond), late))
		}
	}
	if n == 0 {
		c.ok("C09.R6", p.PkgPath+"|no-import-count-decision", "", "the import processor takes no decision on the number of imports")
	}
}

// trailerInterfaceCovered: C09.R7 — the node-list writer takes the trailing space of EVERY node kind that records one.
// The parser stores, for each such node, the whitespace that followed it in the source; if the writer ignores it for
// one kind and falls back to its default (a line break), a single-line element gains a line break in the first pass
// and is re-laid-out as a multi-line element in the second.
func trailerInterfaceCovered(c *Ctx, rule string) {
	pp := c.pkg("parser/v2")
	info := pp.TypesInfo
	tsT, _ := pp.Types.Scope().Lookup("TrailingSpace").(*types.TypeName)
	if tsT == nil {
		c.viol(rule, "anchor-lost:TrailingSpace", "", "type parser.TrailingSpace not found")
		return
	}
	// the interface: a named interface type whose single method returns TrailingSpace
	var trailer *types.Named
	for _, nm := range pp.Types.Scope().Names() {
		tn, ok := pp.Types.Scope().Lookup(nm).(*types.TypeName)
		if !ok {
			continue
		}
		it, ok := tn.Type().Underlying().(*types.Interface)
		if !ok || it.NumMethods() != 1 {
			continue
		}
		sig := it.Method(0).Type().(*types.Signature)
		if sig.Results().Len() == 1 && types.Identical(sig.Results().At(0).Type(), tsT.Type()) {
			trailer, _ = tn.Type().(*types.Named)
		}
	}
	if trailer == nil {
		c.viol(rule, "anchor-lost:trailing-space-interface", "", "no interface with a single method returning TrailingSpace found")
		return
	}
	iface := trailer.Underlying().(*types.Interface)
	var implementers []string
	implT := map[string]types.Type{}
	for _, nm := range pp.Types.Scope().Names() {
		tn, ok := pp.Types.Scope().Lookup(nm).(*types.TypeName)
		if !ok || tn.Type() == trailer.Obj().Type() {
			continue
		}
		if _, isIface := tn.Type().Underlying().(*types.Interface); isIface {
			continue
		}
		if types.Implements(tn.Type(), iface) {
			implementers = append(implementers, nm)
			implT[nm] = tn.Type()
		}
	}
	sort.Strings(implementers)
	c.count("node_kinds_recording_trailing_space", len(implementers))
	// every node kind that RECORDS a trailing space (has a field of that type) offers it through the interface as a
	// value: nodes are stored in []Node as values, so a method on the pointer receiver is invisible to the writer
	for _, nm := range pp.Types.Scope().Names() {
		tn, ok := pp.Types.Scope().Lookup(nm).(*types.TypeName)
		if !ok {
			continue
		}
		st, ok := tn.Type().Underlying().(*types.Struct)
		if !ok {
			continue
		}
		records := false
		for i := 0; i < st.NumFields(); i++ {
			if types.Identical(st.Field(i).Type(), tsT.Type()) {
				records = true
			}
		}
		if !records {
			continue
		}
		// (only node kinds — what the node list holds; a layout record of the formatter itself is not one)
		if nodeT, ok := pp.Types.Scope().Lookup("Node").(*types.TypeName); ok {
			if ni, ok := nodeT.Type().Underlying().(*types.Interface); ok && !types.Implements(tn.Type(), ni) && !types.Implements(types.NewPointer(tn.Type()), ni) {
				continue
			}
		}
		byValue := types.Implements(tn.Type(), iface)
		byPtr := types.Implements(types.NewPointer(tn.Type()), iface)
		why := ""
		if !byValue && byPtr {
			why = "its " + iface.Method(0).Name() + " method has a pointer receiver, but nodes are stored as values: the type assertion in the node-list writer fails silently"
		} else if !byValue {
			why = "it has no " + iface.Method(0).Name() + " method"
		}
		c.check(why == "", rule, pp.PkgPath+"."+nm+"|recorded-trailing-space-is-offered", c.pos(tn.Pos()), nm+" values implement "+trailer.Obj().Name(),
			fmt.Sprintf("%s records the whitespace that followed it in the source, but %s: the formatter falls back to a line break after every such node, so a single-line element containing one gains a line break in the first pass and is re-indented in the second", nm, why))
	}
	// the writer: a function with a local of type TrailingSpace that is written to the output
	found := false
	for _, fd := range allFuncDecls(pp) {
		var local types.Object
		ast.Inspect(fd.Body, func(x ast.Node) bool {
			if as, ok := x.(*ast.AssignStmt); ok && as.Tok == token.DEFINE && len(as.Lhs) == 1 {
				if id, ok := as.Lhs[0].(*ast.Ident); ok {
					if ob := info.Defs[id]; ob != nil && types.Identical(ob.Type(), tsT.Type()) {
						if tv, ok := info.Types[as.Rhs[0]]; ok && tv.Value != nil {
							local = ob
						}
					}
				}
			}
			return true
		})
		// … or a function that is handed a node and returns its trailing space, with a constant as the fallback
		returnsDefault := false
		if local == nil && fd.Type.Results != nil && len(fd.Type.Results.List) == 1 {
			if rt := info.TypeOf(fd.Type.Results.List[0].Type); rt != nil && types.Identical(rt, tsT.Type()) {
				takesNode := false
				for _, prm := range paramObjs(info, fd) {
					if prm != nil {
						if _, isIface := prm.Type().Underlying().(*types.Interface); isIface {
							takesNode = true
						}
					}
				}
				ast.Inspect(fd.Body, func(x ast.Node) bool {
					if ret, ok := x.(*ast.ReturnStmt); ok && len(ret.Results) == 1 && takesNode {
						if tv, ok := info.Types[ret.Results[0]]; ok && tv.Value != nil {
							returnsDefault = true
						}
					}
					return true
				})
			}
		}
		if local == nil && !returnsDefault {
			continue
		}
		found = true
		// how is it overridden from the node?
		viaInterface := false
		covered := map[string]bool{}
		ast.Inspect(fd.Body, func(x ast.Node) bool {
			switch x := x.(type) {
			case *ast.TypeAssertExpr:
				if x.Type != nil {
					if t := info.TypeOf(x.Type); t != nil && types.Identical(t, trailer) {
						viaInterface = true
					}
				}
			case *ast.TypeSwitchStmt:
				for _, cl := range x.Body.List {
					cc := cl.(*ast.CaseClause)
					assigns := false
					ast.Inspect(cc, func(y ast.Node) bool {
						if as, ok := y.(*ast.AssignStmt); ok {
							for _, l := range as.Lhs {
								if id, ok := l.(*ast.Ident); ok && info.ObjectOf(id) == local && local != nil {
									assigns = true
								}
							}
						}
						if ret, ok := y.(*ast.ReturnStmt); ok && returnsDefault && len(ret.Results) == 1 {
							if tv, ok := info.Types[ret.Results[0]]; ok && tv.Value == nil {
								assigns = true // the clause returns what the node recorded
							}
						}
						return true
					})
					if !assigns {
						continue
					}
					for _, te := range cc.List {
						t := info.TypeOf(te)
						if t == nil {
							continue
						}
						if types.Identical(t, trailer) {
							viaInterface = true
						}
						for nm, it := range implT {
							if types.Identical(t, it) || types.Identical(t, types.NewPointer(it)) {
								covered[nm] = true
							}
						}
					}
				}
			}
			return true
		})
		var missing []string
		if !viaInterface {
			for _, nm := range implementers {
				if !covered[nm] {
					missing = append(missing, nm)
				}
			}
		}
		c.check(viaInterface || len(missing) == 0, rule, funcKey(pp, fd)+"|every-trailer-kind-consulted", c.pos(fd.Pos()),
			fmt.Sprintf("trailing space taken through the %s interface (implemented by %s)", trailer.Obj().Name(), strings.Join(implementers, ", ")),
			fmt.Sprintf("%s takes the recorded trailing space only for some node kinds; %s also record(s) one (method %s) but fall(s) back to the default line break: inside a single-line element the first pass inserts a line break after such a node, and the second pass, seeing a multi-line element, indents its children — fmt(fmt(x)) != fmt(x)", fd.Name.Name, strings.Join(missing, ", "), iface.Method(0).Name()))
	}
	if !found {
		c.viol(rule, "anchor-lost:node-list-writer", "", "no function with a TrailingSpace local initialised to a constant found")
	}
}

// formatEditCoversDocument: C09.R8 — the language server answers a formatting request with one edit that replaces the
// whole document by the formatter's output; its range must reach the end of the last line, otherwise the editor keeps
// the tail of the old text and what is saved differs from what `templ fmt` writes.
func formatEditCoversDocument(c *Ctx, rule string) {
	p := c.pkg("cmd/templ/lspcmd/proxy")
	if p == nil {
		c.viol(rule, "anchor-lost:lspcmd/proxy", "", "package cmd/templ/lspcmd/proxy not loaded")
		return
	}
	info := p.TypesInfo
	n := 0
	for _, fd := range allFuncDecls(p) {
		// a function with a *DocumentFormattingParams parameter
		isFmt := false
		for _, prm := range fd.Type.Params.List {
			if t := info.TypeOf(prm.Type); t != nil && strings.HasSuffix(t.String(), ".DocumentFormattingParams") {
				isFmt = true
			}
		}
		if !isFmt {
			continue
		}
		ast.Inspect(fd.Body, func(x ast.Node) bool {
			cl, ok := x.(*ast.CompositeLit)
			if !ok {
				return true
			}
			if t := info.TypeOf(cl); t == nil || !strings.HasSuffix(t.String(), ".TextEdit") {
				return true
			} else if _, isStruct := t.Underlying().(*types.Struct); !isStruct {
				return true // a list of edits: its elements are looked at
			}
			n++
			var rng *ast.CompositeLit
			for _, el := range cl.Elts {
				if kv, ok := el.(*ast.KeyValueExpr); ok && types.ExprString(kv.Key) == "Range" {
					rng, _ = kv.Value.(*ast.CompositeLit)
					// the range may be built in a local first
					if id, ok := ast.Unparen(kv.Value).(*ast.Ident); ok && rng == nil {
						ast.Inspect(fd.Body, func(y ast.Node) bool {
							if as, ok := y.(*ast.AssignStmt); ok && len(as.Lhs) == 1 && len(as.Rhs) == 1 {
								if lid, ok := as.Lhs[0].(*ast.Ident); ok && info.ObjectOf(lid) == info.ObjectOf(id) {
									if l, ok := ast.Unparen(as.Rhs[0]).(*ast.CompositeLit); ok {
										rng = l
									}
								}
							}
							return true
						})
					}
				}
			}
			// … or by a helper of the package that returns the literal (func (d *Document) Range() lsp.Range)
			var computedAt ast.Node
			if rng != nil {
				computedAt = rng
			}
			for _, el := range cl.Elts {
				kv, ok := el.(*ast.KeyValueExpr)
				if !ok || types.ExprString(kv.Key) != "Range" || rng != nil {
					continue
				}
				val := ast.Unparen(kv.Value)
				if id, ok := val.(*ast.Ident); ok {
					ast.Inspect(fd.Body, func(y ast.Node) bool {
						if as, ok := y.(*ast.AssignStmt); ok && len(as.Lhs) == 1 && len(as.Rhs) == 1 {
							if lid, ok := as.Lhs[0].(*ast.Ident); ok && info.ObjectOf(lid) == info.ObjectOf(id) {
								val = ast.Unparen(as.Rhs[0])
							}
						}
						return true
					})
				}
				if call, ok := val.(*ast.CallExpr); ok {
					if fn := calleeOf(info, call); fn != nil && fn.Pkg() == p.Types {
						for _, hfd := range allFuncDecls(p) {
							if info.Defs[hfd.Name] != types.Object(fn) || hfd.Body == nil || len(hfd.Body.List) != 1 {
								continue
							}
							if ret, ok := hfd.Body.List[0].(*ast.ReturnStmt); ok && len(ret.Results) == 1 {
								if l, ok := ast.Unparen(ret.Results[0]).(*ast.CompositeLit); ok {
									rng, computedAt = l, call
								}
							}
						}
					}
				}
			}
			why := ""
			// the range describes the text the EDITOR holds — the document before this request replaced it
			if computedAt != nil && computedAt.Pos() >= fd.Body.Pos() && computedAt.End() <= fd.Body.End() {
				ast.Inspect(fd.Body, func(y ast.Node) bool {
					if rc, ok := y.(*ast.CallExpr); ok && rc.End() < computedAt.Pos() {
						if se, ok := ast.Unparen(rc.Fun).(*ast.SelectorExpr); ok && se.Sel.Name == "Replace" && len(rc.Args) == 1 {
							if t := info.TypeOf(se.X); t != nil && strings.HasSuffix(t.String(), ".Document") {
								why = "its range is computed at " + c.pos(computedAt.Pos()) + ", after the server's copy was replaced by the formatted text at " + c.pos(rc.Pos()) + " — it measures the NEW text, while the editor still holds the old one: when formatting removes lines the editor keeps the old tail"
							}
						}
					}
					return true
				})
			}
			if why != "" {
			} else if rng == nil {
				why = "its Range is not a literal"
			} else {
				for _, el := range rng.Elts {
					kv, ok := el.(*ast.KeyValueExpr)
					if !ok {
						continue
					}
					pos, _ := kv.Value.(*ast.CompositeLit)
					if pos == nil {
						why = "its " + types.ExprString(kv.Key) + " is not a literal"
						continue
					}
					var line, char ast.Expr
					for _, pe := range pos.Elts {
						if pkv, ok := pe.(*ast.KeyValueExpr); ok {
							switch types.ExprString(pkv.Key) {
							case "Line":
								line = pkv.Value
							case "Character":
								char = pkv.Value
							}
						}
					}
					switch types.ExprString(kv.Key) {
					case "Start":
						if (line != nil && types.ExprString(line) != "0") || (char != nil && types.ExprString(char) != "0") {
							why = "it does not start at 0:0"
						}
					case "End":
						if line == nil {
							why = "its end line is 0"
							break
						}
						hasLen, hasArith := false, false
						ast.Inspect(line, func(y ast.Node) bool {
							switch y := y.(type) {
							case *ast.CallExpr:
								if id, ok := y.Fun.(*ast.Ident); ok && id.Name == "len" {
									hasLen = true
								}
							case *ast.BinaryExpr:
								hasArith = true
							}
							return true
						})
						charZero := char == nil || types.ExprString(char) == "0"
						switch {
						case !hasLen:
							why = "its end line (" + types.ExprString(line) + ") is not computed from the number of lines of the document"
						case hasArith && charZero:
							why = "it ends at " + types.ExprString(line) + ":0, the START of the last line: the last line of the old text is not replaced (a document that does not end in a newline keeps its old last line after the formatted text)"
						}
					}
				}
			}
			c.check(why == "", rule, funcKey(p, fd)+"|format-edit-replaces-whole-document", c.pos(cl.Pos()), "the edit runs from 0:0 to <number of lines>:0",
				fd.Name.Name+": the edit that replaces the document by the formatter's output does not cover the whole document: "+why+". The editor then holds text that differs from the server's copy and from what `templ fmt` writes for the same file")
			return true
		})
	}
	c.count("format_edits", n)
	c.floor(rule, 1)
}

// importListNotMutatedWhileRanged: C09.R10 — the import rewriter does not add to or delete from a file's import list
// while ranging over that same list: astutil removes the entry from <file>.Imports in place, the range then skips the
// entry that moved into its slot, and an import that should have been deleted survives until the next `templ fmt`.
func importListNotMutatedWhileRanged(c *Ctx, rule string) {
	p := c.pkg("cmd/templ/imports")
	info := p.TypesInfo
	n := 0
	for _, fd := range allFuncDecls(p) {
		ord := 0
		ast.Inspect(fd.Body, func(x ast.Node) bool {
			rs, ok := x.(*ast.RangeStmt)
			if !ok {
				return true
			}
			se, ok := ast.Unparen(rs.X).(*ast.SelectorExpr)
			if !ok || se.Sel.Name != "Imports" {
				return true
			}
			if t := info.TypeOf(se.X); t == nil || t.String() != "*go/ast.File" {
				return true
			}
			ord++
			n++
			file := types.ExprString(se.X)
			mut := ""
			ast.Inspect(rs.Body, func(y ast.Node) bool {
				if call, ok := y.(*ast.CallExpr); ok && len(call.Args) >= 2 {
					if fn := calleeOf(info, call); fn != nil && strings.HasPrefix(fullName(fn), "golang.org/x/tools/go/ast/astutil.") && (strings.HasPrefix(fn.Name(), "Delete") || strings.HasPrefix(fn.Name(), "Add")) {
						if types.ExprString(call.Args[1]) == file {
							mut = "astutil." + fn.Name() + " at " + c.pos(call.Pos())
						}
					}
				}
				return true
			})
			c.check(mut == "", rule, fmt.Sprintf("%s|range-over-%s.Imports#%d|not-mutated-in-loop", funcKey(p, fd), file, ord), c.pos(rs.Pos()), "the ranged import list is not changed by the loop body",
				fmt.Sprintf("%s ranges over %s.Imports and calls %s on the same file inside the loop: the call removes/inserts an entry of the list being ranged, so the entry after a deleted one is skipped — with two adjacent unused imports one survives the first `templ fmt` and is only removed by the second", fd.Name.Name, file, mut))
			return true
		})
	}
	c.count("ranges_over_file_imports", n)
}

// lineBreakIsNewlineOnly: C09.R11 — the formatter writes "\n" for a line break, and every other layout decision of the
// parser (single-line vs multi-line elements, indented attributes) counts lines by "\n". The function that classifies
// the whitespace after a node (string → TrailingSpace) must call it vertical for exactly that character: if it also
// treats another character as a line break (a bare \r, \v, \f …), a node inside a single-line element is given a
// vertical trailer, the first formatting run writes a newline into the single-line element and the second run
// re-indents it — two runs to converge. Decided over the paths of the classifier's loop body: every path that returns
// the vertical value took `r == K` as true only for K = '\n'.
func lineBreakIsNewlineOnly(c *Ctx, rule string) {
	p := c.pkg("parser/v2")
	info := p.TypesInfo
	tsT, _ := p.Types.Scope().Lookup("TrailingSpace").(*types.TypeName)
	if tsT == nil {
		c.viol(rule, "anchor-lost:TrailingSpace", "", "parser.TrailingSpace (exported) not found")
		return
	}
	// the constant that stands for a line break: the TrailingSpace constant whose value contains "\n"
	vertical := map[types.Object]bool{}
	for _, nm := range p.Types.Scope().Names() {
		if k, ok := p.Types.Scope().Lookup(nm).(*types.Const); ok && types.Identical(k.Type(), tsT.Type()) && k.Val().Kind() == constant.String && strings.Contains(constant.StringVal(k.Val()), "\n") {
			vertical[k] = true
		}
	}
	n := 0
	// the classifiers: functions string → TrailingSpace, and any other function body (parsers are function literals)
	// that ASSIGNS the vertical constant to a TrailingSpace variable under a condition
	assignsVertical := func(st ast.Node) bool {
		hit := false
		ast.Inspect(st, func(m ast.Node) bool {
			if as, ok := m.(*ast.AssignStmt); ok && len(as.Lhs) == len(as.Rhs) {
				for i, r := range as.Rhs {
					if id, ok := ast.Unparen(r).(*ast.Ident); ok && vertical[info.ObjectOf(id)] {
						if t := info.TypeOf(as.Lhs[i]); t != nil && types.Identical(t, tsT.Type()) {
							hit = true
						}
					}
				}
			}
			return !hit
		})
		return hit
	}
	var cands []*ast.FuncDecl
	for _, fd := range fileScopes(p) {
		if fd.Body == nil {
			continue
		}
		isClassifier := fd.Recv == nil && fd.Type.Params.NumFields() == 1 && fd.Type.Results != nil && len(fd.Type.Results.List) >= 1
		if isClassifier {
			if t := info.TypeOf(fd.Type.Params.List[0].Type); t == nil || !isStringType(t) {
				isClassifier = false
			}
		}
		if isClassifier {
			if t := info.TypeOf(fd.Type.Results.List[0].Type); t == nil || !types.Identical(t, tsT.Type()) {
				isClassifier = false
			}
		}
		if isClassifier {
			cands = append(cands, fd)
			continue
		}
		// function literals (and other declarations) that assign the vertical constant
		var lits []*ast.FuncLit
		ast.Inspect(fd.Body, func(m ast.Node) bool {
			if fl, ok := m.(*ast.FuncLit); ok {
				lits = append(lits, fl)
			}
			return true
		})
		for k, fl := range lits {
			own := false
			for _, st := range fl.Body.List {
				if assignsVertical(st) {
					own = true
				}
			}
			if own {
				cands = append(cands, &ast.FuncDecl{Name: &ast.Ident{Name: fmt.Sprintf("%s$%d", fd.Name.Name, k+1), NamePos: fl.Pos()}, Type: fl.Type, Body: fl.Body})
			}
		}
	}
	for _, fd := range cands {
		n++
		key := funcKey(p, fd) + "|vertical-only-for-newline"
		var loop *ast.RangeStmt
		ast.Inspect(fd.Body, func(x ast.Node) bool {
			if rs, ok := x.(*ast.RangeStmt); ok && loop == nil {
				loop = rs
			}
			return true
		})
		returnsVertical := func(r *ast.ReturnStmt) bool {
			if r == nil || len(r.Results) == 0 {
				return false
			}
			id, ok := ast.Unparen(r.Results[0]).(*ast.Ident)
			return ok && vertical[info.ObjectOf(id)]
		}
		var bodies [][]ast.Stmt
		if loop != nil {
			bodies = append(bodies, loop.Body.List)
		}
		bodies = append(bodies, fd.Body.List)
		bad, undec := "", ""
		nvert := 0
		for bi, body := range bodies {
			den := &denum{info: info, pkg: p.Types, inits: map[types.Object]ast.Expr{}, limit: 5000, opaqueLoops: true, loopBody: bi == 0 && loop != nil}
			den.finish(den.run(body, []dstate{{env: map[types.Object]ast.Expr{}}}))
			if den.undecided != "" {
				undec = den.undecided
				continue
			}
			for _, pth := range den.paths {
				vert := returnsVertical(pth.Ret)
				// … or the last thing the path assigned to a TrailingSpace variable is the vertical constant
				for _, st := range pth.Trace {
					if as, ok := st.(*ast.AssignStmt); ok && len(as.Lhs) == len(as.Rhs) {
						for i, l := range as.Lhs {
							if t := info.TypeOf(l); t != nil && types.Identical(t, tsT.Type()) {
								id, isID := ast.Unparen(as.Rhs[i]).(*ast.Ident)
								vert = isID && vertical[info.ObjectOf(id)]
							}
						}
					}
				}
				if !vert {
					continue
				}
				nvert++
				justified := false
				for _, pc := range pth.Conds {
					if !pc.Val {
						continue
					}
					switch e := ast.Unparen(pc.Expr).(type) {
					case *ast.BinaryExpr:
						if e.Op == token.EQL {
							for _, side := range []ast.Expr{e.X, e.Y} {
								if tv, ok := info.Types[side]; ok && tv.Value != nil {
									s := ""
									switch tv.Value.Kind() {
									case constant.Int:
										i, _ := constant.Int64Val(tv.Value)
										s = string(rune(i))
									case constant.String:
										s = constant.StringVal(tv.Value)
									}
									if s == "\n" {
										justified = true
									} else if s != "" {
										bad = fmt.Sprintf("%q", s)
									}
								}
							}
						}
					case *ast.CallExpr:
						if fn := calleeOf(info, e); fn != nil && fn.Pkg() != nil && fn.Pkg().Path() == "strings" && len(e.Args) == 2 {
							if k, isC := constString(info, e.Args[1]); isC {
								if k == "\n" {
									justified = true
								} else if strings.ContainsAny(k, "\r\v\f\u0085\u2028\u2029") {
									bad = fmt.Sprintf("%q", k)
								}
							}
						} else if fn != nil && fn.Pkg() != nil && fn.Pkg().Path() == "unicode" {
							undec = "a unicode class test (" + types.ExprString(e) + ") decides what a line break is"
						}
					}
				}
				if !justified && bad == "" && bi == 0 {
					undec = "a path returns the vertical value without a test for \"\\n\""
				}
			}
		}
		switch {
		case bad != "":
			c.viol(rule, key, c.pos(fd.Pos()), fmt.Sprintf("%s also classifies %s as a line break, while the formatter writes and every other layout decision counts \"\\n\" only: whitespace containing it (and no \"\\n\") after a node inside a single-line element gets a vertical trailer; the first `templ fmt` run then writes a newline into that single-line element and the second run re-indents it", fd.Name.Name, bad))
		case undec != "":
			c.undec(rule, key, c.pos(fd.Pos()), fd.Name.Name+": "+undec)
		default:
			c.ok(rule, key, c.pos(fd.Pos()), fmt.Sprintf("%d path(s) return the vertical value, each after a test for \"\\n\" only", nvert))
		}
	}
	c.count("trailing_space_classifiers", n)
	c.floor(rule, 1)
}
