package main

// E4 — constant tables, regular expressions, allow-lists.

import (
	"go/ast"
	"go/constant"
	"go/token"
	"go/types"
	"regexp/syntax"
	"sort"
	"unicode"

	"golang.org/x/tools/go/packages"
)

// pkgVarSpec finds the declaration of a package-level variable or constant.
func pkgVarSpec(p *packages.Package, name string) (*ast.ValueSpec, int) {
	for _, f := range p.Syntax {
		for _, d := range f.Decls {
			gd, ok := d.(*ast.GenDecl)
			if !ok || (gd.Tok != token.VAR && gd.Tok != token.CONST) {
				continue
			}
			for _, sp := range gd.Specs {
				vs := sp.(*ast.ValueSpec)
				for i, nm := range vs.Names {
					if nm.Name == name {
						return vs, i
					}
				}
			}
		}
	}
	return nil, -1
}

func pkgVarInit(p *packages.Package, name string) ast.Expr {
	vs, i := pkgVarSpec(p, name)
	if vs == nil || i >= len(vs.Values) {
		return nil
	}
	return vs.Values[i]
}

func constString(info *types.Info, e ast.Expr) (string, bool) {
	tv, ok := info.Types[e]
	if !ok || tv.Value == nil || tv.Value.Kind() != constant.String {
		return "", false
	}
	return constant.StringVal(tv.Value), true
}

func constInt(info *types.Info, e ast.Expr) (int64, bool) {
	tv, ok := info.Types[e]
	if !ok || tv.Value == nil {
		return 0, false
	}
	if tv.Value.Kind() != constant.Int {
		return 0, false
	}
	return constant.Int64Val(tv.Value)
}

// stringSetLiteral: keys of a map literal or elements of a slice literal, all constant strings.
func stringSetLiteral(info *types.Info, e ast.Expr) ([]string, bool) {
	// a set built by a call that is handed nothing but constant strings (elementSet("address", "article", …)) and
	// returns a map keyed by, or a slice of, strings: the names are the arguments
	if call, ok := ast.Unparen(e).(*ast.CallExpr); ok && len(call.Args) > 0 {
		okType := false
		switch t := info.TypeOf(call).Underlying().(type) {
		case *types.Map:
			okType = isStringType(t.Key())
		case *types.Slice:
			okType = isStringType(t.Elem())
		}
		var out []string
		for _, a := range call.Args {
			sv, isConst := constString(info, a)
			if !isConst {
				okType = false
				break
			}
			out = append(out, sv)
		}
		if okType {
			sort.Strings(out)
			return out, true
		}
		return nil, false
	}
	cl, ok := ast.Unparen(e).(*ast.CompositeLit)
	if !ok {
		return nil, false
	}
	var out []string
	for _, el := range cl.Elts {
		x := el
		if kv, ok := el.(*ast.KeyValueExpr); ok {
			if _, isMap := info.TypeOf(cl).Underlying().(*types.Map); isMap {
				x = kv.Key
			} else {
				x = kv.Value
			}
		}
		s, ok := constString(info, x)
		if !ok {
			return nil, false
		}
		out = append(out, s)
	}
	sort.Strings(out)
	return out, true
}

// indexedStringTable: a []string literal with optional constant integer keys (like the JS replacement tables).
func indexedStringTable(info *types.Info, e ast.Expr) (map[int64]string, bool) {
	cl, ok := ast.Unparen(e).(*ast.CompositeLit)
	if !ok {
		return nil, false
	}
	out := map[int64]string{}
	next := int64(0)
	for _, el := range cl.Elts {
		val := el
		if kv, ok := el.(*ast.KeyValueExpr); ok {
			k, ok := constInt(info, kv.Key)
			if !ok {
				return nil, false
			}
			next = k
			val = kv.Value
		}
		s, ok := constString(info, val)
		if !ok {
			return nil, false
		}
		out[next] = s
		next++
	}
	return out, true
}

// mapStringToFunc: map[string]func literal → key → function identifier name.
func mapStringToIdent(info *types.Info, e ast.Expr) (map[string]string, bool) {
	cl, ok := ast.Unparen(e).(*ast.CompositeLit)
	if !ok {
		return nil, false
	}
	out := map[string]string{}
	for _, el := range cl.Elts {
		kv, ok := el.(*ast.KeyValueExpr)
		if !ok {
			return nil, false
		}
		k, ok := constString(info, kv.Key)
		if !ok {
			return nil, false
		}
		id, ok := kv.Value.(*ast.Ident)
		if !ok {
			return nil, false
		}
		out[k] = id.Name
	}
	return out, true
}

// regexConst returns the pattern of `regexp.MustCompile(<const>)` initialising a package variable.
func regexVarPattern(p *packages.Package, name string) (string, bool) {
	init := pkgVarInit(p, name)
	call, ok := init.(*ast.CallExpr)
	if !ok || len(call.Args) != 1 {
		return "", false
	}
	fn := calleeOf(p.TypesInfo, call)
	if fn == nil || (fullName(fn) != "regexp.MustCompile" && fullName(fn) != "regexp.MustCompilePOSIX") {
		return "", false
	}
	return constString(p.TypesInfo, call.Args[0])
}

// regexAlphabet over-approximates the set of runes a pattern can match (ASCII + the two JS/Unicode newlines),
// and reports whether the pattern is anchored at both ends.
func regexAlphabet(pattern string) (accepts func(r rune) bool, anchored bool, err error) {
	re, err := syntax.Parse(pattern, syntax.Perl)
	if err != nil {
		return nil, false, err
	}
	re = re.Simplify()
	var ranges [][2]rune
	anyChar := false
	var walk func(r *syntax.Regexp)
	walk = func(r *syntax.Regexp) {
		switch r.Op {
		case syntax.OpLiteral:
			for _, ch := range r.Rune {
				ranges = append(ranges, [2]rune{ch, ch})
				if r.Flags&syntax.FoldCase != 0 {
					ranges = append(ranges, [2]rune{unicode.ToLower(ch), unicode.ToLower(ch)}, [2]rune{unicode.ToUpper(ch), unicode.ToUpper(ch)})
				}
			}
		case syntax.OpCharClass:
			for i := 0; i+1 < len(r.Rune); i += 2 {
				ranges = append(ranges, [2]rune{r.Rune[i], r.Rune[i+1]})
			}
		case syntax.OpAnyChar, syntax.OpAnyCharNotNL:
			anyChar = true
		}
		for _, s := range r.Sub {
			walk(s)
		}
	}
	walk(re)
	accepts = func(ch rune) bool {
		if anyChar {
			return true
		}
		for _, rg := range ranges {
			if ch >= rg[0] && ch <= rg[1] {
				return true
			}
		}
		return false
	}
	return accepts, regexAnchored(re), nil
}

func regexAnchored(re *syntax.Regexp) bool {
	// ^ … $ at the top level of a concatenation (possibly inside a capture)
	for re.Op == syntax.OpCapture {
		re = re.Sub[0]
	}
	if re.Op != syntax.OpConcat || len(re.Sub) < 2 {
		return false
	}
	first, last := re.Sub[0], re.Sub[len(re.Sub)-1]
	begin := first.Op == syntax.OpBeginText
	end := last.Op == syntax.OpEndText
	return begin && end
}

// regexMatchesSubstring decides, by product search over the compiled program and a KMP-style automaton,
// whether some string accepted by the (anchored) pattern contains one of the forbidden substrings.
// Plain graph reachability over (pc, automaton state) — no solver, nothing executed.
func regexMayContain(pattern string, forbidden []string, alphabet []rune) (bool, string, error) {
	re, err := syntax.Parse(pattern, syntax.Perl)
	if err != nil {
		return false, "", err
	}
	prog, err := syntax.Compile(re.Simplify())
	if err != nil {
		return false, "", err
	}
	for _, fb := range forbidden {
		fr := []rune(fb)
		// automaton state = length of matched prefix of fb; len(fr) = found (absorbing)
		step := func(st int, ch rune) int {
			if st == len(fr) {
				return st
			}
			for {
				if fr[st] == ch {
					return st + 1
				}
				if st == 0 {
					return 0
				}
				// fall back: longest proper border (naive, strings are tiny)
				k := st - 1
				for k > 0 {
					ok := true
					for i := 0; i < k; i++ {
						if fr[i] != fr[st-k+i] {
							ok = false
						}
					}
					if ok && fr[k] == ch {
						return k + 1
					}
					k--
				}
				st = 0
				if fr[0] == ch {
					return 1
				}
				return 0
			}
		}
		type state struct {
			pc, st int
			atEnd  bool
		}
		seen := map[state]bool{}
		var stack []state
		push := func(s state) {
			if !seen[s] {
				seen[s] = true
				stack = append(stack, s)
			}
		}
		push(state{prog.Start, 0, false})
		for len(stack) > 0 {
			s := stack[len(stack)-1]
			stack = stack[:len(stack)-1]
			ins := prog.Inst[s.pc]
			switch ins.Op {
			case syntax.InstMatch:
				if s.st == len(fr) {
					return true, fb, nil
				}
			case syntax.InstFail:
			case syntax.InstAlt, syntax.InstAltMatch:
				push(state{int(ins.Out), s.st, s.atEnd})
				push(state{int(ins.Arg), s.st, s.atEnd})
			case syntax.InstCapture, syntax.InstNop:
				push(state{int(ins.Out), s.st, s.atEnd})
			case syntax.InstEmptyWidth:
				// ^ at start only (we only start at pc=Start with nothing consumed — over-approximate by allowing),
				// $ requires that nothing is consumed afterwards
				if syntax.EmptyOp(ins.Arg)&syntax.EmptyEndText != 0 {
					push(state{int(ins.Out), s.st, true})
				} else {
					push(state{int(ins.Out), s.st, s.atEnd})
				}
			case syntax.InstRune, syntax.InstRune1, syntax.InstRuneAny, syntax.InstRuneAnyNotNL:
				if s.atEnd {
					continue
				}
				for _, ch := range alphabet {
					if ins.MatchRune(ch) {
						push(state{int(ins.Out), step(s.st, ch), false})
					}
				}
			}
		}
	}
	return false, "", nil
}

// tableLookup: one consultation of a package-level table of strings used as a set — table[key] on a map, or
// slices.Contains / slices.Index / slices.BinarySearch / sort.SearchStrings(table, key) on a list.
type tableLookup struct {
	Table  *types.Var
	Name   string
	Key    ast.Expr
	Node   ast.Node
	Sorted bool // the lookup is a binary search: it is only right on a sorted list
}

func tableLookupsIn(info *types.Info, pkg *types.Package, body ast.Node) []tableLookup {
	var out []tableLookup
	pkgVar := func(e ast.Expr) (*types.Var, string) {
		id, ok := ast.Unparen(e).(*ast.Ident)
		if !ok {
			return nil, ""
		}
		v, ok := info.ObjectOf(id).(*types.Var)
		if !ok || v.Parent() != pkg.Scope() {
			return nil, ""
		}
		return v, id.Name
	}
	ast.Inspect(body, func(n ast.Node) bool {
		switch x := n.(type) {
		case *ast.IndexExpr:
			if v, nm := pkgVar(x.X); v != nil {
				if mt, ok := v.Type().Underlying().(*types.Map); ok && mt.Key().String() == "string" {
					out = append(out, tableLookup{Table: v, Name: nm, Key: x.Index, Node: x})
				}
			}
		case *ast.CallExpr:
			fn := calleeOf(info, x)
			// a membership method of a set type of the package called on a package-level set: blockElements.has(name).
			// The key is what the method indexes its receiver with, in the caller's terms (helpers that only return an
			// expression over their parameter — a key function — are unfolded).
			if fn != nil && len(x.Args) == 1 && fn.Pkg() == pkg {
				if se, ok := ast.Unparen(x.Fun).(*ast.SelectorExpr); ok {
					if v, nm := pkgVar(se.X); v != nil {
						if _, isMap := v.Type().Underlying().(*types.Map); isMap {
							if key := setMethodKey(info, pkg, fn, x.Args[0], 0); key != nil {
								out = append(out, tableLookup{Table: v, Name: nm, Key: key, Node: x})
								return true
							}
						}
					}
				}
			}
			if fn == nil || len(x.Args) != 2 {
				return true
			}
			sorted := false
			switch fullName(fn) {
			case "slices.Contains", "slices.Index":
			case "slices.BinarySearch", "sort.SearchStrings":
				sorted = true
			default:
				return true
			}
			if v, nm := pkgVar(x.Args[0]); v != nil {
				out = append(out, tableLookup{Table: v, Name: nm, Key: x.Args[1], Node: x, Sorted: sorted})
			}
		}
		return true
	})
	return out
}

// stringListInOrder: the constant strings of a list literal in the order written (nil when it is not one).
func stringListInOrder(info *types.Info, e ast.Expr) []string {
	cl, ok := ast.Unparen(e).(*ast.CompositeLit)
	if !ok {
		return nil
	}
	if _, isMap := info.TypeOf(cl).Underlying().(*types.Map); isMap {
		return nil
	}
	var out []string
	for _, el := range cl.Elts {
		if _, isKV := el.(*ast.KeyValueExpr); isKV {
			return nil
		}
		s, ok := constString(info, el)
		if !ok {
			return nil
		}
		out = append(out, s)
	}
	return out
}

// nameSet: a set of constant strings that a function tests a key against — a package-level table consulted by a lookup
// (see tableLookup), or the cases of a `switch key { case "a", "b": return true }` in a predicate whose other returns
// are false.
type nameSet struct {
	Names  []string
	Pos    map[string]token.Pos
	Key    ast.Expr
	Node   ast.Node
	Source string // the table's name, or "switch in <func>"
	Name   string // (set by the user of the set: how to call it in a report)
	Table  string // the table's name ("" for a switch)
	Sorted bool
}

func nameSetsIn(p *packages.Package, fd *ast.FuncDecl) []nameSet {
	info := p.TypesInfo
	var out []nameSet
	if fd == nil || fd.Body == nil {
		return nil
	}
	for _, lk := range tableLookupsIn(info, p.Types, fd.Body) {
		init := pkgVarInit(p, lk.Name)
		if init == nil {
			continue
		}
		names, ok := stringSetLiteral(info, init)
		if !ok {
			continue
		}
		ns := nameSet{Names: names, Pos: map[string]token.Pos{}, Key: lk.Key, Node: lk.Node, Source: lk.Name, Table: lk.Name, Sorted: lk.Sorted}
		if cl, ok := ast.Unparen(init).(*ast.CompositeLit); ok {
			_, isMap := info.TypeOf(cl).Underlying().(*types.Map)
			for _, el := range cl.Elts {
				var ne ast.Expr = el
				if kv, ok := el.(*ast.KeyValueExpr); ok {
					ne = kv.Value
					if isMap {
						ne = kv.Key
					}
				}
				if s, ok := constString(info, ne); ok {
					ns.Pos[s] = ne.Pos()
				}
			}
		}
		out = append(out, ns)
	}
	// the predicate form
	if fd.Type.Results == nil || len(fd.Type.Results.List) != 1 || info.TypeOf(fd.Type.Results.List[0].Type) == nil || info.TypeOf(fd.Type.Results.List[0].Type).String() != "bool" {
		return out
	}
	isBool := func(e ast.Expr, want bool) bool {
		tv, ok := info.Types[e]
		return ok && tv.Value != nil && tv.Value.Kind() == constant.Bool && constant.BoolVal(tv.Value) == want
	}
	var sw *ast.SwitchStmt
	nsw := 0
	othersFalse := true
	ast.Inspect(fd.Body, func(n ast.Node) bool {
		switch x := n.(type) {
		case *ast.FuncLit:
			return false
		case *ast.SwitchStmt:
			if x.Tag != nil && x.Init == nil {
				sw = x
				nsw++
			}
		}
		return true
	})
	if sw == nil || nsw != 1 {
		return out
	}
	ns := nameSet{Pos: map[string]token.Pos{}, Key: sw.Tag, Node: sw, Source: "switch in " + fd.Name.Name}
	inSwitchTrue := map[*ast.ReturnStmt]bool{}
	for _, cc := range sw.Body.List {
		cl := cc.(*ast.CaseClause)
		accepts := len(cl.Body) == 1
		if accepts {
			ret, ok := cl.Body[0].(*ast.ReturnStmt)
			accepts = ok && len(ret.Results) == 1 && isBool(ret.Results[0], true)
			if accepts {
				inSwitchTrue[ret] = true
			}
		}
		if !accepts || cl.List == nil {
			continue
		}
		for _, e := range cl.List {
			s, ok := constString(info, e)
			if !ok {
				return out
			}
			ns.Names = append(ns.Names, s)
			ns.Pos[s] = e.Pos()
		}
	}
	ast.Inspect(fd.Body, func(n ast.Node) bool {
		if ret, ok := n.(*ast.ReturnStmt); ok && !inSwitchTrue[ret] {
			if len(ret.Results) != 1 || !isBool(ret.Results[0], false) {
				othersFalse = false
			}
		}
		return true
	})
	if !othersFalse || len(ns.Names) == 0 {
		return out
	}
	sort.Strings(ns.Names)
	return append(out, ns)
}

// declOfFunc: the declaration of a function of the loaded packages.
func declOfFunc(info *types.Info, fn *types.Func) *ast.FuncDecl {
	for _, f := range loadedSyntax {
		for _, d := range f.Decls {
			if fd, ok := d.(*ast.FuncDecl); ok && info.Defs[fd.Name] == types.Object(fn) {
				return fd
			}
		}
	}
	return nil
}

// substIdent returns e with every use of the object `from` replaced by `to` (a copy; e is not modified).
func substIdent(info *types.Info, e ast.Expr, from types.Object, to ast.Expr) ast.Expr {
	switch v := e.(type) {
	case *ast.Ident:
		if info.ObjectOf(v) == from {
			return to
		}
		return v
	case *ast.ParenExpr:
		return &ast.ParenExpr{Lparen: v.Lparen, X: substIdent(info, v.X, from, to), Rparen: v.Rparen}
	case *ast.CallExpr:
		args := make([]ast.Expr, len(v.Args))
		for i, a := range v.Args {
			args[i] = substIdent(info, a, from, to)
		}
		return &ast.CallExpr{Fun: v.Fun, Lparen: v.Lparen, Args: args, Ellipsis: v.Ellipsis, Rparen: v.Rparen}
	case *ast.BinaryExpr:
		return &ast.BinaryExpr{X: substIdent(info, v.X, from, to), OpPos: v.OpPos, Op: v.Op, Y: substIdent(info, v.Y, from, to)}
	case *ast.SelectorExpr:
		return &ast.SelectorExpr{X: substIdent(info, v.X, from, to), Sel: v.Sel}
	}
	return e
}

// unfoldKeyFunc: a call of a package function whose body is a single `return <expression over its one parameter>` is
// replaced by that expression over the argument (elementNameKey(x) → strings.ToLower(x)).
func unfoldKeyFunc(info *types.Info, pkg *types.Package, e ast.Expr, depth int) ast.Expr {
	call, ok := ast.Unparen(e).(*ast.CallExpr)
	if !ok || len(call.Args) != 1 || depth > 2 {
		return e
	}
	fn := calleeOf(info, call)
	if fn == nil || fn.Pkg() != pkg {
		return e
	}
	fd := declOfFunc(info, fn)
	if fd == nil || fd.Body == nil || len(fd.Body.List) != 1 || fd.Recv != nil {
		return e
	}
	ret, ok := fd.Body.List[0].(*ast.ReturnStmt)
	if !ok || len(ret.Results) != 1 {
		return e
	}
	prms := paramObjs(info, fd)
	if len(prms) != 1 || prms[0] == nil {
		return e
	}
	arg := unfoldKeyFunc(info, pkg, call.Args[0], depth+1)
	return unfoldKeyFunc(info, pkg, substIdent(info, ret.Results[0], prms[0], arg), depth+1)
}

// setMethodKey: fn is a method with one parameter that looks its receiver up by (a function of) that parameter and
// answers with the result; returns the key expression with the parameter replaced by arg, or nil.
func setMethodKey(info *types.Info, pkg *types.Package, fn *types.Func, arg ast.Expr, depth int) ast.Expr {
	fd := declOfFunc(info, fn)
	if fd == nil || fd.Body == nil || fd.Recv == nil || len(fd.Recv.List) != 1 || len(fd.Recv.List[0].Names) != 1 {
		return nil
	}
	robj := info.Defs[fd.Recv.List[0].Names[0]]
	prms := paramObjs(info, fd)
	if len(prms) != 1 || prms[0] == nil {
		return nil
	}
	var key ast.Expr
	n := 0
	ast.Inspect(fd.Body, func(m ast.Node) bool {
		if ix, ok := m.(*ast.IndexExpr); ok {
			if id, ok := ast.Unparen(ix.X).(*ast.Ident); ok && info.ObjectOf(id) == robj {
				key = ix.Index
				n++
			}
		}
		return true
	})
	if n != 1 || key == nil {
		return nil
	}
	// the key may be a local assigned once from an expression over the parameter
	if id, ok := ast.Unparen(key).(*ast.Ident); ok && info.ObjectOf(id) != prms[0] {
		var def ast.Expr
		nd := 0
		ast.Inspect(fd.Body, func(m ast.Node) bool {
			if as, ok := m.(*ast.AssignStmt); ok && len(as.Lhs) == len(as.Rhs) {
				for i, l := range as.Lhs {
					if lid, ok := l.(*ast.Ident); ok && info.ObjectOf(lid) == info.ObjectOf(id) {
						def = as.Rhs[i]
						nd++
					}
				}
			}
			return true
		})
		if nd != 1 {
			return nil
		}
		key = def
	}
	return unfoldKeyFunc(info, pkg, substIdent(info, key, prms[0], arg), 0)
}
