package main

import (
	"fmt"
	"go/ast"
	"go/token"
	"go/types"
)

// memoField: a struct field used as a memo — some method returns it when it is non-nil and fills it otherwise.
type memoField struct {
	cache   *types.Var
	sources map[*types.Var]bool // fields read while computing it
	compute *ast.FuncDecl
}

func fieldVarOf(info *types.Info, e ast.Expr) *types.Var {
	for {
		switch x := ast.Unparen(e).(type) {
		case *ast.IndexExpr:
			e = x.X
			continue
		case *ast.SliceExpr:
			e = x.X
			continue
		}
		break
	}
	return fieldOf(info, e)
}

// findMemoFields over a list of function declarations sharing one types.Info.
func findMemoFields(info *types.Info, fds []*ast.FuncDecl) []memoField {
	var out []memoField
	for _, fd := range fds {
		if fd.Recv == nil {
			continue
		}
		// if <recv>.C != nil { return <recv>.C }
		var cache *types.Var
		ast.Inspect(fd.Body, func(x ast.Node) bool {
			is, ok := x.(*ast.IfStmt)
			if !ok {
				return true
			}
			be, ok := is.Cond.(*ast.BinaryExpr)
			if ok && be.Op == token.EQL && types.ExprString(be.Y) == "nil" {
				// the other spelling: if <recv>.C == nil { …; <recv>.C = … }; return (*)<recv>.C
				if f := fieldOf(info, be.X); f != nil {
					filled, returned := false, false
					ast.Inspect(is.Body, func(y ast.Node) bool {
						if as, ok := y.(*ast.AssignStmt); ok {
							for _, l := range as.Lhs {
								if fieldOf(info, l) == f {
									filled = true
								}
							}
						}
						return true
					})
					ast.Inspect(fd.Body, func(y ast.Node) bool {
						if ret, ok := y.(*ast.ReturnStmt); ok {
							for _, r := range ret.Results {
								ast.Inspect(r, func(z ast.Node) bool {
									if se, ok := z.(*ast.SelectorExpr); ok && fieldOf(info, se) == f {
										returned = true
									}
									return true
								})
							}
						}
						return true
					})
					if filled && returned {
						cache = f
					}
				}
				return true
			}
			if !ok || be.Op != token.NEQ || types.ExprString(be.Y) != "nil" {
				return true
			}
			f := fieldOf(info, be.X)
			if f == nil || len(is.Body.List) == 0 {
				return true
			}
			if ret, ok := is.Body.List[len(is.Body.List)-1].(*ast.ReturnStmt); ok && len(ret.Results) == 1 && fieldOf(info, ret.Results[0]) == f {
				cache = f
			}
			return true
		})
		if cache == nil {
			continue
		}
		// it is filled in the same function
		fills := false
		src := map[*types.Var]bool{}
		ast.Inspect(fd.Body, func(x ast.Node) bool {
			switch x := x.(type) {
			case *ast.AssignStmt:
				for _, l := range x.Lhs {
					if fieldOf(info, l) == cache {
						fills = true
					}
				}
			case *ast.SelectorExpr:
				if f := fieldOf(info, x); f != nil && f != cache {
					src[f] = true
				}
			}
			return true
		})
		if fills && len(src) > 0 {
			out = append(out, memoField{cache: cache, sources: src, compute: fd})
		}
	}
	return out
}

// staleMemoWrites: writes of a source field that are not followed, in the same function, by a reset of the memo.
func staleMemoWrites(info *types.Info, fds []*ast.FuncDecl, m memoField, pos func(token.Pos) string) []string {
	var out []string
	for _, fd := range fds {
		if fd == m.compute {
			continue
		}
		var writes []ast.Node
		var resets []ast.Node
		ast.Inspect(fd.Body, func(x ast.Node) bool {
			as, ok := x.(*ast.AssignStmt)
			if !ok {
				return true
			}
			for _, l := range as.Lhs {
				if f := fieldVarOf(info, l); f != nil {
					if m.sources[f] {
						writes = append(writes, as)
					}
					if f == m.cache {
						resets = append(resets, as)
					}
				}
			}
			return true
		})
		for _, w := range writes {
			ok := false
			// a reset anywhere in the same method is accepted (the memo is not read in between by the method itself)
			if len(resets) > 0 {
				ok = true
			}
			if !ok {
				out = append(out, fmt.Sprintf("%s writes the source field at %s and does not reset %s afterwards", fd.Name.Name, pos(w.Pos()), m.cache.Name()))
			}
		}
	}
	return out
}

// memoInvalidation: rule entry — package-relative path, receiver type name.
func memoInvalidation(c *Ctx, rule, rel, recv string) {
	p := c.pkg(rel)
	info := p.TypesInfo
	var fds []*ast.FuncDecl
	for _, fd := range allFuncDecls(p) {
		if fd.Recv != nil && recvTypeName(fd.Recv.List[0].Type) == recv {
			fds = append(fds, fd)
		}
	}
	memos := findMemoFields(info, fds)
	for _, m := range memos {
		stale := staleMemoWrites(info, fds, m, c.pos)
		msg := ""
		if len(stale) > 0 {
			msg = stale[0]
		}
		c.check(len(stale) == 0, rule, fmt.Sprintf("%s.%s.%s|memo-reset-on-every-write", p.PkgPath, recv, m.cache.Name()), c.pos(m.compute.Pos()),
			fmt.Sprintf("memo of %s: every method that writes its sources resets it", m.compute.Name.Name),
			fmt.Sprintf("%s.%s caches the result of %s, but %s (%d such site(s)): after that edit the cached value describes the previous text, so the next incremental edit is clamped and applied with stale line lengths — it lands in the wrong place or indexes out of range", recv, m.cache.Name(), m.compute.Name.Name, msg, len(stale)))
	}
	c.count("memo_fields_of_"+recv, len(memos))
	// the expected count on the pinned tree is zero: keep the detector honest with a control
	src := `package control
type D struct { Lines []string; lens []int }
func (d *D) LineLengths() []int { if d.lens != nil { return d.lens }; l := make([]int, len(d.Lines)); d.lens = l; return l }
func (d *D) Replace(s []string) { d.Lines = s }
func (d *D) Insert(s string) { d.Lines = append(d.Lines, s); d.lens = nil }
`
	f, cinfo, ok := checkSnippet(c, src)
	good := false
	if ok {
		var cf []*ast.FuncDecl
		for _, d := range f.Decls {
			if fd, isFn := d.(*ast.FuncDecl); isFn {
				cf = append(cf, fd)
			}
		}
		ms := findMemoFields(cinfo, cf)
		if len(ms) == 1 {
			st := staleMemoWrites(cinfo, cf, ms[0], func(token.Pos) string { return "control" })
			good = len(st) == 1
		}
	}
	c.control(rule+":stale-memo-detector", good)
	c.ok(rule, p.PkgPath+"."+recv+"|memo-scan", "", fmt.Sprintf("%d methods of %s scanned for memo fields", len(fds), recv))
}
