// templvet: repository-specific static analysis of a-h/templ.
//
// Nothing here runs templ code: the tree at -repo is loaded with go/packages (type-checked from
// source), and rules work on the AST, go/cfg, go/ssa and the call graph.
package main

import (
	"encoding/json"
	"flag"
	"fmt"
	"os"
	"path/filepath"
	"runtime/debug"
	"sort"
	"strconv"
	"strings"
	"time"
)

func main() {
	repo := flag.String("repo", "/repo", "root of the a-h/templ tree to analyse")
	prop := flag.String("property", "", "property id (C01..C20) or 'all'")
	tier := flag.String("tier", "", "quick | thorough (default: $VERIF_TIER or quick)")
	verif := flag.String("verif", "", "verif directory (default: parent of the binary's directory)")
	dump := flag.String("dump", "", "debug: dump GEM model of the named generator function")
	describe := flag.Bool("describe", false, "print the registered properties as JSON")
	flag.Parse()
	if *describe {
		out := map[string]any{}
		for id, pd := range props {
			out[id] = map[string]any{"explanation": pd.Explanation, "assumptions": pd.Assumptions, "trusted": pd.Trusted, "technique": pd.Technique}
		}
		b, _ := json.MarshalIndent(out, "", " ")
		fmt.Println(string(b))
		return
	}

	if *tier == "" {
		*tier = os.Getenv("VERIF_TIER")
	}
	if *tier != "thorough" {
		*tier = "quick"
	}
	if *verif == "" {
		exe, err := os.Executable()
		if err == nil {
			*verif = filepath.Dir(filepath.Dir(exe))
		} else {
			*verif = "/verif"
		}
	}
	seed, _ := strconv.Atoi(os.Getenv("VERIF_SEED"))
	abs, err := filepath.Abs(*repo)
	if err != nil {
		fatalf("%v", err)
	}
	os.Unsetenv("GOWORK")

	defer func() {
		if r := recover(); r != nil {
			fmt.Fprintln(os.Stderr, r)
			os.Exit(2)
		}
	}()
	if *dump != "" {
		c := &Ctx{Repo: abs, VerifDir: *verif, Tier: *tier, Prop: "dump", Seed: seed}
		g := c.gem()
		g.dump(*dump)
		return
	}

	var ids []string
	if *prop == "all" {
		for id := range props {
			ids = append(ids, id)
		}
		sort.Strings(ids)
	} else {
		for _, id := range strings.Split(*prop, ",") {
			if _, ok := props[id]; !ok {
				fatalf("unknown property %q", id)
			}
			ids = append(ids, id)
		}
	}
	if len(ids) == 0 {
		fatalf("no property given")
	}
	exit := 0
	var shared *Ctx
	for _, id := range ids {
		pd := props[id]
		start := time.Now()
		c := &Ctx{Repo: abs, VerifDir: *verif, Tier: *tier, Prop: id, Seed: seed}
		if shared != nil { // reuse loaded packages across properties in 'all' mode
			c.loaded, c.roots, c.fset, c.prog, c.ssaPkgs, c.gemCache, c.patterns = shared.loaded, shared.roots, shared.fset, shared.prog, shared.ssaPkgs, shared.gemCache, shared.patterns
		}
		func() {
			defer func() {
				if r := recover(); r != nil {
					c.undec("E0.panic", "analysis-panic", "", fmt.Sprintf("the analysis panicked (%v): an unrecognised code shape; nothing is decided. stack: %s", r, firstLines(string(debug.Stack()), 14)))
				}
			}()
			pd.Run(c)
		}()
		if rc := c.finish(pd, start); rc != 0 {
			exit = rc
		}
		shared = c
	}
	os.Exit(exit)
}

func firstLines(s string, n int) string {
	ls := strings.Split(s, "\n")
	if len(ls) > n {
		ls = ls[:n]
	}
	return strings.Join(ls, " | ")
}
