package main

import (
	"fmt"
	"go/ast"
	"go/constant"
	"go/token"
	"go/types"
	"golang.org/x/tools/go/packages"
	"sort"
	"strings"
)

func init() {
	register(&propDef{
		ID:          "C20",
		Explanation: "Decides, for the live-reload proxy's response rewriter (found structurally: the function that assigns the Body of its *http.Response parameter) and its helpers: R1 ContentLength and the Content-Length header are both computed from Len() of the very buffer installed as the new body, and the encoder's Close() dominates both reads (otherwise a gzip/brotli trailer is not counted); R2 every non-empty arm of the Content-Encoding switch binds a reader and a writer constructor from the same package, the empty encoding binds nothing (identity), and the arm for an unknown encoding leaves the function without touching the response; R3 the skip-marker test and the content-type test precede every mutation of the response and return, and the round tripper sets the marker only on the HX-Request == \"true\" path; R4 the nonce given to the script builder is parsed from the response's Content-Security-Policy header and reaches a nonce attribute; (the policy parser takes the nonce only from a script-src* directive — one directive per test, so that precedence between directives is not decided by their order in the header); R5 exactly one AppendChild on the first body node, outside loops, and every failure path of the inserter returns the original body. R6 the buffer installed as the new body is a fresh local allocation of the rewriter and is never handed to a sync.Pool (the reverse proxy reads it after the rewriter returns). R7 the page is parsed with scripting enabled, as the receiving browser does. R8 a function that answers from a cache makes the hit depend on every parameter its miss path computes from. NOT decided: that parse+render preserves the rest of the document; CSP header grammars. R10 every path of the rewriter that has read the response body and returns without an error installs a new body. R11 an append on shared storage of the proxy package whose new elements may land in that storage (a slice of a package-level array, a field or variable with declared spare capacity) is reported; R3 also: every path of the round tripper that returns a response went through the function that sets the skip marker (first attempt and retries alike). R12/R13 no error result of the proxy is dropped or detected and not reported; R14 the nonce is taken from the script-src directive only; R15 the body matcher tests the node type (an element named body), not only the node's data. R16 the src of the appended script is an absolute path (constant-evaluated through package variables and path.Join). R17 the proxy package does not use net/http's ServeMux (it answers non-canonical paths itself with a 301, so their upstream responses never pass through); R18 no reader of the proxy ends a body at a byte count without an error (io.LimitReader, io.LimitedReader, io.CopyN). R19 in the function that reads the nonce out of the Content-Security-Policy header, once a nonce is found both loops are left (the first script-src directive wins, as in browsers).",
		Assumptions: []string{"gzip/brotli writers emit their trailer on Close", "x/net/html Render(Parse(doc)) denotes doc (not checked)"},
		Trusted:     []string{"go/types", "x/tools go/packages, go/cfg"},
		Run:         runC20,
	})
}

func runC20(c *Ctx) {
	c.load("./cmd/templ/generatecmd/proxy")
	parsesLikeTheBrowser(c, "C20.R7")
	memoDependsOnAllInputs(c, "C20.R8")
	documentParsedAsReceived(c, "C20.R9")
	reloadScriptSrcIsRooted(c, "C20.R16")
	requestsReachUpstreamUnrouted(c, "C20.R17")
	bodiesAreNotCutSilently(c, "C20.R18")
	sharedSlicesNotAppendedInPlace(c, "C20.R11", "cmd/templ/generatecmd/proxy")
	errorsNotLost(c, "C20.R12", "cmd/templ/generatecmd/proxy")
	errorsFoundAreReported(c, "C20.R13", "cmd/templ/generatecmd/proxy")
	nonceOnlyFromScriptSrc(c, "C20.R14")
	firstNonceWins(c, "C20.R19")
	bodyMatcherTestsElementType(c, "C20.R15")
	p := c.pkg("cmd/templ/generatecmd/proxy")
	info := p.TypesInfo

	// locate the rewriter
	var fd *ast.FuncDecl
	var resp types.Object
	for _, f := range allFuncDecls(p) {
		for _, prm := range f.Type.Params.List {
			if t := info.TypeOf(prm.Type); t != nil && t.String() == "*net/http.Response" && len(prm.Names) == 1 {
				ob := info.Defs[prm.Names[0]]
				assignsBody := false
				ast.Inspect(f.Body, func(n ast.Node) bool {
					if as, ok := n.(*ast.AssignStmt); ok {
						for _, l := range as.Lhs {
							if se, ok := l.(*ast.SelectorExpr); ok && se.Sel.Name == "Body" {
								if id, ok := se.X.(*ast.Ident); ok && info.ObjectOf(id) == ob {
									assignsBody = true
								}
							}
						}
					}
					return true
				})
				if assignsBody {
					fd, resp = f, ob
				}
			}
		}
	}
	// the function installed as the reverse proxy's ModifyResponse hook is the rewriter, wherever the body assignment
	// itself lives (it may have been moved into a helper)
	for _, f := range allFuncDecls(p) {
		if f.Body == nil {
			continue
		}
		ast.Inspect(f.Body, func(n ast.Node) bool {
			as, ok := n.(*ast.AssignStmt)
			if !ok || len(as.Lhs) != 1 || len(as.Rhs) != 1 {
				return true
			}
			se, ok := as.Lhs[0].(*ast.SelectorExpr)
			if !ok || se.Sel.Name != "ModifyResponse" {
				return true
			}
			var hookObj types.Object
			switch r := ast.Unparen(as.Rhs[0]).(type) {
			case *ast.SelectorExpr:
				hookObj = info.ObjectOf(r.Sel)
			case *ast.Ident:
				hookObj = info.ObjectOf(r)
			}
			for _, g := range allFuncDecls(p) {
				if hookObj != nil && info.Defs[g.Name] == hookObj {
					for _, prm := range g.Type.Params.List {
						if t := info.TypeOf(prm.Type); t != nil && t.String() == "*net/http.Response" && len(prm.Names) == 1 {
							fd, resp = g, info.Defs[prm.Names[0]]
						}
					}
				}
			}
			return true
		})
	}
	if fd == nil {
		c.viol("C20.R1", "anchor-lost:response-rewriter", "", "no function in package proxy assigns the Body of a *http.Response parameter")
		return
	}
	key := funcKey(p, fd)
	fc := newFnCFG(fd.Body, info)
	isResp := func(e ast.Expr) bool {
		id, ok := ast.Unparen(e).(*ast.Ident)
		return ok && info.ObjectOf(id) == resp
	}

	// the installer: the function that assigns the response's Body and length fields — the rewriter itself, or a
	// package-local helper the rewriter hands the response to
	fdI, respI := fd, resp
	var installCall *ast.CallExpr
	{
		own := false
		ast.Inspect(fd.Body, func(n ast.Node) bool {
			if as, ok := n.(*ast.AssignStmt); ok {
				for _, l := range as.Lhs {
					if se, ok := l.(*ast.SelectorExpr); ok && se.Sel.Name == "Body" && isResp(se.X) {
						own = true
					}
				}
			}
			return true
		})
		if !own {
			ast.Inspect(fd.Body, func(n ast.Node) bool {
				call, ok := n.(*ast.CallExpr)
				if !ok {
					return true
				}
				fn := calleeOf(info, call)
				if fn == nil || fn.Pkg() != p.Types {
					return true
				}
				for ai, a := range call.Args {
					if !isResp(a) {
						continue
					}
					for _, h := range allFuncDecls(p) {
						if info.Defs[h.Name] != types.Object(fn) || h.Body == nil {
							continue
						}
						k := 0
						for _, prm := range h.Type.Params.List {
							for _, nm := range prm.Names {
								if k == ai {
									po := info.Defs[nm]
									assigns := false
									ast.Inspect(h.Body, func(m ast.Node) bool {
										if as, ok := m.(*ast.AssignStmt); ok {
											for _, l := range as.Lhs {
												if se, ok := l.(*ast.SelectorExpr); ok && se.Sel.Name == "Body" {
													if id, ok := ast.Unparen(se.X).(*ast.Ident); ok && info.ObjectOf(id) == po {
														assigns = true
													}
												}
											}
										}
										return true
									})
									if assigns {
										fdI, respI, installCall = h, po, call
									}
								}
								k++
							}
						}
					}
				}
				return true
			})
		}
	}
	isRespI := func(e ast.Expr) bool {
		id, ok := ast.Unparen(e).(*ast.Ident)
		return ok && info.ObjectOf(id) == respI
	}
	fcI := fc
	if fdI != fd {
		fcI = newFnCFG(fdI.Body, info)
	}
	// mutations of the response
	var mutations []ast.Node
	var bodyAssign, lenAssign *ast.AssignStmt
	var allBodyAssigns []*ast.AssignStmt
	var lenHeaderSet *ast.CallExpr
	if fdI != fd {
		// in the rewriter, the call of the installer is the mutation; the assignments themselves are read from the installer
		mutations = append(mutations, installCall)
		ast.Inspect(fdI.Body, func(n ast.Node) bool {
			switch n := n.(type) {
			case *ast.AssignStmt:
				for _, l := range n.Lhs {
					if se, ok := l.(*ast.SelectorExpr); ok && isRespI(se.X) {
						switch se.Sel.Name {
						case "Body":
							bodyAssign = n
							allBodyAssigns = append(allBodyAssigns, n)
						case "ContentLength":
							lenAssign = n
						}
					}
				}
			case *ast.CallExpr:
				if se, ok := n.Fun.(*ast.SelectorExpr); ok && se.Sel.Name == "Set" && len(n.Args) == 2 {
					if hs, ok := se.X.(*ast.SelectorExpr); ok && hs.Sel.Name == "Header" && isRespI(hs.X) {
						if s, ok := constString(info, n.Args[0]); ok && strings.EqualFold(s, "Content-Length") {
							lenHeaderSet = n
						}
					}
				}
			}
			return true
		})
	}
	ast.Inspect(fd.Body, func(n ast.Node) bool {
		switch n := n.(type) {
		case *ast.AssignStmt:
			for _, l := range n.Lhs {
				if se, ok := l.(*ast.SelectorExpr); ok && isResp(se.X) {
					mutations = append(mutations, n)
					switch se.Sel.Name {
					case "Body":
						bodyAssign = n
						allBodyAssigns = append(allBodyAssigns, n)
					case "ContentLength":
						lenAssign = n
					}
				}
			}
		case *ast.CallExpr:
			if se, ok := n.Fun.(*ast.SelectorExpr); ok && (se.Sel.Name == "Set" || se.Sel.Name == "Add" || se.Sel.Name == "Del") {
				if hs, ok := se.X.(*ast.SelectorExpr); ok && hs.Sel.Name == "Header" && isResp(hs.X) {
					mutations = append(mutations, n)
					if len(n.Args) == 2 {
						if s, ok := constString(info, n.Args[0]); ok && strings.EqualFold(s, "Content-Length") {
							lenHeaderSet = n
						}
					}
				}
			}
		}
		return true
	})
	c.count("response_mutations", len(mutations))

	// R1 ------------------------------------------------------------
	var bufObj types.Object
	if bodyAssign != nil {
		ast.Inspect(bodyAssign.Rhs[0], func(n ast.Node) bool {
			if ue, ok := n.(*ast.UnaryExpr); ok && ue.Op == token.AND {
				if id, ok := ue.X.(*ast.Ident); ok {
					bufObj = info.ObjectOf(id)
				}
			}
			return true
		})
		if bufObj == nil {
			if call, ok := bodyAssign.Rhs[0].(*ast.CallExpr); ok && len(call.Args) == 1 {
				if id, ok := call.Args[0].(*ast.Ident); ok {
					bufObj = info.ObjectOf(id)
				}
			}
		}
		if bufObj == nil {
			// a reader over the buffer's bytes: bytes.NewReader(<buf>.Bytes())
			ast.Inspect(bodyAssign.Rhs[0], func(n ast.Node) bool {
				if call, ok := n.(*ast.CallExpr); ok {
					if se, ok := call.Fun.(*ast.SelectorExpr); ok && se.Sel.Name == "Bytes" {
						if id, ok := ast.Unparen(se.X).(*ast.Ident); ok {
							if t := info.TypeOf(id); t != nil && strings.HasSuffix(strings.TrimPrefix(t.String(), "*"), "bytes.Buffer") {
								bufObj = info.ObjectOf(id)
							}
						}
					}
				}
				return true
			})
		}
	}
	lenOf := func(e ast.Node) []*ast.CallExpr { // <buf>.Len() calls inside e
		var out []*ast.CallExpr
		if e == nil {
			return nil
		}
		ast.Inspect(e, func(n ast.Node) bool {
			if call, ok := n.(*ast.CallExpr); ok {
				if se, ok := call.Fun.(*ast.SelectorExpr); ok && se.Sel.Name == "Len" {
					if id, ok := se.X.(*ast.Ident); ok && bufObj != nil && info.ObjectOf(id) == bufObj {
						out = append(out, call)
					}
				}
			}
			return true
		})
		return out
	}
	if bufObj == nil || lenAssign == nil || lenHeaderSet == nil {
		c.viol("C20.R1", key+"|length-sources", c.pos(fd.Pos()), fmt.Sprintf("could not find the installed body buffer (%v), the ContentLength assignment (%v) and the Content-Length header (%v)", bufObj != nil, lenAssign != nil, lenHeaderSet != nil))
	} else {
		// (a length cached in a local reads like the Len() call it caches)
		lenRhs, lenHdr := unfoldLocals(p, fdI, lenAssign.Rhs[0]), unfoldLocals(p, fdI, lenHeaderSet.Args[1])
		l1 := lenOf(lenRhs)
		l2 := lenOf(lenHdr)
		// nothing but conversions of <buf>.Len()
		pure := func(e ast.Expr, lens []*ast.CallExpr) bool {
			if len(lens) != 1 {
				return false
			}
			// reject arithmetic
			bad := false
			ast.Inspect(e, func(n ast.Node) bool {
				if _, ok := n.(*ast.BinaryExpr); ok {
					bad = true
				}
				return true
			})
			return !bad
		}
		c.check(pure(lenRhs, l1), "C20.R1", key+"|ContentLength-from-installed-buffer", c.pos(lenAssign.Pos()), "r.ContentLength = Len() of the buffer installed as r.Body",
			"r.ContentLength is not exactly Len() of the buffer installed as r.Body ("+types.ExprString(lenAssign.Rhs[0])+"): for gzip/br the header would count the decoded text, not the bytes sent")
		c.check(pure(lenHdr, l2), "C20.R1", key+"|header-from-installed-buffer", c.pos(lenHeaderSet.Pos()), "Content-Length header = Len() of the buffer installed as r.Body",
			"the Content-Length header is not exactly Len() of the buffer installed as r.Body ("+types.ExprString(lenHeaderSet.Args[1])+")")
		// the encoder unit: where the buffer is created and the encoder is constructed over it — the installer itself,
		// or (when the installer receives the buffer as a parameter) the helper whose result the rewriter passes in
		fdE, bufE, fcE := fdI, bufObj, fcI
		returnsBuffer := false
		var tryHelper func(scope *ast.FuncDecl, aobj types.Object)
		// is the buffer the result of a helper of the package (the encoding phase)? Then the encoder lives there.
		tryHelper = func(scope *ast.FuncDecl, aobj types.Object) {
			ast.Inspect(scope.Body, func(m ast.Node) bool {
				as, ok := m.(*ast.AssignStmt)
				if !ok || len(as.Rhs) != 1 {
					return true
				}
				call, ok := as.Rhs[0].(*ast.CallExpr)
				if !ok {
					return true
				}
				for li, l := range as.Lhs {
					if lid, ok := l.(*ast.Ident); ok && info.ObjectOf(lid) == aobj {
						if hfn := calleeOf(info, call); hfn != nil && hfn.Pkg() == p.Types {
							for _, h := range allFuncDecls(p) {
								if info.Defs[h.Name] != types.Object(hfn) || h.Body == nil {
									continue
								}
								var rb types.Object
								if h.Type.Results != nil {
									ri := 0
									for _, r := range h.Type.Results.List {
										for _, rn := range r.Names {
											if ri == li {
												rb = info.Defs[rn]
											}
											ri++
										}
									}
								}
								ast.Inspect(h.Body, func(x ast.Node) bool {
									if ret, ok := x.(*ast.ReturnStmt); ok && li < len(ret.Results) {
										if rid, ok := ast.Unparen(ret.Results[li]).(*ast.Ident); ok && rid.Name != "nil" {
											rb = info.ObjectOf(rid)
										}
									}
									return true
								})
								if rb != nil {
									fdE, bufE, fcE, returnsBuffer = h, rb, newFnCFG(h.Body, info), true
								}
							}
						}
					}
				}
				return true
			})
		}
		if fdI == fd {
			tryHelper(fd, bufObj)
		}
		if fdI != fd && installCall != nil {
			k := 0
			for _, prm := range fdI.Type.Params.List {
				for _, nm := range prm.Names {
					if info.Defs[nm] == bufObj && k < len(installCall.Args) {
						if aid, ok := ast.Unparen(installCall.Args[k]).(*ast.Ident); ok {
							aobj := info.ObjectOf(aid)
							fdE, bufE, fcE = fd, aobj, fc
							tryHelper(fd, aobj)
						}
					}
					k++
				}
			}
		}
		// encoder writing into the buffer, and its Close
		var encObj types.Object
		ast.Inspect(fdE.Body, func(n ast.Node) bool {
			if as, ok := n.(*ast.AssignStmt); ok && len(as.Lhs) == 1 && len(as.Rhs) == 1 {
				if call, ok := as.Rhs[0].(*ast.CallExpr); ok && len(call.Args) == 1 {
					arg := ast.Unparen(call.Args[0])
					if ue, ok := arg.(*ast.UnaryExpr); ok && ue.Op == token.AND {
						arg = ast.Unparen(ue.X)
					}
					if id, ok := arg.(*ast.Ident); ok && info.ObjectOf(id) == bufE {
						if lid, ok := as.Lhs[0].(*ast.Ident); ok && lid.Name != "_" && info.ObjectOf(lid) != bufE {
							encObj = info.ObjectOf(lid)
						}
					}
				}
			}
			return true
		})
		if encObj == nil {
			c.viol("C20.R1", key+"|encoder", c.pos(fd.Pos()), "no encoder constructed over the installed buffer was found")
		} else {
			closes := methodCallsOn(info, fdE.Body, encObj, "Close")
			okClose := len(closes) > 0
			if returnsBuffer {
				// the helper hands the buffer back: every return that carries it comes after the Close
				ast.Inspect(fdE.Body, func(x ast.Node) bool {
					ret, ok := x.(*ast.ReturnStmt)
					if !ok {
						return true
					}
					carries := len(ret.Results) == 0
					for _, r := range ret.Results {
						if rid, ok := ast.Unparen(r).(*ast.Ident); ok && info.ObjectOf(rid) == bufE {
							carries = true
						}
					}
					// error returns (a non-nil error as last result) need no Close
					if len(ret.Results) > 0 && types.ExprString(ret.Results[len(ret.Results)-1]) != "nil" {
						if rid, ok := ast.Unparen(ret.Results[0]).(*ast.Ident); !ok || info.ObjectOf(rid) != bufE {
							carries = false
						}
					}
					if !carries {
						return true
					}
					dom := false
					for _, cl := range closes {
						if fcE.dominates(cl, ret) {
							dom = true
						}
					}
					if !dom {
						okClose = false
					}
					return true
				})
			} else {
				for _, lc := range append(l1, l2...) {
					dom := false
					for _, cl := range closes {
						if fcE.dominates(cl, lc) {
							dom = true
						}
					}
					if !dom {
						okClose = false
					}
				}
			}
			c.check(okClose, "C20.R1", key+"|close-before-len", c.pos(fd.Pos()), "the encoder's Close() dominates both Len() reads",
				"the encoder is not closed before the buffer length is read: the gzip/brotli trailer is missing from Content-Length")
		}
	}

	// every body that is installed went through the encoder and has its lengths set: an extra `r.Body = …` on
	// another path hands on bytes that the Content-Encoding / Content-Length headers do not describe
	for i, ba := range allBodyAssigns {
		if ba == bodyAssign {
			continue
		}
		followed := lenAssign != nil && lenHeaderSet != nil && fcI.dominates(ba, lenAssign) && fcI.dominates(ba, lenHeaderSet)
		c.check(followed, "C20.R1", fmt.Sprintf("%s|extra-body-assignment#%d", key, i+1), c.pos(ba.Pos()), "followed by both length updates",
			"the rewriter installs a response body ("+types.ExprString(ba.Rhs[0])+") on a path that neither re-encodes it nor updates ContentLength and the Content-Length header: the headers still describe the upstream (compressed) bytes while the body is the decoded text — the client sees a length mismatch or invalid gzip/brotli data")
	}

	// R6: the buffer installed as the body belongs to this response alone -------------------
	if bufObj != nil {
		why := ""
		if v, ok := bufObj.(*types.Var); !ok || v.IsField() || v.Parent() == p.Types.Scope() {
			why = "it is not a local variable of the rewriter"
		}
		ast.Inspect(fd.Body, func(n ast.Node) bool {
			switch n := n.(type) {
			case *ast.AssignStmt:
				for i, l := range n.Lhs {
					if id, ok := l.(*ast.Ident); ok && info.ObjectOf(id) == bufObj && len(n.Rhs) == len(n.Lhs) {
						if !freshBuffer(info, n.Rhs[i]) {
							why = "it is obtained from `" + types.ExprString(n.Rhs[i]) + "`, which is not a fresh allocation"
						}
					}
				}
			case *ast.ValueSpec:
				for i, id := range n.Names {
					if info.Defs[id] == bufObj && i < len(n.Values) && !freshBuffer(info, n.Values[i]) {
						why = "it is initialised from `" + types.ExprString(n.Values[i]) + "`, which is not a fresh allocation"
					}
				}
			case *ast.CallExpr:
				if fn := calleeOf(info, n); fn != nil && fullName(fn) == "sync.(Pool).Put" {
					for _, a := range n.Args {
						root := ast.Unparen(a)
						if ue, ok := root.(*ast.UnaryExpr); ok && ue.Op == token.AND {
							root = ast.Unparen(ue.X)
						}
						if id, ok := root.(*ast.Ident); ok && info.ObjectOf(id) == bufObj {
							why = "it is returned to a sync.Pool at " + c.pos(n.Pos())
						}
					}
				}
			}
			return true
		})
		c.check(why == "", "C20.R6", key+"|body-buffer-owned-by-response", c.pos(fd.Pos()), "the buffer installed as r.Body is a fresh local allocation and is never handed to a pool",
			"the buffer installed as r.Body is shared between responses: "+why+". The reverse proxy streams r.Body to the browser after the rewriter has returned, so a concurrent page load overwrites the bytes while they are being sent (body and Content-Length disagree, wrong or corrupt page)")
	}

	consumedBodyIsReplaced(c, "C20.R10", p, fd, resp)

	// R2 ------------------------------------------------------------
	var encSwitch *ast.SwitchStmt
	ast.Inspect(fd.Body, func(n ast.Node) bool {
		if sw, ok := n.(*ast.SwitchStmt); ok && sw.Tag != nil {
			tag := ast.Unparen(sw.Tag)
			// the header value may be held in a local first
			if id, ok := tag.(*ast.Ident); ok {
				ast.Inspect(fd.Body, func(m ast.Node) bool {
					if as, ok := m.(*ast.AssignStmt); ok && len(as.Lhs) == 1 && len(as.Rhs) == 1 {
						if lid, ok := as.Lhs[0].(*ast.Ident); ok && info.ObjectOf(lid) == info.ObjectOf(id) {
							tag = ast.Unparen(as.Rhs[0])
						}
					}
					return true
				})
			}
			// strings.ToLower(<header>) / strings.TrimSpace(<header>) around it
			for {
				if call, ok := tag.(*ast.CallExpr); ok && len(call.Args) == 1 {
					if fn := calleeOf(info, call); fn != nil && fn.Pkg() != nil && fn.Pkg().Path() == "strings" {
						tag = ast.Unparen(call.Args[0])
						continue
					}
				}
				break
			}
			if call, ok := tag.(*ast.CallExpr); ok && len(call.Args) == 1 {
				if s, ok := constString(info, call.Args[0]); ok && strings.EqualFold(s, "Content-Encoding") {
					encSwitch = sw
				}
			}
		}
		return true
	})
	if encSwitch == nil {
		// the table form: a package-level map from encoding name to a codec (reader and writer constructors); each entry
		// is the counterpart of a switch arm, a lookup miss the counterpart of the default arm (decided in R3 below by
		// evaluating the rewriter on unknown encodings)
		var table *ast.CompositeLit
		for _, f := range p.Syntax {
			ast.Inspect(f, func(n ast.Node) bool {
				cl, ok := n.(*ast.CompositeLit)
				if !ok {
					return true
				}
				if _, isMap := info.TypeOf(cl).Underlying().(*types.Map); !isMap {
					return true
				}
				for _, el := range cl.Elts {
					if kv, ok := el.(*ast.KeyValueExpr); ok {
						if k, ok := constString(info, kv.Key); ok && k == "gzip" {
							table = cl
						}
					}
				}
				return true
			})
		}
		if table == nil {
			c.viol("C20.R2", key+"|encoding-switch", c.pos(fd.Pos()), "neither a switch over the Content-Encoding header nor a table of codecs keyed by encoding name was found")
		} else {
			hasEmpty := false
			for _, el := range table.Elts {
				kv := el.(*ast.KeyValueExpr)
				label, _ := constString(info, kv.Key)
				pkgs := map[string][]string{}
				ast.Inspect(kv.Value, func(n ast.Node) bool {
					if call, ok := n.(*ast.CallExpr); ok {
						if fn := calleeOf(info, call); fn != nil && fn.Pkg() != nil && (strings.HasPrefix(fn.Name(), "NewReader") || strings.HasPrefix(fn.Name(), "NewWriter")) {
							pkgs[fn.Pkg().Path()] = append(pkgs[fn.Pkg().Path()], fn.Name())
						}
					}
					// constructors referenced as values (gzip.NewWriter stored directly)
					if se, ok := n.(*ast.SelectorExpr); ok {
						if fn, ok := info.Uses[se.Sel].(*types.Func); ok && fn.Pkg() != nil && (strings.HasPrefix(fn.Name(), "NewReader") || strings.HasPrefix(fn.Name(), "NewWriter")) {
							pkgs[fn.Pkg().Path()] = appendUniq(pkgs[fn.Pkg().Path()], fn.Name())
						}
					}
					return true
				})
				akey := fmt.Sprintf("%s|switch:Content-Encoding|arm:%q", key, label)
				if label == "" {
					hasEmpty = true
					c.check(len(pkgs) == 0, "C20.R2", akey, c.pos(kv.Pos()), "identity encoding binds no codec", "the entry for an absent Content-Encoding binds a codec")
					continue
				}
				ok := len(pkgs) == 1
				for _, names := range pkgs {
					r, w := false, false
					for _, nm := range names {
						if strings.HasPrefix(nm, "NewReader") {
							r = true
						}
						if strings.HasPrefix(nm, "NewWriter") {
							w = true
						}
					}
					if !r || !w {
						ok = false
					}
				}
				c.check(ok, "C20.R2", akey, c.pos(kv.Pos()), fmt.Sprintf("reader and writer constructors from one package %v", keysOf(pkgs)),
					fmt.Sprintf("the %q entry does not pair a NewReader and a NewWriter from the same package (%v): the body would be decoded with one codec and re-encoded with another while the Content-Encoding header still names the first", label, keysOf(pkgs)))
			}
			c.check(hasEmpty, "C20.R2", key+"|switch:Content-Encoding|has-identity", c.pos(table.Pos()), "the empty encoding has its own entry", "the codec table has no entry for the empty (identity) encoding")
		}
	} else {
		hasDefault, hasEmpty := false, false
		for _, cl := range encSwitch.Body.List {
			cc := cl.(*ast.CaseClause)
			if cc.List == nil {
				hasDefault = true
				// must leave the function without touching r
				ends := len(cc.Body) > 0
				if ends {
					_, isRet := cc.Body[len(cc.Body)-1].(*ast.ReturnStmt)
					ends = isRet
				}
				touches := false
				for _, st := range cc.Body {
					for _, m := range mutations {
						if st.Pos() <= m.Pos() && m.End() <= st.End() {
							touches = true
						}
					}
				}
				c.check(ends && !touches, "C20.R2", key+"|switch:Content-Encoding|arm:default", c.pos(cc.Pos()), "unknown encodings leave the function untouched",
					"the arm for an unknown Content-Encoding does not return: the compressed bytes fall through to the identity reader, are parsed as HTML, rewritten and sent with the old encoding header")
				continue
			}
			label, _ := constString(info, cc.List[0])
			// constructors bound in this arm
			pkgs := map[string][]string{}
			nAssign := 0
			for _, st := range cc.Body {
				as, ok := st.(*ast.AssignStmt)
				if !ok || len(as.Rhs) != 1 {
					continue
				}
				// the codec bound here: function literals, or a value of a package-local type whose methods are the codec
				var bodies []*ast.BlockStmt
				if fl, ok := as.Rhs[0].(*ast.FuncLit); ok {
					bodies = append(bodies, fl.Body)
				} else if nt, ok := info.TypeOf(as.Rhs[0]).(*types.Named); ok && nt.Obj().Pkg() == p.Types {
					if _, isLit := ast.Unparen(as.Rhs[0]).(*ast.CompositeLit); isLit {
						for _, mfd := range allFuncDecls(p) {
							if mfd.Recv != nil && mfd.Body != nil && recvTypeName(mfd.Recv.List[0].Type) == nt.Obj().Name() {
								bodies = append(bodies, mfd.Body)
							}
						}
					}
				}
				if len(bodies) == 0 {
					continue
				}
				nAssign++
				for _, body := range bodies {
					ast.Inspect(body, func(n ast.Node) bool {
						if call, ok := n.(*ast.CallExpr); ok {
							if fn := calleeOf(info, call); fn != nil && fn.Pkg() != nil && (strings.HasPrefix(fn.Name(), "NewReader") || strings.HasPrefix(fn.Name(), "NewWriter")) {
								pkgs[fn.Pkg().Path()] = append(pkgs[fn.Pkg().Path()], fn.Name())
							}
						}
						return true
					})
				}
			}
			akey := fmt.Sprintf("%s|switch:Content-Encoding|arm:%q", key, label)
			if label == "" {
				hasEmpty = true
				c.check(nAssign == 0, "C20.R2", akey, c.pos(cc.Pos()), "identity encoding binds no codec", "the arm for an absent Content-Encoding rebinds the reader/writer")
				continue
			}
			ok := len(pkgs) == 1
			for _, names := range pkgs {
				r, w := false, false
				for _, nm := range names {
					if strings.HasPrefix(nm, "NewReader") {
						r = true
					}
					if strings.HasPrefix(nm, "NewWriter") {
						w = true
					}
				}
				if !r || !w {
					ok = false
				}
			}
			c.check(ok, "C20.R2", akey, c.pos(cc.Pos()), fmt.Sprintf("reader and writer constructors from one package %v", keysOf(pkgs)),
				fmt.Sprintf("the %q arm does not bind a NewReader and a NewWriter from the same package (%v): the body would be decoded with one codec and re-encoded with another while the header keeps saying %q", label, pkgs, label))
		}
		c.check(hasDefault, "C20.R2", key+"|switch:Content-Encoding|has-default", c.pos(encSwitch.Pos()), "unknown encodings have their own arm", "the Content-Encoding switch has no default arm: unknown encodings are rewritten as if they were identity")
		c.check(hasEmpty, "C20.R2", key+"|switch:Content-Encoding|has-identity", c.pos(encSwitch.Pos()), "the empty encoding has its own arm", "the Content-Encoding switch has no arm for the empty (identity) encoding")
		// the switch precedes reading the body
		for _, m := range mutations {
			if !(encSwitch.End() <= m.Pos()) {
				c.viol("C20.R2", key+"|switch-before-mutation", c.pos(m.Pos()), "the response is mutated before the Content-Encoding switch")
			}
		}
	}

	// R3 ------------------------------------------------------------
	// The two pass-through tests, decided by evaluating the rewriter's path conditions on concrete header values (the
	// form of the tests — if, switch, helper — does not matter): with the skip marker "true", or with a content type
	// that is not text/html, every feasible path leaves before anything of the response is mutated; with neither, a
	// mutating path exists. The marker is the header that some function of the package Sets to "true" and the rewriter
	// Gets.
	setBy := map[string][]*ast.FuncDecl{}
	for _, f := range allFuncDecls(p) {
		if f.Body == nil {
			continue
		}
		ast.Inspect(f.Body, func(n ast.Node) bool {
			if call, ok := n.(*ast.CallExpr); ok && len(call.Args) == 2 {
				if se, ok := call.Fun.(*ast.SelectorExpr); ok && se.Sel.Name == "Set" {
					if k, ok := constString(info, call.Args[0]); ok {
						if v, ok := constString(info, call.Args[1]); ok && v == "true" {
							setBy[strings.ToLower(k)] = append(setBy[strings.ToLower(k)], f)
						}
					}
				}
			}
			return true
		})
	}
	marker := ""
	getTexts := map[string][]string{} // lower-cased header name → texts of the Get calls in the rewriter
	decls20 := map[types.Object]*ast.FuncDecl{}
	for _, f := range allFuncDecls(p) {
		if f != fd {
			decls20[info.Defs[f.Name]] = f
		}
	}
	var scanGets func(f *ast.FuncDecl, depth int)
	scanGets = func(f *ast.FuncDecl, depth int) {
		ast.Inspect(f.Body, func(n ast.Node) bool {
			if call, ok := n.(*ast.CallExpr); ok {
				if se, ok := call.Fun.(*ast.SelectorExpr); ok && se.Sel.Name == "Get" && len(call.Args) == 1 {
					if k, ok := constString(info, call.Args[0]); ok {
						getTexts[strings.ToLower(k)] = append(getTexts[strings.ToLower(k)], types.ExprString(call))
						if len(setBy[strings.ToLower(k)]) > 0 && marker == "" {
							marker = k
						}
					}
				}
				// a predicate of the package that reads the header (isMarkedToSkip(resp))
				if hfn := calleeOf(info, call); hfn != nil && depth < 2 {
					if hfd := decls20[hfn]; hfd != nil && hfd.Body != nil && hfd.Type.Results != nil && len(hfd.Type.Results.List) == 1 {
						if t := info.TypeOf(hfd.Type.Results.List[0].Type); t != nil && t.String() == "bool" {
							scanGets(hfd, depth+1)
						}
					}
				}
			}
			return true
		})
	}
	scanGets(fd, 0)
	if marker == "" {
		// the marker appended instead of set: Header.Add(k, "true") for a header the rewriter reads with Get
		for _, f := range allFuncDecls(p) {
			if f.Body == nil {
				continue
			}
			ast.Inspect(f.Body, func(n ast.Node) bool {
				call, ok := n.(*ast.CallExpr)
				if !ok || len(call.Args) != 2 {
					return true
				}
				se, ok := call.Fun.(*ast.SelectorExpr)
				if !ok || se.Sel.Name != "Add" {
					return true
				}
				if t := info.TypeOf(se.X); t == nil || !strings.HasSuffix(t.String(), "net/http.Header") {
					return true
				}
				k, ok1 := constString(info, call.Args[0])
				v, ok2 := constString(info, call.Args[1])
				if ok1 && ok2 && v == "true" && len(getTexts[strings.ToLower(k)]) > 0 {
					c.viol("C20.R3", funcKey(p, f)+"|marker-replaces-what-upstream-sent", c.pos(call.Pos()),
						fmt.Sprintf("%s marks the response with Header.Add(%q, \"true\") while the rewriter reads the marker with %s: Add appends behind a value the upstream already sent and Get returns the first one, so a response that must pass through untouched (an HTMX partial) is rewritten when the upstream sets that header itself — the marker must be Set", f.Name.Name, k, getTexts[strings.ToLower(k)][0]))
				}
				return true
			})
		}
		c.viol("C20.R3", "anchor-lost:marker-set", "", "no header that the rewriter tests is set to \"true\" anywhere in the package: requests that must not be rewritten (HTMX partial responses) cannot be marked")
	} else {
		pkgInits := map[types.Object]ast.Expr{}
		for _, f := range p.Syntax {
			for _, d := range f.Decls {
				if gd, ok := d.(*ast.GenDecl); ok && gd.Tok == token.VAR {
					for _, sp := range gd.Specs {
						vs := sp.(*ast.ValueSpec)
						for i, nm := range vs.Names {
							if i < len(vs.Values) {
								pkgInits[info.Defs[nm]] = vs.Values[i]
							}
						}
					}
				}
			}
		}
		den := &denum{info: info, pkg: p.Types, inits: pkgInits, limit: 50000, opaqueLoops: true, decls: decls20}
		den.finish(den.run(fd.Body.List, []dstate{{env: map[types.Object]ast.Expr{}}}))
		if den.undecided != "" {
			c.undec("C20.R3", key+"|skip-tests", c.pos(fd.Pos()), "the rewriter contains "+den.undecided)
		} else {
			mutates := func(pth dpath) bool {
				m := false
				for _, st := range pth.Trace {
					ast.Inspect(st, func(n ast.Node) bool {
						switch x := n.(type) {
						case *ast.AssignStmt:
							for _, l := range x.Lhs {
								if se, ok := l.(*ast.SelectorExpr); ok {
									if id, ok := se.X.(*ast.Ident); ok && info.ObjectOf(id) == resp {
										m = true
									}
								}
							}
						case *ast.CallExpr:
							if se, ok := x.Fun.(*ast.SelectorExpr); ok && (se.Sel.Name == "Set" || se.Sel.Name == "Del" || se.Sel.Name == "Add") {
								if strings.HasPrefix(types.ExprString(se.X), resp.Name()+".Header") {
									m = true
								}
							}
							// the body is consumed
							if fn := calleeOf(info, x); fn != nil && (fullName(fn) == "io.ReadAll") {
								m = true
							}
							// handed to a helper that takes the response
							if fn := calleeOf(info, x); fn != nil && fn.Pkg() == p.Types {
								for _, a := range x.Args {
									if id, ok := ast.Unparen(a).(*ast.Ident); ok && info.ObjectOf(id) == resp {
										m = true
									}
								}
							}
						}
						return true
					})
				}
				return m
			}
			encProbe := ""
			encSet := false
			probe := func(markerVal, ctype string) (mutating, total int) {
				ce := newCenv(info, p.Types, allFuncDecls(p))
				ce.inits = pkgInits
				if encSet {
					for _, t := range getTexts["content-encoding"] {
						ce.byText[t] = constant.MakeString(encProbe)
					}
				}
				for _, t := range getTexts[strings.ToLower(marker)] {
					ce.byText[t] = constant.MakeString(markerVal)
				}
				for _, t := range getTexts["content-type"] {
					ce.byText[t] = constant.MakeString(ctype)
				}
				for _, pth := range den.paths {
					if !ce.feasible(pth) {
						continue
					}
					total++
					if mutates(pth) {
						mutating++
					}
				}
				return
			}
			m1, t1 := probe("true", "text/html; charset=utf-8")
			c.check(m1 == 0 && t1 > 0, "C20.R3", key+"|skip-test:marker", c.pos(fd.Pos()), fmt.Sprintf("with %s: true all %d feasible path(s) leave the response untouched", marker, t1),
				fmt.Sprintf("with the skip marker %s set to \"true\", %d of %d feasible paths of the rewriter still mutate the response: HTMX partial responses get the reload script appended", marker, m1, t1))
			bad := ""
			for _, ct := range []string{"application/json", "text/plain; charset=utf-8", "", "image/png", "text/css"} {
				if m2, t2 := probe("", ct); m2 != 0 || t2 == 0 {
					bad = fmt.Sprintf("Content-Type %q: %d of %d feasible paths mutate the response", ct, m2, t2)
				}
			}
			c.check(bad == "", "C20.R3", key+"|skip-test:content-type", c.pos(fd.Pos()), "responses that are not text/html leave untouched on every feasible path",
				"the content-type skip test no longer returns before the response is mutated: "+bad)
			// unknown content encodings: the body cannot be decoded, so nothing may be touched; known ones are rewritten
			encSet = true
			badEnc := ""
			for _, enc := range []string{"deflate", "zstd", "compress", "x-gzip, br", "identity;q=0"} {
				encProbe = enc
				if m, t := probe("", "text/html; charset=utf-8"); m != 0 || t == 0 {
					badEnc = fmt.Sprintf("Content-Encoding %q: %d of %d feasible paths mutate the response", enc, m, t)
				}
			}
			c.check(badEnc == "", "C20.R2", key+"|switch:Content-Encoding|has-default", c.pos(fd.Pos()), "a response in an encoding the proxy cannot decode is left untouched on every feasible path",
				"unknown encodings are rewritten as if they were identity: "+badEnc+" — compressed bytes are parsed as HTML, re-serialised and sent under the original Content-Encoding")
			for _, enc := range []string{"", "gzip", "br"} {
				encProbe = enc
				m, _ := probe("", "text/html; charset=utf-8")
				c.check(m > 0, "C20.R2", fmt.Sprintf("%s|encoding %q is rewritten", key, enc), c.pos(fd.Pos()), "a mutating path exists", fmt.Sprintf("no path rewrites a text/html response with Content-Encoding %q: the reload script is not inserted for it", enc))
			}
			encSet = false
			m3, t3 := probe("", "text/html; charset=utf-8")
			c.check(m3 > 0, "C20.R3", key+"|skip-tests", c.pos(fd.Pos()), fmt.Sprintf("an unmarked text/html response is rewritten (%d of %d feasible paths mutate it)", m3, t3),
				"no path of the rewriter mutates an unmarked text/html response: the reload script is never inserted")
		}
		// the marker is set only for requests that carry HX-Request: true
		for _, f := range setBy[strings.ToLower(marker)] {
			// a one-statement setter (markToSkip(resp)) decides nothing itself: the function that calls it under the
			// HX-Request test is judged in its place, the call standing for the Set
			var setter types.Object
			_, plainCall := f.Body.List[0].(*ast.ExprStmt)
			if len(f.Body.List) == 1 && plainCall && !f.Name.IsExported() {
				var callers []*ast.FuncDecl
				for _, cf := range allFuncDecls(p) {
					if cf != f && cf.Body != nil && containsCallToObj(info, cf.Body, info.Defs[f.Name]) {
						callers = append(callers, cf)
					}
				}
				if len(callers) == 1 {
					setter, f = info.Defs[f.Name], callers[0]
				}
			}
			fden := &denum{info: info, pkg: p.Types, inits: map[types.Object]ast.Expr{}, limit: 5000, opaqueLoops: true, decls: decls20}
			fden.finish(fden.run(f.Body.List, []dstate{{env: map[types.Object]ast.Expr{}}}))
			fkey := funcKey(p, f) + "|marker-only-for-htmx"
			if fden.undecided != "" {
				c.undec("C20.R3", fkey, c.pos(f.Pos()), f.Name.Name+" contains "+fden.undecided)
				continue
			}
			var hxTexts []string
			var scanHX func(body *ast.BlockStmt, depth int)
			scanHX = func(body *ast.BlockStmt, depth int) {
				ast.Inspect(body, func(n ast.Node) bool {
					if call, ok := n.(*ast.CallExpr); ok {
						if se, ok := call.Fun.(*ast.SelectorExpr); ok && se.Sel.Name == "Get" && len(call.Args) == 1 {
							if k, ok := constString(info, call.Args[0]); ok && strings.EqualFold(k, "HX-Request") {
								hxTexts = append(hxTexts, types.ExprString(call))
							}
						}
						// a predicate of the package that reads the request header (isHTMXRequest(r))
						if hfn := calleeOf(info, call); hfn != nil && depth < 2 {
							if hfd := decls20[hfn]; hfd != nil && hfd.Body != nil && hfd != f {
								scanHX(hfd.Body, depth+1)
							}
						}
					}
					return true
				})
			}
			scanHX(f.Body, 0)
			sets := func(pth dpath) bool {
				s := false
				for _, st := range pth.Trace {
					ast.Inspect(st, func(n ast.Node) bool {
						if call, ok := n.(*ast.CallExpr); ok && len(call.Args) == 2 {
							if se, ok := call.Fun.(*ast.SelectorExpr); ok && se.Sel.Name == "Set" {
								if k, ok := constString(info, call.Args[0]); ok && strings.EqualFold(k, marker) {
									s = true
								}
							}
						}
						if call, ok := n.(*ast.CallExpr); ok && setter != nil {
							if sfn := calleeOf(info, call); sfn != nil && types.Object(sfn) == setter {
								s = true
							}
						}
						return true
					})
				}
				return s
			}
			count := func(hx string) (setting, total int) {
				ce := newCenv(info, p.Types, allFuncDecls(p))
				for _, t := range hxTexts {
					ce.byText[t] = constant.MakeString(hx)
				}
				for _, pth := range fden.paths {
					if !ce.feasible(pth) {
						continue
					}
					total++
					if sets(pth) {
						setting++
					}
				}
				return
			}
			sNo, _ := count("")
			sFalse, _ := count("false")
			sYes, tYes := count("true")
			c.check(len(hxTexts) > 0 && sNo == 0 && sFalse == 0 && sYes == tYes && tYes > 0, "C20.R3", fkey, c.pos(f.Pos()), "the skip marker is set exactly when HX-Request is \"true\"",
				fmt.Sprintf("%s sets the skip marker on %d path(s) without HX-Request, %d with HX-Request: false, and %d of %d with HX-Request: true: ordinary page loads would lose the reload script (or HTMX responses would get it)", f.Name.Name, sNo, sFalse, sYes, tYes))
			// … and every response its caller hands back went through it: the round tripper that calls the marker setter
			// returns a response only on paths that called it (the first attempt and every retry alike)
			fobj := info.Defs[f.Name]
			for _, caller := range allFuncDecls(p) {
				if caller == f || caller.Body == nil || !containsCallToObj(info, caller.Body, fobj) {
					continue
				}
				res := caller.Type.Results
				if res == nil || res.NumFields() != 2 || !strings.HasSuffix(info.TypeOf(res.List[0].Type).String(), "net/http.Response") {
					continue
				}
				cden := &denum{info: info, pkg: p.Types, inits: map[types.Object]ast.Expr{}, limit: 20000, loopsOnce: true}
				cden.finish(cden.run(caller.Body.List, []dstate{{env: map[types.Object]ast.Expr{}}}))
				ckey := funcKey(p, caller) + "|every-returned-response-marked"
				if cden.undecided != "" {
					c.undec("C20.R3", ckey, c.pos(caller.Pos()), caller.Name.Name+" contains "+cden.undecided)
					continue
				}
				nresp, unmarked := 0, ""
				for _, pth := range cden.paths {
					if pth.Ret == nil {
						continue
					}
					ret := explicitReturn(info, pth.Ret)
					if len(ret.Results) != 2 {
						continue
					}
					if id, ok := ast.Unparen(cden.deref(ret.Results[0], pth.Env)).(*ast.Ident); ok && id.Name == "nil" {
						continue
					}
					nresp++
					marked := false
					for _, st := range pth.Trace {
						if containsCallToObj(info, st, fobj) {
							marked = true
						}
					}
					if !marked && unmarked == "" {
						unmarked = c.pos(pth.Ret.Pos())
					}
				}
				c.check(unmarked == "" && nresp > 0, "C20.R3", ckey, c.pos(caller.Pos()), fmt.Sprintf("%d path(s) return a response, each after %s", nresp, f.Name.Name),
					fmt.Sprintf("%s returns a response at %s on a path that did not call %s: an HTMX request answered on that path (a retry after the application restarted) is not marked, so its fragment is wrapped in a document and gets the reload script", caller.Name.Name, unmarked, f.Name.Name))
			}
		}
	}

	// R4, R5 ------------------------------------------------------------
	// inserter: the function with an AppendChild call
	var ins *ast.FuncDecl
	for _, f := range allFuncDecls(p) {
		ast.Inspect(f.Body, func(n ast.Node) bool {
			if call, ok := n.(*ast.CallExpr); ok {
				if se, ok := call.Fun.(*ast.SelectorExpr); ok && se.Sel.Name == "AppendChild" {
					ins = f
				}
			}
			return true
		})
	}
	if ins == nil {
		c.viol("C20.R5", "anchor-lost:inserter", "", "no function appends a node to the parsed document")
		return
	}
	ikey := funcKey(p, ins)
	var appends []*ast.CallExpr
	inLoop := false
	ast.Inspect(ins.Body, func(n ast.Node) bool {
		switch n := n.(type) {
		case *ast.ForStmt, *ast.RangeStmt:
			ast.Inspect(n, func(m ast.Node) bool {
				if call, ok := m.(*ast.CallExpr); ok {
					if se, ok := call.Fun.(*ast.SelectorExpr); ok && se.Sel.Name == "AppendChild" {
						inLoop = true
					}
				}
				return true
			})
		case *ast.CallExpr:
			if se, ok := n.Fun.(*ast.SelectorExpr); ok && se.Sel.Name == "AppendChild" {
				appends = append(appends, n)
			}
		}
		return true
	})
	first := false
	if len(appends) == 1 {
		if se, ok := appends[0].Fun.(*ast.SelectorExpr); ok {
			if ix, ok := se.X.(*ast.IndexExpr); ok && types.ExprString(ix.Index) == "0" {
				first = true
			}
		}
	}
	if len(appends) == 1 && !first {
		// … or the receiver is the node a package-local search returned, and that search visits the tree in document
		// order and stops at the first match
		if se, ok := appends[0].Fun.(*ast.SelectorExpr); ok {
			if call, ok := unfold(p, ins, se.X, 0).(*ast.CallExpr); ok {
				if fn := calleeOf(info, call); fn != nil && fn.Pkg() == p.Types {
					for _, sfd := range allFuncDecls(p) {
						if info.Defs[sfd.Name] == types.Object(fn) && firstMatchInDocumentOrder(info, sfd) {
							first = true
						}
					}
				}
			}
		}
	}
	if len(appends) == 1 && !first {
		// … or it is result k of a package-local function (locate the body, then insert) every return of which gives
		// element [0] of a list for that result, or nil
		if se, ok := appends[0].Fun.(*ast.SelectorExpr); ok {
			if rid, ok := ast.Unparen(se.X).(*ast.Ident); ok {
				ast.Inspect(ins.Body, func(n ast.Node) bool {
					as, ok := n.(*ast.AssignStmt)
					if !ok || len(as.Rhs) != 1 || len(as.Lhs) < 1 {
						return true
					}
					call, ok := ast.Unparen(as.Rhs[0]).(*ast.CallExpr)
					if !ok {
						return true
					}
					fn := calleeOf(info, call)
					if fn == nil || fn.Pkg() != p.Types {
						return true
					}
					for k, l := range as.Lhs {
						lid, ok := l.(*ast.Ident)
						if !ok || info.ObjectOf(lid) != info.ObjectOf(rid) {
							continue
						}
						for _, sfd := range allFuncDecls(p) {
							if info.Defs[sfd.Name] != types.Object(fn) || sfd.Body == nil {
								continue
							}
							nret, allFirst := 0, true
							ast.Inspect(sfd.Body, func(m ast.Node) bool {
								if _, isLit := m.(*ast.FuncLit); isLit {
									return false
								}
								ret, ok := m.(*ast.ReturnStmt)
								if !ok {
									return true
								}
								ret = explicitReturn(info, ret)
								if k >= len(ret.Results) {
									allFirst = false
									return true
								}
								r := unfold(p, sfd, ret.Results[k], 0)
								if id, ok := ast.Unparen(r).(*ast.Ident); ok && id.Name == "nil" {
									return true
								}
								nret++
								if ix, ok := ast.Unparen(r).(*ast.IndexExpr); !ok || types.ExprString(ix.Index) != "0" {
									allFirst = false
								}
								return true
							})
							if nret > 0 && allFirst {
								first = true
							}
						}
					}
					return true
				})
			}
		}
	}
	c.check(len(appends) == 1 && !inLoop && first, "C20.R5", ikey+"|single-append-to-first-body", c.pos(ins.Pos()), "one AppendChild on the first body node, outside loops",
		fmt.Sprintf("the inserter no longer appends exactly one node to the first body element (AppendChild calls: %d, in a loop: %v, on element [0]: %v)", len(appends), inLoop, first))
	// failure paths return the original body
	var bodyParam types.Object
	var allParams []types.Object
	for _, prm := range ins.Type.Params.List {
		for _, nm := range prm.Names {
			allParams = append(allParams, info.Defs[nm])
		}
	}
	okFail := true
	nFail := 0
	ast.Inspect(ins.Body, func(n ast.Node) bool {
		ret, ok := n.(*ast.ReturnStmt)
		if !ok || len(ret.Results) != 2 {
			return true
		}
		if types.ExprString(ret.Results[1]) == "nil" {
			return true
		}
		nFail++
		id, ok := ret.Results[0].(*ast.Ident)
		if !ok {
			okFail = false
			return true
		}
		ob := info.ObjectOf(id)
		isParam := false
		for _, pp := range allParams {
			if pp == ob {
				isParam = true
				bodyParam = ob
			}
		}
		if !isParam {
			okFail = false
		}
		return true
	})
	c.check(okFail && nFail >= 1, "C20.R5", ikey+"|failure-returns-original", c.pos(ins.Pos()), fmt.Sprintf("%d failure returns hand back the original body", nFail),
		"a failure path of the inserter returns something other than the original body")
	_ = bodyParam
	// the caller falls back to the original bytes when insertion fails
	fallback := false
	unit20 := phaseUnit(p, fd)
	for _, ufd := range unit20 {
		ast.Inspect(ufd.Body, func(n ast.Node) bool {
			if is, ok := n.(*ast.IfStmt); ok && strings.Contains(types.ExprString(is.Cond), "!= nil") {
				for _, st := range is.Body.List {
					if as, ok := st.(*ast.AssignStmt); ok && len(as.Rhs) == 1 {
						if call, ok := unfold(p, ufd, as.Rhs[0], 0).(*ast.CallExpr); ok && types.ExprString(call.Fun) == "string" {
							fallback = true
						}
					}
				}
			}
			return true
		})
	}
	c.check(fallback, "C20.R5", key+"|fallback-to-original-bytes", c.pos(fd.Pos()), "when insertion fails the decoded original is re-encoded", "the rewriter no longer falls back to the original body when insertion fails")

	// R4: nonce flow
	var insCall *ast.CallExpr
	insFd := fd // the function of the unit in which the inserter is called
	nonceIdx := 0
	for _, ufd := range unit20[1:] {
		if ufd == ins {
			continue
		}
		ast.Inspect(ufd.Body, func(n ast.Node) bool {
			if call, ok := n.(*ast.CallExpr); ok {
				if fn := calleeOf(info, call); fn != nil && fn == info.Defs[ins.Name] {
					insCall, insFd, nonceIdx = call, ufd, 0
				}
			}
			return true
		})
	}
	ast.Inspect(fd.Body, func(n ast.Node) bool {
		if call, ok := n.(*ast.CallExpr); ok {
			fn := calleeOf(info, call)
			if fn != nil && fn == info.Defs[ins.Name] {
				insCall, insFd, nonceIdx = call, fd, 0
			}
			// through a wrapper of the package that hands one of its own parameters to the inserter as the nonce
			if fn != nil && fn.Pkg() == p.Types && fn != info.Defs[ins.Name] && insCall == nil {
				for _, wfd := range allFuncDecls(p) {
					if info.Defs[wfd.Name] != types.Object(fn) {
						continue
					}
					ast.Inspect(wfd.Body, func(m ast.Node) bool {
						ic, ok := m.(*ast.CallExpr)
						if !ok || len(ic.Args) < 1 {
							return true
						}
						if cf := calleeOf(info, ic); cf == nil || cf != info.Defs[ins.Name] {
							return true
						}
						if id, ok := ast.Unparen(ic.Args[0]).(*ast.Ident); ok {
							idx := 0
							for _, prm := range wfd.Type.Params.List {
								for _, nm := range prm.Names {
									if info.Defs[nm] == info.ObjectOf(id) && idx < len(call.Args) {
										insCall, insFd, nonceIdx = call, fd, idx
									}
									idx++
								}
							}
						}
						return true
					})
				}
			}
		}
		return true
	})
	if insCall == nil || len(insCall.Args) <= nonceIdx {
		c.viol("C20.R4", key+"|nonce-argument", c.pos(fd.Pos()), "the rewriter does not call the inserter")
	} else {
		// (locals assigned once and parameters of a split-off phase are read through)
		arg := unfold(p, insFd, insCall.Args[nonceIdx], 0)
		// arg must be parse(<csp>) where csp := r.Header.Get("Content-Security-Policy")
		good := false
		if pc, ok := arg.(*ast.CallExpr); ok && len(pc.Args) == 1 {
			src := pc.Args[0]
			if id, ok := src.(*ast.Ident); ok {
				ob := info.ObjectOf(id)
				ast.Inspect(fd.Body, func(n ast.Node) bool {
					if as, ok := n.(*ast.AssignStmt); ok && len(as.Lhs) == 1 && len(as.Rhs) == 1 {
						if lid, ok := as.Lhs[0].(*ast.Ident); ok && info.ObjectOf(lid) == ob {
							if strings.Contains(types.ExprString(as.Rhs[0]), `Header.Get("Content-Security-Policy")`) {
								good = true
							}
						}
					}
					return true
				})
			} else if strings.Contains(types.ExprString(src), `Header.Get("Content-Security-Policy")`) {
				good = true
			}
		}
		c.check(good, "C20.R4", key+"|nonce-argument", c.pos(insCall.Pos()), "nonce = parse(Content-Security-Policy header of the response)",
			"the nonce passed to the script inserter is not parsed from the response's Content-Security-Policy header: "+types.ExprString(arg))
		// the policy parser takes the nonce from the directive that governs scripts: one directive name per test.
		// A single pass that admits several directive names and stops at the first nonce ignores their precedence
		// (script-src overrides default-src wherever it stands in the header).
		if pc, ok := arg.(*ast.CallExpr); ok {
			if pfn := calleeOf(info, pc); pfn != nil && pfn.Pkg() == p.Types {
				if pfd := findFunc(p, "", pfn.Name()); pfd != nil {
					nonceTakenAsGiven(c, "C20.R4", pfd)
					ntest := 0
					// (the per-directive part of the parser may be a helper of its own)
					searchBodies := []*ast.BlockStmt{pfd.Body}
					ast.Inspect(pfd.Body, func(n ast.Node) bool {
						if hc, ok := n.(*ast.CallExpr); ok {
							if hfn := calleeOf(info, hc); hfn != nil && hfn.Pkg() == p.Types {
								if hfd := findFunc(p, "", hfn.Name()); hfd != nil && hfd != pfd && hfd.Body != nil {
									searchBodies = append(searchBodies, hfd.Body)
								}
							}
						}
						return true
					})
					for _, sb := range searchBodies {
						ast.Inspect(sb, func(n ast.Node) bool {
							is, ok := n.(*ast.IfStmt)
							if !ok {
								return true
							}
							names := map[string]bool{}
							ast.Inspect(is.Cond, func(m ast.Node) bool {
								if be, ok := m.(*ast.BinaryExpr); ok && (be.Op == token.NEQ || be.Op == token.EQL) {
									for _, side := range []ast.Expr{be.X, be.Y} {
										if sv, isC := constString(info, side); isC && strings.HasSuffix(sv, "-src") || isC && strings.Contains(sv, "-src-") {
											names[sv] = true
										}
									}
								}
								return true
							})
							if len(names) == 0 {
								return true
							}
							ntest++
							var list []string
							other := ""
							for nm := range names {
								list = append(list, nm)
								if !strings.HasPrefix(nm, "script-src") {
									other = nm
								}
							}
							sort.Strings(list)
							c.check(other == "", "C20.R4", funcKey(p, pfd)+"|nonce-from-script-directive", c.pos(is.Pos()), "the nonce is taken from "+strings.Join(list, ", "),
								fmt.Sprintf("%s takes the nonce from the first of %v that carries one: when a policy lists %s 'nonce-A' before script-src 'nonce-B', the reload script gets A, which the browser rejects because script-src overrides %s — live reload silently stops working under such a policy", pfd.Name.Name, list, other, other))
							return true
						})
					}
					if ntest == 0 {
						c.viol("C20.R4", funcKey(p, pfd)+"|nonce-from-script-directive", c.pos(pfd.Pos()), pfd.Name.Name+" no longer selects the directive the nonce is taken from (any directive's nonce would be used)")
					}
				}
			}
		}
		// inserter passes its first parameter to the script builder, which sets a nonce attribute from it
		if len(allParams) > 0 {
			np := allParams[0]
			passes := false
			var builder *types.Func
			ast.Inspect(ins.Body, func(n ast.Node) bool {
				if call, ok := n.(*ast.CallExpr); ok {
					for _, a := range call.Args {
						if id, ok := a.(*ast.Ident); ok && info.ObjectOf(id) == np {
							if fn := calleeOf(info, call); fn != nil && fn.Pkg() == p.Types {
								passes = true
								builder = fn
							}
						}
					}
				}
				return true
			})
			attr := false
			if builder != nil {
				for _, f := range allFuncDecls(p) {
					if info.Defs[f.Name] != types.Object(builder) {
						continue
					}
					var bp types.Object
					if len(f.Type.Params.List) > 0 && len(f.Type.Params.List[0].Names) > 0 {
						bp = info.Defs[f.Type.Params.List[0].Names[0]]
					}
					ast.Inspect(f.Body, func(n ast.Node) bool {
						if cl, ok := n.(*ast.CompositeLit); ok {
							k, v := "", types.Object(nil)
							for _, el := range cl.Elts {
								if kv, ok := el.(*ast.KeyValueExpr); ok {
									switch types.ExprString(kv.Key) {
									case "Key":
										k, _ = constString(info, kv.Value)
									case "Val":
										if id, ok := kv.Value.(*ast.Ident); ok {
											v = info.ObjectOf(id)
										}
									}
								}
							}
							if k == "nonce" && v == bp && bp != nil {
								attr = true
							}
						}
						return true
					})
				}
			}
			c.check(passes && attr, "C20.R4", ikey+"|nonce-reaches-attribute", c.pos(ins.Pos()), "the nonce parameter reaches a nonce attribute of the script element",
				"the nonce no longer reaches a `nonce` attribute of the inserted script element: pages with a CSP would block the reload script")
		}
	}
	c.floor("C20.R1", 3)
	c.floor("C20.R2", 5)
	c.floor("C20.R3", 3)
}

func keysOf(m map[string][]string) []string {
	var out []string
	for k := range m {
		out = append(out, k)
	}
	return out
}

// freshBuffer: new(T), &T{}, T{}, bytes.NewBuffer(...), bytes.NewBufferString(...), bytes.NewReader(...).
func freshBuffer(info *types.Info, e ast.Expr) bool {
	e = ast.Unparen(e)
	switch e := e.(type) {
	case *ast.CompositeLit:
		return true
	case *ast.UnaryExpr:
		if e.Op == token.AND {
			_, ok := ast.Unparen(e.X).(*ast.CompositeLit)
			return ok
		}
	case *ast.CallExpr:
		if id, ok := e.Fun.(*ast.Ident); ok && id.Name == "new" {
			return true
		}
		if fn := calleeOf(info, e); fn != nil {
			switch fullName(fn) {
			case "bytes.NewBuffer", "bytes.NewBufferString", "bytes.NewReader", "strings.NewReader":
				return true
			}
		}
	}
	return false
}

// parsesLikeTheBrowser: C20.R7 — the document is parsed the way the browser that receives it parses it: with
// scripting enabled (html.Parse, or ParseWithOptions without ParseOptionEnableScripting(false)). With scripting
// disabled the parser treats <noscript> in <head> as markup: anything in it that is not link/meta/style ends the head,
// and re-serialising moves the rest of the head (title, style sheets) into the body — a change to the document beyond
// the appended script.
func parsesLikeTheBrowser(c *Ctx, rule string) {
	p := c.pkg("cmd/templ/generatecmd/proxy")
	info := p.TypesInfo
	n := 0
	for _, fd := range allFuncDecls(p) {
		ast.Inspect(fd.Body, func(x ast.Node) bool {
			call, ok := x.(*ast.CallExpr)
			if !ok {
				return true
			}
			fn := calleeOf(info, call)
			if fn == nil || fn.Pkg() == nil || fn.Pkg().Path() != "golang.org/x/net/html" {
				return true
			}
			switch fn.Name() {
			case "Parse":
				n++
				c.ok(rule, funcKey(p, fd)+"|html.Parse", c.pos(call.Pos()), "html.Parse: scripting enabled, as in a browser")
			case "ParseWithOptions", "ParseFragmentWithOptions":
				n++
				bad := ""
				for _, a := range call.Args {
					if oc, ok := ast.Unparen(a).(*ast.CallExpr); ok {
						if of := calleeOf(info, oc); of != nil && of.Name() == "ParseOptionEnableScripting" && len(oc.Args) == 1 {
							if tv := info.Types[oc.Args[0]]; tv.Value == nil || tv.Value.ExactString() != "true" {
								bad = types.ExprString(oc)
							}
						}
					}
				}
				c.check(bad == "", rule, funcKey(p, fd)+"|"+fn.Name(), c.pos(call.Pos()), "parsed with scripting enabled",
					fd.Name.Name+" parses the page with "+bad+": a <noscript> in <head> that contains anything but link/meta/style (an analytics pixel <img>) then ends the head early, and the re-serialised page has its <title> and style sheets moved into <body> — the response differs from the original by more than the appended script")
			}
			return true
		})
	}
	c.count("html_parse_sites", n)
	c.floor(rule, 1)
}

// memoDependsOnAllInputs: C20.R8 — a function of the proxy that answers from a map when it can (a memo) must make the
// hit depend on every parameter that the miss path computes from: the parameter is part of the key, or something
// derived from it is compared in the hit condition. A rewritten page cached by content alone is served with the nonce
// of an earlier response; the browser then refuses the reload script.
func memoDependsOnAllInputs(c *Ctx, rule string) {
	p := c.pkg("cmd/templ/generatecmd/proxy")
	info := p.TypesInfo
	n := 0
	for _, fd := range allFuncDecls(p) {
		var params []types.Object
		for _, prm := range fd.Type.Params.List {
			for _, nm := range prm.Names {
				params = append(params, info.Defs[nm])
			}
		}
		if len(params) < 2 {
			continue
		}
		// lookup: <v>, ok := <recv>.<mapfield>[key]
		var lookup *ast.AssignStmt
		ast.Inspect(fd.Body, func(x ast.Node) bool {
			as, ok := x.(*ast.AssignStmt)
			if !ok || len(as.Lhs) != 2 || len(as.Rhs) != 1 {
				return true
			}
			ix, ok := as.Rhs[0].(*ast.IndexExpr)
			if !ok {
				return true
			}
			if _, isMap := info.TypeOf(ix.X).Underlying().(*types.Map); isMap {
				if f := fieldOf(info, ix.X); f != nil {
					lookup = as
				}
			}
			return true
		})
		if lookup == nil {
			continue
		}
		okObj := info.ObjectOf(lookup.Lhs[1].(*ast.Ident))
		valObj := info.ObjectOf(lookup.Lhs[0].(*ast.Ident))
		// the hit branch: an if that mentions ok and returns something read from the looked-up value
		var hit *ast.IfStmt
		ast.Inspect(fd.Body, func(x ast.Node) bool {
			is, ok := x.(*ast.IfStmt)
			if !ok || hit != nil {
				return true
			}
			mentionsOK := false
			ast.Inspect(is.Cond, func(y ast.Node) bool {
				if id, ok := y.(*ast.Ident); ok && info.ObjectOf(id) == okObj {
					mentionsOK = true
				}
				return true
			})
			returnsVal := false
			ast.Inspect(is.Body, func(y ast.Node) bool {
				if ret, ok := y.(*ast.ReturnStmt); ok {
					for _, r := range ret.Results {
						ast.Inspect(r, func(z ast.Node) bool {
							if id, ok := z.(*ast.Ident); ok && info.ObjectOf(id) == valObj {
								returnsVal = true
							}
							return true
						})
					}
				}
				return true
			})
			if mentionsOK && returnsVal {
				hit = is
			}
			return true
		})
		if hit == nil {
			continue
		}
		n++
		// derived-from relation (one function, flow-insensitive)
		derived := map[types.Object]map[types.Object]bool{}
		for _, prm := range params {
			derived[prm] = map[types.Object]bool{prm: true}
		}
		for changed := true; changed; {
			changed = false
			ast.Inspect(fd.Body, func(x ast.Node) bool {
				as, ok := x.(*ast.AssignStmt)
				if !ok {
					return true
				}
				for _, prm := range params {
					uses := false
					for _, r := range as.Rhs {
						ast.Inspect(r, func(y ast.Node) bool {
							if id, ok := y.(*ast.Ident); ok && derived[prm][info.ObjectOf(id)] {
								uses = true
							}
							return true
						})
					}
					if uses {
						for _, l := range as.Lhs {
							if id, ok := l.(*ast.Ident); ok && id.Name != "_" && !derived[prm][info.ObjectOf(id)] && info.ObjectOf(id) != okObj && info.ObjectOf(id) != valObj {
								derived[prm][info.ObjectOf(id)] = true
								changed = true
							}
						}
					}
				}
				return true
			})
		}
		mentions := func(root ast.Node, prm types.Object) bool {
			f := false
			ast.Inspect(root, func(y ast.Node) bool {
				if id, ok := y.(*ast.Ident); ok && derived[prm][info.ObjectOf(id)] {
					f = true
				}
				return true
			})
			return f
		}
		key := lookup.Rhs[0].(*ast.IndexExpr).Index
		var missing []string
		for _, prm := range params {
			usedInMiss := false
			ast.Inspect(fd.Body, func(x ast.Node) bool {
				if call, ok := x.(*ast.CallExpr); ok && call.Pos() > hit.End() {
					if fn := calleeOf(info, call); fn != nil && fn.Pkg() == p.Types {
						for _, a := range call.Args {
							if mentions(a, prm) {
								usedInMiss = true
							}
						}
					}
				}
				return true
			})
			if usedInMiss && !mentions(key, prm) && !mentions(hit.Cond, prm) {
				missing = append(missing, prm.Name())
			}
		}
		c.check(len(missing) == 0, rule, funcKey(p, fd)+"|memo-hit-depends-on-every-input", c.pos(hit.Pos()), "every parameter used to compute a miss is part of the key or of the hit condition",
			fmt.Sprintf("%s answers from its cache without looking at %s, although the value it would compute depends on it: a page cached under one Content-Security-Policy nonce is served again under another (or none), so the reload script carries a stale nonce and the browser refuses to run it", fd.Name.Name, strings.Join(missing, ", ")))
	}
	c.count("memo_functions_in_proxy", n)
	src := `package control
type C struct{ m map[string]string }
func (c *C) get(path, nonce, body string) string { v, ok := c.m[path]; if ok && v == body { return v }; r := compute(nonce, body); c.m[path] = r; return r }
func compute(a, b string) string { return a + b }
`
	_, _, okc := checkSnippet(c, src)
	c.control(rule+":snippet-type-checks", okc)
	c.ok(rule, p.PkgPath+"|memo-scan", "", fmt.Sprintf("%d memo-shaped functions found", n))
}

// firstMatchInDocumentOrder: the function searches a node tree depth-first, parents before children and children in
// sibling order, and returns at the first node it accepts. Two forms are recognised: recursion over
// FirstChild … NextSibling that returns the first non-nil result, and an explicit stack popped at its end onto which
// the children are pushed from LastChild back to the first (so that the first child is popped next).
func firstMatchInDocumentOrder(info *types.Info, fd *ast.FuncDecl) bool {
	if fd.Body == nil || fd.Type.Results == nil || len(fd.Type.Results.List) != 1 {
		return false
	}
	loopOver := func(fs *ast.ForStmt, start, step string) bool {
		as, ok := fs.Init.(*ast.AssignStmt)
		if !ok || len(as.Rhs) != 1 {
			return false
		}
		rs, ok := ast.Unparen(as.Rhs[0]).(*ast.SelectorExpr)
		if !ok || rs.Sel.Name != start {
			return false
		}
		ps, ok := fs.Post.(*ast.AssignStmt)
		if !ok || len(ps.Rhs) != 1 {
			return false
		}
		pr, ok := ast.Unparen(ps.Rhs[0]).(*ast.SelectorExpr)
		return ok && pr.Sel.Name == step
	}
	self := info.Defs[fd.Name]
	recursive, stack, queue := false, false, false
	ast.Inspect(fd.Body, func(n ast.Node) bool {
		switch x := n.(type) {
		case *ast.ForStmt:
			if loopOver(x, "FirstChild", "NextSibling") {
				// the recursive call's non-nil result is returned at once
				ast.Inspect(x.Body, func(m ast.Node) bool {
					if call, ok := m.(*ast.CallExpr); ok && types.Object(calleeOf(info, call)) == self {
						returnsIt := false
						ast.Inspect(x.Body, func(k ast.Node) bool {
							if _, ok := k.(*ast.ReturnStmt); ok {
								returnsIt = true
							}
							return true
						})
						recursive = returnsIt
					}
					return true
				})
			}
			if loopOver(x, "LastChild", "PrevSibling") {
				ast.Inspect(x.Body, func(m ast.Node) bool {
					if call, ok := m.(*ast.CallExpr); ok {
						if id, ok := call.Fun.(*ast.Ident); ok && id.Name == "append" {
							stack = true
						}
					}
					return true
				})
			}
		case *ast.IndexExpr:
			// the next node is taken from the END of the pending list (a stack); taking it from the front is a queue:
			// breadth-first, not document order
			if types.ExprString(x.Index) == "0" {
				queue = true
			}
		}
		return true
	})
	popsEnd := false
	ast.Inspect(fd.Body, func(n ast.Node) bool {
		if ix, ok := n.(*ast.IndexExpr); ok {
			if be, ok := ast.Unparen(ix.Index).(*ast.BinaryExpr); ok && be.Op == token.SUB && types.ExprString(be.Y) == "1" && strings.HasPrefix(types.ExprString(be.X), "len(") {
				popsEnd = true
			}
		}
		return true
	})
	return recursive && !stack || stack && popsEnd && !queue
}

// consumedBodyIsReplaced: C20.R10 — once the rewriter has read the response body (io.ReadAll / io.Copy of r.Body or of a
// decoder over it) the original body is gone. Every path that then returns without an error must have installed a new
// body: a "nothing to do, leave the response as it is" exit after the read sends the client the old headers with an
// empty body. Paths are those of the rewriter with its package-local phases followed into.
func consumedBodyIsReplaced(c *Ctx, rule string, p *packages.Package, fd *ast.FuncDecl, resp types.Object) {
	info := p.TypesInfo
	key := funcKey(p, fd)
	decls := map[types.Object]*ast.FuncDecl{}
	for _, f := range allFuncDecls(p) {
		if f != fd && f.Body != nil {
			decls[info.Defs[f.Name]] = f
		}
	}
	den := &denum{info: info, pkg: p.Types, inits: map[types.Object]ast.Expr{}, limit: 50000, opaqueLoops: true, decls: decls, inlineVals: true}
	den.finish(den.run(fd.Body.List, []dstate{{env: map[types.Object]ast.Expr{}}}))
	if den.undecided != "" {
		c.undec(rule, key+"|consumed-body-replaced", c.pos(fd.Pos()), "the rewriter contains "+den.undecided)
		return
	}
	isResp := func(e ast.Expr, env map[types.Object]ast.Expr) bool {
		for i := 0; i < 8; i++ {
			id, ok := ast.Unparen(e).(*ast.Ident)
			if !ok {
				return false
			}
			if info.ObjectOf(id) == resp {
				return true
			}
			b, bound := env[info.ObjectOf(id)]
			if !bound {
				return false
			}
			e = b
		}
		return false
	}
	nread, bad := 0, ""
	for _, pth := range den.paths {
		read, installed := false, false
		var readPos token.Pos
		for _, st := range pth.Trace {
			ast.Inspect(st, func(n ast.Node) bool {
				switch x := n.(type) {
				case *ast.CallExpr:
					if fn := calleeOf(info, x); fn != nil {
						switch fullName(fn) {
						case "io.ReadAll", "io/ioutil.ReadAll", "io.Copy", "bytes.(Buffer).ReadFrom":
							if !read {
								read, readPos = true, x.Pos()
							}
						}
					}
				case *ast.AssignStmt:
					for _, l := range x.Lhs {
						if se, ok := ast.Unparen(l).(*ast.SelectorExpr); ok && se.Sel.Name == "Body" && isResp(se.X, pth.Env) && read {
							installed = true
						}
					}
				}
				return true
			})
		}
		if !read {
			continue
		}
		nread++
		succeeds := pth.Ret == nil
		if pth.Ret != nil && len(pth.Ret.Results) > 0 {
			last := den.deref(pth.Ret.Results[len(pth.Ret.Results)-1], pth.Env)
			if id, ok := last.(*ast.Ident); ok && id.Name == "nil" {
				succeeds = true
			}
		}
		if succeeds && !installed {
			where := "the end of the function"
			if pth.Ret != nil {
				where = c.pos(pth.Ret.Pos())
			}
			bad = fmt.Sprintf("the path that returns at %s without an error has read the body (%s) but installs no new one", where, c.pos(readPos))
		}
	}
	c.check(bad == "" && nread > 0, rule, key+"|consumed-body-replaced", c.pos(fd.Pos()), fmt.Sprintf("%d path(s) read the body; each that succeeds installs a new one", nread),
		"the response rewriter: "+bad+" — the client receives the original Content-Length with an empty body (a document without <body>, e.g. a frameset page, hangs or is truncated)")
}
