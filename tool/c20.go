package main

import (
	"fmt"
	"go/ast"
	"go/token"
	"go/types"
	"sort"
	"strings"
)

func init() {
	register(&propDef{
		ID:          "C20",
		Explanation: "Decides, for the live-reload proxy's response rewriter (found structurally: the function that assigns the Body of its *http.Response parameter) and its helpers: R1 ContentLength and the Content-Length header are both computed from Len() of the very buffer installed as the new body, and the encoder's Close() dominates both reads (otherwise a gzip/brotli trailer is not counted); R2 every non-empty arm of the Content-Encoding switch binds a reader and a writer constructor from the same package, the empty encoding binds nothing (identity), and the arm for an unknown encoding leaves the function without touching the response; R3 the skip-marker test and the content-type test precede every mutation of the response and return, and the round tripper sets the marker only on the HX-Request == \"true\" path; R4 the nonce given to the script builder is parsed from the response's Content-Security-Policy header and reaches a nonce attribute; (the policy parser takes the nonce only from a script-src* directive — one directive per test, so that precedence between directives is not decided by their order in the header); R5 exactly one AppendChild on the first body node, outside loops, and every failure path of the inserter returns the original body. R6 the buffer installed as the new body is a fresh local allocation of the rewriter and is never handed to a sync.Pool (the reverse proxy reads it after the rewriter returns). R7 the page is parsed with scripting enabled, as the receiving browser does. R8 a function that answers from a cache makes the hit depend on every parameter its miss path computes from. NOT decided: that parse+render preserves the rest of the document; CSP header grammars.",
		Assumptions: []string{"gzip/brotli writers emit their trailer on Close", "x/net/html Render(Parse(doc)) denotes doc (not checked)"},
		Trusted:     []string{"go/types", "x/tools go/packages, go/cfg"},
		Run:         runC20,
	})
}

func runC20(c *Ctx) {
	c.load("./cmd/templ/generatecmd/proxy")
	parsesLikeTheBrowser(c, "C20.R7")
	memoDependsOnAllInputs(c, "C20.R8")
	documentParsedAsReceived(c, "C20.R9")
	p := c.pkg("cmd/templ/generatecmd/proxy")
	info := p.TypesInfo

	// locate the rewriter
	var fd *ast.FuncDecl
	var resp types.Object
	for _, f := range allFuncDecls(p) {
		for _, prm := range f.Type.Params.List {
			if t := info.TypeOf(prm.Type); t != nil && t.String() == "*net/http.Response" && len(prm.Names) == 1 {
				ob := info.Defs[prm.Names[0]]
				assignsBody := false
				ast.Inspect(f.Body, func(n ast.Node) bool {
					if as, ok := n.(*ast.AssignStmt); ok {
						for _, l := range as.Lhs {
							if se, ok := l.(*ast.SelectorExpr); ok && se.Sel.Name == "Body" {
								if id, ok := se.X.(*ast.Ident); ok && info.ObjectOf(id) == ob {
									assignsBody = true
								}
							}
						}
					}
					return true
				})
				if assignsBody {
					fd, resp = f, ob
				}
			}
		}
	}
	if fd == nil {
		c.viol("C20.R1", "anchor-lost:response-rewriter", "", "no function in package proxy assigns the Body of a *http.Response parameter")
		return
	}
	key := funcKey(p, fd)
	fc := newFnCFG(fd.Body, info)
	isResp := func(e ast.Expr) bool {
		id, ok := ast.Unparen(e).(*ast.Ident)
		return ok && info.ObjectOf(id) == resp
	}

	// mutations of the response
	var mutations []ast.Node
	var bodyAssign, lenAssign *ast.AssignStmt
	var allBodyAssigns []*ast.AssignStmt
	var lenHeaderSet *ast.CallExpr
	ast.Inspect(fd.Body, func(n ast.Node) bool {
		switch n := n.(type) {
		case *ast.AssignStmt:
			for _, l := range n.Lhs {
				if se, ok := l.(*ast.SelectorExpr); ok && isResp(se.X) {
					mutations = append(mutations, n)
					switch se.Sel.Name {
					case "Body":
						bodyAssign = n
						allBodyAssigns = append(allBodyAssigns, n)
					case "ContentLength":
						lenAssign = n
					}
				}
			}
		case *ast.CallExpr:
			if se, ok := n.Fun.(*ast.SelectorExpr); ok && (se.Sel.Name == "Set" || se.Sel.Name == "Add" || se.Sel.Name == "Del") {
				if hs, ok := se.X.(*ast.SelectorExpr); ok && hs.Sel.Name == "Header" && isResp(hs.X) {
					mutations = append(mutations, n)
					if len(n.Args) == 2 {
						if s, ok := constString(info, n.Args[0]); ok && strings.EqualFold(s, "Content-Length") {
							lenHeaderSet = n
						}
					}
				}
			}
		}
		return true
	})
	c.count("response_mutations", len(mutations))

	// R1 ------------------------------------------------------------
	var bufObj types.Object
	if bodyAssign != nil {
		ast.Inspect(bodyAssign.Rhs[0], func(n ast.Node) bool {
			if ue, ok := n.(*ast.UnaryExpr); ok && ue.Op == token.AND {
				if id, ok := ue.X.(*ast.Ident); ok {
					bufObj = info.ObjectOf(id)
				}
			}
			return true
		})
		if bufObj == nil {
			if call, ok := bodyAssign.Rhs[0].(*ast.CallExpr); ok && len(call.Args) == 1 {
				if id, ok := call.Args[0].(*ast.Ident); ok {
					bufObj = info.ObjectOf(id)
				}
			}
		}
		if bufObj == nil {
			// a reader over the buffer's bytes: bytes.NewReader(<buf>.Bytes())
			ast.Inspect(bodyAssign.Rhs[0], func(n ast.Node) bool {
				if call, ok := n.(*ast.CallExpr); ok {
					if se, ok := call.Fun.(*ast.SelectorExpr); ok && se.Sel.Name == "Bytes" {
						if id, ok := ast.Unparen(se.X).(*ast.Ident); ok {
							if t := info.TypeOf(id); t != nil && strings.HasSuffix(strings.TrimPrefix(t.String(), "*"), "bytes.Buffer") {
								bufObj = info.ObjectOf(id)
							}
						}
					}
				}
				return true
			})
		}
	}
	lenOf := func(e ast.Node) []*ast.CallExpr { // <buf>.Len() calls inside e
		var out []*ast.CallExpr
		if e == nil {
			return nil
		}
		ast.Inspect(e, func(n ast.Node) bool {
			if call, ok := n.(*ast.CallExpr); ok {
				if se, ok := call.Fun.(*ast.SelectorExpr); ok && se.Sel.Name == "Len" {
					if id, ok := se.X.(*ast.Ident); ok && bufObj != nil && info.ObjectOf(id) == bufObj {
						out = append(out, call)
					}
				}
			}
			return true
		})
		return out
	}
	if bufObj == nil || lenAssign == nil || lenHeaderSet == nil {
		c.viol("C20.R1", key+"|length-sources", c.pos(fd.Pos()), fmt.Sprintf("could not find the installed body buffer (%v), the ContentLength assignment (%v) and the Content-Length header (%v)", bufObj != nil, lenAssign != nil, lenHeaderSet != nil))
	} else {
		l1 := lenOf(lenAssign.Rhs[0])
		l2 := lenOf(lenHeaderSet.Args[1])
		// nothing but conversions of <buf>.Len()
		pure := func(e ast.Expr, lens []*ast.CallExpr) bool {
			if len(lens) != 1 {
				return false
			}
			// reject arithmetic
			bad := false
			ast.Inspect(e, func(n ast.Node) bool {
				if _, ok := n.(*ast.BinaryExpr); ok {
					bad = true
				}
				return true
			})
			return !bad
		}
		c.check(pure(lenAssign.Rhs[0], l1), "C20.R1", key+"|ContentLength-from-installed-buffer", c.pos(lenAssign.Pos()), "r.ContentLength = Len() of the buffer installed as r.Body",
			"r.ContentLength is not exactly Len() of the buffer installed as r.Body ("+types.ExprString(lenAssign.Rhs[0])+"): for gzip/br the header would count the decoded text, not the bytes sent")
		c.check(pure(lenHeaderSet.Args[1], l2), "C20.R1", key+"|header-from-installed-buffer", c.pos(lenHeaderSet.Pos()), "Content-Length header = Len() of the buffer installed as r.Body",
			"the Content-Length header is not exactly Len() of the buffer installed as r.Body ("+types.ExprString(lenHeaderSet.Args[1])+")")
		// encoder writing into the buffer, and its Close
		var encObj types.Object
		ast.Inspect(fd.Body, func(n ast.Node) bool {
			if as, ok := n.(*ast.AssignStmt); ok && len(as.Lhs) == 1 && len(as.Rhs) == 1 {
				if call, ok := as.Rhs[0].(*ast.CallExpr); ok && len(call.Args) == 1 {
					arg := ast.Unparen(call.Args[0])
					if ue, ok := arg.(*ast.UnaryExpr); ok && ue.Op == token.AND {
						arg = ast.Unparen(ue.X)
					}
					if id, ok := arg.(*ast.Ident); ok && info.ObjectOf(id) == bufObj {
						if lid, ok := as.Lhs[0].(*ast.Ident); ok && lid.Name != "_" && info.ObjectOf(lid) != bufObj {
							encObj = info.ObjectOf(lid)
						}
					}
				}
			}
			return true
		})
		if encObj == nil {
			c.viol("C20.R1", key+"|encoder", c.pos(fd.Pos()), "no encoder constructed over the installed buffer was found")
		} else {
			closes := methodCallsOn(info, fd.Body, encObj, "Close")
			okClose := len(closes) > 0
			for _, lc := range append(l1, l2...) {
				dom := false
				for _, cl := range closes {
					if fc.dominates(cl, lc) {
						dom = true
					}
				}
				if !dom {
					okClose = false
				}
			}
			c.check(okClose, "C20.R1", key+"|close-before-len", c.pos(fd.Pos()), "the encoder's Close() dominates both Len() reads",
				"the encoder is not closed before the buffer length is read: the gzip/brotli trailer is missing from Content-Length")
		}
	}

	// every body that is installed went through the encoder and has its lengths set: an extra `r.Body = …` on
	// another path hands on bytes that the Content-Encoding / Content-Length headers do not describe
	for i, ba := range allBodyAssigns {
		if ba == bodyAssign {
			continue
		}
		followed := lenAssign != nil && lenHeaderSet != nil && fc.dominates(ba, lenAssign) && fc.dominates(ba, lenHeaderSet)
		c.check(followed, "C20.R1", fmt.Sprintf("%s|extra-body-assignment#%d", key, i+1), c.pos(ba.Pos()), "followed by both length updates",
			"the rewriter installs a response body ("+types.ExprString(ba.Rhs[0])+") on a path that neither re-encodes it nor updates ContentLength and the Content-Length header: the headers still describe the upstream (compressed) bytes while the body is the decoded text — the client sees a length mismatch or invalid gzip/brotli data")
	}

	// R6: the buffer installed as the body belongs to this response alone -------------------
	if bufObj != nil {
		why := ""
		if v, ok := bufObj.(*types.Var); !ok || v.IsField() || v.Parent() == p.Types.Scope() {
			why = "it is not a local variable of the rewriter"
		}
		ast.Inspect(fd.Body, func(n ast.Node) bool {
			switch n := n.(type) {
			case *ast.AssignStmt:
				for i, l := range n.Lhs {
					if id, ok := l.(*ast.Ident); ok && info.ObjectOf(id) == bufObj && len(n.Rhs) == len(n.Lhs) {
						if !freshBuffer(info, n.Rhs[i]) {
							why = "it is obtained from `" + types.ExprString(n.Rhs[i]) + "`, which is not a fresh allocation"
						}
					}
				}
			case *ast.ValueSpec:
				for i, id := range n.Names {
					if info.Defs[id] == bufObj && i < len(n.Values) && !freshBuffer(info, n.Values[i]) {
						why = "it is initialised from `" + types.ExprString(n.Values[i]) + "`, which is not a fresh allocation"
					}
				}
			case *ast.CallExpr:
				if fn := calleeOf(info, n); fn != nil && fullName(fn) == "sync.(Pool).Put" {
					for _, a := range n.Args {
						root := ast.Unparen(a)
						if ue, ok := root.(*ast.UnaryExpr); ok && ue.Op == token.AND {
							root = ast.Unparen(ue.X)
						}
						if id, ok := root.(*ast.Ident); ok && info.ObjectOf(id) == bufObj {
							why = "it is returned to a sync.Pool at " + c.pos(n.Pos())
						}
					}
				}
			}
			return true
		})
		c.check(why == "", "C20.R6", key+"|body-buffer-owned-by-response", c.pos(fd.Pos()), "the buffer installed as r.Body is a fresh local allocation and is never handed to a pool",
			"the buffer installed as r.Body is shared between responses: "+why+". The reverse proxy streams r.Body to the browser after the rewriter has returned, so a concurrent page load overwrites the bytes while they are being sent (body and Content-Length disagree, wrong or corrupt page)")
	}

	// R2 ------------------------------------------------------------
	var encSwitch *ast.SwitchStmt
	ast.Inspect(fd.Body, func(n ast.Node) bool {
		if sw, ok := n.(*ast.SwitchStmt); ok && sw.Tag != nil {
			tag := ast.Unparen(sw.Tag)
			// the header value may be held in a local first
			if id, ok := tag.(*ast.Ident); ok {
				ast.Inspect(fd.Body, func(m ast.Node) bool {
					if as, ok := m.(*ast.AssignStmt); ok && len(as.Lhs) == 1 && len(as.Rhs) == 1 {
						if lid, ok := as.Lhs[0].(*ast.Ident); ok && info.ObjectOf(lid) == info.ObjectOf(id) {
							tag = ast.Unparen(as.Rhs[0])
						}
					}
					return true
				})
			}
			// strings.ToLower(<header>) / strings.TrimSpace(<header>) around it
			for {
				if call, ok := tag.(*ast.CallExpr); ok && len(call.Args) == 1 {
					if fn := calleeOf(info, call); fn != nil && fn.Pkg() != nil && fn.Pkg().Path() == "strings" {
						tag = ast.Unparen(call.Args[0])
						continue
					}
				}
				break
			}
			if call, ok := tag.(*ast.CallExpr); ok && len(call.Args) == 1 {
				if s, ok := constString(info, call.Args[0]); ok && strings.EqualFold(s, "Content-Encoding") {
					encSwitch = sw
				}
			}
		}
		return true
	})
	if encSwitch == nil {
		c.viol("C20.R2", key+"|encoding-switch", c.pos(fd.Pos()), "no switch over the Content-Encoding header found")
	} else {
		hasDefault, hasEmpty := false, false
		for _, cl := range encSwitch.Body.List {
			cc := cl.(*ast.CaseClause)
			if cc.List == nil {
				hasDefault = true
				// must leave the function without touching r
				ends := len(cc.Body) > 0
				if ends {
					_, isRet := cc.Body[len(cc.Body)-1].(*ast.ReturnStmt)
					ends = isRet
				}
				touches := false
				for _, st := range cc.Body {
					for _, m := range mutations {
						if st.Pos() <= m.Pos() && m.End() <= st.End() {
							touches = true
						}
					}
				}
				c.check(ends && !touches, "C20.R2", key+"|switch:Content-Encoding|arm:default", c.pos(cc.Pos()), "unknown encodings leave the function untouched",
					"the arm for an unknown Content-Encoding does not return: the compressed bytes fall through to the identity reader, are parsed as HTML, rewritten and sent with the old encoding header")
				continue
			}
			label, _ := constString(info, cc.List[0])
			// constructors bound in this arm
			pkgs := map[string][]string{}
			nAssign := 0
			for _, st := range cc.Body {
				as, ok := st.(*ast.AssignStmt)
				if !ok || len(as.Rhs) != 1 {
					continue
				}
				fl, ok := as.Rhs[0].(*ast.FuncLit)
				if !ok {
					continue
				}
				nAssign++
				ast.Inspect(fl.Body, func(n ast.Node) bool {
					if call, ok := n.(*ast.CallExpr); ok {
						if fn := calleeOf(info, call); fn != nil && fn.Pkg() != nil && (strings.HasPrefix(fn.Name(), "NewReader") || strings.HasPrefix(fn.Name(), "NewWriter")) {
							pkgs[fn.Pkg().Path()] = append(pkgs[fn.Pkg().Path()], fn.Name())
						}
					}
					return true
				})
			}
			akey := fmt.Sprintf("%s|switch:Content-Encoding|arm:%q", key, label)
			if label == "" {
				hasEmpty = true
				c.check(nAssign == 0, "C20.R2", akey, c.pos(cc.Pos()), "identity encoding binds no codec", "the arm for an absent Content-Encoding rebinds the reader/writer")
				continue
			}
			ok := len(pkgs) == 1
			for _, names := range pkgs {
				r, w := false, false
				for _, nm := range names {
					if strings.HasPrefix(nm, "NewReader") {
						r = true
					}
					if strings.HasPrefix(nm, "NewWriter") {
						w = true
					}
				}
				if !r || !w {
					ok = false
				}
			}
			c.check(ok, "C20.R2", akey, c.pos(cc.Pos()), fmt.Sprintf("reader and writer constructors from one package %v", keysOf(pkgs)),
				fmt.Sprintf("the %q arm does not bind a NewReader and a NewWriter from the same package (%v): the body would be decoded with one codec and re-encoded with another while the header keeps saying %q", label, pkgs, label))
		}
		c.check(hasDefault, "C20.R2", key+"|switch:Content-Encoding|has-default", c.pos(encSwitch.Pos()), "unknown encodings have their own arm", "the Content-Encoding switch has no default arm: unknown encodings are rewritten as if they were identity")
		c.check(hasEmpty, "C20.R2", key+"|switch:Content-Encoding|has-identity", c.pos(encSwitch.Pos()), "the empty encoding has its own arm", "the Content-Encoding switch has no arm for the empty (identity) encoding")
		// the switch precedes reading the body
		for _, m := range mutations {
			if !(encSwitch.End() <= m.Pos()) {
				c.viol("C20.R2", key+"|switch-before-mutation", c.pos(m.Pos()), "the response is mutated before the Content-Encoding switch")
			}
		}
	}

	// R3 ------------------------------------------------------------
	skipTests := 0
	marker := ""
	for _, st := range fd.Body.List {
		is, ok := st.(*ast.IfStmt)
		if !ok {
			continue
		}
		text := types.ExprString(is.Cond)
		if is.Init != nil {
			text = nodeText(c.fset, is.Init) + "; " + text
		}
		kind := ""
		ast.Inspect(is, func(n ast.Node) bool {
			if call, ok := n.(*ast.CallExpr); ok {
				if se, ok := call.Fun.(*ast.SelectorExpr); ok && se.Sel.Name == "Get" && len(call.Args) == 1 {
					if s, ok := constString(info, call.Args[0]); ok {
						if strings.EqualFold(s, "Content-Type") {
							kind = "content-type"
						} else if !strings.EqualFold(s, "Content-Encoding") && !strings.EqualFold(s, "Content-Security-Policy") && n.Pos() < is.Body.Pos() {
							if kind == "" {
								kind = "marker"
								marker = s
							}
						}
					}
				}
			}
			return n != ast.Node(is.Body)
		})
		if kind == "" {
			continue
		}
		returns := len(is.Body.List) > 0
		if returns {
			_, isRet := is.Body.List[len(is.Body.List)-1].(*ast.ReturnStmt)
			returns = isRet
		}
		before := true
		for _, m := range mutations {
			if m.Pos() < is.End() {
				before = false
			}
		}
		// also before the body is read
		skipTests++
		okShape := returns && before
		if kind == "content-type" {
			okShape = okShape && strings.Contains(text, "text/html") && strings.Contains(text, "!")
		} else {
			okShape = okShape && strings.Contains(text, `== "true"`)
		}
		c.check(okShape, "C20.R3", key+"|skip-test:"+kind, c.pos(is.Pos()), "returns before any mutation: "+text,
			"the "+kind+" skip test no longer returns before the response is mutated: "+text)
	}
	if skipTests < 2 {
		c.viol("C20.R3", key+"|skip-tests", c.pos(fd.Pos()), fmt.Sprintf("expected a marker-header test and a content-type test at the top of the rewriter, found %d", skipTests))
	}
	// round tripper: marker set only for HX-Request == "true"
	nSet := 0
	for _, f := range allFuncDecls(p) {
		ast.Inspect(f.Body, func(n ast.Node) bool {
			call, ok := n.(*ast.CallExpr)
			if !ok || len(call.Args) != 2 {
				return true
			}
			se, ok := call.Fun.(*ast.SelectorExpr)
			if !ok || se.Sel.Name != "Set" {
				return true
			}
			s, ok := constString(info, call.Args[0])
			if !ok || marker == "" || !strings.EqualFold(s, marker) {
				return true
			}
			nSet++
			// a preceding top-level guard `if <Header.Get("HX-Request")> != "true" { return }`
			guarded := false
			for _, st := range f.Body.List {
				if st.End() > call.Pos() {
					break
				}
				if is, ok := st.(*ast.IfStmt); ok {
					txt := types.ExprString(is.Cond)
					if strings.Contains(txt, `"HX-Request"`) && strings.Contains(txt, `!= "true"`) && len(is.Body.List) > 0 {
						if _, isRet := is.Body.List[len(is.Body.List)-1].(*ast.ReturnStmt); isRet {
							guarded = true
						}
					}
				}
			}
			// or enclosed in `if … == "true" {`
			ast.Inspect(f.Body, func(m ast.Node) bool {
				if is, ok := m.(*ast.IfStmt); ok && is.Body.Pos() <= call.Pos() && call.End() <= is.Body.End() {
					txt := types.ExprString(is.Cond)
					if strings.Contains(txt, `"HX-Request"`) && strings.Contains(txt, `== "true"`) {
						guarded = true
					}
				}
				return true
			})
			c.check(guarded, "C20.R3", funcKey(p, f)+"|marker-only-for-htmx", c.pos(call.Pos()), "the skip marker is set only when HX-Request is \"true\"",
				"the skip marker is set without the HX-Request == \"true\" guard: ordinary page loads would lose the reload script")
			return true
		})
	}
	if nSet == 0 {
		c.viol("C20.R3", "anchor-lost:marker-set", "", "nothing sets the skip marker header "+marker)
	}

	// R4, R5 ------------------------------------------------------------
	// inserter: the function with an AppendChild call
	var ins *ast.FuncDecl
	for _, f := range allFuncDecls(p) {
		ast.Inspect(f.Body, func(n ast.Node) bool {
			if call, ok := n.(*ast.CallExpr); ok {
				if se, ok := call.Fun.(*ast.SelectorExpr); ok && se.Sel.Name == "AppendChild" {
					ins = f
				}
			}
			return true
		})
	}
	if ins == nil {
		c.viol("C20.R5", "anchor-lost:inserter", "", "no function appends a node to the parsed document")
		return
	}
	ikey := funcKey(p, ins)
	var appends []*ast.CallExpr
	inLoop := false
	ast.Inspect(ins.Body, func(n ast.Node) bool {
		switch n := n.(type) {
		case *ast.ForStmt, *ast.RangeStmt:
			ast.Inspect(n, func(m ast.Node) bool {
				if call, ok := m.(*ast.CallExpr); ok {
					if se, ok := call.Fun.(*ast.SelectorExpr); ok && se.Sel.Name == "AppendChild" {
						inLoop = true
					}
				}
				return true
			})
		case *ast.CallExpr:
			if se, ok := n.Fun.(*ast.SelectorExpr); ok && se.Sel.Name == "AppendChild" {
				appends = append(appends, n)
			}
		}
		return true
	})
	first := false
	if len(appends) == 1 {
		if se, ok := appends[0].Fun.(*ast.SelectorExpr); ok {
			if ix, ok := se.X.(*ast.IndexExpr); ok && types.ExprString(ix.Index) == "0" {
				first = true
			}
		}
	}
	c.check(len(appends) == 1 && !inLoop && first, "C20.R5", ikey+"|single-append-to-first-body", c.pos(ins.Pos()), "one AppendChild on the first body node, outside loops",
		fmt.Sprintf("the inserter no longer appends exactly one node to the first body element (AppendChild calls: %d, in a loop: %v, on element [0]: %v)", len(appends), inLoop, first))
	// failure paths return the original body
	var bodyParam types.Object
	var allParams []types.Object
	for _, prm := range ins.Type.Params.List {
		for _, nm := range prm.Names {
			allParams = append(allParams, info.Defs[nm])
		}
	}
	okFail := true
	nFail := 0
	ast.Inspect(ins.Body, func(n ast.Node) bool {
		ret, ok := n.(*ast.ReturnStmt)
		if !ok || len(ret.Results) != 2 {
			return true
		}
		if types.ExprString(ret.Results[1]) == "nil" {
			return true
		}
		nFail++
		id, ok := ret.Results[0].(*ast.Ident)
		if !ok {
			okFail = false
			return true
		}
		ob := info.ObjectOf(id)
		isParam := false
		for _, pp := range allParams {
			if pp == ob {
				isParam = true
				bodyParam = ob
			}
		}
		if !isParam {
			okFail = false
		}
		return true
	})
	c.check(okFail && nFail >= 1, "C20.R5", ikey+"|failure-returns-original", c.pos(ins.Pos()), fmt.Sprintf("%d failure returns hand back the original body", nFail),
		"a failure path of the inserter returns something other than the original body")
	_ = bodyParam
	// the caller falls back to the original bytes when insertion fails
	fallback := false
	ast.Inspect(fd.Body, func(n ast.Node) bool {
		if is, ok := n.(*ast.IfStmt); ok && strings.Contains(types.ExprString(is.Cond), "!= nil") {
			for _, st := range is.Body.List {
				if as, ok := st.(*ast.AssignStmt); ok && len(as.Rhs) == 1 {
					if call, ok := as.Rhs[0].(*ast.CallExpr); ok && types.ExprString(call.Fun) == "string" {
						fallback = true
					}
				}
			}
		}
		return true
	})
	c.check(fallback, "C20.R5", key+"|fallback-to-original-bytes", c.pos(fd.Pos()), "when insertion fails the decoded original is re-encoded", "the rewriter no longer falls back to the original body when insertion fails")

	// R4: nonce flow
	var insCall *ast.CallExpr
	nonceIdx := 0
	ast.Inspect(fd.Body, func(n ast.Node) bool {
		if call, ok := n.(*ast.CallExpr); ok {
			fn := calleeOf(info, call)
			if fn != nil && fn == info.Defs[ins.Name] {
				insCall, nonceIdx = call, 0
			}
			// through a wrapper of the package that hands one of its own parameters to the inserter as the nonce
			if fn != nil && fn.Pkg() == p.Types && fn != info.Defs[ins.Name] && insCall == nil {
				for _, wfd := range allFuncDecls(p) {
					if info.Defs[wfd.Name] != types.Object(fn) {
						continue
					}
					ast.Inspect(wfd.Body, func(m ast.Node) bool {
						ic, ok := m.(*ast.CallExpr)
						if !ok || len(ic.Args) < 1 {
							return true
						}
						if cf := calleeOf(info, ic); cf == nil || cf != info.Defs[ins.Name] {
							return true
						}
						if id, ok := ast.Unparen(ic.Args[0]).(*ast.Ident); ok {
							idx := 0
							for _, prm := range wfd.Type.Params.List {
								for _, nm := range prm.Names {
									if info.Defs[nm] == info.ObjectOf(id) && idx < len(call.Args) {
										insCall, nonceIdx = call, idx
									}
									idx++
								}
							}
						}
						return true
					})
				}
			}
		}
		return true
	})
	if insCall == nil || len(insCall.Args) <= nonceIdx {
		c.viol("C20.R4", key+"|nonce-argument", c.pos(fd.Pos()), "the rewriter does not call the inserter")
	} else {
		arg := insCall.Args[nonceIdx]
		// arg must be parse(<csp>) where csp := r.Header.Get("Content-Security-Policy")
		good := false
		if pc, ok := arg.(*ast.CallExpr); ok && len(pc.Args) == 1 {
			src := pc.Args[0]
			if id, ok := src.(*ast.Ident); ok {
				ob := info.ObjectOf(id)
				ast.Inspect(fd.Body, func(n ast.Node) bool {
					if as, ok := n.(*ast.AssignStmt); ok && len(as.Lhs) == 1 && len(as.Rhs) == 1 {
						if lid, ok := as.Lhs[0].(*ast.Ident); ok && info.ObjectOf(lid) == ob {
							if strings.Contains(types.ExprString(as.Rhs[0]), `Header.Get("Content-Security-Policy")`) {
								good = true
							}
						}
					}
					return true
				})
			} else if strings.Contains(types.ExprString(src), `Header.Get("Content-Security-Policy")`) {
				good = true
			}
		}
		c.check(good, "C20.R4", key+"|nonce-argument", c.pos(insCall.Pos()), "nonce = parse(Content-Security-Policy header of the response)",
			"the nonce passed to the script inserter is not parsed from the response's Content-Security-Policy header: "+types.ExprString(arg))
		// the policy parser takes the nonce from the directive that governs scripts: one directive name per test.
		// A single pass that admits several directive names and stops at the first nonce ignores their precedence
		// (script-src overrides default-src wherever it stands in the header).
		if pc, ok := arg.(*ast.CallExpr); ok {
			if pfn := calleeOf(info, pc); pfn != nil && pfn.Pkg() == p.Types {
				if pfd := findFunc(p, "", pfn.Name()); pfd != nil {
					nonceTakenAsGiven(c, "C20.R4", pfd)
					ntest := 0
					ast.Inspect(pfd.Body, func(n ast.Node) bool {
						is, ok := n.(*ast.IfStmt)
						if !ok {
							return true
						}
						names := map[string]bool{}
						ast.Inspect(is.Cond, func(m ast.Node) bool {
							if be, ok := m.(*ast.BinaryExpr); ok && (be.Op == token.NEQ || be.Op == token.EQL) {
								for _, side := range []ast.Expr{be.X, be.Y} {
									if sv, isC := constString(info, side); isC && strings.HasSuffix(sv, "-src") || isC && strings.Contains(sv, "-src-") {
										names[sv] = true
									}
								}
							}
							return true
						})
						if len(names) == 0 {
							return true
						}
						ntest++
						var list []string
						other := ""
						for nm := range names {
							list = append(list, nm)
							if !strings.HasPrefix(nm, "script-src") {
								other = nm
							}
						}
						sort.Strings(list)
						c.check(other == "", "C20.R4", funcKey(p, pfd)+"|nonce-from-script-directive", c.pos(is.Pos()), "the nonce is taken from "+strings.Join(list, ", "),
							fmt.Sprintf("%s takes the nonce from the first of %v that carries one: when a policy lists %s 'nonce-A' before script-src 'nonce-B', the reload script gets A, which the browser rejects because script-src overrides %s — live reload silently stops working under such a policy", pfd.Name.Name, list, other, other))
						return true
					})
					if ntest == 0 {
						c.viol("C20.R4", funcKey(p, pfd)+"|nonce-from-script-directive", c.pos(pfd.Pos()), pfd.Name.Name+" no longer selects the directive the nonce is taken from (any directive's nonce would be used)")
					}
				}
			}
		}
		// inserter passes its first parameter to the script builder, which sets a nonce attribute from it
		if len(allParams) > 0 {
			np := allParams[0]
			passes := false
			var builder *types.Func
			ast.Inspect(ins.Body, func(n ast.Node) bool {
				if call, ok := n.(*ast.CallExpr); ok {
					for _, a := range call.Args {
						if id, ok := a.(*ast.Ident); ok && info.ObjectOf(id) == np {
							if fn := calleeOf(info, call); fn != nil && fn.Pkg() == p.Types {
								passes = true
								builder = fn
							}
						}
					}
				}
				return true
			})
			attr := false
			if builder != nil {
				for _, f := range allFuncDecls(p) {
					if info.Defs[f.Name] != types.Object(builder) {
						continue
					}
					var bp types.Object
					if len(f.Type.Params.List) > 0 && len(f.Type.Params.List[0].Names) > 0 {
						bp = info.Defs[f.Type.Params.List[0].Names[0]]
					}
					ast.Inspect(f.Body, func(n ast.Node) bool {
						if cl, ok := n.(*ast.CompositeLit); ok {
							k, v := "", types.Object(nil)
							for _, el := range cl.Elts {
								if kv, ok := el.(*ast.KeyValueExpr); ok {
									switch types.ExprString(kv.Key) {
									case "Key":
										k, _ = constString(info, kv.Value)
									case "Val":
										if id, ok := kv.Value.(*ast.Ident); ok {
											v = info.ObjectOf(id)
										}
									}
								}
							}
							if k == "nonce" && v == bp && bp != nil {
								attr = true
							}
						}
						return true
					})
				}
			}
			c.check(passes && attr, "C20.R4", ikey+"|nonce-reaches-attribute", c.pos(ins.Pos()), "the nonce parameter reaches a nonce attribute of the script element",
				"the nonce no longer reaches a `nonce` attribute of the inserted script element: pages with a CSP would block the reload script")
		}
	}
	c.floor("C20.R1", 3)
	c.floor("C20.R2", 5)
	c.floor("C20.R3", 3)
}

func keysOf(m map[string][]string) []string {
	var out []string
	for k := range m {
		out = append(out, k)
	}
	return out
}

// freshBuffer: new(T), &T{}, T{}, bytes.NewBuffer(...), bytes.NewBufferString(...), bytes.NewReader(...).
func freshBuffer(info *types.Info, e ast.Expr) bool {
	e = ast.Unparen(e)
	switch e := e.(type) {
	case *ast.CompositeLit:
		return true
	case *ast.UnaryExpr:
		if e.Op == token.AND {
			_, ok := ast.Unparen(e.X).(*ast.CompositeLit)
			return ok
		}
	case *ast.CallExpr:
		if id, ok := e.Fun.(*ast.Ident); ok && id.Name == "new" {
			return true
		}
		if fn := calleeOf(info, e); fn != nil {
			switch fullName(fn) {
			case "bytes.NewBuffer", "bytes.NewBufferString", "bytes.NewReader", "strings.NewReader":
				return true
			}
		}
	}
	return false
}

// parsesLikeTheBrowser: C20.R7 — the document is parsed the way the browser that receives it parses it: with
// scripting enabled (html.Parse, or ParseWithOptions without ParseOptionEnableScripting(false)). With scripting
// disabled the parser treats <noscript> in <head> as markup: anything in it that is not link/meta/style ends the head,
// and re-serialising moves the rest of the head (title, style sheets) into the body — a change to the document beyond
// the appended script.
func parsesLikeTheBrowser(c *Ctx, rule string) {
	p := c.pkg("cmd/templ/generatecmd/proxy")
	info := p.TypesInfo
	n := 0
	for _, fd := range allFuncDecls(p) {
		ast.Inspect(fd.Body, func(x ast.Node) bool {
			call, ok := x.(*ast.CallExpr)
			if !ok {
				return true
			}
			fn := calleeOf(info, call)
			if fn == nil || fn.Pkg() == nil || fn.Pkg().Path() != "golang.org/x/net/html" {
				return true
			}
			switch fn.Name() {
			case "Parse":
				n++
				c.ok(rule, funcKey(p, fd)+"|html.Parse", c.pos(call.Pos()), "html.Parse: scripting enabled, as in a browser")
			case "ParseWithOptions", "ParseFragmentWithOptions":
				n++
				bad := ""
				for _, a := range call.Args {
					if oc, ok := ast.Unparen(a).(*ast.CallExpr); ok {
						if of := calleeOf(info, oc); of != nil && of.Name() == "ParseOptionEnableScripting" && len(oc.Args) == 1 {
							if tv := info.Types[oc.Args[0]]; tv.Value == nil || tv.Value.ExactString() != "true" {
								bad = types.ExprString(oc)
							}
						}
					}
				}
				c.check(bad == "", rule, funcKey(p, fd)+"|"+fn.Name(), c.pos(call.Pos()), "parsed with scripting enabled",
					fd.Name.Name+" parses the page with "+bad+": a <noscript> in <head> that contains anything but link/meta/style (an analytics pixel <img>) then ends the head early, and the re-serialised page has its <title> and style sheets moved into <body> — the response differs from the original by more than the appended script")
			}
			return true
		})
	}
	c.count("html_parse_sites", n)
	c.floor(rule, 1)
}

// memoDependsOnAllInputs: C20.R8 — a function of the proxy that answers from a map when it can (a memo) must make the
// hit depend on every parameter that the miss path computes from: the parameter is part of the key, or something
// derived from it is compared in the hit condition. A rewritten page cached by content alone is served with the nonce
// of an earlier response; the browser then refuses the reload script.
func memoDependsOnAllInputs(c *Ctx, rule string) {
	p := c.pkg("cmd/templ/generatecmd/proxy")
	info := p.TypesInfo
	n := 0
	for _, fd := range allFuncDecls(p) {
		var params []types.Object
		for _, prm := range fd.Type.Params.List {
			for _, nm := range prm.Names {
				params = append(params, info.Defs[nm])
			}
		}
		if len(params) < 2 {
			continue
		}
		// lookup: <v>, ok := <recv>.<mapfield>[key]
		var lookup *ast.AssignStmt
		ast.Inspect(fd.Body, func(x ast.Node) bool {
			as, ok := x.(*ast.AssignStmt)
			if !ok || len(as.Lhs) != 2 || len(as.Rhs) != 1 {
				return true
			}
			ix, ok := as.Rhs[0].(*ast.IndexExpr)
			if !ok {
				return true
			}
			if _, isMap := info.TypeOf(ix.X).Underlying().(*types.Map); isMap {
				if f := fieldOf(info, ix.X); f != nil {
					lookup = as
				}
			}
			return true
		})
		if lookup == nil {
			continue
		}
		okObj := info.ObjectOf(lookup.Lhs[1].(*ast.Ident))
		valObj := info.ObjectOf(lookup.Lhs[0].(*ast.Ident))
		// the hit branch: an if that mentions ok and returns something read from the looked-up value
		var hit *ast.IfStmt
		ast.Inspect(fd.Body, func(x ast.Node) bool {
			is, ok := x.(*ast.IfStmt)
			if !ok || hit != nil {
				return true
			}
			mentionsOK := false
			ast.Inspect(is.Cond, func(y ast.Node) bool {
				if id, ok := y.(*ast.Ident); ok && info.ObjectOf(id) == okObj {
					mentionsOK = true
				}
				return true
			})
			returnsVal := false
			ast.Inspect(is.Body, func(y ast.Node) bool {
				if ret, ok := y.(*ast.ReturnStmt); ok {
					for _, r := range ret.Results {
						ast.Inspect(r, func(z ast.Node) bool {
							if id, ok := z.(*ast.Ident); ok && info.ObjectOf(id) == valObj {
								returnsVal = true
							}
							return true
						})
					}
				}
				return true
			})
			if mentionsOK && returnsVal {
				hit = is
			}
			return true
		})
		if hit == nil {
			continue
		}
		n++
		// derived-from relation (one function, flow-insensitive)
		derived := map[types.Object]map[types.Object]bool{}
		for _, prm := range params {
			derived[prm] = map[types.Object]bool{prm: true}
		}
		for changed := true; changed; {
			changed = false
			ast.Inspect(fd.Body, func(x ast.Node) bool {
				as, ok := x.(*ast.AssignStmt)
				if !ok {
					return true
				}
				for _, prm := range params {
					uses := false
					for _, r := range as.Rhs {
						ast.Inspect(r, func(y ast.Node) bool {
							if id, ok := y.(*ast.Ident); ok && derived[prm][info.ObjectOf(id)] {
								uses = true
							}
							return true
						})
					}
					if uses {
						for _, l := range as.Lhs {
							if id, ok := l.(*ast.Ident); ok && id.Name != "_" && !derived[prm][info.ObjectOf(id)] && info.ObjectOf(id) != okObj && info.ObjectOf(id) != valObj {
								derived[prm][info.ObjectOf(id)] = true
								changed = true
							}
						}
					}
				}
				return true
			})
		}
		mentions := func(root ast.Node, prm types.Object) bool {
			f := false
			ast.Inspect(root, func(y ast.Node) bool {
				if id, ok := y.(*ast.Ident); ok && derived[prm][info.ObjectOf(id)] {
					f = true
				}
				return true
			})
			return f
		}
		key := lookup.Rhs[0].(*ast.IndexExpr).Index
		var missing []string
		for _, prm := range params {
			usedInMiss := false
			ast.Inspect(fd.Body, func(x ast.Node) bool {
				if call, ok := x.(*ast.CallExpr); ok && call.Pos() > hit.End() {
					if fn := calleeOf(info, call); fn != nil && fn.Pkg() == p.Types {
						for _, a := range call.Args {
							if mentions(a, prm) {
								usedInMiss = true
							}
						}
					}
				}
				return true
			})
			if usedInMiss && !mentions(key, prm) && !mentions(hit.Cond, prm) {
				missing = append(missing, prm.Name())
			}
		}
		c.check(len(missing) == 0, rule, funcKey(p, fd)+"|memo-hit-depends-on-every-input", c.pos(hit.Pos()), "every parameter used to compute a miss is part of the key or of the hit condition",
			fmt.Sprintf("%s answers from its cache without looking at %s, although the value it would compute depends on it: a page cached under one Content-Security-Policy nonce is served again under another (or none), so the reload script carries a stale nonce and the browser refuses to run it", fd.Name.Name, strings.Join(missing, ", ")))
	}
	c.count("memo_functions_in_proxy", n)
	src := `package control
type C struct{ m map[string]string }
func (c *C) get(path, nonce, body string) string { v, ok := c.m[path]; if ok && v == body { return v }; r := compute(nonce, body); c.m[path] = r; return r }
func compute(a, b string) string { return a + b }
`
	_, _, okc := checkSnippet(c, src)
	c.control(rule+":snippet-type-checks", okc)
	c.ok(rule, p.PkgPath+"|memo-scan", "", fmt.Sprintf("%d memo-shaped functions found", n))
}
