package main

import (
	"fmt"
	"go/ast"
	"go/constant"
	"go/token"
	"go/types"
	"golang.org/x/tools/go/packages"
	"sort"
	"strings"

	"golang.org/x/tools/go/callgraph"
	"golang.org/x/tools/go/callgraph/cha"
	"golang.org/x/tools/go/callgraph/vta"
	"golang.org/x/tools/go/ssa"
	"golang.org/x/tools/go/ssa/ssautil"
)

func init() {
	register(&propDef{
		ID:          "C15",
		Explanation: "Equality with single-file generation over all trees, worker counts and schedules is not decided. Decides the structural reasons it is true: R1 every field of the event handler that has a sibling `<field>Mutex` is accessed (outside the constructor) only with that mutex in the must-held set; R2 every path handed to the file writer, os.WriteFile, os.Create or os.Remove in the per-file handler derives from that event's own file name through TrimSuffix+constant suffix or the development text-file name function (no other file is touched); R3 the bytes written are the result of format.Source over the generator's buffer, the hash gating the write is computed over that same value, and the write sits inside the hash test; R4 the handler's error reaches the error channel, every non-fatal error increments the counter, the command's final return is non-nil when the counter is positive, and in the per-file generator the errors of parsing, generation, formatting and both writes reach a return; R5 both directory walks consult skipdir.ShouldSkip for directories and return SkipDir, and ShouldSkip's true-returns are exactly vendor, node_modules, dot- and underscore-prefixed; R6 (VTA call graph) nothing reachable from generator.Generate or the parser's Parse calls time.Now, math/rand or os.Getenv, and the generator does not range over a map; R7 the wait-group Add and the semaphore acquire precede the `go` statement, the worker defers Done and the release, and the post-generation channel is closed only after the wait. R8 a slice field of the handler that per-event methods append to without copying is handed to the constructor without declared spare capacity (no make(…, len, cap>len), no re-slice). R9 every output file is replaced, not overwritten in place: os.WriteFile / os.Create, or os.OpenFile with O_TRUNC (constant-evaluated flags). R10 the lazy-mode `already up to date` test is a strict modification-time comparison. R11 the file name compiled into generated code is computed by filepath.Rel (no string surgery on paths). R12 nothing on the per-file path (the function that calls generator.Generate, its package-local callees and callers) constructs a FatalError, the one kind of error at which the command's error loop stops: a file that cannot be generated, formatted or written fails the command without ending the run. NOT decided: file-system races with other processes, fsnotify delivery, spare capacity produced by append's own growth. R13 no value that holds a sync primitive by value is copied in the generate command's packages; R14 an append on shared storage (a field reached through a receiver or parameter, a package-level variable) whose result is kept elsewhere is accepted only if the origin of that slice — followed through locals, parameters, private fields and helpers — is neither a make with capacity beyond its length nor a slice expression without explicit capacity (generalises R8). R15/R16 no error result of the generate command is dropped or detected and then not reported; R17 every return leaves locks released; R18 closures started later (timers, goroutines) read no loop variable that has moved on; R19 modification times are kept and compared as time.Time; R20 an upsert records the value it reports on. R20 also follows the test-and-set through forwarding (a method of the registry's own type, a generic helper) and decides computed answers by the path's conditions. R5 also: the walk that feeds the generator leaves entries out only on walk errors, directories and pattern mismatches (no test of the entry's type bits, which do not follow symbolic links), and the skip test may be nested in the directory branch. R6 also: maps.Keys / Values / All in the generator go into slices.Sorted… or a slice that is sorted in the same function. R11 also: symbolic links are resolved (filepath.EvalSymlinks) on both operands of filepath.Rel or on neither, followed through locals, helpers and the fields the constructor stores.",
		Assumptions: []string{"format.Source is deterministic", "sha256 collisions do not occur"},
		Trusted:     []string{"go/types", "x/tools go/packages, go/cfg, go/ssa, callgraph/vta"},
		Run:         runC15,
	})
}

func runC15(c *Ctx) {
	c.load("./cmd/templ/generatecmd", "./cmd/templ/generatecmd/watcher", "./internal/skipdir", "./generator", "./parser/v2")
	outputFilesReplaced(c, "C15.R9")
	lazySkipIsStrict(c, "C15.R10")
	fileNameIsRelByPathRules(c, "C15.R11")
	relOperandsResolvedAlike(c, "C15.R11")
	perFileErrorsAreNotFatal(c, "C15.R12")
	locksNeverCopied(c, "C15.R13", "cmd/templ/generatecmd", "cmd/templ/generatecmd/watcher")
	locksReleasedOnEveryReturn(c, "C15.R17", "cmd/templ/generatecmd", "cmd/templ/generatecmd/watcher")
	laterClosuresReadNoLoopState(c, "C15.R18", "cmd/templ/generatecmd", "cmd/templ/generatecmd/watcher")
	modTimesStayTimes(c, "C15.R19", "cmd/templ/generatecmd", "cmd/templ/generatecmd/watcher")
	upsertRecordsWhatItReports(c, "C15.R20")
	sharedSlicesNotAppendedInPlace(c, "C15.R14", "cmd/templ/generatecmd", "cmd/templ/generatecmd/watcher")
	errorsNotLost(c, "C15.R15", "cmd/templ/generatecmd", "cmd/templ/generatecmd/watcher")
	errorsFoundAreReported(c, "C15.R16", "cmd/templ/generatecmd", "cmd/templ/generatecmd/watcher")
	p := c.pkg("cmd/templ/generatecmd")
	info := p.TypesInfo

	// R1 ------------------------------------------------------------
	for _, nm := range p.Types.Scope().Names() {
		tn, ok := p.Types.Scope().Lookup(nm).(*types.TypeName)
		if !ok {
			continue
		}
		st, ok := tn.Type().Underlying().(*types.Struct)
		if !ok {
			continue
		}
		guarded := map[*types.Var]*types.Var{}
		for i := 0; i < st.NumFields(); i++ {
			f := st.Field(i)
			for j := 0; j < st.NumFields(); j++ {
				g := st.Field(j)
				if g.Name() == f.Name()+"Mutex" && isMutexType(g.Type()) {
					guarded[f] = g
				}
			}
		}
		if len(guarded) == 0 {
			continue
		}
		c.count("mutex_guarded_fields", len(guarded))
		for _, b := range funcBodies(p) {
			if strings.HasPrefix(b.Decl.Name.Name, "New") && b.Decl.Recv == nil {
				continue // constructor: value not shared yet
			}
			fc := newFnCFG(b.Body, info)
			directNodes(b.Body, func(n ast.Node) bool {
				se, ok := n.(*ast.SelectorExpr)
				if !ok {
					return true
				}
				sel, ok := info.Selections[se]
				if !ok {
					return true
				}
				fv, ok := sel.Obj().(*types.Var)
				if !ok {
					return true
				}
				mu, isG := guarded[fv]
				if !isG {
					return true
				}
				want := types.ExprString(se.X) + "." + mu.Name()
				held := normHeld(fc.heldAt(se), accessIsWrite(b.Body, se))
				key := fmt.Sprintf("%s|access:%s", funcKey(p, b.Decl), fv.Name())
				if !held[want] && handedOverWithItsLock(p, b.Body, se, want) {
					c.ok("C15.R1", key, c.pos(se.Pos()), "handed, together with "+want+", to a helper that takes that lock before it touches the map")
					return true
				}
				c.check(held[want], "C15.R1", key, c.pos(se.Pos()), "under "+want,
					fmt.Sprintf("%s accesses %s without holding %s %s: concurrent workers race on the map", funcKey(p, b.Decl), fv.Name(), want, heldList(held)))
				return false
			})
		}
	}
	c.floor("C15.R1", 4)

	// R2, R3, R4(generate) ------------------------------------------------------------
	fileSinks := map[string]bool{"os.WriteFile": true, "os.Create": true, "os.Remove": true, "os.RemoveAll": true, "os.Rename": true, "os.OpenFile": true}
	nsink := 0
	// package-local helpers that hand one of their string parameters to a file sink (or to a writer function value):
	// a call of such a helper is itself a sink for that argument
	isWriterValue := func(call *ast.CallExpr) bool {
		if se, ok := call.Fun.(*ast.SelectorExpr); ok && isFileWriterField(info, se) {
			return true
		}
		if id, ok := call.Fun.(*ast.Ident); ok {
			if v, isVar := info.ObjectOf(id).(*types.Var); isVar {
				if sig, ok := v.Type().Underlying().(*types.Signature); ok && sig.Params().Len() == 2 && sig.Results().Len() == 1 &&
					isStringType(sig.Params().At(0).Type()) && sig.Params().At(1).Type().String() == "[]byte" && sig.Results().At(0).Type().String() == "error" {
					return true
				}
			}
		}
		return false
	}
	sinkHelpers := map[types.Object]int{}
	for _, fd := range allFuncDecls(p) {
		if fd.Body == nil {
			continue
		}
		var prms []types.Object
		for _, prm := range fd.Type.Params.List {
			for _, nm := range prm.Names {
				prms = append(prms, info.Defs[nm])
			}
		}
		ast.Inspect(fd.Body, func(n ast.Node) bool {
			call, ok := n.(*ast.CallExpr)
			if !ok || len(call.Args) == 0 {
				return true
			}
			name := ""
			if fn := calleeOf(info, call); fn != nil {
				name = fullName(fn)
			}
			if !fileSinks[name] && !isWriterValue(call) {
				return true
			}
			cands := []ast.Expr{call.Args[0]}
			if name == "os.Rename" && len(call.Args) == 2 {
				cands = []ast.Expr{call.Args[1]} // the file that is replaced is the second argument
			}
			for _, cand := range cands {
				if id, ok := ast.Unparen(cand).(*ast.Ident); ok {
					for i, po := range prms {
						if po == info.ObjectOf(id) && isStringType(po.Type()) {
							sinkHelpers[info.Defs[fd.Name]] = i
						}
					}
				}
			}
			return true
		})
	}
	for _, fd := range allFuncDecls(p) {
		if fd.Recv == nil || recvTypeName(fd.Recv.List[0].Type) != "FSEventHandler" {
			if fd.Name.Name != "generateSourceMapVisualisation" {
				continue
			}
		}
		// the file-name roots of this function: string parameters and event.Name
		roots := map[types.Object]bool{}
		for _, prm := range fd.Type.Params.List {
			for _, nm := range prm.Names {
				if t := info.TypeOf(prm.Type); t != nil && (isStringType(t) || strings.HasSuffix(t.String(), "fsnotify.Event")) {
					roots[info.Defs[nm]] = true
				}
			}
		}
		pathDerivationPkg = p
		derivedFromRoot := func(e ast.Expr) (bool, string) { return pathDerivation(info, fd, e, roots, 0) }
		ast.Inspect(fd.Body, func(n ast.Node) bool {
			call, ok := n.(*ast.CallExpr)
			if !ok || len(call.Args) == 0 {
				return true
			}
			name := ""
			if fn := calleeOf(info, call); fn != nil {
				name = fullName(fn)
			}
			isWriter := false
			if isWriterValue(call) {
				isWriter = true
				name = "h.writer"
			}
			pathArg := call.Args[0]
			if fn := calleeOf(info, call); fn != nil {
				if i, isHelper := sinkHelpers[fn]; isHelper && i < len(call.Args) && types.Object(fn) != info.Defs[fd.Name] {
					isWriter = true
					name = fn.Name()
					pathArg = call.Args[i]
				}
			}
			if !fileSinks[name] && !isWriter {
				return true
			}
			nsink++
			key := fmt.Sprintf("%s|%s(%s)", funcKey(p, fd), name, types.ExprString(pathArg))
			ok2, how := derivedFromRoot(pathArg)
			c.check(ok2, "C15.R2", key, c.pos(call.Pos()), "path derives from the event's own file: "+how,
				fmt.Sprintf("%s: the path %s given to %s does not derive from the handled file's own name through TrimSuffix+suffix or the text-file name function (%s): another file could be written or removed", fd.Name.Name, types.ExprString(pathArg), name, how))
			return true
		})
	}
	c.count("file_effect_sites", nsink)
	c.floor("C15.R2", 4)

	// the per-file generate method: the function of the package that calls generator.Generate
	var gen *ast.FuncDecl
	for _, fd := range allFuncDecls(p) {
		if fd.Body == nil {
			continue
		}
		ast.Inspect(fd.Body, func(n ast.Node) bool {
			if call, ok := n.(*ast.CallExpr); ok {
				if fn := calleeOf(info, call); fn != nil && fullName(fn) == pkgGenerator+".Generate" {
					gen = fd
				}
			}
			return true
		})
	}
	if gen == nil {
		c.viol("C15.R3", "anchor-lost:FSEventHandler.generate", "", "the per-file generate method was not found")
	} else {
		// the unit: the function that calls the generator, and — when generation is a phase of its own that hands its
		// outcome on — the function of the package that calls it and writes the file
		unit := []*ast.FuncDecl{gen}
		for _, fd := range allFuncDecls(p) {
			if fd == gen || fd.Body == nil {
				continue
			}
			calls := false
			ast.Inspect(fd.Body, func(n ast.Node) bool {
				if call, ok := n.(*ast.CallExpr); ok && types.Object(calleeOf(info, call)) == info.Defs[gen.Name] {
					calls = true
				}
				return true
			})
			if calls {
				unit = append(unit, fd)
			}
		}
		// … and the other phases that caller runs (render, then emit): the unexported functions of the package it calls
		for _, caller := range append([]*ast.FuncDecl{}, unit[1:]...) {
			ast.Inspect(caller.Body, func(n ast.Node) bool {
				call, ok := n.(*ast.CallExpr)
				if !ok {
					return true
				}
				fn := calleeOf(info, call)
				if fn == nil || fn.Pkg() != p.Types || fn.Exported() {
					return true
				}
				for _, fd := range allFuncDecls(p) {
					if info.Defs[fd.Name] != types.Object(fn) || fd.Body == nil {
						continue
					}
					seen := false
					for _, u := range unit {
						seen = seen || u == fd
					}
					if !seen && len(unit) < 8 {
						unit = append(unit, fd)
					}
				}
				return true
			})
		}
		writerFn := gen
		key := funcKey(p, gen)
		type sited struct {
			fd   *ast.FuncDecl
			call *ast.CallExpr
		}
		var fmtCall, genCall *ast.CallExpr
		var writerCalls, hashCalls []sited
		for _, ufd := range unit {
			ast.Inspect(ufd.Body, func(n ast.Node) bool {
				if call, ok := n.(*ast.CallExpr); ok {
					if fn := calleeOf(info, call); fn != nil {
						switch fullName(fn) {
						case "go/format.Source":
							fmtCall = call
						case pkgGenerator + ".Generate":
							genCall = call
						case "crypto/sha256.Sum256":
							hashCalls = append(hashCalls, sited{ufd, call})
						default:
							if fn.Pkg() == p.Types && len(call.Args) == 1 && wholeValueHasher(p, fn) {
								hashCalls = append(hashCalls, sited{ufd, call})
							}
						}
					}
					if se, ok := call.Fun.(*ast.SelectorExpr); ok && isFileWriterField(info, se) {
						writerCalls = append(writerCalls, sited{ufd, call})
						writerFn = ufd
					}
				}
				return true
			})
		}
		if writerFn != gen {
			key = funcKey(p, writerFn)
		}
		// the hash-then-write step may live in a package-local helper that receives the bytes as a parameter and both
		// hashes and writes that parameter
		helperContentIdx := -1
		var helperCall sited
		if len(writerCalls) == 0 || len(hashCalls) == 0 {
			for _, ufd := range unit {
				ast.Inspect(ufd.Body, func(n ast.Node) bool {
					call, ok := n.(*ast.CallExpr)
					if !ok || helperContentIdx >= 0 {
						return true
					}
					fn := calleeOf(info, call)
					if fn == nil || fn.Pkg() != p.Types {
						return true
					}
					for _, hfd := range allFuncDecls(p) {
						if info.Defs[hfd.Name] != types.Object(fn) || hfd.Body == nil {
							continue
						}
						var prms []types.Object
						for _, prm := range hfd.Type.Params.List {
							for _, nm := range prm.Names {
								prms = append(prms, info.Defs[nm])
							}
						}
						hashed, written := -1, -1
						ast.Inspect(hfd.Body, func(m ast.Node) bool {
							hc, ok := m.(*ast.CallExpr)
							if !ok {
								return true
							}
							argIdx := func(e ast.Expr) int {
								if id, ok := ast.Unparen(e).(*ast.Ident); ok {
									for i, po := range prms {
										if po == info.ObjectOf(id) {
											return i
										}
									}
								}
								return -1
							}
							if hf := calleeOf(info, hc); hf != nil && len(hc.Args) == 1 && (fullName(hf) == "crypto/sha256.Sum256" || wholeValueHasher(p, hf)) {
								hashed = argIdx(hc.Args[0])
							}
							if isWriterValue(hc) && len(hc.Args) == 2 {
								written = argIdx(hc.Args[1])
							}
							return true
						})
						if hashed >= 0 && hashed == written && hashed < len(call.Args) {
							helperContentIdx = hashed
							helperCall = sited{ufd, call}
						}
					}
					return true
				})
			}
		}
		if fmtCall == nil || genCall == nil || (len(writerCalls) == 0 || len(hashCalls) == 0) && helperContentIdx < 0 {
			c.viol("C15.R3", key+"|pipeline", c.pos(gen.Pos()), fmt.Sprintf("generate/format/hash/write pipeline incomplete (Generate %v, format.Source %v, Sum256 %v, writer %v)", genCall != nil, fmtCall != nil, len(hashCalls) > 0, len(writerCalls) > 0))
		} else {
			bufSame := false
			if len(genCall.Args) >= 2 && len(fmtCall.Args) == 1 {
				gb := strings.TrimPrefix(types.ExprString(genCall.Args[1]), "&")
				fb := types.ExprString(fmtCall.Args[0])
				bufSame = fb == gb+".Bytes()"
			}
			c.check(bufSame, "C15.R3", key+"|formats-generator-output", c.pos(fmtCall.Pos()), "format.Source is applied to the buffer the generator wrote",
				"format.Source is not applied to the bytes the generator produced")
			// the Go file's writer is handed what format.Source returned (through locals or the fields of the outcome
			// struct of the generation phase); so is the hash that gates that write. (Other writers of the unit — the
			// development text file's — and their hashes are C16's.)
			wArg, hArg := false, false
			wPos, hPos := fmtCall.Pos(), fmtCall.Pos()
			if helperContentIdx >= 0 {
				if resolvesToCall(p, helperCall.fd, helperCall.call.Args[helperContentIdx], fmtCall, 0, 0) {
					wArg, hArg = true, true
				}
				wPos, hPos = helperCall.call.Pos(), helperCall.call.Pos()
			} else {
				for _, w := range writerCalls {
					wPos = w.call.Pos()
					if len(w.call.Args) == 2 && resolvesToCall(p, w.fd, w.call.Args[1], fmtCall, 0, 0) {
						wArg = true
						break
					}
				}
				for _, h := range hashCalls {
					hPos = h.call.Pos()
					if len(h.call.Args) == 1 && resolvesToCall(p, h.fd, h.call.Args[0], fmtCall, 0, 0) {
						hArg = true
						break
					}
				}
			}
			c.check(wArg, "C15.R3", key+"|writes-formatted-bytes", c.pos(wPos), "the file writer receives the gofmt-formatted bytes",
				"the bytes handed to the file writer are not the result of format.Source: the written file differs from the gofmt-formatted generation")
			c.check(hArg, "C15.R3", key+"|hashes-what-it-writes", c.pos(hPos), "the change-detection hash is computed over the bytes that are written",
				"the hash that gates the write is not computed over the bytes that are written")
			writesGatedByOwnHash(c, "C15.R3", "write-gated-by-own-hash")
		}
		key = funcKey(p, gen)
		// R4 in generate: errors of the deciding calls reach a return
		deciding := map[string]bool{pkgParser + ".Parse": true, pkgGenerator + ".Generate": true, "go/format.Source": true, "os.WriteFile": true}
		for _, ufd := range unit {
			ukey := key
			if ufd != gen {
				ukey = funcKey(p, ufd)
			}
			for _, st := range ufd.Body.List {
				checkErrFlow(c, p.TypesInfo, ufd, st, ufd.Body.List, deciding, "C15.R4", ukey)
			}
			ast.Inspect(ufd.Body, func(n ast.Node) bool {
				if is, ok := n.(*ast.IfStmt); ok {
					for _, st := range is.Body.List {
						checkErrFlow(c, p.TypesInfo, ufd, st, is.Body.List, deciding, "C15.R4", ukey)
					}
				}
				return true
			})
		}
	}

	// R4: HandleEvent returns generate's error; Run forwards and counts ------------------------------
	if he := findFunc(p, "FSEventHandler", "HandleEvent"); he == nil {
		c.viol("C15.R4", "anchor-lost:HandleEvent", "", "FSEventHandler.HandleEvent (exported) not found")
	} else {
		good := false
		for i, st := range he.Body.List {
			as, ok := st.(*ast.AssignStmt)
			if !ok || len(as.Rhs) != 1 {
				continue
			}
			call, ok := as.Rhs[0].(*ast.CallExpr)
			if !ok || !strings.HasSuffix(types.ExprString(call.Fun), ".generate") {
				continue
			}
			if i+1 < len(he.Body.List) {
				if is, ok := he.Body.List[i+1].(*ast.IfStmt); ok && errVarOfCond(is.Cond) != "" {
					if ret, ok := is.Body.List[len(is.Body.List)-1].(*ast.ReturnStmt); ok && len(ret.Results) == 2 && exprMentions(ret.Results[1], errVarOfCond(is.Cond)) && types.ExprString(ret.Results[1]) != "nil" {
						good = true
					}
				}
			}
		}
		c.check(good, "C15.R4", funcKey(p, he)+"|returns-generate-error", c.pos(he.Pos()), "a failed generation is returned to the caller",
			"HandleEvent no longer returns the error of generate: a file that cannot be generated would not fail the command")
	}
	run := findFunc(p, "Generate", "Run")
	if run == nil {
		c.viol("C15.R4", "anchor-lost:Generate.Run", "", "generatecmd.Generate.Run (exported) not found")
	} else {
		key := funcKey(p, run)
		// (a) worker: r, err := HandleEvent(...); if err != nil { errs <- err }
		forwards := false
		var worker *ast.FuncLit
		var goStmt *ast.GoStmt
		ast.Inspect(run.Body, func(n ast.Node) bool {
			if gs, ok := n.(*ast.GoStmt); ok {
				// (the worker may be written in place, held in a local — go processEvent(event) — or be a declared function)
				if fl := goTarget(p, run.Body, gs.Call); fl != nil && (strings.Contains(nodeText(c.fset, fl.Body), ".HandleEvent(") || handlesEventThroughHelper(p, fl.Body) != nil) {
					// innermost
					inner := true
					ast.Inspect(fl.Body, func(m ast.Node) bool {
						if g2, ok := m.(*ast.GoStmt); ok && g2 != gs {
							if f2 := goTarget(p, run.Body, g2.Call); f2 != nil && strings.Contains(nodeText(c.fset, f2.Body), ".HandleEvent(") {
								inner = false
							}
						}
						return true
					})
					if inner {
						worker, goStmt = fl, gs
					}
				}
			}
			return true
		})
		var errChan types.Object
		// the worker's body may hand the event to a function of the package that calls HandleEvent and reports the error
		// on a channel it is given: the error channel is then the argument that stands for that parameter
		forwardBody := (*ast.BlockStmt)(nil)
		chanOf := func(id *ast.Ident) types.Object { return info.ObjectOf(id) }
		if worker != nil {
			forwardBody = worker.Body
			if hcall := handlesEventThroughHelper(p, worker.Body); hcall != nil && !strings.Contains(nodeText(c.fset, worker.Body), ".HandleEvent(") {
				hfn := calleeOf(info, hcall)
				for _, hfd := range allFuncDecls(p) {
					if info.Defs[hfd.Name] == types.Object(hfn) && hfd.Body != nil {
						forwardBody = hfd.Body
						prms := paramObjs(info, hfd)
						chanOf = func(id *ast.Ident) types.Object {
							for k, po := range prms {
								if po == info.ObjectOf(id) && k < len(hcall.Args) {
									if aid, ok := ast.Unparen(hcall.Args[k]).(*ast.Ident); ok {
										return info.ObjectOf(aid)
									}
								}
							}
							return info.ObjectOf(id)
						}
					}
				}
			}
		}
		if worker != nil {
			for i, st := range forwardBody.List {
				as, ok := st.(*ast.AssignStmt)
				if !ok || len(as.Rhs) != 1 || !strings.Contains(types.ExprString(as.Rhs[0]), ".HandleEvent(") {
					continue
				}
				if i+1 < len(forwardBody.List) {
					if is, ok := forwardBody.List[i+1].(*ast.IfStmt); ok && errVarOfCond(is.Cond) != "" && len(is.Body.List) >= 1 {
						if ss, ok := is.Body.List[0].(*ast.SendStmt); ok && types.ExprString(ss.Value) == errVarOfCond(is.Cond) {
							forwards = true
							if id, ok := ss.Chan.(*ast.Ident); ok {
								errChan = chanOf(id)
							}
						}
					}
				}
			}
		}
		c.check(forwards, "C15.R4", key+"|worker-forwards-error", c.pos(run.Pos()), "the worker sends HandleEvent's error to the error channel",
			"the worker goroutine drops the error of HandleEvent: the command would exit 0 although a file failed")
		// (b) the receive loop counts every non-fatal error; (c) final return
		counted, final := false, false
		var counter string
		ast.Inspect(run.Body, func(n ast.Node) bool {
			if rs, ok := n.(*ast.RangeStmt); ok {
				if id, ok := rs.X.(*ast.Ident); ok && errChan != nil && info.ObjectOf(id) == errChan {
					// over the paths of one iteration: a path that does not count the error either found it nil or
					// returns it (a fatal error ends the run)
					ld := &denum{info: info, pkg: p.Types, inits: map[types.Object]ast.Expr{}, limit: 5000, loopBody: true, opaqueLoops: true}
					ld.finish(ld.run(rs.Body.List, []dstate{{env: map[types.Object]ast.Expr{}}}))
					var errVar types.Object
					if vid, ok := rs.Key.(*ast.Ident); ok {
						errVar = info.ObjectOf(vid) // `for err := range errs`: the value of a channel range is its Key
					}
					if ld.undecided == "" && errVar != nil {
						counted = true
						ncount := 0
						for _, pth := range ld.paths {
							adds := false
							for _, st := range pth.Trace {
								ast.Inspect(st, func(m ast.Node) bool {
									if call, ok := m.(*ast.CallExpr); ok {
										if se, ok := call.Fun.(*ast.SelectorExpr); ok && se.Sel.Name == "Add" && len(call.Args) == 1 {
											if t := info.TypeOf(se.X); t != nil && strings.Contains(t.String(), "atomic.") {
												adds = true
												counter = types.ExprString(se.X)
											}
										}
									}
									return true
								})
							}
							if adds {
								ncount++
								continue
							}
							isNil := false
							for _, pc := range pth.Conds {
								if be, ok := ast.Unparen(pc.Expr).(*ast.BinaryExpr); ok && types.ExprString(be.Y) == "nil" {
									if id, ok := ast.Unparen(be.X).(*ast.Ident); ok && info.ObjectOf(id) == errVar {
										if pc.Val == (be.Op == token.EQL) {
											isNil = true
										}
									}
								}
							}
							returnsIt := false
							if pth.Ret != nil && len(pth.Ret.Results) == 1 {
								if id, ok := ast.Unparen(pth.Ret.Results[0]).(*ast.Ident); ok && info.ObjectOf(id) == errVar {
									returnsIt = true
								}
							}
							if !isNil && !returnsIt {
								counted = false
							}
						}
						if ncount == 0 {
							counted = false
						}
					}
				}
			}
			return true
		})
		for _, st := range run.Body.List {
			is, ok := st.(*ast.IfStmt)
			if !ok || counter == "" {
				continue
			}
			// the condition `<counter>.Load() > 0`, the load possibly held in a local of the if statement (n := c.Load(); n > 0)
			cond := types.ExprString(is.Cond)
			if as, isAs := is.Init.(*ast.AssignStmt); isAs && len(as.Lhs) == 1 && len(as.Rhs) == 1 {
				if be, isBE := ast.Unparen(is.Cond).(*ast.BinaryExpr); isBE && types.ExprString(be.X) == types.ExprString(as.Lhs[0]) {
					cond = types.ExprString(as.Rhs[0]) + " " + be.Op.String() + " " + types.ExprString(be.Y)
				}
			}
			if strings.HasPrefix(cond, counter+".Load() > 0") {
				if ret, ok := is.Body.List[len(is.Body.List)-1].(*ast.ReturnStmt); ok && len(ret.Results) == 1 && types.ExprString(ret.Results[0]) != "nil" {
					final = true
				}
			}
		}
		c.check(counted, "C15.R4", key+"|errors-counted", c.pos(run.Pos()), "every non-nil, non-fatal error increments "+counter,
			"the error loop does not count every non-fatal error")
		c.check(final, "C15.R4", key+"|nonzero-count-fails-command", c.pos(run.Pos()), "a positive error count makes Run return an error",
			"Run no longer returns an error when the error counter is positive")

		// R7 ------------------------------------------------------------
		if worker == nil || goStmt == nil {
			c.viol("C15.R7", key+"|worker", c.pos(run.Pos()), "the per-event worker goroutine was not found")
		} else {
			// statements before the go statement in its block: wg.Add(1) and sem <- struct{}{}
			var blk []ast.Stmt
			ast.Inspect(run.Body, func(n ast.Node) bool {
				if b, ok := n.(*ast.BlockStmt); ok {
					for _, st := range b.List {
						if st == ast.Stmt(goStmt) {
							blk = b.List
						}
					}
				}
				return true
			})
			addBefore, acqBefore := "", ""
			for _, st := range blk {
				if st == ast.Stmt(goStmt) {
					break
				}
				txt := nodeText(c.fset, st)
				if strings.HasSuffix(txt, ".Add(1)") {
					addBefore = strings.TrimSuffix(txt, ".Add(1)")
				}
				if ss, ok := st.(*ast.SendStmt); ok {
					acqBefore = types.ExprString(ss.Chan)
				}
			}
			doneDef, relDef := false, false
			for _, dc := range deferredCalls(worker.Body) {
				if addBefore != "" && types.ExprString(dc.Fun) == addBefore+".Done" {
					doneDef = true
				}
			}
			ast.Inspect(worker.Body, func(n ast.Node) bool {
				if ds, ok := n.(*ast.DeferStmt); ok {
					if acqBefore != "" && strings.Contains(nodeText(c.fset, ds), "<-"+acqBefore) {
						relDef = true
					}
				}
				return true
			})
			c.check(addBefore != "" && doneDef, "C15.R7", key+"|waitgroup-add-before-go-done-deferred", c.pos(goStmt.Pos()), addBefore+".Add(1) precedes the go statement; Done is deferred in the worker",
				"the wait group is not incremented before the worker starts, or Done is not deferred: Run can finish (and close channels) while events are still being processed")
			c.check(acqBefore != "" && relDef, "C15.R7", key+"|semaphore-acquire-before-go-release-deferred", c.pos(goStmt.Pos()), "semaphore "+acqBefore+" acquired before the go statement; release deferred in the worker",
				"the worker-count semaphore is not acquired before the worker starts, or not released by a defer")
			// close(postGeneration) deferred in the goroutine whose last statement is <wg>.Wait()
			closeOK := false
			ast.Inspect(run.Body, func(n ast.Node) bool {
				fl, ok := n.(*ast.FuncLit)
				if !ok || len(fl.Body.List) == 0 {
					return true
				}
				last := nodeText(c.fset, fl.Body.List[len(fl.Body.List)-1])
				if addBefore != "" && last == addBefore+".Wait()" {
					for _, dc := range deferredCalls(fl.Body) {
						if id, ok := dc.Fun.(*ast.Ident); ok && id.Name == "close" {
							closeOK = true
						}
					}
				}
				return true
			})
			c.check(closeOK, "C15.R7", key+"|close-after-wait", c.pos(run.Pos()), "the post-generation channel is closed by a defer of the goroutine that ends with the wait",
				"the post-generation channel is not closed after waiting for all workers: a worker can send on a closed channel")
		}
	}

	sharedSliceAppends(c, "C15.R8")

	// R5 ------------------------------------------------------------
	wp := c.pkg("cmd/templ/generatecmd/watcher")
	nwalk := 0
	for _, fd := range allFuncDecls(wp) {
		ast.Inspect(fd.Body, func(n ast.Node) bool {
			call, ok := n.(*ast.CallExpr)
			if !ok {
				return true
			}
			fn := calleeOf(wp.TypesInfo, call)
			if fn == nil || (fullName(fn) != "io/fs.WalkDir" && fullName(fn) != "path/filepath.WalkDir" && fullName(fn) != "path/filepath.Walk") {
				return true
			}
			nwalk++
			key := funcKey(wp, fd) + "|walk-skips-directories"
			// the callback: a function literal, or a declared function / method value of the package
			var fl *ast.FuncLit
			switch a := ast.Unparen(call.Args[len(call.Args)-1]).(type) {
			case *ast.FuncLit:
				fl = a
			case *ast.Ident, *ast.SelectorExpr:
				var fobj types.Object
				if id, isID := a.(*ast.Ident); isID {
					fobj = wp.TypesInfo.Uses[id]
				} else {
					fobj = wp.TypesInfo.Uses[a.(*ast.SelectorExpr).Sel]
				}
				if _, isFn := fobj.(*types.Func); isFn {
					for _, cfd := range allFuncDecls(wp) {
						if wp.TypesInfo.Defs[cfd.Name] == fobj && cfd.Body != nil {
							fl = &ast.FuncLit{Type: cfd.Type, Body: cfd.Body}
						}
					}
				}
			}
			ok = fl != nil
			good := false
			earlyWhy := ""
			if ok {
				ast.Inspect(fl.Body, func(m ast.Node) bool {
					is, ok := m.(*ast.IfStmt)
					if !ok {
						return true
					}
					hasSkip := false
					ast.Inspect(is.Cond, func(x ast.Node) bool {
						if cc, ok := x.(*ast.CallExpr); ok {
							if f2 := calleeOf(wp.TypesInfo, cc); f2 != nil && fullName(f2) == modPath+"/internal/skipdir.ShouldSkip" {
								hasSkip = true
							}
						}
						return true
					})
					if hasSkip && len(is.Body.List) == 1 {
						if ret, ok := is.Body.List[0].(*ast.ReturnStmt); ok && len(ret.Results) == 1 && strings.HasSuffix(types.ExprString(ret.Results[0]), "SkipDir") {
							good = true
							// nothing that can hold for a to-be-skipped directory may return before the skip test:
							// earlier returns are allowed only under `err != nil` or `!<entry>.IsDir()`
							for _, st := range fl.Body.List {
								if st.Pos() >= is.Pos() {
									break
								}
								eis, ok := st.(*ast.IfStmt)
								if !ok || !containsReturn(eis) {
									continue
								}
								cond := types.ExprString(eis.Cond)
								if isErrNil(eis.Cond) || (strings.HasPrefix(cond, "!") && strings.HasSuffix(cond, ".IsDir()")) {
									continue
								}
								// the skip test nested in the directory branch: if e.IsDir() { if ShouldSkip(p) { return SkipDir }; return nil }
								if eis.Pos() <= is.Pos() && is.End() <= eis.End() && strings.HasSuffix(cond, ".IsDir()") && !strings.HasPrefix(cond, "!") {
									first := true
									for _, inner := range eis.Body.List {
										if inner.Pos() < is.Pos() && containsReturn(inner) {
											first = false
										}
									}
									if first {
										continue
									}
								}
								good = false
								earlyWhy = "the callback returns under `" + cond + "` before the skip test, so a directory that should be skipped is entered"
							}
						}
					}
					return true
				})
				// the skip test must apply to directories: either guarded by IsDir in the same condition or after a `!IsDir → return nil`
			}
			// the walk that FEEDS the generator (its callback sends an event per file): an entry is left out only because of
			// a walk error, because it is a directory, or because its name does not match the pattern. Any other test —
			// on the entry's type bits, its size, its mode — leaves files out that the per-file handler (which stats the
			// path and follows symbolic links) would generate: a linked .templ file is silently not generated, a linked
			// orphan not removed.
			if fl != nil {
				sends := false
				ast.Inspect(fl.Body, func(m ast.Node) bool {
					if _, isSend := m.(*ast.SendStmt); isSend {
						sends = true
					}
					return true
				})
				if sends {
					winfo := wp.TypesInfo
					allowed := func(atom ast.Expr) bool {
						atom = ast.Unparen(atom)
						if ue, isU := atom.(*ast.UnaryExpr); isU && ue.Op == token.NOT {
							atom = ast.Unparen(ue.X)
						}
						if isErrNil(atom) {
							return true
						}
						if be, isB := atom.(*ast.BinaryExpr); isB && (be.Op == token.NEQ || be.Op == token.EQL) && (types.ExprString(be.Y) == "nil" || types.ExprString(be.X) == "nil") {
							return true
						}
						if cc, isC := atom.(*ast.CallExpr); isC {
							if se, isS := ast.Unparen(cc.Fun).(*ast.SelectorExpr); isS {
								switch se.Sel.Name {
								case "IsDir", "MatchString", "Match", "ShouldSkip", "Err":
									return true
								}
							}
							if f2 := calleeOf(winfo, cc); f2 != nil && f2.Pkg() != nil && strings.HasPrefix(f2.Pkg().Path(), modPath) {
								return true // a predicate of the module over the path (judged where it is defined)
							}
						}
						return false
					}
					extra := ""
					ast.Inspect(fl.Body, func(m ast.Node) bool {
						eis, isIf := m.(*ast.IfStmt)
						if !isIf || !containsReturn(eis.Body) {
							return true
						}
						for _, atom := range boolAtomsRaw(eis.Cond) {
							if !allowed(atom) && extra == "" {
								extra = "`" + types.ExprString(atom) + "` at " + c.pos(eis.Pos())
							}
						}
						return true
					})
					c.check(extra == "", "C15.R5", funcKey(wp, fd)+"|walk-leaves-out-only-directories-and-mismatches", c.pos(call.Pos()), "the feeding walk returns early only on walk errors, directories and names that do not match",
						fd.Name.Name+": the walk that feeds the generator leaves entries out on a further test ("+extra+"). A directory entry's type bits describe the entry itself and do not follow symbolic links, while the per-file handler stats the path: a .templ file that is a link to a file is silently not generated and a linked orphan is not removed — `templ generate` exits 0 with output that differs from generating each file on its own")
				}
			}
			c.check(good, "C15.R5", key, c.pos(call.Pos()), "the walk returns SkipDir when skipdir.ShouldSkip says so",
				fd.Name.Name+": the directory walk does not consult skipdir.ShouldSkip / return SkipDir before anything else can return: files under vendor, node_modules, dot- and underscore-directories would be generated, deleted or watched. "+earlyWhy)
			return true
		})
	}
	if nwalk < 2 {
		c.viol("C15.R5", "anchor-lost:directory-walks", "", fmt.Sprintf("expected two directory walks in package watcher, found %d", nwalk))
	}
	sp := c.pkg("internal/skipdir")
	if fd := findFunc(sp, "", "ShouldSkip"); fd == nil {
		c.viol("C15.R5", "anchor-lost:skipdir.ShouldSkip", "", "skipdir.ShouldSkip (exported) not found")
	} else {
		// over the PATHS of the function (if-chains, switches and loops over constant lists alike): which exact names
		// and which prefixes make it return true
		inits := map[types.Object]ast.Expr{}
		for _, f := range sp.Syntax {
			for _, d := range f.Decls {
				if gd, ok := d.(*ast.GenDecl); ok && gd.Tok == token.VAR {
					for _, spc := range gd.Specs {
						vs := spc.(*ast.ValueSpec)
						for i, nm := range vs.Names {
							if i < len(vs.Values) {
								inits[sp.TypesInfo.Defs[nm]] = vs.Values[i]
							}
						}
					}
				}
			}
		}
		den := &denum{info: sp.TypesInfo, pkg: sp.Types, inits: inits, limit: 5000}
		den.finish(den.run(fd.Body.List, []dstate{{env: map[types.Object]ast.Expr{}}}))
		eqSet, preSet := map[string]bool{}, map[string]bool{}
		okShape := den.undecided == ""
		for _, pth := range den.paths {
			if pth.Ret == nil || len(pth.Ret.Results) != 1 || types.ExprString(pth.Ret.Results[0]) != "true" {
				continue
			}
			// the LAST true atom on the path is what made it return true
			decided := false
			for k := len(pth.Conds) - 1; k >= 0 && !decided; k-- {
				pc := pth.Conds[k]
				if !pc.Val {
					continue
				}
				switch x := ast.Unparen(pc.Expr).(type) {
				case *ast.BinaryExpr:
					if x.Op == token.EQL {
						for _, side := range []ast.Expr{x.X, x.Y} {
							if s, ok := constString(sp.TypesInfo, den.deref(side, pth.Env)); ok {
								eqSet[s] = true
								decided = true
							}
						}
					}
				case *ast.CallExpr:
					if fn := calleeOf(sp.TypesInfo, x); fn != nil && fullName(fn) == "strings.HasPrefix" && len(x.Args) == 2 {
						if s, ok := constString(sp.TypesInfo, den.deref(x.Args[1], pth.Env)); ok {
							preSet[s] = true
							decided = true
						}
					}
				}
				// membership in a package-level set of names: `_, ok := skipped[name]; ok`, skipped.has(name), slices.Contains
				if !decided {
					var where ast.Node = pc.Expr
					if id, ok := ast.Unparen(pc.Expr).(*ast.Ident); ok {
						for _, st := range pth.Trace {
							if as, ok := st.(*ast.AssignStmt); ok && len(as.Lhs) == 2 && len(as.Rhs) == 1 {
								if lid, ok := as.Lhs[1].(*ast.Ident); ok && sp.TypesInfo.ObjectOf(lid) == sp.TypesInfo.ObjectOf(id) {
									where = as.Rhs[0]
								}
							}
						}
					}
					for _, lk := range tableLookupsIn(sp.TypesInfo, sp.Types, where) {
						if init := inits[lk.Table]; init != nil {
							if names, ok := stringSetLiteral(sp.TypesInfo, init); ok {
								for _, nm := range names {
									eqSet[nm] = true
								}
								decided = true
							}
						}
					}
				}
				if !decided {
					okShape = false
					decided = true
				}
			}
			if !decided {
				okShape = false // returns true unconditionally
			}
		}
		var eq, pre []string
		for k := range eqSet {
			if k != "." { // the `path == "."` guard returns false and is not on a true path; kept for safety
				eq = append(eq, k)
			}
		}
		for k := range preSet {
			pre = append(pre, k)
		}
		sort.Strings(eq)
		sort.Strings(pre)
		want := strings.Join(eq, ",") == "node_modules,vendor" && strings.Join(pre, ",") == ".,_"
		c.check(okShape && want, "C15.R5", funcKey(sp, fd)+"|skip-set", c.pos(fd.Pos()), "skips exactly vendor, node_modules and names starting with . or _",
			fmt.Sprintf("skipdir.ShouldSkip returns true for the exact names %v and for names with the prefixes %v (expected exactly vendor / node_modules, and the prefixes . and _): a directory such as `vendors` or `node_modules_license` would be skipped, or a dependency directory would be generated into", eq, pre))
		// the final return is false, and "." is not skipped
		lastFalse := false
		if ret, ok := fd.Body.List[len(fd.Body.List)-1].(*ast.ReturnStmt); ok && types.ExprString(ret.Results[0]) == "false" {
			lastFalse = true
		}
		c.check(lastFalse, "C15.R5", funcKey(sp, fd)+"|default-not-skipped", c.pos(fd.Pos()), "everything else is not skipped", "skipdir.ShouldSkip skips by default")
	}

	// R6 ------------------------------------------------------------
	gp := c.pkg("generator")
	nrange := 0
	for _, fd := range allFuncDecls(gp) {
		for _, rs := range findMapRanges(gp.TypesInfo, fd.Body) {
			nrange++
			c.viol("C15.R6", funcKey(gp, fd)+"|map-range", c.pos(rs.Pos()), "the generator ranges over a map: emission order would depend on Go's randomised map iteration")
		}
	}
	// the iterator forms of the same thing: maps.Keys / maps.Values / maps.All hand the entries out in map order, unless the
	// sequence goes straight into slices.Sorted…, or the slice collected from it is sorted in the same function
	for _, fd := range allFuncDecls(gp) {
		if fd.Body == nil {
			continue
		}
		ginfo := gp.TypesInfo
		var stack []ast.Node
		k := 0
		ast.Inspect(fd.Body, func(x ast.Node) bool {
			if x == nil {
				stack = stack[:len(stack)-1]
				return true
			}
			stack = append(stack, x)
			call, ok := x.(*ast.CallExpr)
			if !ok {
				return true
			}
			fn := calleeOf(ginfo, call)
			if fn == nil || fn.Pkg() == nil || !(fn.Pkg().Path() == "maps" || strings.HasSuffix(fn.Pkg().Path(), "/maps")) {
				return true
			}
			switch fn.Name() {
			case "Keys", "Values", "All":
			default:
				return true
			}
			nrange++
			k++
			sorted := false
			var holder types.Object
			for i := len(stack) - 2; i >= 0; i-- {
				switch t := stack[i].(type) {
				case *ast.CallExpr:
					if ofn := calleeOf(ginfo, t); ofn != nil && strings.HasPrefix(ofn.Name(), "Sorted") {
						sorted = true
					}
				case *ast.AssignStmt:
					if len(t.Lhs) == 1 {
						if id, ok := t.Lhs[0].(*ast.Ident); ok {
							holder = ginfo.ObjectOf(id)
						}
					}
				case *ast.RangeStmt:
					if t.X.Pos() <= call.Pos() && call.End() <= t.X.End() {
						holder = nil
					}
				}
			}
			if !sorted && holder != nil {
				ast.Inspect(fd.Body, func(y ast.Node) bool {
					sc, ok := y.(*ast.CallExpr)
					if !ok || sc.Pos() < call.Pos() {
						return true
					}
					sfn := calleeOf(ginfo, sc)
					if sfn == nil || sfn.Pkg() == nil || !(sfn.Pkg().Path() == "sort" || sfn.Pkg().Path() == "slices") || !(strings.HasPrefix(sfn.Name(), "Sort") || sfn.Name() == "Strings" || sfn.Name() == "Ints" || sfn.Name() == "Stable" || sfn.Name() == "Slice" || sfn.Name() == "SliceStable") {
						return true
					}
					for _, a := range sc.Args {
						if id, ok := ast.Unparen(a).(*ast.Ident); ok && ginfo.ObjectOf(id) == holder {
							sorted = true
						}
					}
					return true
				})
			}
			if !sorted {
				c.viol("C15.R6", fmt.Sprintf("%s|map-sequence#%d", funcKey(gp, fd), k), c.pos(call.Pos()), "the generator takes "+fn.Pkg().Name()+"."+fn.Name()+" of a map and uses the entries in the order they come — Go's randomised map order — without sorting them: what is emitted from them changes from run to run, so generating an unchanged tree again rewrites its files, and two workers' results differ from a single one's")
			}
			return true
		})
	}
	controlMapRange(c)
	c.ok("C15.R6", pkgGenerator+"|no-map-iteration", "", fmt.Sprintf("%d range-over-map statements in package generator", nrange))
	determinismEffects(c, "C15.R6")
}

// boolAtomsRaw returns the leaf expressions of a ||/&&/! combination.
func boolAtomsRaw(e ast.Expr) []ast.Expr {
	e = ast.Unparen(e)
	switch x := e.(type) {
	case *ast.BinaryExpr:
		if x.Op == token.LAND || x.Op == token.LOR {
			return append(boolAtomsRaw(x.X), boolAtomsRaw(x.Y)...)
		}
	case *ast.UnaryExpr:
		if x.Op == token.NOT {
			return boolAtomsRaw(x.X)
		}
	}
	return []ast.Expr{e}
}

// pathDerivation: e is the root file name, or TrimSuffix(root, const)+const, or GetDevModeTextFileName(root),
// possibly through single-assignment locals.
// pathDerivationPkg: the package whose private struct fields pathDerivation may follow (set by the rule that uses it).
var pathDerivationPkg *packages.Package

func pathDerivation(info *types.Info, fd *ast.FuncDecl, e ast.Expr, roots map[types.Object]bool, depth int) (bool, string) {
	e = ast.Unparen(e)
	if depth > 4 {
		return false, "too deep"
	}
	switch x := e.(type) {
	case *ast.Ident:
		ob := info.ObjectOf(x)
		if roots[ob] {
			return true, x.Name
		}
		// local: all its assignments must derive
		var rhs []ast.Expr
		ast.Inspect(fd.Body, func(n ast.Node) bool {
			if as, ok := n.(*ast.AssignStmt); ok && len(as.Lhs) == len(as.Rhs) {
				for i, l := range as.Lhs {
					if id, ok := l.(*ast.Ident); ok && info.ObjectOf(id) == ob {
						rhs = append(rhs, as.Rhs[i])
					}
				}
			}
			return true
		})
		if len(rhs) == 0 {
			return false, x.Name + " has no visible definition"
		}
		how := ""
		for _, r := range rhs {
			ok, h := pathDerivation(info, fd, r, roots, depth+1)
			if !ok {
				return false, x.Name + " := " + types.ExprString(r) + " (" + h + ")"
			}
			how = x.Name + " := " + types.ExprString(r)
		}
		return true, how
	case *ast.SelectorExpr:
		if id, ok := x.X.(*ast.Ident); ok && roots[info.ObjectOf(id)] && x.Sel.Name == "Name" {
			return true, types.ExprString(x)
		}
		// an unexported field of a result struct of the package (the outcome of an earlier phase): every value the
		// package stores into it must derive, in the function that stores it, from that function's file-name roots
		if pathDerivationPkg != nil {
			if f := privateField(pathDerivationPkg, x); f != nil {
				stores := fieldStoresOf(pathDerivationPkg, f)
				how := ""
				for _, st := range stores {
					if st.Res != 0 {
						return false, types.ExprString(x) + " is a further result of " + types.ExprString(st.Rhs)
					}
					r2 := map[types.Object]bool{}
					for _, prm := range st.Fn.Type.Params.List {
						for _, nm := range prm.Names {
							if t := info.TypeOf(prm.Type); t != nil && (isStringType(t) || strings.HasSuffix(t.String(), "fsnotify.Event")) {
								r2[info.Defs[nm]] = true
							}
						}
					}
					ok, h := pathDerivation(info, st.Fn, st.Rhs, r2, depth+1)
					if !ok {
						return false, types.ExprString(x) + " = " + types.ExprString(st.Rhs) + " in " + st.Fn.Name.Name + " (" + h + ")"
					}
					how = types.ExprString(x) + " = " + types.ExprString(st.Rhs) + " in " + st.Fn.Name.Name
				}
				if len(stores) > 0 {
					return true, how
				}
			}
		}
	case *ast.BinaryExpr:
		if x.Op == token.ADD {
			if _, isConst := constString(info, x.Y); isConst {
				if call, ok := ast.Unparen(x.X).(*ast.CallExpr); ok {
					if fn := calleeOf(info, call); fn != nil && fullName(fn) == "strings.TrimSuffix" && len(call.Args) == 2 {
						if _, c2 := constString(info, call.Args[1]); c2 {
							return pathDerivation(info, fd, call.Args[0], roots, depth+1)
						}
					}
				}
			}
		}
	case *ast.CallExpr:
		if fn := calleeOf(info, x); fn != nil && fullName(fn) == modPath+"/runtime.GetDevModeTextFileName" && len(x.Args) == 1 {
			return pathDerivation(info, fd, x.Args[0], roots, depth+1)
		}
		// a name function of the package (goFileNameOf(name) = TrimSuffix(name, ".templ") + "_templ.go"): unfolded
		if pathDerivationPkg != nil {
			if u := unfoldKeyFunc(info, pathDerivationPkg.Types, x, 0); u != ast.Expr(x) {
				return pathDerivation(info, fd, u, roots, depth+1)
			}
		}
	}
	return false, "unrecognised path expression " + types.ExprString(e)
}

// checkErrFlow: for `x, err := f(...)` with f a deciding call, the next statement returns on err != nil.
func checkErrFlow(c *Ctx, info *types.Info, fd *ast.FuncDecl, st ast.Stmt, list []ast.Stmt, deciding map[string]bool, rule, fkey string) {
	var call *ast.CallExpr
	var init ast.Stmt
	switch s := st.(type) {
	case *ast.AssignStmt:
		if len(s.Rhs) == 1 {
			call, _ = s.Rhs[0].(*ast.CallExpr)
		}
	case *ast.IfStmt:
		if as, ok := s.Init.(*ast.AssignStmt); ok && len(as.Rhs) == 1 {
			call, _ = as.Rhs[0].(*ast.CallExpr)
			init = s.Init
		}
	}
	if call == nil {
		return
	}
	name := ""
	if fn := calleeOf(info, call); fn != nil {
		name = fullName(fn)
	}
	if se, ok := call.Fun.(*ast.SelectorExpr); ok && isFileWriterField(info, se) {
		name = "h.writer"
	}
	if !deciding[name] && name != "h.writer" {
		return
	}
	key := fkey + "|error-of:" + name
	good := false
	if init != nil {
		is := st.(*ast.IfStmt)
		if errVarOfCond(is.Cond) != "" {
			if ret, ok := is.Body.List[len(is.Body.List)-1].(*ast.ReturnStmt); ok && len(ret.Results) > 0 && exprMentions(ret.Results[len(ret.Results)-1], errVarOfCond(is.Cond)) {
				good = true
			}
		}
	} else {
		for i, s := range list {
			if s == st && i+1 < len(list) {
				if is, ok := list[i+1].(*ast.IfStmt); ok && errVarOfCond(is.Cond) != "" {
					if ret, ok := is.Body.List[len(is.Body.List)-1].(*ast.ReturnStmt); ok && len(ret.Results) > 0 && exprMentions(ret.Results[len(ret.Results)-1], errVarOfCond(is.Cond)) {
						good = true
					}
				}
			}
		}
	}
	c.check(good, rule, key, c.pos(call.Pos()), "its error reaches a return", fd.Name.Name+": the error of "+name+" does not reach a return: the command would report success for a file that was not generated")
}

// determinismEffects: VTA call graph from generator.Generate / parser.Parse*; forbidden effects.
func determinismEffects(c *Ctx, rule string) {
	var all []*ssa.Package
	c.buildSSA()
	for _, sp := range c.prog.AllPackages() {
		all = append(all, sp)
	}
	fns := ssautil.AllFunctions(c.prog)
	cg := vta.CallGraph(fns, cha.CallGraph(c.prog))
	var roots []*ssa.Function
	if sp := c.ssaPkgs[pkgGenerator]; sp != nil {
		if f := sp.Func("Generate"); f != nil {
			roots = append(roots, f)
		}
	}
	if sp := c.ssaPkgs[pkgParser]; sp != nil {
		for _, n := range []string{"Parse", "ParseString"} {
			if f := sp.Func(n); f != nil {
				roots = append(roots, f)
			}
		}
	}
	if len(roots) < 2 {
		c.viol(rule, "anchor-lost:generate/parse-entry-points", "", "generator.Generate / parser.ParseString not found in the SSA program")
		return
	}
	forbidden := map[string]bool{"time.Now": true, "os.Getenv": true, "os.LookupEnv": true, "os.Environ": true, "time.Since": true}
	seen := map[*ssa.Function]bool{}
	var stack []*callgraph.Node
	for _, r := range roots {
		if n := cg.Nodes[r]; n != nil {
			stack = append(stack, n)
		}
	}
	nreach := 0
	var hits []string
	for len(stack) > 0 {
		n := stack[len(stack)-1]
		stack = stack[:len(stack)-1]
		if n.Func == nil || seen[n.Func] {
			continue
		}
		seen[n.Func] = true
		nreach++
		name := ssaFuncName(n.Func)
		if forbidden[name] || (n.Func.Pkg != nil && strings.HasPrefix(n.Func.Pkg.Pkg.Path(), "math/rand")) {
			hits = append(hits, name)
			continue
		}
		// only follow edges inside the module and a-h/parse (std internals call time.Now for unrelated reasons, e.g. os.ReadFile → poll)
		if n.Func.Pkg != nil {
			pth := n.Func.Pkg.Pkg.Path()
			if !strings.HasPrefix(pth, modPath) && !strings.HasPrefix(pth, "github.com/a-h/parse") {
				continue
			}
		}
		for _, e := range n.Out {
			stack = append(stack, e.Callee)
		}
	}
	sort.Strings(hits)
	c.count("functions_reachable_from_generate_and_parse", nreach)
	c.check(len(hits) == 0, rule, pkgGenerator+"|no-time-rand-env-reachable", "", fmt.Sprintf("%d functions reachable from Generate/Parse in the module; none is time.Now, math/rand or os.Getenv", nreach),
		fmt.Sprintf("reachable from generator.Generate / parser.Parse: %v — generated output would depend on time, randomness or the environment", hits))
	_ = all
}

// errVarOfCond: for a condition `<x> != nil` returns the name of x, else "".
func errVarOfCond(e ast.Expr) string {
	be, ok := ast.Unparen(e).(*ast.BinaryExpr)
	if !ok || be.Op != token.NEQ || types.ExprString(be.Y) != "nil" {
		return ""
	}
	if id, ok := be.X.(*ast.Ident); ok {
		return id.Name
	}
	return ""
}

// sharedSliceAppends: C15.R8 — a slice field of the event handler that per-event (concurrent) methods append to without
// copying must be handed over without spare capacity, otherwise the appends write into one shared backing array.
func sharedSliceAppends(c *Ctx, rule string) {
	p := c.pkg("cmd/templ/generatecmd")
	info := p.TypesInfo
	n := 0
	for _, fd := range allFuncDecls(p) {
		if fd.Recv == nil || len(fd.Recv.List[0].Names) != 1 {
			continue
		}
		recv := info.Defs[fd.Recv.List[0].Names[0]]
		ast.Inspect(fd.Body, func(x ast.Node) bool {
			call, ok := x.(*ast.CallExpr)
			if !ok || len(call.Args) < 2 {
				return true
			}
			if id, ok := call.Fun.(*ast.Ident); !ok || id.Name != "append" {
				return true
			}
			se, ok := ast.Unparen(call.Args[0]).(*ast.SelectorExpr)
			if !ok {
				return true
			}
			rid, ok := se.X.(*ast.Ident)
			if !ok || info.ObjectOf(rid) != recv {
				return true
			}
			field := se.Sel.Name
			n++
			key := fmt.Sprintf("%s|append-to-shared:%s", funcKey(p, fd), field)
			// how is the field initialised? constructor composite literal: field: <param>
			why := ""
			for _, ctor := range allFuncDecls(p) {
				ast.Inspect(ctor.Body, func(y ast.Node) bool {
					kv, ok := y.(*ast.KeyValueExpr)
					if !ok || types.ExprString(kv.Key) != field {
						return true
					}
					pid, ok := kv.Value.(*ast.Ident)
					if !ok {
						return true
					}
					// index of that parameter
					pidx := -1
					i := 0
					for _, prm := range ctor.Type.Params.List {
						for _, nm := range prm.Names {
							if info.Defs[nm] == info.ObjectOf(pid) {
								pidx = i
							}
							i++
						}
					}
					if pidx < 0 {
						return true
					}
					ctorObj := info.Defs[ctor.Name]
					for _, caller := range allFuncDecls(p) {
						ast.Inspect(caller.Body, func(z ast.Node) bool {
							cc, ok := z.(*ast.CallExpr)
							if !ok || pidx >= len(cc.Args) {
								return true
							}
							if fn := calleeOf(info, cc); fn == nil || types.Object(fn) != ctorObj {
								return true
							}
							aid, ok := cc.Args[pidx].(*ast.Ident)
							if !ok {
								return true
							}
							ob := info.ObjectOf(aid)
							// every definition of the argument variable in the caller
							ast.Inspect(caller.Body, func(w ast.Node) bool {
								var rhs ast.Expr
								switch d := w.(type) {
								case *ast.AssignStmt:
									for i, l := range d.Lhs {
										if lid, ok := l.(*ast.Ident); ok && info.ObjectOf(lid) == ob && i < len(d.Rhs) {
											rhs = d.Rhs[i]
										}
									}
								case *ast.ValueSpec:
									for i, nm := range d.Names {
										if info.Defs[nm] == ob && i < len(d.Values) {
											rhs = d.Values[i]
										}
									}
								}
								if rhs == nil {
									return true
								}
								switch r := ast.Unparen(rhs).(type) {
								case *ast.CallExpr:
									if fid, ok := r.Fun.(*ast.Ident); ok && fid.Name == "make" && len(r.Args) == 3 {
										l, ok1 := constInt(info, r.Args[1])
										cp, ok2 := constInt(info, r.Args[2])
										if !ok1 || !ok2 || cp > l {
											why = fmt.Sprintf("%s is created with spare capacity (%s) at %s", aid.Name, types.ExprString(rhs), c.pos(rhs.Pos()))
										}
									}
								case *ast.SliceExpr:
									why = fmt.Sprintf("%s is a re-slice (%s) and may have spare capacity", aid.Name, types.ExprString(rhs))
								}
								return true
							})
							return true
						})
					}
					return true
				})
			}
			c.check(why == "", rule, key, c.pos(call.Pos()), "the slice is handed over without declared spare capacity (nil / literal, grown by append only)",
				fmt.Sprintf("%s appends to the shared field %s without copying it, and %s: concurrent workers write their per-file element into one shared backing array (one file's generator option — e.g. its file name — ends up in another file's output)", fd.Name.Name, field, why))
			return true
		})
	}
	c.count("appends_to_shared_slice_fields", n)
}

// outputFilesReplaced: C15.R9 — every file the generate command writes is REPLACED by the new content. os.WriteFile and
// os.Create truncate; an os.OpenFile for writing must carry O_TRUNC (or O_APPEND / O_EXCL, which have their own
// meaning). Without truncation, generating a shorter file over a longer one leaves the tail of the old content: the
// result is not the generation of the template, and a second run does not repair it.
func outputFilesReplaced(c *Ctx, rule string) {
	outputFilesReplacedIn(c, rule, "/cmd/templ/generatecmd", 2)
}

// outputFilesReplacedIn: every file the packages (path contains pkgPart) open for writing is opened so that the new
// content REPLACES the old: os.WriteFile / os.Create / an atomic rename-into-place, or os.OpenFile with O_TRUNC (or
// O_APPEND / O_EXCL, which never leave an old tail either).
func outputFilesReplacedIn(c *Ctx, rule string, pkgPart string, floor int) {
	n := 0
	var osPkg *types.Package
	for _, p := range c.roots {
		for _, imp := range p.Types.Imports() {
			if imp.Path() == "os" {
				osPkg = imp
			}
		}
	}
	flag := func(name string) int64 {
		if osPkg == nil {
			return 0
		}
		if k, ok := osPkg.Scope().Lookup(name).(*types.Const); ok {
			if v, ok := constant.Int64Val(k.Val()); ok {
				return v
			}
		}
		return 0
	}
	oTrunc, oAppend, oExcl, oWronly, oRdwr := flag("O_TRUNC"), flag("O_APPEND"), flag("O_EXCL"), flag("O_WRONLY"), flag("O_RDWR")
	for _, p := range c.roots {
		if !strings.Contains(p.PkgPath, pkgPart) {
			continue
		}
		info := p.TypesInfo
		for _, fd := range allFuncDecls(p) {
			ord := 0
			ast.Inspect(fd.Body, func(x ast.Node) bool {
				call, ok := x.(*ast.CallExpr)
				if !ok {
					return true
				}
				fn := calleeOf(info, call)
				if fn == nil {
					return true
				}
				switch fullName(fn) {
				case "os.WriteFile", "os.Create", "github.com/natefinch/atomic.WriteFile":
					n++
					c.ok(rule, fmt.Sprintf("%s|%s", funcKey(p, fd), fullName(fn)), c.pos(call.Pos()), "truncating writer")
				case "os.OpenFile":
					if len(call.Args) != 3 {
						return true
					}
					ord++
					n++
					tv := info.Types[call.Args[1]]
					if tv.Value == nil {
						c.undec(rule, fmt.Sprintf("%s|os.OpenFile#%d", funcKey(p, fd), ord), c.pos(call.Pos()), "the flags of os.OpenFile are not a constant expression")
						return true
					}
					v, _ := constant.Int64Val(tv.Value)
					writes := v&oWronly != 0 || v&oRdwr != 0
					okFlags := !writes || v&oTrunc != 0 || v&oAppend != 0 || v&oExcl != 0
					c.check(okFlags, rule, fmt.Sprintf("%s|os.OpenFile#%d|replaces-content", funcKey(p, fd), ord), c.pos(call.Pos()), "opened with "+types.ExprString(call.Args[1]),
						fmt.Sprintf("%s opens an output file for writing with %s — no O_TRUNC: when the new content is shorter than the existing file, the tail of the old content stays behind it; the command exits 0 but the file is not what was computed for it (a generated file is not valid Go, a formatted template is followed by the rest of its unformatted self), and running it again does not repair it", fd.Name.Name, types.ExprString(call.Args[1])))
				}
				return true
			})
		}
	}
	c.count("output_file_open_sites", n)
	c.floor(rule, floor)
}

// lazySkipIsStrict: the lazy-mode skip ("the Go file is already up to date") compares modification times strictly: the
// generated file must be NEWER than the template. With coarse or normalised timestamps (1 s granularity, Nix, docker
// layers, rsync -t) an edited template and its stale output have the same mtime; a non-strict comparison then skips
// the generation and the stale Go code is what gets compiled.
func lazySkipIsStrict(c *Ctx, rule string) {
	p := c.pkg("cmd/templ/generatecmd")
	info := p.TypesInfo
	n := 0
	for _, fd := range allFuncDecls(p) {
		// a bool function with a time.Time parameter that stats a file
		if fd.Type.Results == nil || len(fd.Type.Results.List) != 1 || types.ExprString(fd.Type.Results.List[0].Type) != "bool" {
			continue
		}
		hasTime := false
		for _, prm := range fd.Type.Params.List {
			if t := info.TypeOf(prm.Type); t != nil && t.String() == "time.Time" {
				hasTime = true
			}
		}
		if !hasTime {
			continue
		}
		ast.Inspect(fd.Body, func(x ast.Node) bool {
			ret, ok := x.(*ast.ReturnStmt)
			if !ok || len(ret.Results) != 1 {
				return true
			}
			e := ast.Unparen(ret.Results[0])
			if tv, ok := info.Types[e]; ok && tv.Value != nil {
				return true // return false / true
			}
			n++
			strict := false
			desc := types.ExprString(e)
			if call, ok := e.(*ast.CallExpr); ok {
				if fn := calleeOf(info, call); fn != nil && (fullName(fn) == "time.(Time).After" || fullName(fn) == "time.(Time).Before") {
					strict = true
				}
			}
			if be, ok := e.(*ast.BinaryExpr); ok && (be.Op == token.GTR || be.Op == token.LSS) {
				strict = true
			}
			c.check(strict, rule, funcKey(p, fd)+"|up-to-date-means-strictly-newer", c.pos(ret.Pos()), "the skip test is a strict time comparison ("+desc+")",
				fmt.Sprintf("%s decides `up to date` with %s, which is also true for EQUAL modification times: with coarse or normalised timestamps an edited template and its stale _templ.go have the same mtime, generation is skipped (lazy mode) and the old Go code is compiled", fd.Name.Name, desc))
			return true
		})
	}
	c.count("lazy_skip_tests", n)
	c.floor(rule, 1)
}

// fileNameIsRelByPathRules: C15.R11 — the template name that is compiled into the generated file (error locations) is
// the path relative to the base directory computed by path/filepath.Rel, which cleans both sides. String surgery on
// the path (TrimPrefix of the base) gives a different name when the same root is spelled with a trailing slash or a
// /./ segment: the same tree then generates different files depending on how -path was typed.
func fileNameIsRelByPathRules(c *Ctx, rule string) {
	p := c.pkg("cmd/templ/generatecmd")
	info := p.TypesInfo
	n := 0
	for _, fd := range allFuncDecls(p) {
		ast.Inspect(fd.Body, func(x ast.Node) bool {
			call, ok := x.(*ast.CallExpr)
			if !ok || len(call.Args) != 1 {
				return true
			}
			fn := calleeOf(info, call)
			if fn == nil || fn.Name() != "WithFileName" || fn.Pkg() == nil || !strings.HasSuffix(fn.Pkg().Path(), "/generator") {
				return true
			}
			n++
			// provenance of the argument through local assignments
			seen := map[types.Object]bool{}
			viaRel, surgery := false, ""
			var walk func(e ast.Expr, in *ast.FuncDecl, depth int)
			walk = func(e ast.Expr, in *ast.FuncDecl, depth int) {
				ast.Inspect(e, func(y ast.Node) bool {
					switch y := y.(type) {
					case *ast.CallExpr:
						if cf := calleeOf(info, y); cf != nil {
							switch fullName(cf) {
							case "path/filepath.Rel":
								viaRel = true
								return false
							case "strings.TrimPrefix", "strings.CutPrefix", "strings.Replace", "strings.ReplaceAll", "strings.TrimLeft":
								surgery = fullName(cf)
							}
							// a helper of the package that computes the name: what it returns
							if cf.Pkg() == p.Types && depth < 3 {
								for _, cfd := range allFuncDecls(p) {
									if info.Defs[cfd.Name] != types.Object(cf) || cfd.Body == nil {
										continue
									}
									ast.Inspect(cfd.Body, func(z ast.Node) bool {
										if _, isLit := z.(*ast.FuncLit); isLit {
											return false
										}
										if ret, ok := z.(*ast.ReturnStmt); ok && len(ret.Results) > 0 {
											if t := info.TypeOf(ret.Results[0]); t != nil && isStringType(t) {
												walk(ret.Results[0], cfd, depth+1)
											}
										}
										return true
									})
								}
							}
						}
					case *ast.SliceExpr:
						surgery = "a slice expression"
					case *ast.Ident:
						ob := info.ObjectOf(y)
						if v, ok := ob.(*types.Var); ok && !v.IsField() && !seen[ob] {
							seen[ob] = true
							ast.Inspect(in.Body, func(z ast.Node) bool {
								if as, ok := z.(*ast.AssignStmt); ok {
									for i, l := range as.Lhs {
										if lid, ok := l.(*ast.Ident); ok && info.ObjectOf(lid) == ob {
											if len(as.Rhs) == len(as.Lhs) {
												walk(as.Rhs[i], in, depth)
											} else {
												walk(as.Rhs[0], in, depth)
											}
										}
									}
								}
								return true
							})
						}
					}
					return true
				})
			}
			walk(call.Args[0], fd, 0)
			why := ""
			if surgery != "" {
				why = "it is cut out of the path with " + surgery
			} else if !viaRel {
				why = "it does not come from filepath.Rel"
			}
			c.check(why == "", rule, funcKey(p, fd)+"|file-name-relative-by-filepath.Rel", c.pos(call.Pos()), "the compiled-in file name comes from filepath.Rel(base, abs)",
				fmt.Sprintf("%s: the template name compiled into the generated code is not computed by filepath.Rel — %s. A base path that is not in clean form (trailing slash, /./, /../x) then no longer matches as a prefix and the name silently falls back to something else: the same tree generates different files depending on how the root was spelled", fd.Name.Name, why))
			return true
		})
	}
	c.count("with_file_name_sites", n)
	c.floor(rule, 1)
}

// perFileErrorsAreNotFatal: C15.R12 — "a file that cannot be generated makes the command fail without preventing the
// other files from being generated". The command's error loop stops at the first error that is a FatalError, so
// nothing on the per-file path — the function that calls generator.Generate, the package-local functions it calls and
// its package-local callers up to the event handler — may construct one: a write, parse, generation or formatting
// failure of ONE file is an ordinary error. FatalError belongs to failures of the run as a whole (walking, watching).
func perFileErrorsAreNotFatal(c *Ctx, rule string) {
	p := c.pkg("cmd/templ/generatecmd")
	info := p.TypesInfo
	fatal, _ := p.Types.Scope().Lookup("FatalError").(*types.TypeName)
	if fatal == nil {
		c.ok(rule, p.PkgPath+"|no-fatal-error-type", "", "the package has no FatalError type: no error stops the run early")
		return
	}
	byObj := map[types.Object]*ast.FuncDecl{}
	var gen *ast.FuncDecl
	for _, fd := range allFuncDecls(p) {
		byObj[info.Defs[fd.Name]] = fd
		if fd.Body != nil && containsCallTo(info, fd.Body, pkgGenerator+".Generate") {
			gen = fd
		}
	}
	if gen == nil {
		c.viol(rule, "anchor-lost:per-file-generate", "", "no function of generatecmd calls generator.Generate")
		return
	}
	// the per-file region: gen, its package-local callees (transitively), and its callers that take a single file/event
	region := map[*ast.FuncDecl]bool{}
	var down func(fd *ast.FuncDecl, depth int)
	down = func(fd *ast.FuncDecl, depth int) {
		if fd == nil || region[fd] || fd.Body == nil || depth > 4 {
			return
		}
		region[fd] = true
		ast.Inspect(fd.Body, func(x ast.Node) bool {
			if call, ok := x.(*ast.CallExpr); ok {
				if fn := calleeOf(info, call); fn != nil {
					down(byObj[fn], depth+1)
				}
			}
			return true
		})
	}
	down(gen, 0)
	for _, fd := range allFuncDecls(p) {
		if fd.Body == nil || region[fd] {
			continue
		}
		callsGen := false
		ast.Inspect(fd.Body, func(x ast.Node) bool {
			if call, ok := x.(*ast.CallExpr); ok {
				if fn := calleeOf(info, call); fn != nil && byObj[fn] == gen {
					callsGen = true
				}
			}
			return true
		})
		if callsGen {
			down(fd, 0)
		}
	}
	n := 0
	var names []string
	for fd := range region {
		names = append(names, fd.Name.Name)
	}
	sort.Strings(names)
	for fd := range region {
		ord := 0
		ast.Inspect(fd.Body, func(x ast.Node) bool {
			cl, ok := x.(*ast.CompositeLit)
			if !ok {
				return true
			}
			if t := info.TypeOf(cl); t == nil || !types.Identical(t, fatal.Type()) {
				return true
			}
			ord++
			n++
			c.viol(rule, fmt.Sprintf("%s|constructs-FatalError#%d", funcKey(p, fd), ord), c.pos(cl.Pos()),
				fmt.Sprintf("%s is on the per-file path (it is, calls, or is called by %s) and wraps an error in FatalError: the command's error loop returns at the first FatalError, so one file that cannot be written, parsed or formatted stops the run and the remaining templates are not generated", fd.Name.Name, gen.Name.Name))
			return true
		})
	}
	c.ok(rule, p.PkgPath+"|per-file-path-scanned", c.pos(gen.Pos()), fmt.Sprintf("%d function(s) on the per-file path (%s); %d FatalError constructions among them", len(region), strings.Join(names, ", "), n))
	// the loop that distinguishes the two really exists (otherwise the rule is about nothing)
	stops := false
	for _, fd := range allFuncDecls(p) {
		if fd.Body == nil {
			continue
		}
		ast.Inspect(fd.Body, func(x ast.Node) bool {
			if call, ok := x.(*ast.CallExpr); ok && len(call.Args) == 2 {
				if fn := calleeOf(info, call); fn != nil && fullName(fn) == "errors.Is" {
					if t := info.TypeOf(call.Args[1]); t != nil && types.Identical(t, fatal.Type()) {
						stops = true
					}
				}
			}
			return true
		})
	}
	c.control(rule+":fatal-errors-stop-the-run", stops)
}

// isFileWriterField: a struct field of function type func(name string, contents []byte) error — the handler's
// injectable file writer, whatever it is called.
func isFileWriterField(info *types.Info, se *ast.SelectorExpr) bool {
	sel, ok := info.Selections[se]
	if !ok || sel.Kind() != types.FieldVal {
		return false
	}
	sig, ok := sel.Type().Underlying().(*types.Signature)
	if !ok || sig.Params().Len() != 2 || sig.Results().Len() != 1 {
		return false
	}
	return isStringType(sig.Params().At(0).Type()) && sig.Params().At(1).Type().String() == "[]byte" && sig.Results().At(0).Type().String() == "error"
}

// handedOverWithItsLock: the guarded map se is an argument of a call of a package-local function that is also given
// the map's mutex, and that function holds the mutex parameter at every use of the map parameter.
func handedOverWithItsLock(p *packages.Package, body *ast.BlockStmt, se *ast.SelectorExpr, want string) bool {
	info := p.TypesInfo
	ok := false
	ast.Inspect(body, func(n ast.Node) bool {
		call, isCall := n.(*ast.CallExpr)
		if !isCall {
			return true
		}
		mi, li := -1, -1
		for i, a := range call.Args {
			if ast.Unparen(a) == ast.Expr(se) {
				mi = i
			}
			if t := types.ExprString(ast.Unparen(a)); t == want || t == "&"+want {
				li = i
			}
		}
		if mi < 0 || li < 0 {
			return true
		}
		fn := calleeOf(info, call)
		if fn == nil || fn.Pkg() != p.Types {
			return true
		}
		for _, hfd := range allFuncDecls(p) {
			if info.Defs[hfd.Name] != types.Object(fn.Origin()) || hfd.Body == nil {
				continue
			}
			var prms []*ast.Ident
			for _, prm := range hfd.Type.Params.List {
				prms = append(prms, prm.Names...)
			}
			if mi >= len(prms) || li >= len(prms) {
				continue
			}
			mapObj, muName := info.Defs[prms[mi]], prms[li].Name
			hfc := newFnCFG(hfd.Body, info)
			uses, all := 0, true
			directNodes(hfd.Body, func(m ast.Node) bool {
				if id, isID := m.(*ast.Ident); isID && info.Uses[id] == mapObj {
					uses++
					if !normHeld(hfc.heldAt(id), true)[muName] {
						all = false
					}
				}
				return true
			})
			// a function literal in the helper could run later, outside the lock: the map must not be used in one
			inLit := false
			ast.Inspect(hfd.Body, func(m ast.Node) bool {
				if fl, isLit := m.(*ast.FuncLit); isLit {
					ast.Inspect(fl.Body, func(k ast.Node) bool {
						if id, isID := k.(*ast.Ident); isID && info.Uses[id] == mapObj {
							inLit = true
						}
						return true
					})
				}
				return true
			})
			if uses > 0 && all && !inLit {
				ok = true
			}
		}
		return true
	})
	return ok
}

// handlesEventThroughHelper: the body calls a function of the package whose own body calls HandleEvent (the per-event
// work moved into a method); returns that call.
func handlesEventThroughHelper(p *packages.Package, body *ast.BlockStmt) *ast.CallExpr {
	info := p.TypesInfo
	var found *ast.CallExpr
	ast.Inspect(body, func(n ast.Node) bool {
		if _, isGo := n.(*ast.GoStmt); isGo {
			return false
		}
		call, ok := n.(*ast.CallExpr)
		if !ok || found != nil {
			return found == nil
		}
		fn := calleeOf(info, call)
		if fn == nil || fn.Pkg() != p.Types {
			return true
		}
		for _, hfd := range allFuncDecls(p) {
			if info.Defs[hfd.Name] != types.Object(fn) || hfd.Body == nil {
				continue
			}
			calls := false
			ast.Inspect(hfd.Body, func(m ast.Node) bool {
				if hc, ok := m.(*ast.CallExpr); ok {
					if se, ok := hc.Fun.(*ast.SelectorExpr); ok && se.Sel.Name == "HandleEvent" {
						calls = true
					}
				}
				return true
			})
			if calls {
				found = call
			}
		}
		return true
	})
	return found
}
