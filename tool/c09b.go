package main

import (
	"fmt"
	"go/ast"
	"go/types"
)

// trimmedValueIsTheOneUsed: C09.R17 — a contradiction rule over the formatter's writers. A function that takes
// strings.TrimSpace of an expression's text states that the text may carry padding that is not part of the expression
// (the parser leaves the white space in front of a closing brace in it when a comma or comment follows the last
// element). Every other use of that same text in the function must then be the trimmed one. A path that writes the raw
// text puts the padding out again next to the writer's own ` }` — each run of the formatter adds a space, and the second
// run's output differs from the first.
func trimmedValueIsTheOneUsed(c *Ctx, rule string) {
	p := c.pkg("parser/v2")
	info := p.TypesInfo
	n := 0
	for _, fd := range allFuncDecls(p) {
		if fd.Body == nil || fd.Recv == nil {
			continue
		}
		// the texts this function trims: strings.TrimSpace(<selector ending in .Value>)
		trimmed := map[string]*ast.CallExpr{}
		inTrim := map[ast.Expr]bool{}
		ast.Inspect(fd.Body, func(x ast.Node) bool {
			call, ok := x.(*ast.CallExpr)
			if !ok || len(call.Args) != 1 {
				return true
			}
			if fn := calleeOf(info, call); fn == nil || fullName(fn) != "strings.TrimSpace" {
				return true
			}
			if se, ok := ast.Unparen(call.Args[0]).(*ast.SelectorExpr); ok && se.Sel.Name == "Value" {
				if t := info.TypeOf(se); t != nil && isStringType(t) {
					trimmed[types.ExprString(se)] = call
					inTrim[se] = true
				}
			}
			return true
		})
		if len(trimmed) == 0 {
			continue
		}
		for txt, tc := range trimmed {
			n++
			raw := ""
			ast.Inspect(fd.Body, func(x ast.Node) bool {
				se, ok := x.(*ast.SelectorExpr)
				if !ok || inTrim[se] || types.ExprString(se) != txt {
					return true
				}
				if raw == "" {
					raw = c.pos(se.Pos())
				}
				return true
			})
			c.check(raw == "", rule, fmt.Sprintf("%s|%s|only-the-trimmed-text-is-used", funcKey(p, fd), txt), c.pos(tc.Pos()), "the function uses "+txt+" only through strings.TrimSpace",
				fmt.Sprintf("%s trims %s at %s and uses the untrimmed text at %s: the padding the trim removes (white space the parser leaves in front of the closing brace after a trailing comma or comment) is written out again on that path, next to the writer's own ` }` — every run of the formatter adds a space, so formatting the formatted file changes it", fd.Name.Name, txt, c.pos(tc.Pos()), raw))
		}
	}
	c.count("trimmed_expression_texts", n)
	c.floor(rule, 1)
}

// listEndIsTheLastElementsEnd: C09.R18 — where the Go-expression slicer finds the end of a list of values by walking
// the list's elements, the position it keeps is that of the LAST element (assigned on every iteration, or kept as a
// running maximum). A running MINIMUM (`if end < to { to = end }`) stops at the first element: for `{ a, b }` the
// slice then falls back to the closing brace and takes the white space in front of it into the expression — which the
// formatter writes out again next to its own padding, one more space on every run.
func listEndIsTheLastElementsEnd(c *Ctx, rule string) {
	c.load("./parser/v2/goexpression")
	p := c.pkg("parser/v2/goexpression")
	if p == nil {
		c.viol(rule, "anchor-lost:goexpression", "", "package parser/v2/goexpression not loaded")
		return
	}
	info := p.TypesInfo
	n := 0
	for _, fd := range allFuncDecls(p) {
		b := struct {
			Body      *ast.BlockStmt
			Key, Name string
		}{fd.Body, funcKey(p, fd), fd.Name.Name}
		ast.Inspect(b.Body, func(x ast.Node) bool {
			rs, ok := x.(*ast.RangeStmt)
			if !ok {
				return true
			}
			se, ok := ast.Unparen(rs.X).(*ast.SelectorExpr)
			if !ok || (se.Sel.Name != "Elts" && se.Sel.Name != "Args" && se.Sel.Name != "List") {
				return true
			}
			val, ok := rs.Value.(*ast.Ident)
			if !ok {
				return true
			}
			vobj := info.ObjectOf(val)
			// does the loop keep an end position of the element?
			fromEnd := func(e ast.Expr, locals map[types.Object]ast.Expr) bool {
				found := false
				var visit func(e ast.Expr, d int)
				visit = func(e ast.Expr, d int) {
					ast.Inspect(e, func(y ast.Node) bool {
						switch t := y.(type) {
						case *ast.CallExpr:
							if s, ok := ast.Unparen(t.Fun).(*ast.SelectorExpr); ok && s.Sel.Name == "End" {
								if id, ok := ast.Unparen(s.X).(*ast.Ident); ok && info.ObjectOf(id) == vobj {
									found = true
								}
							}
						case *ast.Ident:
							if r, ok := locals[info.ObjectOf(t)]; ok && d < 3 {
								visit(r, d+1)
							}
						}
						return true
					})
				}
				visit(e, 0)
				return found
			}
			locals := map[types.Object]ast.Expr{}
			ast.Inspect(rs.Body, func(y ast.Node) bool {
				if as, ok := y.(*ast.AssignStmt); ok && len(as.Lhs) == 1 && len(as.Rhs) == 1 {
					if id, ok := as.Lhs[0].(*ast.Ident); ok {
						if _, dup := locals[info.ObjectOf(id)]; !dup {
							locals[info.ObjectOf(id)] = as.Rhs[0]
						}
					}
				}
				return true
			})
			keeps := false
			bad := ""
			var checkStmts func(list []ast.Stmt, cond ast.Expr)
			checkStmts = func(list []ast.Stmt, cond ast.Expr) {
				for _, st := range list {
					switch t := st.(type) {
					case *ast.AssignStmt:
						if len(t.Lhs) != 1 || len(t.Rhs) != 1 || t.Tok.String() != "=" {
							continue
						}
						kept, ok := t.Lhs[0].(*ast.Ident)
						if !ok || !fromEnd(t.Rhs[0], locals) {
							continue
						}
						keeps = true
						if cond == nil {
							continue
						}
						// the guard compares the element's end with the kept position: which way?
						if be, ok := ast.Unparen(cond).(*ast.BinaryExpr); ok {
							lEnd, rEnd := fromEnd(be.X, locals), fromEnd(be.Y, locals)
							lKept := types.ExprString(be.X) == kept.Name
							rKept := types.ExprString(be.Y) == kept.Name
							op := be.Op.String()
							if (lEnd && rKept && (op == "<" || op == "<=")) || (lKept && rEnd && (op == ">" || op == ">=")) {
								bad = fmt.Sprintf("`if %s { %s = … }` at %s keeps the SMALLEST end", types.ExprString(cond), kept.Name, c.pos(t.Pos()))
							}
						}
					case *ast.IfStmt:
						if t.Init != nil {
							if as, ok := t.Init.(*ast.AssignStmt); ok && len(as.Lhs) == 1 && len(as.Rhs) == 1 {
								if id, ok := as.Lhs[0].(*ast.Ident); ok {
									locals[info.ObjectOf(id)] = as.Rhs[0]
								}
							}
						}
						checkStmts(t.Body.List, t.Cond)
					}
				}
			}
			checkStmts(rs.Body.List, nil)
			if !keeps {
				return true
			}
			n++
			c.check(bad == "", rule, fmt.Sprintf("%s|range:%s|end-of-last-element", b.Key, types.ExprString(rs.X)), c.pos(rs.Pos()), "the loop leaves the end of the last element in the kept position",
				fmt.Sprintf("%s: the loop over %s finds the end of the list as a running minimum (%s): that is the end of the FIRST element. With two or more values the slice then runs to the closing brace and takes the white space in front of it into the expression; the formatter writes that text between its own `{ ` and ` }`, so each run adds a space — formatting is no longer idempotent", b.Name, types.ExprString(rs.X), bad))
			return true
		})
	}
	c.count("list_end_loops", n)
	if n == 0 {
		c.ok(rule, p.PkgPath+"|no-loop-keeps-an-element-end", "", "no loop of the slicer keeps a running end position of a list's elements")
	}
}
