package main

import (
	"go/ast"
	"go/constant"
	"go/token"
	"go/types"

	"golang.org/x/tools/go/packages"
)

// A character-class predicate is a function f(s string) bool that looks at every byte (or rune) of s in one loop,
// returns false from inside the loop for the characters it does not like, and returns true only after the loop: the
// hand-written form of an anchored pattern ^[class]*$. Its alphabet is computed by evaluating the loop body on each
// concrete character (conditions that cannot be evaluated are left free, so the alphabet is over-approximated).
type charPredicate struct {
	fn      *types.Func
	decl    *ast.FuncDecl
	runes   bool // ranges over runes (else bytes)
	accepts func(r rune) bool
}

func charPredicates(p *packages.Package) map[*types.Func]*charPredicate {
	out := map[*types.Func]*charPredicate{}
	info := p.TypesInfo
	for _, fd := range allFuncDecls(p) {
		if fd.Body == nil || fd.Recv != nil || fd.Type.Params.NumFields() != 1 || fd.Type.Results.NumFields() != 1 {
			continue
		}
		fn, _ := info.Defs[fd.Name].(*types.Func)
		if fn == nil || len(fd.Type.Params.List[0].Names) != 1 {
			continue
		}
		sobj := info.Defs[fd.Type.Params.List[0].Names[0]]
		if sobj == nil || !isStringType(sobj.Type()) || info.TypeOf(fd.Type.Results.List[0].Type).String() != "bool" {
			continue
		}
		isS := func(e ast.Expr) bool {
			id, ok := ast.Unparen(e).(*ast.Ident)
			return ok && info.ObjectOf(id) == sobj
		}
		isConstBool := func(e ast.Expr, want bool) bool {
			tv, ok := info.Types[e]
			return ok && tv.Value != nil && tv.Value.Kind() == constant.Bool && constant.BoolVal(tv.Value) == want
		}
		var loop ast.Stmt
		shape := true
		n := len(fd.Body.List)
		for i, st := range fd.Body.List {
			switch x := st.(type) {
			case *ast.IfStmt:
				// before the loop: a rejection, or the empty string decided on its own
				if loop != nil || x.Else != nil || x.Init != nil || len(x.Body.List) != 1 {
					shape = false
					break
				}
				ret, ok := x.Body.List[0].(*ast.ReturnStmt)
				if !ok || len(ret.Results) != 1 {
					shape = false
					break
				}
				emptyTest := false
				if be, ok := ast.Unparen(x.Cond).(*ast.BinaryExpr); ok && be.Op == token.EQL {
					if tv, ok := info.Types[be.Y]; ok && tv.Value != nil {
						if isS(be.X) && tv.Value.Kind() == constant.String && constant.StringVal(tv.Value) == "" {
							emptyTest = true
						}
						if call, ok := ast.Unparen(be.X).(*ast.CallExpr); ok && len(call.Args) == 1 && isS(call.Args[0]) && types.ExprString(call.Fun) == "len" && tv.Value.ExactString() == "0" {
							emptyTest = true
						}
					}
				}
				if !isConstBool(ret.Results[0], false) && !emptyTest {
					shape = false
				}
			case *ast.ForStmt, *ast.RangeStmt:
				if loop != nil {
					shape = false
				}
				loop = st
			case *ast.ReturnStmt:
				if i != n-1 || loop == nil || len(x.Results) != 1 {
					shape = false
				}
			default:
				shape = false
			}
		}
		if !shape || loop == nil {
			continue
		}
		// the loop visits every position of s; the character is s[i] or the range value
		var body *ast.BlockStmt
		var chObj types.Object
		chText := ""
		runes := false
		var idx types.Object
		switch l := loop.(type) {
		case *ast.RangeStmt:
			body = l.Body
			if isS(l.X) {
				if v, ok := l.Value.(*ast.Ident); ok && v.Name != "_" {
					chObj, runes = info.ObjectOf(v), true
				} else if k, ok := l.Key.(*ast.Ident); ok && k.Name != "_" && l.Value == nil {
					idx = info.ObjectOf(k) // positions of runes only: s[i] is then the first byte of each rune — not every byte
					idx = nil
				}
			} else if call, ok := ast.Unparen(l.X).(*ast.CallExpr); ok && types.ExprString(call.Fun) == "len" && len(call.Args) == 1 && isS(call.Args[0]) {
				if k, ok := l.Key.(*ast.Ident); ok && k.Name != "_" {
					idx = info.ObjectOf(k)
				}
			} else if call, ok := ast.Unparen(l.X).(*ast.CallExpr); ok && len(call.Args) == 1 && isS(call.Args[0]) {
				// range []byte(s)
				if tv, ok := info.Types[call.Fun]; ok && tv.IsType() {
					if sl, ok := tv.Type.Underlying().(*types.Slice); ok {
						if b, ok := sl.Elem().Underlying().(*types.Basic); ok && (b.Kind() == types.Byte || b.Kind() == types.Rune) {
							if v, ok := l.Value.(*ast.Ident); ok && v.Name != "_" {
								chObj, runes = info.ObjectOf(v), b.Kind() == types.Rune
							}
						}
					}
				}
			}
		case *ast.ForStmt:
			body = l.Body
			// for i := 0; i < len(s); i++
			as, ok1 := l.Init.(*ast.AssignStmt)
			cond, ok2 := l.Cond.(*ast.BinaryExpr)
			inc, ok3 := l.Post.(*ast.IncDecStmt)
			if ok1 && ok2 && ok3 && len(as.Lhs) == 1 && len(as.Rhs) == 1 && as.Tok == token.DEFINE && inc.Tok == token.INC && cond.Op == token.LSS {
				if id, ok := as.Lhs[0].(*ast.Ident); ok {
					if tv, ok := info.Types[as.Rhs[0]]; ok && tv.Value != nil && tv.Value.ExactString() == "0" {
						call, isCall := ast.Unparen(cond.Y).(*ast.CallExpr)
						cid, isID := ast.Unparen(cond.X).(*ast.Ident)
						iid, isInc := ast.Unparen(inc.X).(*ast.Ident)
						if isCall && isID && isInc && types.ExprString(call.Fun) == "len" && len(call.Args) == 1 && isS(call.Args[0]) && info.ObjectOf(cid) == info.ObjectOf(id) && info.ObjectOf(iid) == info.ObjectOf(id) {
							idx = info.ObjectOf(id)
						}
					}
				}
			}
		}
		if body == nil || chObj == nil && idx == nil {
			continue
		}
		if idx != nil {
			chText = sobj.Name() + "[" + idx.Name() + "]"
			// the index is not changed in the body
			if assignedIn(info, body, idx) {
				continue
			}
		}
		den := &denum{info: info, pkg: p.Types, inits: map[types.Object]ast.Expr{}, limit: 5000, loopBody: true}
		den.finish(den.run(body.List, []dstate{{env: map[types.Object]ast.Expr{}}}))
		if den.undecided != "" {
			continue
		}
		okPaths := true
		for _, pth := range den.paths {
			if pth.Ret != nil {
				if len(pth.Ret.Results) != 1 || !isConstBool(pth.Ret.Results[0], false) {
					okPaths = false
				}
			} else if pth.Exit == "break" {
				okPaths = false
			}
		}
		if !okPaths {
			continue
		}
		paths := den.paths
		decls := allFuncDecls(p)
		co, ct := chObj, chText
		out[fn] = &charPredicate{fn: fn, decl: fd, runes: runes, accepts: func(r rune) bool {
			ce := newCenv(info, p.Types, decls)
			if co != nil {
				ce.byObj[co] = constant.MakeInt64(int64(r))
			}
			if ct != "" {
				ce.byText[ct] = constant.MakeInt64(int64(r))
			}
			for _, pth := range paths {
				if pth.Ret == nil && ce.feasible(pth) {
					return true
				}
			}
			return false
		}}
	}
	return out
}

// assignedIn: the variable is assigned, incremented or has its address taken inside n.
func assignedIn(info *types.Info, n ast.Node, ob types.Object) bool {
	found := false
	ast.Inspect(n, func(m ast.Node) bool {
		switch x := m.(type) {
		case *ast.AssignStmt:
			for _, l := range x.Lhs {
				if id, ok := ast.Unparen(l).(*ast.Ident); ok && info.ObjectOf(id) == ob {
					found = true
				}
			}
		case *ast.IncDecStmt:
			if id, ok := ast.Unparen(x.X).(*ast.Ident); ok && info.ObjectOf(id) == ob {
				found = true
			}
		case *ast.UnaryExpr:
			if id, ok := ast.Unparen(x.X).(*ast.Ident); ok && x.Op == token.AND && info.ObjectOf(id) == ob {
				found = true
			}
		}
		return true
	})
	return found
}
