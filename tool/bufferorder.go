package main

import (
	"fmt"
	"go/ast"
	"go/token"
	"go/types"
	"strings"

	"golang.org/x/tools/go/packages"
)

// bufferInOrder: the output buffer type (a struct with a *bufio.Writer field and an io.Writer field) hands every byte
// to its bufio.Writer; the underlying writer is never written to directly unless the bufio.Writer was flushed first in
// the same function. Otherwise a write can overtake markup that is still buffered: escaped text then lands in a
// different place of the document (for example inside a tag that an earlier flush left open) than the one it was
// escaped for.
func bufferInOrder(c *Ctx, rule string) { bufferInOrderMode(c, rule, false) }

// bufferOnlyBufioWritesUnderlying: the strict form used for C10 — NO function of the runtime writes to the underlying
// writer itself, flushed or not. bufio.Writer turns a write that accepts fewer bytes than offered without an error
// (n < len(p), err == nil — and 0, nil) into the sticky io.ErrShortWrite; a direct io.WriteString(b.Underlying, s) only
// sees err, and generated code ignores n, so Render would return nil for a truncated document.
func bufferOnlyBufioWritesUnderlying(c *Ctx, rule string) { bufferInOrderMode(c, rule, true) }

func bufferInOrderMode(c *Ctx, rule string, strict bool) {
	p := c.pkg("runtime")
	info := p.TypesInfo
	var st *types.Named
	var bufFld, underFld *types.Var
	for _, nm := range p.Types.Scope().Names() {
		tn, ok := p.Types.Scope().Lookup(nm).(*types.TypeName)
		if !ok {
			continue
		}
		nt, ok := tn.Type().(*types.Named)
		if !ok {
			continue
		}
		s, ok := nt.Underlying().(*types.Struct)
		if !ok {
			continue
		}
		var bf, uf *types.Var
		for i := 0; i < s.NumFields(); i++ {
			f := s.Field(i)
			switch f.Type().String() {
			case "*bufio.Writer":
				bf = f
			case "io.Writer":
				uf = f
			}
		}
		if bf != nil && uf != nil {
			st, bufFld, underFld = nt, bf, uf
		}
	}
	if st == nil {
		c.viol(rule, "anchor-lost:output-buffer-type", "", "no struct with a *bufio.Writer and an io.Writer field found in package runtime")
		return
	}
	writes := map[string]bool{"Write": true, "WriteString": true, "ReadFrom": true, "WriteByte": true, "WriteRune": true}
	isFld := func(e ast.Expr, fld *types.Var) bool {
		se, ok := ast.Unparen(e).(*ast.SelectorExpr)
		if !ok {
			return false
		}
		sel, ok := info.Selections[se]
		return ok && sel.Obj() == types.Object(fld)
	}
	nuse := 0
	nth := map[string]int{}
	for _, fd := range allFuncDecls(p) {
		fc := newFnCFG(fd.Body, info)
		var flushes []ast.Node
		ast.Inspect(fd.Body, func(n ast.Node) bool {
			if call, ok := n.(*ast.CallExpr); ok {
				if se, ok := call.Fun.(*ast.SelectorExpr); ok && se.Sel.Name == "Flush" && isFld(se.X, bufFld) {
					flushes = append(flushes, call)
				}
			}
			return true
		})
		// parents
		parent := map[ast.Node]ast.Node{}
		var stack []ast.Node
		ast.Inspect(fd.Body, func(n ast.Node) bool {
			if n == nil {
				stack = stack[:len(stack)-1]
				return true
			}
			if len(stack) > 0 {
				parent[n] = stack[len(stack)-1]
			}
			stack = append(stack, n)
			return true
		})
		ast.Inspect(fd.Body, func(n ast.Node) bool {
			se, ok := n.(*ast.SelectorExpr)
			if !ok || !isFld(se, underFld) {
				return true
			}
			nuse++
			key := funcKey(p, fd) + "|use of ." + underFld.Name()
			par := parent[se]
			for {
				if pe, ok := par.(*ast.ParenExpr); ok {
					par = parent[pe]
					continue
				}
				break
			}
			writing := ""
			switch par := par.(type) {
			case *ast.AssignStmt:
				for _, l := range par.Lhs {
					if l == ast.Expr(se) {
						return true // the field is (re)bound
					}
				}
				writing = "copied into " + types.ExprString(par.Lhs[0])
			case *ast.TypeAssertExpr:
				if par.Type == nil {
					writing = "type-switched"
					break
				}
				t := info.TypeOf(par.Type)
				if it, ok := t.Underlying().(*types.Interface); ok {
					for i := 0; i < it.NumMethods(); i++ {
						if writes[it.Method(i).Name()] {
							writing = "asserted to " + types.ExprString(par.Type) + " (can write)"
						}
					}
				} else {
					writing = "asserted to the concrete type " + types.ExprString(par.Type)
				}
			case *ast.SelectorExpr:
				if writes[par.Sel.Name] {
					writing = "." + par.Sel.Name + " called on it"
				}
			case *ast.CallExpr:
				if fn := calleeOf(info, par); fn != nil {
					full := fullName(fn)
					if strings.HasPrefix(full, "bufio.NewWriter") || full == "bufio.(Writer).Reset" {
						return true
					}
					writing = "passed to " + full
					// a function of the package that only asks the writer for something that cannot write (w.(http.Flusher))
					if fn.Pkg() == p.Types {
						for ai, a := range par.Args {
							if ast.Unparen(a) == ast.Expr(se) && !paramMayWrite(p, fn, ai, writes, 0) {
								writing = ""
							}
						}
					}
				} else {
					writing = "passed to " + types.ExprString(par.Fun)
				}
			case *ast.BinaryExpr:
				if par.Op == token.EQL || par.Op == token.NEQ {
					return true
				}
			}
			if writing == "" {
				nth[funcKey(p, fd)]++
				c.ok(rule, fmt.Sprintf("%s#%d|not-a-write", key, nth[funcKey(p, fd)]), c.pos(se.Pos()), "not a write")
				return true
			}
			if strict {
				handChecked := false
				ast.Inspect(fd.Body, func(m ast.Node) bool {
					if x, ok := m.(*ast.SelectorExpr); ok && x.Sel.Name == "ErrShortWrite" {
						handChecked = true
					}
					return true
				})
				c.check(handChecked, rule, key+"|"+writing+"|short-writes-detected", c.pos(se.Pos()), "the function reports io.ErrShortWrite itself",
					funcKey(p, fd)+": the underlying writer is "+writing+" directly. Only the bufio.Writer turns a short write (n < len(p) with a nil error, or 0, nil) into io.ErrShortWrite; this write looks at err alone and generated code ignores n, so Render returns nil although the writer accepted only part of the document, and goes on writing after the hole")
				return true
			}
			dom := false
			for _, fl := range flushes {
				if fc.happensBefore(fl, se) {
					dom = true
				}
			}
			c.check(dom, rule, key+"|"+writing, c.pos(se.Pos()), "the underlying writer is used after the bufio.Writer was flushed",
				funcKey(p, fd)+": the underlying writer is "+writing+" without a preceding Flush of the bufio.Writer: these bytes overtake output that is still buffered, so escaped text is no longer where it was escaped for (e.g. it lands before its enclosing tags, or inside a tag an earlier flush left open)")
			return true
		})
	}
	c.count("underlying_writer_uses", nuse)
	// the io.Writer / io.StringWriter methods of the buffer delegate to the bufio.Writer
	for _, m := range []string{"Write", "WriteString"} {
		fd := findMethod(p, st.Obj().Name(), m)
		if fd == nil {
			c.viol(rule, "anchor-lost:"+st.Obj().Name()+"."+m, "", "method not found")
			continue
		}
		ok := false
		if len(fd.Body.List) > 0 {
			if ret, isRet := fd.Body.List[len(fd.Body.List)-1].(*ast.ReturnStmt); isRet && len(ret.Results) == 1 {
				if call, isCall := ret.Results[0].(*ast.CallExpr); isCall && len(call.Args) == 1 {
					if se, isSel := call.Fun.(*ast.SelectorExpr); isSel && se.Sel.Name == m && isFld(se.X, bufFld) {
						if id, isID := call.Args[0].(*ast.Ident); isID && info.ObjectOf(id) == info.Defs[fd.Type.Params.List[0].Names[0]] {
							ok = true
						}
					}
				}
			}
		}
		c.check(ok, rule, funcKey(p, fd)+"|ends-in-bufio-"+m, c.pos(fd.Pos()), "returns <bufio.Writer>."+m+"(<its argument>)",
			funcKey(p, fd)+" no longer ends by handing its whole argument to the bufio.Writer")
	}
}

func findMethod(p *packages.Package, recv, name string) *ast.FuncDecl {
	for _, fd := range allFuncDecls(p) {
		if fd.Recv == nil || fd.Name.Name != name || len(fd.Recv.List) != 1 {
			continue
		}
		t := fd.Recv.List[0].Type
		if se, ok := t.(*ast.StarExpr); ok {
			t = se.X
		}
		if id, ok := t.(*ast.Ident); ok && id.Name == recv {
			return fd
		}
	}
	return nil
}

// paramMayWrite: inside the package-local function fn, parameter idx (a writer) is written to, asserted to something
// that can write, stored, or handed on to a function that may do so. false only when every use is harmless.
func paramMayWrite(p *packages.Package, fn *types.Func, idx int, writes map[string]bool, depth int) bool {
	info := p.TypesInfo
	for _, fd := range allFuncDecls(p) {
		if info.Defs[fd.Name] != types.Object(fn) || fd.Body == nil {
			continue
		}
		var prm types.Object
		k := 0
		for _, pl := range fd.Type.Params.List {
			for _, nm := range pl.Names {
				if k == idx {
					prm = info.Defs[nm]
				}
				k++
			}
		}
		if prm == nil {
			return true
		}
		parent := map[ast.Node]ast.Node{}
		var stack []ast.Node
		ast.Inspect(fd.Body, func(n ast.Node) bool {
			if n == nil {
				stack = stack[:len(stack)-1]
				return true
			}
			if len(stack) > 0 {
				parent[n] = stack[len(stack)-1]
			}
			stack = append(stack, n)
			return true
		})
		may := false
		ast.Inspect(fd.Body, func(n ast.Node) bool {
			id, ok := n.(*ast.Ident)
			if !ok || info.Uses[id] != prm {
				return true
			}
			par := parent[id]
			for {
				if pe, ok := par.(*ast.ParenExpr); ok {
					par = parent[pe]
					continue
				}
				break
			}
			switch x := par.(type) {
			case *ast.TypeAssertExpr:
				if x.Type == nil {
					may = true
					break
				}
				if it, ok := info.TypeOf(x.Type).Underlying().(*types.Interface); ok {
					for i := 0; i < it.NumMethods(); i++ {
						if writes[it.Method(i).Name()] {
							may = true
						}
					}
				} else {
					may = true
				}
			case *ast.BinaryExpr:
				if x.Op != token.EQL && x.Op != token.NEQ {
					may = true
				}
			case *ast.CallExpr:
				cf := calleeOf(info, x)
				handled := false
				if cf != nil && cf.Pkg() == p.Types && depth < 1 {
					for ai, a := range x.Args {
						if ast.Unparen(a) == ast.Expr(id) {
							handled = true
							if paramMayWrite(p, cf, ai, writes, depth+1) {
								may = true
							}
						}
					}
				}
				if !handled {
					may = true
				}
			default:
				may = true
			}
			return true
		})
		return may
	}
	return true
}
