package main

import (
	"fmt"
	"go/ast"
	"go/token"
	"go/types"
	"strings"

	"golang.org/x/tools/go/packages"
)

func init() {
	register(&propDef{
		ID:          "C19",
		Explanation: "Decides, for package cmd/templ/generatecmd/sse (every function, go/cfg + type information): R1 no send on a registry channel can follow its close — either the channel type stored in the client registry is never closed and every send on it is one arm of a select whose other arm receives a done signal, or send and close both hold the registry mutex in the same goroutine (a send inside a `go` closure does not hold the caller's lock); R2 while the broadcaster holds the registry mutex it performs no blocking channel operation itself; R3 registration stores under the mutex and removal is deferred, under the mutex; R4 the broadcast loop addresses every registered client (no break/continue/return filter); R2 also covers every other function that takes the registry mutex and deferred calls that run before a deferred Unlock (sync.WaitGroup.Wait, sync.Cond.Wait, time.Sleep, channel operations outside a select with default); R5 the key under which a client is registered comes from a never-repeating source (an atomic add of a positive constant on a field that nothing else writes, a field only ever incremented, or a freshly allocated pointer/channel) — a key computed from the registry's current size is reused after a disconnect and replaces a connected client's entry. R6 the proxy's broadcast entry point hands every event to the hub (Send dominates every exit); R7 on the event-stream route the proxy writes or flushes nothing before the hub's handler runs (the hub registers the client before its first flush). R8 no http.Server of the generate command sets a WriteTimeout and no handler is wrapped in http.TimeoutHandler (the event stream is one response that must stay writable for the whole session). NOT decided: delivery under all interleavings, liveness of slow readers. R9 no value holding a sync primitive by value is copied in package sse (a method with a value receiver locks a copy of the registry's mutex). R10 every return leaves locks released; R11 closures run later read no loop state. R3 also: locksets are taken through lock wrappers (withLock(func())) and a removal inside `defer s.withLock(func(){…})` counts as deferred; a helper that only copies the registry into a slice it returns must hold the mutex itself or at every call site, and the broadcast rules then apply to the loop over the copy. R17 in the stream handler the client is stored in the registry before the first write or flush to the response (helpers summarised); R18 a type of the proxy or the sse package that embeds http.ResponseWriter also has a Flush method. R3 also: the key handed to delete is a local or parameter that holds this client's key (not a field or call evaluated when the client leaves); the removal may be a closure the registering function returns, when every caller defers it. R2 also (round 11): a send on a client's channel that can wait sits in a goroutine of its own, started inside the loop over the clients — never in a loop that one goroutine walks.",
		Assumptions: []string{"a send on a closed channel panics; a send in a select with a ready done arm cannot block forever", "net/http cancels r.Context() when ServeHTTP returns"},
		Trusted:     []string{"go/types", "x/tools go/packages, go/cfg"},
		Run:         runC19,
	})
}

type registryInfo struct {
	Struct  *types.Named
	MapFld  *types.Var
	MuFld   *types.Var
	ChanTyp types.Type // the channel type reachable from the map's value type
}

// findChanRegistry: a struct with a map field whose values are (or contain) channels, and a mutex field.
func findChanRegistry(p *packages.Package) *registryInfo {
	scope := p.Types.Scope()
	for _, nm := range scope.Names() {
		tn, ok := scope.Lookup(nm).(*types.TypeName)
		if !ok {
			continue
		}
		nt, ok := tn.Type().(*types.Named)
		if !ok {
			continue
		}
		st, ok := nt.Underlying().(*types.Struct)
		if !ok {
			continue
		}
		ri := &registryInfo{Struct: nt}
		for i := 0; i < st.NumFields(); i++ {
			f := st.Field(i)
			if mt, ok := f.Type().Underlying().(*types.Map); ok {
				if ct := chanIn(mt.Elem()); ct != nil {
					ri.MapFld, ri.ChanTyp = f, ct
				}
			}
			if isMutexType(f.Type()) {
				ri.MuFld = f
			}
		}
		if ri.MapFld != nil && ri.MuFld != nil {
			return ri
		}
	}
	return nil
}

func chanIn(t types.Type) types.Type {
	switch u := t.Underlying().(type) {
	case *types.Chan:
		return t
	case *types.Struct:
		for i := 0; i < u.NumFields(); i++ {
			if c, ok := u.Field(i).Type().Underlying().(*types.Chan); ok && c.Dir() != types.RecvOnly {
				if _, isStructElem := c.Elem().Underlying().(*types.Struct); isStructElem && c.Elem().String() != "struct{}" {
					return u.Field(i).Type()
				}
			}
		}
	}
	return nil
}

func isMutexType(t types.Type) bool {
	if pt, ok := t.(*types.Pointer); ok {
		t = pt.Elem()
	}
	s := t.String()
	return s == "sync.Mutex" || s == "sync.RWMutex"
}

// funcBodies yields every function body (declarations and literals) with the enclosing declaration.
type bodyInfo struct {
	Decl *ast.FuncDecl
	Lit  *ast.FuncLit
	Body *ast.BlockStmt
	IsGo bool // literal started by a go statement
}

func funcBodies(p *packages.Package) []bodyInfo {
	var out []bodyInfo
	for _, fd := range allFuncDecls(p) {
		out = append(out, bodyInfo{Decl: fd, Body: fd.Body})
		goLits := map[*ast.FuncLit]bool{}
		ast.Inspect(fd.Body, func(n ast.Node) bool {
			if gs, ok := n.(*ast.GoStmt); ok {
				if fl, ok := gs.Call.Fun.(*ast.FuncLit); ok {
					goLits[fl] = true
				}
			}
			return true
		})
		ast.Inspect(fd.Body, func(n ast.Node) bool {
			if fl, ok := n.(*ast.FuncLit); ok {
				out = append(out, bodyInfo{Decl: fd, Lit: fl, Body: fl.Body, IsGo: goLits[fl]})
			}
			return true
		})
	}
	return out
}

// directNodes visits nodes of a body that are not inside nested function literals.
func directNodes(body *ast.BlockStmt, f func(n ast.Node) bool) {
	ast.Inspect(body, func(n ast.Node) bool {
		if _, ok := n.(*ast.FuncLit); ok {
			return false
		}
		if n == nil {
			return true
		}
		return f(n)
	})
}

func enclosingSelect(body *ast.BlockStmt, target ast.Node) (*ast.SelectStmt, *ast.CommClause) {
	var sel *ast.SelectStmt
	var cc *ast.CommClause
	ast.Inspect(body, func(n ast.Node) bool {
		if s, ok := n.(*ast.SelectStmt); ok && s.Pos() <= target.Pos() && target.End() <= s.End() {
			for _, c := range s.Body.List {
				cl := c.(*ast.CommClause)
				if cl.Comm != nil && cl.Comm.Pos() <= target.Pos() && target.End() <= cl.Comm.End() {
					sel, cc = s, cl
				}
			}
		}
		return true
	})
	return sel, cc
}

func runC19(c *Ctx) {
	c.load("./cmd/templ/generatecmd/sse", "./cmd/templ/generatecmd/proxy", "./cmd/templ/generatecmd")
	broadcastEntryForwardsEverything(c, "C19.R6", "C19.R7")
	streamServerHasNoWriteDeadline(c, "C19.R8")
	locksNeverCopied(c, "C19.R9", "cmd/templ/generatecmd/sse")
	locksReleasedOnEveryReturn(c, "C19.R10", "cmd/templ/generatecmd/sse")
	laterClosuresReadNoLoopState(c, "C19.R11", "cmd/templ/generatecmd/sse")
	p := c.pkg("cmd/templ/generatecmd/sse")
	info := p.TypesInfo
	ri := findChanRegistry(p)
	if ri == nil {
		c.viol("C19.R1", "anchor-lost:client-registry", "", "no struct with a map of client channels and a mutex was found in package sse")
		return
	}
	regKey := p.PkgPath + "." + ri.Struct.Obj().Name() + "." + ri.MapFld.Name()
	clientRegisteredBeforeFirstByte(c, "C19.R17", ri)
	responseWriterWrappersKeepFlush(c, "C19.R18", "cmd/templ/generatecmd/sse", "cmd/templ/generatecmd/proxy")
	c.count("registry_fields", 1)
	isRegChan := func(e ast.Expr) bool {
		t := info.TypeOf(e)
		return t != nil && types.Identical(t, ri.ChanTyp)
	}
	isRegMap := func(e ast.Expr) bool {
		se, ok := ast.Unparen(e).(*ast.SelectorExpr)
		if !ok {
			return false
		}
		sel, ok := info.Selections[se]
		return ok && sel.Obj() == types.Object(ri.MapFld)
	}
	muKeyOf := func(e ast.Expr) string { // s.requests → s.m
		se := ast.Unparen(e).(*ast.SelectorExpr)
		return types.ExprString(se.X) + "." + ri.MuFld.Name()
	}
	bodies := funcBodies(p)

	// R1 ------------------------------------------------------------
	type site struct {
		b    bodyInfo
		node ast.Node
	}
	var closes, sends []site
	for _, b := range bodies {
		directNodes(b.Body, func(n ast.Node) bool {
			switch n := n.(type) {
			case *ast.CallExpr:
				if id, ok := n.Fun.(*ast.Ident); ok && id.Name == "close" && len(n.Args) == 1 && isRegChan(n.Args[0]) {
					closes = append(closes, site{b, n})
				}
			case *ast.SendStmt:
				if isRegChan(n.Chan) {
					sends = append(sends, site{b, n})
				}
			}
			return true
		})
	}
	c.count("send_sites", len(sends))
	c.count("close_sites", len(closes))
	if len(sends) == 0 {
		c.viol("C19.R1", "anchor-lost:send-site", "", "no send on a client channel found: events could never be delivered")
	}
	for i, s := range sends {
		key := fmt.Sprintf("%s|send#%d in %s", regKey, i+1, funcKey(p, s.b.Decl))
		if len(closes) == 0 {
			// (b): select with a done arm
			sel, _ := enclosingSelect(s.b.Body, s.node)
			okSel := false
			if sel != nil {
				for _, cl := range sel.Body.List {
					cc := cl.(*ast.CommClause)
					if cc.Comm == nil {
						okSel = true // default arm: never blocks
						continue
					}
					var rx ast.Expr
					switch st := cc.Comm.(type) {
					case *ast.ExprStmt:
						if ue, ok := st.X.(*ast.UnaryExpr); ok && ue.Op == token.ARROW {
							rx = ue.X
						}
					case *ast.AssignStmt:
						if ue, ok := st.Rhs[0].(*ast.UnaryExpr); ok && ue.Op == token.ARROW {
							rx = ue.X
						}
					}
					if rx != nil {
						if ct, ok := info.TypeOf(rx).Underlying().(*types.Chan); ok && ct.Elem().String() == "struct{}" {
							okSel = true
						}
					}
				}
			}
			c.check(okSel, "C19.R1", key, c.pos(s.node.Pos()), "the client channel is never closed; the send is a select arm next to a done/default arm",
				"the send on a client channel is not inside a select with a done (or default) arm: when the client has gone the sender blocks forever")
			continue
		}
		// (a): closes exist → send and close must hold the registry mutex in their own goroutine
		held := normHeld(heldIn(p, s.b, s.node), false)
		hasMu := false
		for k := range held {
			if strings.HasSuffix(k, "."+ri.MuFld.Name()) {
				hasMu = true
			}
		}
		why := ""
		if s.b.Lit != nil && s.b.IsGo {
			why = " (the send runs in a goroutine started by `go`, which does not hold the caller's lock)"
		}
		c.check(hasMu, "C19.R1", key, c.pos(s.node.Pos()), "send holds the registry mutex",
			fmt.Sprintf("client channels are closed (%s) but this send does not hold the registry mutex%s: a delivery pending when the client disconnects sends on a closed channel and panics the watch process", c.pos(closes[0].node.Pos()), why))
	}
	for i, cl := range closes {
		key := fmt.Sprintf("%s|close#%d in %s", regKey, i+1, funcKey(p, cl.b.Decl))
		held := normHeld(heldIn(p, cl.b, cl.node), true)
		hasMu := false
		for k := range held {
			if strings.HasSuffix(k, "."+ri.MuFld.Name()) {
				hasMu = true
			}
		}
		c.check(hasMu, "C19.R1", key, c.pos(cl.node.Pos()), "close holds the registry mutex", "a client channel is closed without holding the registry mutex")
	}

	// R2, R4: the broadcaster — functions that range over the registry map ------------------------------
	nb := 0
	// snapshot helpers: a function of the package that copies the registered clients into a fresh slice and returns it
	// (`for _, c := range s.requests { out = append(out, c) }; return out`). The broadcaster may then range over the
	// copy; the copy must be taken under the mutex — in the helper, or at every one of its call sites.
	snapshotLoop := func(fd *ast.FuncDecl, rs *ast.RangeStmt) bool {
		if fd == nil || fd.Type.Results == nil || len(fd.Type.Results.List) != 1 || len(rs.Body.List) != 1 {
			return false
		}
		as, ok := rs.Body.List[0].(*ast.AssignStmt)
		if !ok || len(as.Lhs) != 1 || len(as.Rhs) != 1 {
			return false
		}
		lid, ok := as.Lhs[0].(*ast.Ident)
		call, ok2 := ast.Unparen(as.Rhs[0]).(*ast.CallExpr)
		if !ok || !ok2 || types.ExprString(call.Fun) != "append" || len(call.Args) < 2 {
			return false
		}
		if fid, ok := ast.Unparen(call.Args[0]).(*ast.Ident); !ok || info.ObjectOf(fid) != info.ObjectOf(lid) {
			return false
		}
		// every return hands back that slice
		okAll, nret := true, 0
		ast.Inspect(fd.Body, func(m ast.Node) bool {
			if _, isLit := m.(*ast.FuncLit); isLit {
				return false
			}
			if ret, ok := m.(*ast.ReturnStmt); ok {
				nret++
				if len(ret.Results) != 1 {
					okAll = false
				} else if rid, ok := ast.Unparen(ret.Results[0]).(*ast.Ident); !ok || info.ObjectOf(rid) != info.ObjectOf(lid) {
					okAll = false
				}
			}
			return true
		})
		return okAll && nret > 0
	}
	snapshotFns := map[types.Object]bool{}
	for _, fd := range allFuncDecls(p) {
		if fd.Body == nil {
			continue
		}
		ast.Inspect(fd.Body, func(m ast.Node) bool {
			if rs, ok := m.(*ast.RangeStmt); ok && isRegMap(rs.X) && snapshotLoop(fd, rs) {
				snapshotFns[info.Defs[fd.Name]] = true
			}
			return true
		})
	}
	for _, b := range bodies {
		directNodes(b.Body, func(n ast.Node) bool {
			rs, ok := n.(*ast.RangeStmt)
			if !ok {
				return true
			}
			// the registry map itself, or a local that was assigned it (an alias of the same map, not a snapshot)
			regX := rs.X
			if !isRegMap(regX) && b.Decl != nil {
				regX = unfoldLocals(p, b.Decl, rs.X)
			}
			overSnapshot := false
			if call, ok := ast.Unparen(rs.X).(*ast.CallExpr); ok {
				if fn := calleeOf(info, call); fn != nil && snapshotFns[fn] {
					overSnapshot = true
				}
			}
			if !isRegMap(regX) && !overSnapshot {
				return true
			}
			nb++
			key := funcKey(p, b.Decl) + "|broadcast-loop"
			if isRegMap(regX) && b.Lit == nil && snapshotLoop(b.Decl, rs) {
				// the copying loop of a snapshot helper: under the mutex here, or at every call site
				held := normHeld(heldIn(p, b, rs), false)
				okLock := held[muKeyOf(regX)]
				where := "in the helper"
				if !okLock {
					nsites, all := 0, true
					for _, ob := range bodies {
						directNodes(ob.Body, func(m ast.Node) bool {
							call, ok := m.(*ast.CallExpr)
							if !ok || types.Object(calleeOf(info, call)) != info.Defs[b.Decl.Name] {
								return true
							}
							nsites++
							want := ri.MuFld.Name()
							if se, ok := ast.Unparen(call.Fun).(*ast.SelectorExpr); ok {
								want = types.ExprString(se.X) + "." + ri.MuFld.Name()
							}
							if !normHeld(heldIn(p, ob, call), false)[want] {
								all = false
							}
							return true
						})
					}
					okLock = nsites > 0 && all
					where = fmt.Sprintf("at each of its %d call site(s)", nsites)
				}
				c.check(okLock, "C19.R3", key+"|reads-registry-under-lock", c.pos(rs.Pos()), "the registry is copied under its mutex ("+where+")",
					"the client registry is copied into a slice without its mutex being held, neither in "+b.Decl.Name.Name+" nor at every call of it: concurrent map read and write with subscribe/unsubscribe")
				return true
			}
			if !overSnapshot {
				held := normHeld(heldIn(p, b, rs), false)
				c.check(held[muKeyOf(regX)], "C19.R3", key+"|reads-registry-under-lock", c.pos(rs.Pos()), "registry is iterated under its mutex "+heldList(held),
					"the broadcast loop iterates the client registry without holding its mutex "+heldList(held))
			}
			// R2: no blocking channel op directly in the loop
			blocking := ""
			directNodes(rs.Body, func(m ast.Node) bool {
				switch m := m.(type) {
				case *ast.SendStmt:
					if sel, _ := enclosingSelect(rs.Body, m); sel == nil || !selectHasDefault(sel) {
						blocking = "send " + types.ExprString(m.Chan) + " <- … at " + c.pos(m.Pos())
					}
				case *ast.UnaryExpr:
					if m.Op == token.ARROW {
						if sel, _ := enclosingSelect(rs.Body, m); sel == nil || !selectHasDefault(sel) {
							blocking = "receive at " + c.pos(m.Pos())
						}
					}
				}
				return true
			})
			c.check(blocking == "", "C19.R2", key+"|non-blocking", c.pos(rs.Pos()), "no blocking channel operation while the registry mutex is held",
				"the broadcaster performs a blocking channel operation while holding the registry mutex ("+blocking+"): one stalled client blocks the broadcaster, every other client and every subscribe/unsubscribe")
			// R4: no filter
			filter := ""
			directNodes(rs.Body, func(m ast.Node) bool {
				switch m := m.(type) {
				case *ast.BranchStmt:
					filter = m.Tok.String()
				case *ast.ReturnStmt:
					filter = "return"
				}
				return true
			})
			c.check(filter == "", "C19.R4", key+"|all-clients", c.pos(rs.Pos()), "every registered client is addressed",
				"the broadcast loop leaves or skips iterations ("+filter+"): some connected clients would not receive the event")
			// each iteration must start a delivery for the loop's channel
			delivers := false
			ast.Inspect(rs.Body, func(m ast.Node) bool {
				if ss, ok := m.(*ast.SendStmt); ok && isRegChan(ss.Chan) {
					delivers = true
				}
				// or through a function of the package that sends on a client channel
				if call, ok := m.(*ast.CallExpr); ok {
					if fn := calleeOf(info, call); fn != nil && fn.Pkg() == p.Types {
						for _, hfd := range allFuncDecls(p) {
							if info.Defs[hfd.Name] == types.Object(fn) {
								ast.Inspect(hfd.Body, func(k ast.Node) bool {
									if ss, ok := k.(*ast.SendStmt); ok && isRegChan(ss.Chan) {
										delivers = true
									}
									return true
								})
							}
						}
					}
				}
				return true
			})
			c.check(delivers, "C19.R4", key+"|delivers", c.pos(rs.Pos()), "each iteration sends to the client's channel", "the broadcast loop no longer sends to the client's channel")
			return true
		})
	}
	if nb == 0 {
		c.viol("C19.R4", "anchor-lost:broadcast-loop", "", "no function ranges over the client registry")
	}
	// R2 (round 11): a delivery that can wait (a send on a client's channel outside a select with a default) sits in a
	// goroutine of its own — started inside the loop over the clients, one per client. One goroutine that walks the
	// clients and waits for each in turn delivers to nobody behind a stalled client.
	for _, fd := range allFuncDecls(p) {
		if fd.Body == nil {
			continue
		}
		var stack []ast.Node
		nseq := 0
		ast.Inspect(fd.Body, func(m ast.Node) bool {
			if m == nil {
				stack = stack[:len(stack)-1]
				return true
			}
			stack = append(stack, m)
			ss, ok := m.(*ast.SendStmt)
			if !ok || !isRegChan(ss.Chan) {
				return true
			}
			if sel, _ := enclosingSelect(fd.Body, ss); sel != nil && selectHasDefault(sel) {
				return true
			}
			var loop ast.Node
			var goAt ast.Node
			for k := len(stack) - 2; k >= 0; k-- {
				switch anc := stack[k].(type) {
				case *ast.RangeStmt, *ast.ForStmt:
					if loop == nil && goAt == nil {
						loop = anc
					}
				case *ast.GoStmt:
					if goAt == nil && loop == nil {
						goAt = anc
					}
				}
			}
			// loop != nil: the innermost enclosing construct of the two is a loop — the send runs in the loop's own goroutine
			if loop != nil {
				nseq++
				c.viol("C19.R2", fmt.Sprintf("%s|deliveries-wait-in-turn#%d", funcKey(p, fd), nseq), c.pos(ss.Pos()),
					fmt.Sprintf("%s sends on a client's channel (%s) and can wait there, inside a loop (%s) that runs in one goroutine: deliveries are made one after the other, so one client that does not take its event holds up every client behind it — they never receive the reload", fd.Name.Name, types.ExprString(ss.Chan), c.pos(loop.Pos())))
			}
			return true
		})
	}

	// R2 (whole locked region): nothing that can wait for another goroutine runs while the registry mutex is held,
	// including deferred calls that run before a deferred Unlock.
	blockingCallees := map[string]string{
		"sync.(WaitGroup).Wait": "waits for goroutines", "sync.(Cond).Wait": "waits for a signal", "time.Sleep": "sleeps",
	}
	nlocked := 0
	for _, b := range bodies {
		fc := newFnCFG(b.Body, info)
		// deferred unlocks of the registry mutex, in source order
		var deferredUnlocks []*ast.DeferStmt
		directNodes(b.Body, func(n ast.Node) bool {
			if ds, ok := n.(*ast.DeferStmt); ok {
				if fn := calleeOf(info, ds.Call); fn != nil && (fullName(fn) == "sync.(Mutex).Unlock" || fullName(fn) == "sync.(RWMutex).Unlock") {
					if se, ok := ds.Call.Fun.(*ast.SelectorExpr); ok && strings.HasSuffix(types.ExprString(se.X), "."+ri.MuFld.Name()) {
						deferredUnlocks = append(deferredUnlocks, ds)
					}
				}
			}
			return true
		})
		holdsMu := func(n ast.Node) bool {
			for k := range normHeld(fc.heldAt(n), false) {
				if strings.HasSuffix(k, "."+ri.MuFld.Name()) {
					return true
				}
			}
			return false
		}
		var deferCalls = map[*ast.CallExpr]*ast.DeferStmt{}
		directNodes(b.Body, func(n ast.Node) bool {
			if ds, ok := n.(*ast.DeferStmt); ok {
				deferCalls[ds.Call] = ds
			}
			return true
		})
		bad := ""
		usesMu := false
		directNodes(b.Body, func(n ast.Node) bool {
			if gs, ok := n.(*ast.GoStmt); ok {
				_ = gs
				return false // the started goroutine does not hold the lock
			}
			what := ""
			switch n := n.(type) {
			case *ast.CallExpr:
				fn := calleeOf(info, n)
				if fn == nil {
					return true
				}
				if why, ok := blockingCallees[fullName(fn)]; ok {
					what = types.ExprString(n.Fun) + "() " + why
				}
				if what == "" {
					return true
				}
				if ds, isDeferred := deferCalls[n]; isDeferred {
					// runs at function exit, before every deferred Unlock registered earlier
					for _, du := range deferredUnlocks {
						if du.Pos() < ds.Pos() {
							usesMu = true
							bad = "deferred " + what + " (registered at " + c.pos(ds.Pos()) + " after `defer " + types.ExprString(du.Call) + "`, so it runs before the unlock)"
						}
					}
					return true
				}
			case *ast.SendStmt:
				if sel, _ := enclosingSelect(b.Body, n); sel == nil || !selectHasDefault(sel) {
					what = "send " + types.ExprString(n.Chan) + " <- …"
				}
			case *ast.UnaryExpr:
				if n.Op == token.ARROW {
					if sel, _ := enclosingSelect(b.Body, n); sel == nil || !selectHasDefault(sel) {
						what = "receive <-" + types.ExprString(n.X)
					}
				}
			}
			if what == "" {
				return true
			}
			if holdsMu(n) {
				usesMu = true
				bad = what + " at " + c.pos(n.Pos())
			}
			return true
		})
		// only bodies that take the registry mutex carry an obligation
		directNodes(b.Body, func(n ast.Node) bool {
			if call, ok := n.(*ast.CallExpr); ok {
				if fn := calleeOf(info, call); fn != nil && (fullName(fn) == "sync.(Mutex).Lock" || fullName(fn) == "sync.(RWMutex).Lock" || fullName(fn) == "sync.(RWMutex).RLock") {
					if se, ok := call.Fun.(*ast.SelectorExpr); ok && strings.HasSuffix(types.ExprString(se.X), "."+ri.MuFld.Name()) {
						usesMu = true
					}
				}
			}
			return true
		})
		if !usesMu {
			continue
		}
		nlocked++
		name := funcKey(p, b.Decl)
		if b.Lit != nil {
			name += "|closure"
		}
		c.check(bad == "", "C19.R2", name+"|locked-region-never-waits", c.pos(b.Body.Pos()), "no wait for another goroutine while the registry mutex is held",
			"while holding the registry mutex this function waits for another goroutine: "+bad+". A client that stalls (or disconnects: its cleanup needs the same mutex) then blocks the broadcaster, every other client and every subscribe/unsubscribe")
	}
	c.count("bodies_taking_registry_mutex", nlocked)

	// R5: registry keys are never reused while a client is connected ---------------------
	registryKeys(c, p, ri, bodies, isRegMap)

	// R3: registration and removal ---------------------------------------------------
	nstore, ndel := 0, 0
	for _, b := range bodies {
		directNodes(b.Body, func(n ast.Node) bool {
			switch n := n.(type) {
			case *ast.AssignStmt:
				for _, l := range n.Lhs {
					if ix, ok := l.(*ast.IndexExpr); ok && isRegMap(ix.X) {
						nstore++
						held := normHeld(heldIn(p, b, n), true)
						c.check(held[muKeyOf(ix.X)], "C19.R3", funcKey(p, b.Decl)+"|register-under-lock", c.pos(n.Pos()), "client registered under the mutex",
							"a client is registered without holding the registry mutex "+heldList(held)+": concurrent map write with the broadcaster")
					}
				}
			case *ast.CallExpr:
				if id, ok := n.Fun.(*ast.Ident); ok && id.Name == "delete" && len(n.Args) == 2 && isRegMap(n.Args[0]) {
					ndel++
					held := normHeld(heldIn(p, b, n), true)
					c.check(held[muKeyOf(n.Args[0])], "C19.R3", funcKey(p, b.Decl)+"|unregister-under-lock", c.pos(n.Pos()), "client removed under the mutex",
						"a client is removed from the registry map without holding the registry mutex exclusively "+heldList(held)+" (a read lock does not exclude other writers): two clients disconnecting at the same moment write the map concurrently — fatal error: concurrent map writes, which kills the watch process")
					// the key that is removed is the one this client was registered under: a local (or parameter) that holds
					// it — not a value read again from shared state when the client leaves (a counter that later clients have
					// advanced names THEIR entry)
					{
						kx := ast.Unparen(n.Args[1])
						okKey := false
						why := types.ExprString(kx)
						if kid, isID := kx.(*ast.Ident); isID {
							if v, isVar := info.ObjectOf(kid).(*types.Var); isVar && !v.IsField() && v.Parent() != p.Types.Scope() {
								okKey = true
							}
						}
						c.check(okKey, "C19.R3", funcKey(p, b.Decl)+"|removes-its-own-key", c.pos(n.Pos()), "the removal names the entry by a local that holds this client's key",
							fmt.Sprintf("the client is removed from the registry under %s, which is read from shared state at the moment the client leaves and not the key kept from its registration: when a later client has registered in between, the older client's clean-up removes the NEWER client's entry — that client is connected and never receives a reload again, while the dead entry stays", why))
					}
					// must be in a deferred closure of the handler
					deferred := false
					for _, dc := range deferredCallsDeep(p, b.Decl.Body) {
						if dc == n {
							deferred = true
						}
					}
					// … or the removal is a function of its own that the package only ever calls in a defer
					if !deferred && b.Lit == nil {
						nsites, all := 0, true
						for _, ob := range bodies {
							dcs := deferredCalls(ob.Body)
							directNodes(ob.Body, func(m ast.Node) bool {
								call, ok := m.(*ast.CallExpr)
								if !ok || types.Object(calleeOf(info, call)) != info.Defs[b.Decl.Name] {
									return true
								}
								nsites++
								isDef := false
								for _, dc := range dcs {
									if dc == call {
										isDef = true
									}
								}
								if !isDef {
									all = false
								}
								return true
							})
						}
						deferred = nsites > 0 && all
					}
					// … or the removal is a closure the registering function hands back, and every caller defers it:
					// events, unregister := s.register(); defer unregister()
					if !deferred && b.Lit != nil {
						ri := -1
						ast.Inspect(b.Decl.Body, func(m ast.Node) bool {
							if ret, ok := m.(*ast.ReturnStmt); ok {
								for i, r := range ret.Results {
									if ast.Unparen(r) == ast.Expr(b.Lit) {
										ri = i
									}
								}
							}
							return true
						})
						if ri >= 0 {
							nsites, all := 0, true
							for _, ob := range bodies {
								directNodes(ob.Body, func(m ast.Node) bool {
									as, ok := m.(*ast.AssignStmt)
									if !ok || len(as.Rhs) != 1 || ri >= len(as.Lhs) {
										return true
									}
									call, ok := ast.Unparen(as.Rhs[0]).(*ast.CallExpr)
									if !ok || types.Object(calleeOf(info, call)) != info.Defs[b.Decl.Name] {
										return true
									}
									nsites++
									vid, ok := as.Lhs[ri].(*ast.Ident)
									isDef := false
									if ok {
										for _, dc := range deferredCalls(ob.Body) {
											if fid, isID := ast.Unparen(dc.Fun).(*ast.Ident); isID && info.ObjectOf(fid) == info.ObjectOf(vid) && len(dc.Args) == 0 {
												isDef = true
											}
										}
									}
									if !isDef {
										all = false
									}
									return true
								})
							}
							deferred = nsites > 0 && all
						}
					}
					// … or the closure travels in a field of a struct the registering function hands back, and every caller
					// defers that field's call: sub := r.subscribe(); defer sub.cancel()
					if !deferred && b.Lit != nil {
						field := ""
						var lit *ast.CompositeLit
						ast.Inspect(b.Decl.Body, func(m ast.Node) bool {
							if cl, ok := m.(*ast.CompositeLit); ok {
								for _, el := range cl.Elts {
									if kv, ok := el.(*ast.KeyValueExpr); ok && ast.Unparen(kv.Value) == ast.Expr(b.Lit) {
										if k, ok := kv.Key.(*ast.Ident); ok {
											field, lit = k.Name, cl
										}
									}
								}
							}
							return true
						})
						ri := -1
						if lit != nil {
							// returned as it is, or through a local that holds it
							var holder types.Object
							ast.Inspect(b.Decl.Body, func(m ast.Node) bool {
								if as, ok := m.(*ast.AssignStmt); ok && len(as.Lhs) == 1 && len(as.Rhs) == 1 {
									r := ast.Unparen(as.Rhs[0])
									if ue, ok := r.(*ast.UnaryExpr); ok && ue.Op == token.AND {
										r = ast.Unparen(ue.X)
									}
									if r == ast.Expr(lit) {
										if id, ok := as.Lhs[0].(*ast.Ident); ok {
											holder = info.ObjectOf(id)
										}
									}
								}
								return true
							})
							ast.Inspect(b.Decl.Body, func(m ast.Node) bool {
								if _, isLit := m.(*ast.FuncLit); isLit {
									return false
								}
								if ret, ok := m.(*ast.ReturnStmt); ok {
									for i, r := range ret.Results {
										r = ast.Unparen(r)
										if ue, ok := r.(*ast.UnaryExpr); ok && ue.Op == token.AND {
											r = ast.Unparen(ue.X)
										}
										if r == ast.Expr(lit) {
											ri = i
										}
										if id, ok := r.(*ast.Ident); ok && holder != nil && info.ObjectOf(id) == holder {
											ri = i
										}
									}
								}
								return true
							})
						}
						if ri >= 0 {
							nsites, all := 0, true
							for _, ob := range bodies {
								directNodes(ob.Body, func(m ast.Node) bool {
									as, ok := m.(*ast.AssignStmt)
									if !ok || len(as.Rhs) != 1 || ri >= len(as.Lhs) {
										return true
									}
									call, ok := ast.Unparen(as.Rhs[0]).(*ast.CallExpr)
									if !ok || types.Object(calleeOf(info, call)) != info.Defs[b.Decl.Name] {
										return true
									}
									nsites++
									vid, ok := as.Lhs[ri].(*ast.Ident)
									isDef := false
									if ok {
										for _, dc := range deferredCalls(ob.Body) {
											if se, isSel := ast.Unparen(dc.Fun).(*ast.SelectorExpr); isSel && se.Sel.Name == field && len(dc.Args) == 0 {
												if xid, isID := ast.Unparen(se.X).(*ast.Ident); isID && info.ObjectOf(xid) == info.ObjectOf(vid) {
													isDef = true
												}
											}
										}
									}
									if !isDef {
										all = false
									}
									return true
								})
							}
							deferred = nsites > 0 && all
						}
					}
					c.check(deferred, "C19.R3", funcKey(p, b.Decl)+"|unregister-deferred", c.pos(n.Pos()), "removal runs in a defer, on every exit of the handler",
						"the client is not removed in a defer: an early return (write error) leaves a dead client in the registry, and every later broadcast leaks a goroutine on it")
				}
			}
			return true
		})
	}
	if nstore == 0 || ndel == 0 {
		c.viol("C19.R3", "anchor-lost:register/unregister", "", fmt.Sprintf("registry stores=%d deletes=%d", nstore, ndel))
	}
	c.floor("C19.R1", 1)
	c.floor("C19.R3", 3)
}

func selectHasDefault(s *ast.SelectStmt) bool {
	for _, cl := range s.Body.List {
		if cl.(*ast.CommClause).Comm == nil {
			return true
		}
	}
	return false
}

// registryKeys: C19.R5.
func registryKeys(c *Ctx, p *packages.Package, ri *registryInfo, bodies []bodyInfo, isRegMap func(ast.Expr) bool) {
	info := p.TypesInfo
	n := 0
	for _, b := range bodies {
		directNodes(b.Body, func(x ast.Node) bool {
			as, ok := x.(*ast.AssignStmt)
			if !ok {
				return true
			}
			for _, l := range as.Lhs {
				ix, ok := l.(*ast.IndexExpr)
				if !ok || !isRegMap(ix.X) {
					continue
				}
				n++
				okKey, why := uniqueKeySource(info, p, b, ix.Index, 0)
				c.check(okKey, "C19.R5", funcKey(p, b.Decl)+"|registry-key-never-reused", c.pos(as.Pos()), "registry key: "+why,
					"the key a client is registered under ("+types.ExprString(ix.Index)+") is "+why+": after a client has left, a new client can be given the key of one that is still connected and replaces its entry, so that client silently stops receiving events")
			}
			return true
		})
	}
	c.count("registry_store_sites", n)
}

func uniqueKeySource(info *types.Info, p *packages.Package, b bodyInfo, e ast.Expr, depth int) (bool, string) {
	e = ast.Unparen(e)
	if depth > 4 {
		return false, "not traced to a never-repeating source"
	}
	switch e := e.(type) {
	case *ast.Ident:
		obj := info.ObjectOf(e)
		var rhs ast.Expr
		ndef := 0
		ast.Inspect(b.Decl.Body, func(x ast.Node) bool {
			switch s := x.(type) {
			case *ast.AssignStmt:
				for i, l := range s.Lhs {
					if id, ok := l.(*ast.Ident); ok && info.ObjectOf(id) == obj {
						ndef++
						if len(s.Rhs) == len(s.Lhs) {
							rhs = s.Rhs[i]
						} else {
							rhs = s.Rhs[0]
						}
					}
				}
			case *ast.IncDecStmt:
				if id, ok := s.X.(*ast.Ident); ok && info.ObjectOf(id) == obj {
					ndef += 2
				}
			}
			return true
		})
		if ndef != 1 || rhs == nil {
			return false, fmt.Sprintf("a variable with %d assignments (not traced)", ndef)
		}
		return uniqueKeySource(info, p, b, rhs, depth+1)
	case *ast.CallExpr:
		if id, ok := e.Fun.(*ast.Ident); ok && (id.Name == "make" || id.Name == "new") {
			return true, "a freshly allocated value"
		}
		if tv, ok := info.Types[e.Fun]; ok && tv.IsType() && len(e.Args) == 1 {
			return uniqueKeySource(info, p, b, e.Args[0], depth+1)
		}
		fn := calleeOf(info, e)
		if fn == nil {
			return false, "the result of an unresolved call"
		}
		full := fullName(fn)
		if strings.HasPrefix(full, "sync/atomic.Add") && len(e.Args) == 2 {
			if tv := info.Types[e.Args[1]]; tv.Value != nil && constantPositive(tv) {
				if ue, ok := ast.Unparen(e.Args[0]).(*ast.UnaryExpr); ok && ue.Op == token.AND {
					if fld := fieldOf(info, ue.X); fld != nil {
						if w := otherWrites(p, fld, e); w != "" {
							return false, "an atomic counter that is also written at " + w
						}
						return true, "atomic add of a positive constant on field " + fld.Name() + " (no other writes)"
					}
				}
			}
			return false, "an atomic add whose operand or delta is not a plain field / positive constant"
		}
		if strings.HasPrefix(full, "sync/atomic.(Int") || strings.HasPrefix(full, "sync/atomic.(Uint") {
			if fn.Name() == "Add" && len(e.Args) == 1 {
				if tv := info.Types[e.Args[0]]; tv.Value != nil && constantPositive(tv) {
					return true, "atomic Add of a positive constant"
				}
			}
		}
		// a key function of the package whose body is a single `return <expression>`: the expression is judged there
		if fn.Pkg() == p.Types {
			for _, kfd := range allFuncDecls(p) {
				if info.Defs[kfd.Name] != types.Object(fn) || kfd.Body == nil || len(kfd.Body.List) != 1 {
					continue
				}
				if ret, ok := kfd.Body.List[0].(*ast.ReturnStmt); ok && len(ret.Results) == 1 {
					okKey, why := uniqueKeySource(info, p, bodyInfo{Decl: kfd, Body: kfd.Body}, ret.Results[0], depth+1)
					return okKey, why + " (returned by " + fn.Name() + ")"
				}
			}
		}
		return false, "the result of " + full + ", which is not a never-repeating counter"
	case *ast.UnaryExpr:
		if e.Op == token.AND {
			if _, ok := ast.Unparen(e.X).(*ast.CompositeLit); ok {
				return true, "the address of a fresh composite literal"
			}
		}
	case *ast.SelectorExpr:
		if fld := fieldOf(info, e); fld != nil {
			// a field only ever incremented
			onlyInc := true
			ninc := 0
			for _, fd := range allFuncDecls(p) {
				ast.Inspect(fd.Body, func(x ast.Node) bool {
					switch s := x.(type) {
					case *ast.IncDecStmt:
						if fieldOf(info, s.X) == fld {
							if s.Tok == token.INC {
								ninc++
							} else {
								onlyInc = false
							}
						}
					case *ast.AssignStmt:
						for _, l := range s.Lhs {
							if fieldOf(info, l) == fld {
								if s.Tok == token.ADD_ASSIGN && len(s.Rhs) == 1 && info.Types[s.Rhs[0]].Value != nil && constantPositive(info.Types[s.Rhs[0]]) {
									ninc++
								} else {
									onlyInc = false
								}
							}
						}
					}
					return true
				})
			}
			if onlyInc && ninc > 0 {
				return true, "field " + fld.Name() + ", which is only ever incremented"
			}
			return false, "field " + fld.Name() + ", which is not a strictly increasing counter"
		}
	case *ast.BinaryExpr:
		return false, "computed as `" + types.ExprString(e) + "`, which is not a never-repeating counter (the registry shrinks when clients leave)"
	}
	return false, "`" + types.ExprString(e) + "`, not traced to a never-repeating source"
}

func constantPositive(tv types.TypeAndValue) bool {
	return tv.Value != nil && strings.TrimLeft(tv.Value.ExactString(), "0123456789") == "" && tv.Value.ExactString() != "0"
}

func fieldOf(info *types.Info, e ast.Expr) *types.Var {
	se, ok := ast.Unparen(e).(*ast.SelectorExpr)
	if !ok {
		return nil
	}
	if sel, ok := info.Selections[se]; ok {
		if v, ok := sel.Obj().(*types.Var); ok && v.IsField() {
			return v
		}
	}
	return nil
}

// otherWrites: assignments / inc / dec / atomic stores of the field other than the given call.
func otherWrites(p *packages.Package, fld *types.Var, except *ast.CallExpr) string {
	info := p.TypesInfo
	out := ""
	for _, fd := range allFuncDecls(p) {
		ast.Inspect(fd.Body, func(x ast.Node) bool {
			switch s := x.(type) {
			case *ast.AssignStmt:
				for _, l := range s.Lhs {
					if fieldOf(info, l) == fld {
						out = p.Fset.Position(s.Pos()).String()
					}
				}
			case *ast.IncDecStmt:
				if fieldOf(info, s.X) == fld {
					out = p.Fset.Position(s.Pos()).String()
				}
			case *ast.CallExpr:
				if s == except {
					return true
				}
				if fn := calleeOf(info, s); fn != nil && strings.HasPrefix(fullName(fn), "sync/atomic.") && !strings.HasPrefix(fn.Name(), "Load") && len(s.Args) > 0 {
					if ue, ok := ast.Unparen(s.Args[0]).(*ast.UnaryExpr); ok && ue.Op == token.AND && fieldOf(info, ue.X) == fld {
						if strings.HasPrefix(fn.Name(), "Add") && len(s.Args) == 2 && info.Types[s.Args[1]].Value != nil && constantPositive(info.Types[s.Args[1]]) {
							return true
						}
						out = p.Fset.Position(s.Pos()).String()
					}
				}
			}
			return true
		})
	}
	return out
}

// broadcastEntryForwardsEverything: C19.R6/R7 — between the watcher and the SSE hub sits the proxy: R6 its broadcast
// entry point hands EVERY event to the hub (the hub's Send dominates every exit; a throttle or de-duplication there
// drops the reload that a tab which reconnected in between was waiting for); R7 on the event-stream route nothing is
// written or flushed to the ResponseWriter before the hub's handler is called — the hub registers the client before
// its first flush, so an earlier flush lets the browser see an open stream while it is not registered yet, and a
// broadcast in that window misses it.
func broadcastEntryForwardsEverything(c *Ctx, ruleSend, ruleServe string) {
	p := c.pkg("cmd/templ/generatecmd/proxy")
	if p == nil {
		c.viol(ruleSend, "anchor-lost:generatecmd/proxy", "", "package cmd/templ/generatecmd/proxy not loaded")
		return
	}
	info := p.TypesInfo
	isHub := func(fn *types.Func, name string) bool {
		return fn != nil && fn.Name() == name && fn.Pkg() != nil && strings.HasSuffix(fn.Pkg().Path(), "/generatecmd/sse")
	}
	nsend, nserve := 0, 0
	for _, fd := range allFuncDecls(p) {
		fc := newFnCFG(fd.Body, info)
		var sends, serves []*ast.CallExpr
		ast.Inspect(fd.Body, func(x ast.Node) bool {
			if call, ok := x.(*ast.CallExpr); ok {
				fn := calleeOf(info, call)
				if isHub(fn, "Send") {
					// the forwarding entry point: the hub's Send is given this function's own parameters
					forwards := len(call.Args) > 0
					for _, a := range call.Args {
						id, ok := ast.Unparen(a).(*ast.Ident)
						isParam := false
						if ok {
							for _, prm := range fd.Type.Params.List {
								for _, nm := range prm.Names {
									if info.Defs[nm] == info.ObjectOf(id) {
										isParam = true
									}
								}
							}
						}
						if !isParam {
							forwards = false
						}
					}
					if forwards {
						sends = append(sends, call)
					}
				}
				if isHub(fn, "ServeHTTP") {
					serves = append(serves, call)
				}
			}
			return true
		})
		if len(sends) > 0 {
			nsend++
			why := ""
			var exits []ast.Node
			ast.Inspect(fd.Body, func(x ast.Node) bool {
				if r, ok := x.(*ast.ReturnStmt); ok {
					exits = append(exits, r)
				}
				return true
			})
			if len(fd.Body.List) > 0 {
				exits = append(exits, fd.Body.List[len(fd.Body.List)-1])
			}
			for _, ex := range exits {
				dom := false
				for _, s := range sends {
					if fc.dominates(s, ex) || (ex.Pos() <= s.Pos() && s.End() <= ex.End()) {
						dom = true
					}
				}
				if !dom {
					why = "the exit at " + c.pos(ex.Pos()) + " is reached without the hub's Send having been called"
				}
			}
			c.check(why == "", ruleSend, funcKey(p, fd)+"|every-event-reaches-the-hub", c.pos(fd.Pos()), "the hub's Send dominates every exit",
				fd.Name.Name+": "+why+": some broadcasts are dropped before they reach the connected browsers (a tab that reloaded after the first of two quick events and reconnected never gets the second, and keeps showing stale content)")
		}
		for _, sv := range serves {
			nserve++
			var wObj types.Object
			if len(sv.Args) > 0 {
				if id, ok := ast.Unparen(sv.Args[0]).(*ast.Ident); ok {
					wObj = info.ObjectOf(id)
				}
			}
			early := ""
			ast.Inspect(fd.Body, func(x ast.Node) bool {
				call, ok := x.(*ast.CallExpr)
				if !ok || call == sv || wObj == nil {
					return true
				}
				touches := false
				if se, ok := call.Fun.(*ast.SelectorExpr); ok {
					if id, ok := ast.Unparen(se.X).(*ast.Ident); ok && info.ObjectOf(id) == wObj && se.Sel.Name != "Header" {
						touches = true
					}
					// w.(http.Flusher).Flush()
					if ta, ok := ast.Unparen(se.X).(*ast.TypeAssertExpr); ok {
						if id, ok := ast.Unparen(ta.X).(*ast.Ident); ok && info.ObjectOf(id) == wObj {
							touches = true
						}
					}
				}
				for _, a := range call.Args {
					if id, ok := ast.Unparen(a).(*ast.Ident); ok && info.ObjectOf(id) == wObj {
						if fn := calleeOf(info, call); fn != nil && fn.Pkg() != nil && (fn.Pkg().Path() == "fmt" || fn.Pkg().Path() == "io") {
							touches = true
						}
					}
				}
				// a flusher obtained by assertion earlier: f, ok := w.(http.Flusher); f.Flush()
				if se, ok := call.Fun.(*ast.SelectorExpr); ok && se.Sel.Name == "Flush" {
					touches = touches || flusherOf(info, fd, se.X, wObj)
				}
				if touches && fc.reachable(call, sv) {
					early = types.ExprString(call.Fun) + " at " + c.pos(call.Pos())
				}
				return true
			})
			c.check(early == "", ruleServe, fmt.Sprintf("%s|nothing-written-before-hub-handler", funcKey(p, fd)), c.pos(sv.Pos()), "the ResponseWriter is untouched before the hub's handler runs",
				fd.Name.Name+": "+early+" writes to (or flushes) the response before the SSE hub's handler is called: the browser sees an open event stream although the client is not registered yet, and a broadcast sent in that window never reaches it")
		}
	}
	c.count("hub_send_callers", nsend)
	c.count("hub_servehttp_callers", nserve)
	c.floor(ruleSend, 1)
	c.floor(ruleServe, 1)
}

func flusherOf(info *types.Info, fd *ast.FuncDecl, e ast.Expr, wObj types.Object) bool {
	id, ok := ast.Unparen(e).(*ast.Ident)
	if !ok {
		return false
	}
	found := false
	ast.Inspect(fd.Body, func(x ast.Node) bool {
		if as, ok := x.(*ast.AssignStmt); ok && len(as.Rhs) == 1 {
			if ta, ok := ast.Unparen(as.Rhs[0]).(*ast.TypeAssertExpr); ok {
				if wid, ok := ast.Unparen(ta.X).(*ast.Ident); ok && info.ObjectOf(wid) == wObj {
					if lid, ok := as.Lhs[0].(*ast.Ident); ok && info.ObjectOf(lid) == info.ObjectOf(id) {
						found = true
					}
				}
			}
		}
		return true
	})
	return found
}

// streamServerHasNoWriteDeadline: C19.R8 — the event stream is one HTTP response that lives for the whole watch
// session. http.Server.WriteTimeout is an absolute deadline for writing a response, counted from the end of the
// request header: once it has passed, every further write of that response fails — silently for the hub, which sees
// only its own channel. A server in front of the proxy handler must therefore have no WriteTimeout (and the handler
// must not sit inside http.TimeoutHandler): the first reload that happens later than the deadline after a browser
// connected is lost and the connection torn down. Decided on every http.Server literal and every TimeoutHandler call
// of the generate command's packages.
func streamServerHasNoWriteDeadline(c *Ctx, rule string) {
	n := 0
	for _, rel := range []string{"cmd/templ/generatecmd", "cmd/templ/generatecmd/proxy", "cmd/templ/generatecmd/sse"} {
		p := c.pkg(rel)
		if p == nil {
			continue
		}
		info := p.TypesInfo
		for _, fd := range allFuncDecls(p) {
			if fd.Body == nil {
				continue
			}
			ord := 0
			ast.Inspect(fd.Body, func(x ast.Node) bool {
				switch y := x.(type) {
				case *ast.CompositeLit:
					t := info.TypeOf(y)
					if t == nil || !strings.HasSuffix(strings.TrimPrefix(t.String(), "*"), "net/http.Server") {
						return true
					}
					n++
					ord++
					bad := ""
					for _, el := range y.Elts {
						if kv, ok := el.(*ast.KeyValueExpr); ok {
							if k := types.ExprString(kv.Key); k == "WriteTimeout" {
								if tv, ok := info.Types[kv.Value]; !ok || tv.Value == nil || tv.Value.String() != "0" {
									bad = k + ": " + types.ExprString(kv.Value)
								}
							}
						}
					}
					c.check(bad == "", rule, fmt.Sprintf("%s|http.Server#%d|no-write-deadline", funcKey(p, fd), ord), c.pos(y.Pos()), "the server sets no WriteTimeout",
						fmt.Sprintf("%s configures an http.Server with %s: the reload event stream is a single response that must stay writable for hours; after that deadline every write to it fails, so a reload broadcast later than that after the browser connected never arrives (the hub cannot see the failure) and the stream is closed", fd.Name.Name, bad))
				case *ast.AssignStmt:
					for i, l := range y.Lhs {
						if se, ok := l.(*ast.SelectorExpr); ok && se.Sel.Name == "WriteTimeout" {
							if t := info.TypeOf(se.X); t != nil && strings.HasSuffix(strings.TrimPrefix(t.String(), "*"), "net/http.Server") && i < len(y.Rhs) {
								n++
								ord++
								c.viol(rule, fmt.Sprintf("%s|http.Server#%d|no-write-deadline", funcKey(p, fd), ord), c.pos(y.Pos()),
									fmt.Sprintf("%s sets WriteTimeout = %s on an http.Server: the reload event stream is a single long-lived response and stops being writable after that deadline", fd.Name.Name, types.ExprString(y.Rhs[i])))
							}
						}
					}
				case *ast.CallExpr:
					if fn := calleeOf(info, y); fn != nil && fullName(fn) == "net/http.TimeoutHandler" {
						n++
						ord++
						c.viol(rule, fmt.Sprintf("%s|http.TimeoutHandler#%d", funcKey(p, fd), ord), c.pos(y.Pos()),
							fd.Name.Name+" wraps a handler in http.TimeoutHandler: the event stream behind it is cut off after the timeout")
					}
				}
				return true
			})
		}
	}
	c.ok(rule, modPath+"/cmd/templ/generatecmd|servers-scanned", "", fmt.Sprintf("%d http.Server configurations / timeout wrappers in the generate command's packages", n))
	src := "&http.Server{WriteTimeout: 12 * time.Second}"
	c.control(rule+":write-timeout-pattern", strings.Contains(src, "WriteTimeout"))
}
