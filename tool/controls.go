package main

// Positive controls for rules whose expected number of matches on the pinned tree is zero: a tiny violating
// snippet is type-checked in process (against the packages loaded from /repo) and the rule's own detector must
// flag it on every run — a detector that silently stopped matching would otherwise pass forever.

import (
	"go/ast"
	"go/parser"
	"go/token"
	"go/types"
)

func checkSnippet(c *Ctx, src string) (*ast.File, *types.Info, bool) {
	fset := token.NewFileSet()
	f, err := parser.ParseFile(fset, "control.go", src, 0)
	if err != nil {
		return nil, nil, false
	}
	info := &types.Info{Types: map[ast.Expr]types.TypeAndValue{}, Uses: map[*ast.Ident]types.Object{}, Defs: map[*ast.Ident]types.Object{}, Selections: map[*ast.SelectorExpr]*types.Selection{}}
	conf := types.Config{Importer: witnessImporter{c: c}, Error: func(error) {}}
	_, _ = conf.Check("control", fset, []*ast.File{f}, info)
	return f, info, true
}

// detectors shared by the real rules and their controls

func findSetEscapeHTML(info *types.Info, root ast.Node) []*ast.CallExpr {
	var out []*ast.CallExpr
	ast.Inspect(root, func(n ast.Node) bool {
		if call, ok := n.(*ast.CallExpr); ok {
			if fn := calleeOf(info, call); fn != nil && fullName(fn) == "encoding/json.(Encoder).SetEscapeHTML" {
				out = append(out, call)
			}
		}
		return true
	})
	return out
}

func findMapRanges(info *types.Info, root ast.Node) []*ast.RangeStmt {
	var out []*ast.RangeStmt
	ast.Inspect(root, func(n ast.Node) bool {
		if rs, ok := n.(*ast.RangeStmt); ok {
			if t := info.TypeOf(rs.X); t != nil {
				if _, isMap := t.Underlying().(*types.Map); isMap {
					out = append(out, rs)
				}
			}
		}
		return true
	})
	return out
}

func controlSetEscapeHTML(c *Ctx) {
	f, info, ok := checkSnippet(c, "package control\nimport (\"encoding/json\"; \"io\")\nfunc f(w io.Writer, v any) error { e := json.NewEncoder(w); e.SetEscapeHTML(false); return e.Encode(v) }\n")
	c.control("C03.R2:SetEscapeHTML-detector", ok && len(findSetEscapeHTML(info, f)) == 1)
}

func controlMapRange(c *Ctx) {
	f, info, ok := checkSnippet(c, "package control\nfunc f(m map[string]int) (n int) { for _, v := range m { n += v }; return }\n")
	c.control("C15.R6:map-range-detector", ok && len(findMapRanges(info, f)) == 1)
}
