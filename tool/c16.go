package main

import (
	"fmt"
	"go/ast"
	"go/token"
	"go/types"
	"golang.org/x/tools/go/packages"
	"sort"
	"strings"
)

func init() {
	register(&propDef{
		ID:          "C16",
		Explanation: "Render equality between watch mode and a fresh build is not decided. Decides writer/reader agreement of the development text-file protocol and the coverage of the recompilation key: R1 every literal the generator can collect is a valid interpreted-string body without a raw newline (GEM, all literal emissions) — needed both for the Go file and for the one-literal-per-line text file; R2 (a) the separator constant the command joins the literals with equals the one both readers split with, (b) the emitted literal index is the 1-based position of the literal in the collected list (counter incremented, literal appended and index emitted in the same step) and the readers index [index-1] after an `index > len` rejection, (c) the literal is emitted between double quotes and the readers unquote \"<line>\", (d) writer and reader compute the text-file name with the same function; R3 the recompilation key (HasChanged) compares every generator option that changes emitted Go, the literal count and the expression list element-wise, and covers the kind of sink an expression is emitted into; R4 within one debounce window of the watch loop the `needs recompilation` and `text updated` flags are accumulated (||) over all events, never overwritten by the last one. R5 each `has this output changed` hash is sha256 of the very value that is written under that name; R6 (= C07.R1) every written Go expression is registered with the source map unconditionally — HasChanged compares the registered expression list, so a skipped registration hides a change that needs recompilation. R7 the shared text-file name function maps a …_templ.go name to the template's name before it resolves the path (Abs / EvalSymlinks), so the generator and the running program resolve the same file. NOT decided: file-system timing of the 100 ms cache, equality of rendered bytes. R8 no error result is dropped in the watcher / modification-check path; R9 closures run later read no per-event loop state; R10 modification times stay time.Time (never truncated or turned into integers); R11 the hash upsert stores the new hash whenever it reports a change. R11 also follows forwarding (see C15.R20). R12 the send of a debounced file event on the watcher's channel is not an arm of a select with a default clause. R13 a file that is renamed onto its target is not created in os.TempDir() (os.CreateTemp(\"\", …)): os.Rename does not cross file systems. R14 a file's modification time is compared with a recorded modification time, never with a value that comes from time.Now() (followed through fields to their stores). R2 also (round 11): the text a reader of the development text file splits into literals is the file's bytes under conversions only (no strings/bytes/regexp call in front of the split).",
		Assumptions: []string{"strconv.Unquote inverts the generator's escapeQuotes (strconv.Quote without the outer quotes)"},
		Trusted:     []string{"go/types", "go/parser", "x/tools go/packages", "strconv"},
		Run:         runC16,
	})
}

func runC16(c *Ctx) {
	c.load(".", "./runtime", "./generator", "./cmd/templ/generatecmd", "./cmd/templ/generatecmd/watcher", "./parser/v2")
	hashedBytesAreWrittenBytes(c, "C16.R5")
	gMap(c, "C16.R6")
	textFileNameCanonical(c, "C16.R7")
	errorsNotLost(c, "C16.R8", "runtime", "cmd/templ/generatecmd")
	laterClosuresReadNoLoopState(c, "C16.R9", "cmd/templ/generatecmd", "cmd/templ/generatecmd/watcher")
	modTimesStayTimes(c, "C16.R10", ".", "runtime", "cmd/templ/generatecmd")
	upsertRecordsWhatItReports(c, "C16.R11")
	fileEventsAreNotDropped(c, "C16.R12", "cmd/templ/generatecmd/watcher")
	renamedFilesAreCreatedNextToTheirTarget(c, "C16.R13", "cmd/templ/generatecmd", "generator", "runtime")
	modTimesComparedWithModTimes(c, "C16.R14", ".", "runtime", "cmd/templ/generatecmd")
	gLit(c, "C16.R1")

	// R2 (a): separators ---------------------------------------------------------------
	gp := c.pkg("cmd/templ/generatecmd")
	joinSep, joinPos := "", token.NoPos
	var nameFnWriter *types.Func
	for _, fd := range allFuncDecls(gp) {
		var nameFnHere *types.Func
		joinsHere := false
		ast.Inspect(fd.Body, func(n ast.Node) bool {
			call, ok := n.(*ast.CallExpr)
			if !ok {
				return true
			}
			fn := calleeOf(gp.TypesInfo, call)
			if fn == nil {
				return true
			}
			if fullName(fn) == "strings.Join" && len(call.Args) == 2 && isLiteralsOfOutput(gp, fd, call.Args[0], 0) {
				if s, ok := constString(gp.TypesInfo, call.Args[1]); ok {
					joinSep, joinPos = s, call.Pos()
					joinsHere = true
				}
			}
			// the function that names the text file where the literals are joined for it
			if strings.Contains(fn.Name(), "TextFileName") {
				nameFnHere = fn
			}
			return true
		})
		if joinsHere && nameFnHere != nil {
			nameFnWriter = nameFnHere
		}
	}
	if joinPos == token.NoPos {
		c.viol("C16.R2", "anchor-lost:literal-join", "", "the command no longer joins GeneratorOutput.Literals with a constant separator")
	}
	type reader struct {
		rel   string
		fd    *ast.FuncDecl
		sep   string
		found bool
		arg   ast.Expr
	}
	var readers []reader
	for _, rel := range []string{".", "runtime"} {
		p := c.pkg(rel)
		for _, fd := range allFuncDecls(p) {
			readsFile := false
			sep, found := "", false
			var splitArg ast.Expr
			ast.Inspect(fd.Body, func(n ast.Node) bool {
				call, ok := n.(*ast.CallExpr)
				if !ok {
					return true
				}
				fn := calleeOf(p.TypesInfo, call)
				if fn == nil {
					return true
				}
				// (the read may sit in a helper of the package that hands the bytes back: readWithModTime(name))
				if fn.Pkg() == p.Types {
					for _, hfd := range allFuncDecls(p) {
						if p.TypesInfo.Defs[hfd.Name] != types.Object(fn) || hfd.Body == nil || hfd == fd {
							continue
						}
						ast.Inspect(hfd.Body, func(m ast.Node) bool {
							if hc, ok := m.(*ast.CallExpr); ok {
								if hfn := calleeOf(p.TypesInfo, hc); hfn != nil && (fullName(hfn) == "io.ReadAll" || fullName(hfn) == "os.ReadFile") {
									readsFile = true
								}
							}
							return true
						})
					}
				}
				switch fullName(fn) {
				case "io.ReadAll", "os.ReadFile":
					readsFile = true
				case "strings.Split":
					if s, ok := constString(p.TypesInfo, call.Args[1]); ok {
						sep, found = s, true
						splitArg = call.Args[0]
					}
				}
				return true
			})
			if readsFile && found {
				readers = append(readers, reader{rel, fd, sep, true, splitArg})
			}
		}
	}
	if len(readers) < 1 {
		c.viol("C16.R2", "anchor-lost:text-file-readers", "", "no function reads the text file and splits it into literals")
	}
	// the runtime package (the reader generated code uses) must have such a split-reader of its own
	hasRuntimeReader := false
	for _, r := range readers {
		if r.rel == "runtime" {
			hasRuntimeReader = true
		}
	}
	c.check(hasRuntimeReader, "C16.R2", modPath+"/runtime|text-file-split-reader", "", "the runtime reads the whole text file and splits it with a constant separator",
		"package runtime no longer reads the development text file whole and splits it with a constant separator (e.g. a bufio.Scanner also strips \\r and fails on lines over 64 KiB): what the reader sees as literal N is no longer what the generator wrote as literal N")
	for _, r := range readers {
		p := c.pkg(r.rel)
		c.check(r.sep == joinSep && joinSep == "\n", "C16.R2", funcKey(p, r.fd)+"|separator-agrees", c.pos(r.fd.Pos()), fmt.Sprintf("writer joins with %q, reader splits with %q", joinSep, r.sep),
			fmt.Sprintf("the text file is written with separator %q (%s) but %s splits it with %q: literal indices no longer line up", joinSep, c.pos(joinPos), r.fd.Name.Name, r.sep))
	}

	// R2 (round 11): what is split is the file as it was read — conversions only. A text function in front of the split
	// (TrimSpace, TrimRight, ReplaceAll …) edits the first and the last literal, or every one: white space at the start
	// of the first and the end of the last literal is part of the document.
	for _, r := range readers {
		p := c.pkg(r.rel)
		info := p.TypesInfo
		edited := ""
		var look func(e ast.Expr, depth int)
		look = func(e ast.Expr, depth int) {
			ast.Inspect(e, func(n ast.Node) bool {
				switch x := n.(type) {
				case *ast.CallExpr:
					if fn := calleeOf(info, x); fn != nil && fn.Pkg() != nil {
						switch fn.Pkg().Path() {
						case "strings", "bytes", "regexp", "unicode", "golang.org/x/text/transform":
							edited = fullName(fn) + " at " + c.pos(x.Pos())
						}
					}
				case *ast.Ident:
					if depth < 3 {
						if ob, ok := info.ObjectOf(x).(*types.Var); ok && ob.Pkg() == p.Types && !ob.IsField() {
							ast.Inspect(r.fd.Body, func(m ast.Node) bool {
								if as, ok := m.(*ast.AssignStmt); ok && len(as.Lhs) == len(as.Rhs) {
									for i, l := range as.Lhs {
										if lid, ok := l.(*ast.Ident); ok && info.ObjectOf(lid) == types.Object(ob) && as.Rhs[i] != e {
											look(as.Rhs[i], depth+1)
										}
									}
								}
								return true
							})
						}
					}
				}
				return true
			})
		}
		if r.arg != nil {
			look(r.arg, 0)
		}
		c.check(edited == "", "C16.R2", funcKey(p, r.fd)+"|split-the-file-as-read", c.pos(r.fd.Pos()), "the text that is split into literals is the file's bytes, converted only",
			fmt.Sprintf("%s passes the text file through %s before splitting it into literals: the generator writes every literal as it is (one per line), so white space at the start of the first literal or at the end of the last one — or whatever else the function edits — is rendered in a normal build and missing in watch mode", r.fd.Name.Name, edited))
	}

	// R2 (b)(c)(d): readers ---------------------------------------------------------------
	nread := 0
	for _, rel := range []string{".", "runtime"} {
		p := c.pkg(rel)
		info := p.TypesInfo
		for _, fd := range allFuncDecls(p) {
			var unq *ast.CallExpr
			ast.Inspect(fd.Body, func(n ast.Node) bool {
				if call, ok := n.(*ast.CallExpr); ok {
					if fn := calleeOf(info, call); fn != nil && fullName(fn) == "strconv.Unquote" {
						unq = call
					}
				}
				return true
			})
			if unq == nil {
				continue
			}
			nread++
			key := funcKey(p, fd)
			fc := newFnCFG(fd.Body, info)
			scopeFd := fd
			// argument: `"` + lits[idx-1] + `"`
			var ix *ast.IndexExpr
			quoted := false
			if be, ok := unq.Args[0].(*ast.BinaryExpr); ok && be.Op == token.ADD {
				if l, ok := be.X.(*ast.BinaryExpr); ok && l.Op == token.ADD {
					a, okA := constString(info, l.X)
					b, okB := constString(info, be.Y)
					quoted = okA && okB && a == `"` && b == `"`
					ix, _ = l.Y.(*ast.IndexExpr)
					// the line may be picked by a helper of the package that holds the bound test and the [n-1]:
					// literal, found := lineAt(literals, index)
					if lid, isID := ast.Unparen(l.Y).(*ast.Ident); isID && ix == nil {
						ast.Inspect(fd.Body, func(n ast.Node) bool {
							as, ok := n.(*ast.AssignStmt)
							if !ok || len(as.Rhs) != 1 || len(as.Lhs) < 1 {
								return true
							}
							if l0, ok := as.Lhs[0].(*ast.Ident); !ok || info.ObjectOf(l0) != info.ObjectOf(lid) {
								return true
							}
							hc, ok := ast.Unparen(as.Rhs[0]).(*ast.CallExpr)
							if !ok {
								return true
							}
							hfn := calleeOf(info, hc)
							if hfn == nil || hfn.Pkg() != p.Types {
								return true
							}
							for _, hfd := range allFuncDecls(p) {
								if info.Defs[hfd.Name] != types.Object(hfn) || hfd.Body == nil {
									continue
								}
								ast.Inspect(hfd.Body, func(m ast.Node) bool {
									if ret, ok := m.(*ast.ReturnStmt); ok && len(ret.Results) > 0 {
										if hix, ok := ast.Unparen(ret.Results[0]).(*ast.IndexExpr); ok {
											ix, scopeFd = hix, hfd
										}
									}
									return true
								})
							}
							return true
						})
					}
				}
			}
			if scopeFd != fd {
				fc = newFnCFG(scopeFd.Body, info)
			}
			c.check(quoted && ix != nil, "C16.R2", key+"|unquotes-quoted-line", c.pos(unq.Pos()), "the reader unquotes \"<line>\"",
				fd.Name.Name+": the text-file line is not unquoted as `\"` + line + `\"`; the generator emits the literal between double quotes in Go-escaped form")
			if ix != nil {
				// index - 1 of an int parameter
				var idxObj types.Object
				minusOne := false
				if be, ok := ix.Index.(*ast.BinaryExpr); ok && be.Op == token.SUB && types.ExprString(be.Y) == "1" {
					if id, ok := be.X.(*ast.Ident); ok {
						idxObj = info.ObjectOf(id)
						minusOne = true
					}
				}
				c.check(minusOne, "C16.R2", key+"|index-is-one-based", c.pos(ix.Pos()), "reads line [index-1]: the generator's indices are 1-based",
					fd.Name.Name+": the literal is read at "+types.ExprString(ix.Index)+" but the generator emits 1-based indices: every literal would be replaced by its neighbour")
				// bound test dominates
				guard := false
				ast.Inspect(scopeFd.Body, func(n ast.Node) bool {
					if is, ok := n.(*ast.IfStmt); ok {
						if be, ok := is.Cond.(*ast.BinaryExpr); ok && (be.Op == token.GTR || be.Op == token.GEQ) {
							lenCall, isLen := be.Y.(*ast.CallExpr)
							if isLen {
								fid, ok := lenCall.Fun.(*ast.Ident)
								isLen = ok && fid.Name == "len"
							}
							if id, ok := be.X.(*ast.Ident); ok && isLen && idxObj != nil && info.ObjectOf(id) == idxObj {
								if be.Op == token.GTR && blockAlwaysReturns(is.Body) && fc.dominates(is, ix) {
									guard = true
								}
							}
						}
					}
					return true
				})
				c.check(guard, "C16.R2", key+"|index-bound-checked", c.pos(ix.Pos()), "`index > len(lines)` is rejected before indexing",
					fd.Name.Name+": indexing the literal list is not dominated by an `index > len(…)` rejection")
			}
			// (d) same name function on both sides (runtime reader only; the deprecated root reader uses the old sibling-file scheme)
			if rel == "runtime" {
				var nameFnReader *types.Func
				ast.Inspect(fd.Body, func(n ast.Node) bool {
					if call, ok := n.(*ast.CallExpr); ok {
						if fn := calleeOf(info, call); fn != nil && strings.Contains(fn.Name(), "TextFileName") {
							nameFnReader = fn
						}
					}
					return true
				})
				same := nameFnReader != nil && nameFnWriter != nil && fullName(nameFnReader) == fullName(nameFnWriter)
				c.check(same, "C16.R2", key+"|same-text-file-name-function", c.pos(fd.Pos()), "writer and reader both call "+fullName(nameFnWriter),
					fmt.Sprintf("the command writes the text file named by %s but the runtime reads the one named by %s", fullName(nameFnWriter), fullName(nameFnReader)))
			}
		}
	}
	if nread < 2 {
		c.viol("C16.R2", "anchor-lost:literal-readers", "", fmt.Sprintf("expected two development-mode literal readers, found %d", nread))
	}
	// (b)(c) writer side: the range writer's literal bookkeeping
	rwLayer(c, "C16.R2")

	// R3 ---------------------------------------------------------------
	p := c.pkg("generator")
	_ = p.TypesInfo
	hc := findFunc(p, "", "HasChanged")
	if hc == nil {
		c.viol("C16.R3", "anchor-lost:HasChanged", "", "generator.HasChanged (exported) not found")
		return
	}
	key := funcKey(p, hc)
	// fields compared: selector paths on the two parameters compared with != (or ranged over and compared)
	compared := map[string]bool{}
	var p1, p2 string
	if len(hc.Type.Params.List) >= 1 && len(hc.Type.Params.List[0].Names) == 2 {
		p1, p2 = hc.Type.Params.List[0].Names[0].Name, hc.Type.Params.List[0].Names[1].Name
	}
	norm := func(e ast.Expr) string {
		s := types.ExprString(e)
		for _, pn := range []string{p1, p2} {
			if strings.HasPrefix(s, pn+".") {
				return strings.TrimPrefix(s, pn+".")
			}
			if strings.HasPrefix(s, "len("+pn+".") {
				return "len(" + strings.TrimPrefix(s, "len("+pn+".")
			}
		}
		return ""
	}
	ast.Inspect(hc.Body, func(n ast.Node) bool {
		switch n := n.(type) {
		case *ast.IfStmt:
			if be, ok := n.Cond.(*ast.BinaryExpr); ok && be.Op == token.NEQ && blockReturnsTrue(n.Body) {
				a, b := norm(be.X), norm(be.Y)
				if a != "" && a == b {
					compared[a] = true
				}
			}
		case *ast.RangeStmt:
			// for i, prev := range previous.X { if prev != updated.X[i] { return true } }
			rx := norm(n.X)
			if rx == "" {
				return true
			}
			elementwise := false
			ast.Inspect(n.Body, func(m ast.Node) bool {
				if is, ok := m.(*ast.IfStmt); ok {
					if be, ok := is.Cond.(*ast.BinaryExpr); ok && be.Op == token.NEQ && blockReturnsTrue(is.Body) {
						if ix, ok := be.Y.(*ast.IndexExpr); ok && norm(ix.X) == rx {
							if vid, ok := n.Value.(*ast.Ident); ok && types.ExprString(be.X) == vid.Name && types.ExprString(ix.Index) == types.ExprString(n.Key) {
								elementwise = true
							}
						}
					}
				}
				return true
			})
			if elementwise {
				compared[rx+"[i]"] = true
			}
		}
		return true
	})
	// the same comparisons written as one boolean expression, a switch, or early `return a != b`: read them off the
	// paths that return true
	{
		// (a predicate of the package used as a condition — optionsChanged(previous.Options, updated.Options) — is
		// enumerated in place, its parameters standing for the arguments)
		pdecls := map[types.Object]*ast.FuncDecl{}
		for _, fd := range allFuncDecls(p) {
			if fd != hc && fd.Recv == nil {
				pdecls[p.TypesInfo.Defs[fd.Name]] = fd
			}
		}
		den := &denum{info: p.TypesInfo, pkg: p.Types, inits: map[types.Object]ast.Expr{}, limit: 20000, opaqueLoops: true, decls: pdecls}
		den.finish(den.run(hc.Body.List, []dstate{{env: map[types.Object]ast.Expr{}}}))
		if den.undecided == "" {
			for _, pth := range den.paths {
				if pth.Ret == nil || len(pth.Ret.Results) != 1 || types.ExprString(pth.Ret.Results[0]) != "true" {
					continue
				}
				for _, pc0 := range pth.Conds {
					pc := pc0
					pc.Expr = den.expand(pc0.Expr, pth.Env)
					// slices.Equal(a, b) taken as false: the lists differ in length or at some position
					if call, ok := ast.Unparen(pc.Expr).(*ast.CallExpr); ok && !pc.Val && len(call.Args) == 2 {
						if fn := calleeOf(p.TypesInfo, call); fn != nil && fullName(fn) == "slices.Equal" {
							a, b := norm(call.Args[0]), norm(call.Args[1])
							if a != "" && a == b {
								compared["len("+a+")"] = true
								compared[a+"[i]"] = true
							}
						}
					}
					be, ok := ast.Unparen(pc.Expr).(*ast.BinaryExpr)
					if !ok {
						continue
					}
					differs := (be.Op == token.NEQ && pc.Val) || (be.Op == token.EQL && !pc.Val)
					if !differs {
						continue
					}
					a, b := norm(be.X), norm(be.Y)
					if a != "" && a == b {
						compared[a] = true
					}
				}
			}
		}
	}
	// (a) options read by emitting functions
	g := c.gem()
	optRead := map[string]bool{}
	for _, gf := range g.order {
		if !gf.Emits {
			continue
		}
		ast.Inspect(gf.Decl.Body, func(n ast.Node) bool {
			if se, ok := n.(*ast.SelectorExpr); ok {
				if inner, ok := se.X.(*ast.SelectorExpr); ok && inner.Sel.Name == "options" {
					optRead[se.Sel.Name] = true
				}
			}
			return true
		})
	}
	// GeneratedDate: explicit, documented exclusion (a timestamp must not force recompilation on every run)
	exempt := map[string]string{"GeneratedDate": "documented: the generated date is not used for determining if the file has changed"}
	var opts []string
	for o := range optRead {
		opts = append(opts, o)
	}
	sort.Strings(opts)
	for _, o := range opts {
		if why, ok := exempt[o]; ok {
			c.ok("C16.R3", key+"|option:"+o, c.pos(hc.Pos()), "exempt — "+why)
			continue
		}
		c.check(compared["Options."+o], "C16.R3", key+"|option:"+o, c.pos(hc.Pos()), "compared",
			"the generator option "+o+" changes the emitted Go code but HasChanged does not compare it: the running program would keep the old code")
	}
	if len(opts) < 3 {
		c.viol("C16.R3", "anchor-lost:generator-options", "", "fewer than three generator options are read by the emitting functions")
	}
	c.check(compared["len(Literals)"], "C16.R3", key+"|literal-count", c.pos(hc.Pos()), "the number of literals is compared",
		"HasChanged no longer compares the number of literals: an edit that adds a literal would read past the compiled program's indices")
	exprOK := compared["len(SourceMap.Expressions)"] && compared["SourceMap.Expressions[i]"]
	if !exprOK {
		if found, lenCmp, elemCmp, _ := elementwiseInHelper(c, p, hc); found && lenCmp && elemCmp {
			exprOK = true
		}
	}
	c.check(exprOK, "C16.R3", key+"|expressions-elementwise", c.pos(hc.Pos()), "the expression list is compared by length and element-wise",
		"HasChanged (or the helper it hands the two source maps to) does not compare the list of Go expressions by length and position by position: an edit that only reorders or swaps expressions is then taken for a text-only change, and the running program pairs its old literal indices with the new text file")
	// (d) sink kind
	contexts := map[string]bool{}
	for _, gf := range g.order {
		if !gf.Emits {
			continue
		}
		for _, path := range g.Paths(gf) {
			path = mapRelevant(path)
			for i, nd := range path {
				e, ok := nd.(Emit)
				if !ok || e.Lit || len(e.Parts) == 0 || e.Parts[0].Kind != PUserExpr {
					continue
				}
				before := ""
				if i > 0 {
					if pe, ok := path[i-1].(Emit); ok && !pe.Lit {
						for _, pp := range pe.Parts {
							if pp.Kind == PConst {
								before += pp.Const
							} else {
								before += "·"
							}
						}
					}
				}
				contexts[strings.TrimSpace(before)] = true
			}
		}
	}
	extra := 0
	for k := range compared {
		if !strings.HasPrefix(k, "Options.") && k != "len(Literals)" && k != "len(SourceMap.Expressions)" && k != "SourceMap.Expressions[i]" {
			extra++
		}
	}
	c.count("distinct_expression_sink_contexts", len(contexts))
	c.check(len(contexts) <= 1 || extra > 0, "C16.R3", key+"|key-covers-sink-kind", c.pos(hc.Pos()), "the key distinguishes the Go text around expressions",
		fmt.Sprintf("the recompilation key holds only the text of the Go expressions, but the generator wraps an expression in %d different Go contexts (JoinStringErrs, SafeURL, ComponentScript, SanitizeStyleAttributeValues, ScriptContent…, if/for/switch…): moving the same expression to another kind of sink changes the Go code while HasChanged stays false", len(contexts)))
	// R4: within one debounce window the recompile / reload flags accumulate over all events
	if run := findFunc(gp, "Generate", "Run"); run == nil {
		c.viol("C16.R4", "anchor-lost:Generate.Run", "", "generatecmd.Generate.Run not found")
	} else {
		nacc := 0
		ast.Inspect(run.Body, func(n ast.Node) bool {
			cc, ok := n.(*ast.CommClause)
			if !ok || cc.Comm == nil {
				return true
			}
			// case ge := <-ch
			as, ok := cc.Comm.(*ast.AssignStmt)
			if !ok || len(as.Lhs) != 1 {
				return true
			}
			ev, ok := as.Lhs[0].(*ast.Ident)
			if !ok {
				return true
			}
			evOb := gp.TypesInfo.ObjectOf(ev)
			for _, st := range cc.Body {
				a2, ok := st.(*ast.AssignStmt)
				if !ok || len(a2.Lhs) != len(a2.Rhs) {
					continue
				}
				for pi := range a2.Lhs {
					lhs, ok := a2.Lhs[pi].(*ast.Ident)
					if !ok {
						continue
					}
					rhs := a2.Rhs[pi]
					if t := gp.TypesInfo.TypeOf(lhs); t == nil || t.String() != "bool" {
						continue
					}
					mentionsEvent := false
					ast.Inspect(rhs, func(m ast.Node) bool {
						if id, ok := m.(*ast.Ident); ok && gp.TypesInfo.ObjectOf(id) == evOb {
							mentionsEvent = true
						}
						return true
					})
					if !mentionsEvent {
						continue
					}
					nacc++
					good := false
					if be, ok := rhs.(*ast.BinaryExpr); ok && be.Op == token.LOR {
						if x, ok := be.X.(*ast.Ident); ok && x.Name == lhs.Name {
							good = true
						}
						if y, ok := be.Y.(*ast.Ident); ok && y.Name == lhs.Name {
							good = true
						}
					}
					c.check(good, "C16.R4", funcKey(gp, run)+"|accumulates:"+lhs.Name, c.pos(a2.Pos()), lhs.Name+" accumulates over the events of one window",
						fmt.Sprintf("%s is overwritten by each event (%s) instead of accumulated with ||: when a change that needs recompilation is followed within the debounce window by a text-only change, the program is not rebuilt and keeps running old code against the new text file", lhs.Name, nodeText(c.fset, a2)))
				}
			}
			return true
		})
		if nacc < 2 {
			c.viol("C16.R4", funcKey(gp, run)+"|accumulators", c.pos(run.Pos()), fmt.Sprintf("expected the recompile and the text-update flag to be accumulated from post-generation events, found %d", nacc))
		}
	}
	c.floor("C16.R2", 8)
	c.floor("C16.R3", 6)
}

func blockReturnsTrue(b *ast.BlockStmt) bool {
	if len(b.List) != 1 {
		return false
	}
	ret, ok := b.List[0].(*ast.ReturnStmt)
	return ok && len(ret.Results) == 1 && types.ExprString(ret.Results[0]) == "true"
}

// elementwiseInHelper: HasChanged may delegate the comparison of the expression lists to a helper of the package. The
// helper must compare the two lists by length and position by position (an index expression on one list compared
// with the same position of the other); a comparison as multisets accepts a reordering, after which the running
// program pairs its old literal indices with the new text file.
func elementwiseInHelper(c *Ctx, p *packages.Package, hc *ast.FuncDecl) (found bool, lenCmp bool, elemCmp bool, name string) {
	info := p.TypesInfo
	ast.Inspect(hc.Body, func(n ast.Node) bool {
		call, ok := n.(*ast.CallExpr)
		if !ok || found {
			return true
		}
		fn := calleeOf(info, call)
		if fn == nil || fn.Pkg() != p.Types || len(call.Args) != 2 {
			return true
		}
		if !strings.Contains(types.ExprString(call.Args[0]), "SourceMap") || !strings.Contains(types.ExprString(call.Args[1]), "SourceMap") {
			return true
		}
		hfd := findFunc(p, "", fn.Name())
		if hfd == nil {
			return true
		}
		found = true
		name = fn.Name()
		var params []types.Object
		for _, prm := range hfd.Type.Params.List {
			for _, nm := range prm.Names {
				params = append(params, info.Defs[nm])
			}
		}
		if len(params) != 2 {
			return true
		}
		root := func(e ast.Expr) types.Object {
			id := rootIdent(e)
			return info.ObjectOf(id)
		}
		ast.Inspect(hfd.Body, func(m ast.Node) bool {
			be, ok := m.(*ast.BinaryExpr)
			if !ok || !(be.Op == token.NEQ || be.Op == token.EQL) {
				return true
			}
			lx, okx := ast.Unparen(be.X).(*ast.CallExpr)
			ly, oky := ast.Unparen(be.Y).(*ast.CallExpr)
			if okx && oky && types.ExprString(lx.Fun) == "len" && types.ExprString(ly.Fun) == "len" {
				a, b := root(lx.Args[0]), root(ly.Args[0])
				if a != b && (a == params[0] || a == params[1]) && (b == params[0] || b == params[1]) {
					lenCmp = true
				}
			}
			// position by position
			ix, isIx := ast.Unparen(be.Y).(*ast.IndexExpr)
			other := be.X
			if !isIx {
				ix, isIx = ast.Unparen(be.X).(*ast.IndexExpr)
				other = be.Y
			}
			if !isIx {
				return true
			}
			ra := root(ix.X)
			if !(ra == params[0] || ra == params[1]) {
				return true
			}
			// the other side: same index on the other list, or the value variable of a range over the other list
			if ox, ok := ast.Unparen(other).(*ast.IndexExpr); ok {
				rb := root(ox.X)
				if rb != ra && (rb == params[0] || rb == params[1]) && types.ExprString(ox.Index) == types.ExprString(ix.Index) {
					elemCmp = true
				}
			}
			if oid, ok := ast.Unparen(other).(*ast.Ident); ok {
				ast.Inspect(hfd.Body, func(k ast.Node) bool {
					if rs, ok := k.(*ast.RangeStmt); ok && rs.Body.Pos() <= be.Pos() && be.End() <= rs.Body.End() {
						if vid, ok := rs.Value.(*ast.Ident); ok && info.ObjectOf(vid) == info.ObjectOf(oid) {
							rb := root(rs.X)
							if rb != ra && (rb == params[0] || rb == params[1]) && rs.Key != nil && types.ExprString(rs.Key) == types.ExprString(ix.Index) {
								elemCmp = true
							}
						}
					}
					return true
				})
			}
			return true
		})
		return true
	})
	return
}

// hashedBytesAreWrittenBytes: C16.R5 — the watch-mode handler decides "this output file changed" by a hash; the hash
// must be taken over exactly the bytes that are then written. If the hash is computed from a different rendering of
// the data (the literals concatenated without their separator), two different files can have one hash: the text file is
// not rewritten, no reload is sent, and the running program keeps pairing its literal indices with the old text.
func hashedBytesAreWrittenBytes(c *Ctx, rule string) {
	n := writesGatedByOwnHash(c, rule, "hash-of-the-written-bytes")
	c.count("upsert_hash_sites", n)
	c.floor(rule, 1)
}

// writesGatedByOwnHash: in package generatecmd, every call of a file-writer value W(name, bytes) lies on paths that took
// UpsertHash(name, H) as true where H is sha256.Sum256 of those same bytes (one value, not a hash assembled piecewise)
// and name is the same expression — whether the test and the write sit in the generate function or in a helper that
// receives name and bytes as parameters. Returns the number of writer calls decided.
func writesGatedByOwnHash(c *Ctx, rule, suffix string) int {
	p := c.pkg("cmd/templ/generatecmd")
	info := p.TypesInfo
	isWriterValue := func(call *ast.CallExpr) bool {
		if fn := calleeOf(info, call); fn != nil && fullName(fn) == "os.WriteFile" {
			return true
		}
		if se, ok := call.Fun.(*ast.SelectorExpr); ok && isFileWriterField(info, se) {
			return true
		}
		if id, ok := call.Fun.(*ast.Ident); ok {
			if v, isVar := info.ObjectOf(id).(*types.Var); isVar {
				if sig, ok := v.Type().Underlying().(*types.Signature); ok && sig.Params().Len() == 2 && sig.Results().Len() == 1 &&
					isStringType(sig.Params().At(0).Type()) && sig.Params().At(1).Type().String() == "[]byte" {
					return true
				}
			}
			if fn, isFn := info.ObjectOf(id).(*types.Func); isFn && fn.Pkg() == p.Types {
				if sig := fn.Type().(*types.Signature); sig.Params().Len() == 2 && sig.Results().Len() == 1 &&
					isStringType(sig.Params().At(0).Type()) && sig.Params().At(1).Type().String() == "[]byte" && sig.Results().At(0).Type().String() == "error" {
					return true // the package's default writer function called directly
				}
			}
		}
		return false
	}
	stripConv := func(e ast.Expr) ast.Expr {
		for {
			e = ast.Unparen(e)
			if call, ok := e.(*ast.CallExpr); ok && len(call.Args) == 1 {
				if tv, ok := info.Types[call.Fun]; ok && tv.IsType() {
					e = call.Args[0]
					continue
				}
			}
			return e
		}
	}
	n := 0
	for _, fd := range allFuncDecls(p) {
		if fd.Body == nil {
			continue
		}
		has := false
		ast.Inspect(fd.Body, func(x ast.Node) bool {
			if call, ok := x.(*ast.CallExpr); ok && isWriterValue(call) {
				has = true
			}
			return true
		})
		if !has {
			continue
		}
		// a function that itself IS a writer (name, bytes) → error implements the write; the gating is its callers' business
		if obj, ok := info.Defs[fd.Name].(*types.Func); ok {
			if sig := obj.Type().(*types.Signature); sig.Recv() == nil && sig.Params().Len() == 2 && sig.Results().Len() == 1 &&
				isStringType(sig.Params().At(0).Type()) && sig.Params().At(1).Type().String() == "[]byte" && sig.Results().At(0).Type().String() == "error" {
				continue
			}
		}
		den := &denum{info: info, pkg: p.Types, inits: map[types.Object]ast.Expr{}, limit: 20000, opaqueLoops: true}
		den.finish(den.run(fd.Body.List, []dstate{{env: map[types.Object]ast.Expr{}}}))
		if den.undecided != "" {
			c.undec(rule, funcKey(p, fd)+"|"+suffix, c.pos(fd.Pos()), fd.Name.Name+" contains "+den.undecided)
			continue
		}
		type verdict struct {
			pos token.Pos
			why string
			ok  bool
		}
		byCall := map[*ast.CallExpr]*verdict{}
		var order []*ast.CallExpr
		for _, pth := range den.paths {
			var stmts []ast.Node
			for _, st := range pth.Trace {
				stmts = append(stmts, st)
			}
			if pth.Ret != nil {
				stmts = append(stmts, pth.Ret)
			}
			for _, st := range stmts {
				ast.Inspect(st, func(x ast.Node) bool {
					wc, ok := x.(*ast.CallExpr)
					if !ok || !isWriterValue(wc) || len(wc.Args) < 2 {
						return true
					}
					if _, isLit := x.(*ast.FuncLit); isLit {
						return false
					}
					v := byCall[wc]
					if v == nil {
						v = &verdict{pos: wc.Pos(), ok: true}
						byCall[wc] = v
						order = append(order, wc)
					}
					nameTxt := types.ExprString(den.deref(wc.Args[0], pth.Env))
					bytesTxt := types.ExprString(stripConv(den.deref(stripConv(wc.Args[1]), pth.Env)))
					gated := false
					why := "no UpsertHash test for " + types.ExprString(wc.Args[0]) + " was taken as true on a path that writes it"
					for _, pc := range pth.Conds {
						uc, ok := ast.Unparen(pc.Expr).(*ast.CallExpr)
						if !ok || !pc.Val || len(uc.Args) != 2 {
							continue
						}
						if fn := calleeOf(info, uc); fn == nil || fn.Name() != "UpsertHash" {
							continue
						}
						if types.ExprString(den.deref(uc.Args[0], pth.Env)) != nameTxt {
							why = "the write of " + nameTxt + " is gated by the hash recorded under " + types.ExprString(uc.Args[0])
							continue
						}
						h := den.deref(uc.Args[1], pth.Env)
						hc, isCall := ast.Unparen(h).(*ast.CallExpr)
						if !isCall || len(hc.Args) != 1 {
							why = "the hash (" + types.ExprString(uc.Args[1]) + ") is not sha256.Sum256 of a single value (it is assembled piecewise, so its input is not the byte sequence that is written)"
							continue
						}
						if hf := calleeOf(info, hc); hf == nil || !wholeValueHasher(p, hf) {
							why = "the hash (" + types.ExprString(uc.Args[1]) + ") is not sha256.Sum256 of a single value (it is assembled piecewise, so its input is not the byte sequence that is written)"
							continue
						}
						hashedTxt := types.ExprString(stripConv(den.deref(stripConv(hc.Args[0]), pth.Env)))
						if hashedTxt != bytesTxt {
							why = "the hash is taken over " + hashedTxt + " but " + bytesTxt + " is written"
							continue
						}
						gated = true
					}
					if !gated {
						v.ok, v.why = false, why
					}
					return true
				})
			}
		}
		for i, wc := range order {
			v := byCall[wc]
			n++
			c.check(v.ok, rule, fmt.Sprintf("%s|write#%d(%s)|%s", funcKey(p, fd), i+1, types.ExprString(wc.Args[0]), suffix), c.pos(v.pos), "written only after UpsertHash(<same name>, sha256.Sum256(<same bytes>)) reported a change",
				fmt.Sprintf("%s: %s. Two different contents can then share a hash (moving a literal boundary: `<p>EUR{ t }</p>` → `<p>{ t }EUR</p>` concatenates to the same text), or a file is rewritten / left stale according to another file's hash", fd.Name.Name, v.why))
		}
	}
	return n
}

// textFileNameCanonical: C16.R7 — the generator (which knows the .templ file) and the running program (which knows the
// _templ.go file it was compiled from) must arrive at the SAME text file. The shared name function therefore maps
// the generated file's name to the template's name FIRST and resolves the path (absolute path, symbolic links)
// afterwards: resolving first makes the two callers resolve two different files — for a template that is a symbolic
// link they end up in different directories, and the program finds no text file. Decided on the CFG of the exported
// name function: the test for the generated-file suffix dominates every call of filepath.Abs / filepath.EvalSymlinks.
func textFileNameCanonical(c *Ctx, rule string) {
	p := c.pkg("runtime")
	info := p.TypesInfo
	fd := findFunc(p, "", "GetDevModeTextFileName")
	if fd == nil {
		c.viol(rule, "anchor-lost:GetDevModeTextFileName", "", "runtime.GetDevModeTextFileName (exported; called by the generator and by generated code's runtime) not found")
		return
	}
	fc := newFnCFG(fd.Body, info)
	var suffixTests, rewrites []ast.Node
	var resolves []*ast.CallExpr
	ast.Inspect(fd.Body, func(n ast.Node) bool {
		call, ok := n.(*ast.CallExpr)
		if !ok {
			return true
		}
		fn := calleeOf(info, call)
		if fn == nil {
			return true
		}
		switch fullName(fn) {
		case "strings.HasSuffix", "strings.CutSuffix":
			if len(call.Args) == 2 {
				if s, ok := constString(info, call.Args[1]); ok && strings.HasSuffix(s, "_templ.go") {
					suffixTests = append(suffixTests, call)
				}
			}
		case "strings.TrimSuffix":
			if len(call.Args) == 2 {
				if s, ok := constString(info, call.Args[1]); ok && strings.HasSuffix(s, "_templ.go") {
					rewrites = append(rewrites, call)
				}
			}
		case "path/filepath.Abs", "path/filepath.EvalSymlinks", "os.Readlink":
			resolves = append(resolves, call)
		}
		return true
	})
	key := funcKey(p, fd)
	if len(suffixTests)+len(rewrites) == 0 {
		c.viol(rule, key+"|maps-generated-name-to-template-name", c.pos(fd.Pos()), "GetDevModeTextFileName no longer maps a …_templ.go name to the template's name: the running program and the generator hash different names and never meet")
		return
	}
	c.ok(rule, key+"|maps-generated-name-to-template-name", c.pos(fd.Pos()), "the _templ.go suffix is mapped to .templ")
	anchors := append(append([]ast.Node{}, suffixTests...), rewrites...)
	for i, r := range resolves {
		dom := false
		for _, a := range anchors {
			if fc.dominates(a, r) {
				dom = true
			}
		}
		c.check(dom, rule, fmt.Sprintf("%s|resolve#%d-after-name-mapping", key, i+1), c.pos(r.Pos()), "the path is resolved after the generated-file name was mapped to the template name",
			fmt.Sprintf("GetDevModeTextFileName resolves the path (%s) before it maps the …_templ.go name to the template's name: the running program resolves the generated Go file while the generator resolves the template — when the template is a symbolic link (or the two differ in any other way the file system can see) they compute different text file names and development mode renders nothing", types.ExprString(r.Fun)))
	}
}

// isLiteralsOfOutput: e is the Literals field of a generator.GeneratorOutput, or a []string parameter of fd that every
// call of fd in the package is handed such a field for (the writing of the text file moved into a helper).
func isLiteralsOfOutput(p *packages.Package, fd *ast.FuncDecl, e ast.Expr, depth int) bool {
	info := p.TypesInfo
	e = ast.Unparen(e)
	if se, ok := e.(*ast.SelectorExpr); ok && se.Sel.Name == "Literals" {
		if sel, ok := info.Selections[se]; ok && sel.Kind() == types.FieldVal && strings.HasSuffix(strings.TrimPrefix(sel.Recv().String(), "*"), "/generator.GeneratorOutput") {
			return true
		}
	}
	id, ok := e.(*ast.Ident)
	if !ok || fd == nil || depth > 1 {
		return false
	}
	idx := -1
	k := 0
	for _, prm := range fd.Type.Params.List {
		for _, nm := range prm.Names {
			if info.Defs[nm] == info.ObjectOf(id) {
				idx = k
			}
			k++
		}
	}
	if idx < 0 {
		return false
	}
	nsites, all := 0, true
	for _, cfd := range allFuncDecls(p) {
		if cfd.Body == nil {
			continue
		}
		ast.Inspect(cfd.Body, func(n ast.Node) bool {
			call, ok := n.(*ast.CallExpr)
			if !ok || types.Object(calleeOf(info, call)) != info.Defs[fd.Name] || idx >= len(call.Args) {
				return true
			}
			nsites++
			if !isLiteralsOfOutput(p, cfd, call.Args[idx], depth+1) {
				all = false
			}
			return true
		})
	}
	return nsites > 0 && all
}
