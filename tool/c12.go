package main

import (
	"fmt"
	"go/ast"
	"go/constant"
	"go/token"
	"go/types"
	"os"
	"sort"
	"strings"
)

func init() {
	register(&propDef{
		ID:          "C12",
		Explanation: "Decides, for the per-context registries of package templ and the generator's hoisting: R1 every `already rendered?` query is a check-then-record — on the not-yet-rendered side the paired record call follows with the same key, and the emission of the script/class/once body sits on that side only; R2 the registry methods touch only fields of their receiver (no package-level state), and the registry lives in the context value created per InitializeContext; R3 the two type switches over class containers agree: every container type from which the class-NAME switch extracts a component class has an acting case in the CSS-RULE switch, and every acting case of the rule switch has a case in the name switch (otherwise a class is named without its rule, or ruled under the unknown-type name); R4 on every emission path of an element writer, the calls that emit RenderCSSItems / RenderScriptItems precede the element's `<name` literal (GEM); R5 the CSS middleware records every registered class in the context it passes to the next handler and serves them from the stylesheet endpoint. R6 the map fields of the per-render state are only assigned freshly made maps (never an existing map, which would be shared between requests); R7 the once-handle registry is keyed by the handle's identity (its pointer), not by a field that only the constructor sets. R8 a render has one state object (stored by InitializeContext only, never copied by value), so marks are seen by the whole render. R9 the collector of script definitions and the attribute writer hand the event-handler predicate the attribute name in the same form. R10 every element emitter of the generator that hands an attribute list to the attribute emitter has handed the same list to the script collector first on every path (dominance), and the collector looks into both arms of conditional attributes. NOT decided: counts/positions in concrete rendered documents. R11 the collector of an element's script attributes hands the Then/Else lists of a conditional attribute to code that looks for conditional attributes itself (nesting). R12 a caller's slice of items is never filtered or appended to in place. R1 also follows forwarding accessors (`return v.seen(prefix + s)`). R3 tells the class-name switch and the CSS-rule switch apart by what they read. R13 over the paths of the CSS-rule function (helpers enumerated in place): the Key of a KeyValue[…, bool] is handed on for rendering only on paths that found its Value true. R14 every Sum of a hash is Sum(nil) on a hash that was written to (the short hash in a script's JavaScript name digests the body). R5 also: the stylesheet endpoint writes from the exported class list as it is at the request, not from a copy kept in another field. R15 the generator emits one name into ComponentScript.Name, the `function <name>(` of the definition and both call fields (GEM over the field table, also when it is built by a helper). R16 a function of the runtime that uses a ComponentScript's Call / CallInline has handed the script to RenderScriptItems first. R17 OnceHandle.Once records the handle before every render of its content; R18 the methods of ComponentHandler (and the helpers they call) hand the request's context on as it came: no InitializeContext, ClearChildren or WithChildren.",
		Assumptions: []string{"map membership is the only state of the registry"},
		Trusted:     []string{"go/types", "go/parser", "x/tools go/packages, go/cfg"},
		Run:         runC12,
	})
}

func runC12(c *Ctx) {
	c.load(".", "./generator", "./parser/v2")
	renderStateMapsFresh(c, "C12.R6")
	onceRegistryKey(c, "C12.R7")
	renderStateSingle(c, "C12.R8")
	scriptAttributeSitesAgree(c, "C12.R9")
	scriptsCollectedBeforeAttributes(c, "C12.R10")
	scriptCollectorDescends(c, "C12.R11")
	sharedSlicesNotAppendedInPlace(c, "C12.R12", ".")
	scriptRegisteredUnderItsFunctionName(c, "C12.R15")
	scriptCallsWrittenAfterTheirDefinition(c, "C12.R16")
	handlerHandsTheRequestContextOn(c, "C12.R18")
	onceMarksBeforeItRenders(c, "C12.R17")
	p := c.pkg(".")
	info := p.TypesInfo

	// registry methods: methods of the context value type (the type stored under the context key)
	ctxType := ""
	if nt := renderStateType(c); nt != nil {
		ctxType = nt.Obj().Name()
	}
	if ctxType == "" {
		c.viol("C12.R2", "anchor-lost:context-value", "", "templ.InitializeContext (exported) does not allocate a context value")
		return
	}
	type regMethod struct {
		fd     *ast.FuncDecl
		obj    *types.Func
		field  string
		pref   string
		query  bool
		writes bool // stores into the map: a recorder — or, when it also answers, a test-and-set
	}
	var methods []regMethod
	for _, fd := range allFuncDecls(p) {
		if fd.Recv == nil || recvTypeName(fd.Recv.List[0].Type) != ctxType {
			continue
		}
		rm := regMethod{fd: fd, obj: info.Defs[fd.Name].(*types.Func)}
		if fd.Type.Results != nil && len(fd.Type.Results.List) == 1 {
			if t := info.TypeOf(fd.Type.Results.List[0].Type); t != nil && t.String() == "bool" {
				rm.query = true
			}
		}
		// the map (or set) field consulted with the parameter, and the constant key prefix. The map may be reached
		// through an accessor method of the same type (lazy creation): v.m()[k], through a helper that is handed the
		// field's address: ensure(&v.m)[k], or be a set type of the package: v.m.has(k)
		for _, acc := range stateAccessesIn(p, fd.Body) {
			ft := info.TypeOf(acc.Field)
			if ft == nil {
				continue
			}
			if _, isMap := ft.Underlying().(*types.Map); !isMap {
				continue
			}
			rm.field = acc.Field.Sel.Name
			// (a key function — classKey(s) = "class_" + s — is unfolded)
			if be, ok := ast.Unparen(unfoldKeyFunc(info, p.Types, acc.Key, 0)).(*ast.BinaryExpr); ok && be.Op == token.ADD {
				if s, ok := constString(info, be.X); ok {
					rm.pref = s
				}
			}
			if acc.Write {
				rm.writes = true
			}
		}
		if rm.field == "" {
			continue
		}
		methods = append(methods, rm)
		// R2: no package-level variables
		global := ""
		ast.Inspect(fd.Body, func(n ast.Node) bool {
			if id, ok := n.(*ast.Ident); ok {
				if v, ok := info.Uses[id].(*types.Var); ok && v.Parent() == p.Types.Scope() {
					global = id.Name
				}
			}
			return true
		})
		c.check(global == "", "C12.R2", funcKey(p, fd)+"|receiver-state-only", c.pos(fd.Pos()), "touches only fields of its receiver",
			"registry method "+fd.Name.Name+" uses the package-level variable "+global+": contexts would share `already rendered` state")
	}
	// forwarding accessors: a method of the context value whose whole body hands `<constant prefix> + parameter` (or the
	// parameter) to a registry method found above — `return v.seen(scriptKeyPrefix + s)` / `v.markSeen(classKeyPrefix + s)`.
	// It is a registry method of its own, for the key space its prefix selects; the method it forwards to is then plumbing.
	forwarders := map[types.Object]bool{}
	for round := 0; round < 2; round++ {
		for _, fd := range allFuncDecls(p) {
			if fd.Recv == nil || fd.Body == nil || recvTypeName(fd.Recv.List[0].Type) != ctxType || len(fd.Body.List) != 1 || forwarders[info.Defs[fd.Name]] {
				continue
			}
			known := false
			for _, m := range methods {
				if types.Object(m.obj) == info.Defs[fd.Name] {
					known = true
				}
			}
			if known || len(fd.Recv.List[0].Names) != 1 {
				continue
			}
			var call *ast.CallExpr
			switch st := fd.Body.List[0].(type) {
			case *ast.ReturnStmt:
				if len(st.Results) == 1 {
					call, _ = ast.Unparen(st.Results[0]).(*ast.CallExpr)
				}
			case *ast.ExprStmt:
				call, _ = ast.Unparen(st.X).(*ast.CallExpr)
			}
			if call == nil || len(call.Args) < 1 {
				continue
			}
			se, ok := ast.Unparen(call.Fun).(*ast.SelectorExpr)
			if !ok {
				continue
			}
			if rid, ok := ast.Unparen(se.X).(*ast.Ident); !ok || info.ObjectOf(rid) != info.Defs[fd.Recv.List[0].Names[0]] {
				continue
			}
			var target *regMethod
			for i := range methods {
				if types.Object(methods[i].obj) == info.ObjectOf(se.Sel) && methods[i].pref == "" {
					target = &methods[i]
				}
			}
			if target == nil {
				continue
			}
			// one argument carries the accessor's own parameter (possibly behind a constant prefix); every other
			// argument is a constant (the kind of item): together they select the key space
			pref := ""
			var arg ast.Expr
			okArgs := true
			for _, a := range call.Args {
				a = ast.Unparen(a)
				if tv, isConst := info.Types[a]; isConst && tv.Value != nil {
					if tv.Value.Kind() == constant.String {
						pref += constant.StringVal(tv.Value)
					} else {
						pref += tv.Value.ExactString()
					}
					continue
				}
				if arg != nil {
					okArgs = false
				}
				arg = a
			}
			if !okArgs || arg == nil {
				continue
			}
			if be, ok := arg.(*ast.BinaryExpr); ok && be.Op == token.ADD {
				if sv, ok := constString(info, be.X); ok {
					pref += sv
					arg = ast.Unparen(be.Y)
				}
			}
			aid, ok := arg.(*ast.Ident)
			if !ok {
				continue
			}
			isParam := false
			for _, prm := range fd.Type.Params.List {
				for _, nm := range prm.Names {
					if info.Defs[nm] == info.ObjectOf(aid) {
						isParam = true
					}
				}
			}
			if !isParam {
				continue
			}
			rm := regMethod{fd: fd, obj: info.Defs[fd.Name].(*types.Func), field: target.field, pref: pref, query: target.query, writes: target.writes}
			if rm.query {
				if fd.Type.Results == nil || len(fd.Type.Results.List) != 1 {
					continue
				}
			}
			forwarders[info.Defs[fd.Name]] = true
			methods = append(methods, rm)
		}
	}
	pair := func(q regMethod) *regMethod {
		for i := range methods {
			m := &methods[i]
			if q.writes && m.obj == q.obj {
				return m // a test-and-set: asking records
			}
			if !m.query && m.field == q.field && m.pref == q.pref {
				return m
			}
		}
		return nil
	}
	// R1: every call of a query
	nq := 0
	collectors := map[types.Object]bool{} // functions that put not-yet-rendered items on a list instead of writing them
	for _, b := range funcBodies(p) {
		if b.Decl != nil && forwarders[info.Defs[b.Decl.Name]] {
			continue // the forwarded call is the accessor's own answer, not a use of it
		}
		directNodes(b.Body, func(n ast.Node) bool {
			call, ok := n.(*ast.CallExpr)
			if !ok {
				return true
			}
			fn := calleeOf(info, call)
			var q *regMethod
			for i := range methods {
				if methods[i].query && types.Object(methods[i].obj) == types.Object(fn) {
					q = &methods[i]
				}
			}
			if q == nil {
				return true
			}
			// a test-and-set called for its effect only (the answer is dropped) is a recording, not a question
			if q.writes {
				dropped := false
				ast.Inspect(b.Body, func(m ast.Node) bool {
					if es, ok := m.(*ast.ExprStmt); ok && ast.Unparen(es.X) == ast.Expr(call) {
						dropped = true
					}
					return true
				})
				if dropped {
					return true
				}
			}
			nq++
			key := fmt.Sprintf("%s|check-then-record:%s", funcKey(p, b.Decl), q.fd.Name.Name)
			rec := pair(*q)
			if rec == nil {
				c.viol("C12.R1", key, c.pos(call.Pos()), "no record method pairs with the query "+q.fd.Name.Name)
				return true
			}
			argTxt := ""
			if len(call.Args) == 1 {
				argTxt = types.ExprString(call.Args[0])
			}
			// find the if statement testing this call
			var is *ast.IfStmt
			negated := false
			ast.Inspect(b.Body, func(m ast.Node) bool {
				if s, ok := m.(*ast.IfStmt); ok {
					cond := ast.Unparen(s.Cond)
					if ue, ok := cond.(*ast.UnaryExpr); ok && ue.Op == token.NOT && ast.Unparen(ue.X) == ast.Expr(call) {
						is, negated = s, true
					}
					if cond == ast.Expr(call) {
						is, negated = s, false
					}
				}
				return true
			})
			if is == nil {
				c.undec("C12.R1", key, c.pos(call.Pos()), "the query result is not tested directly by an if statement")
				return true
			}
			recCalls := func(root ast.Node, after token.Pos) bool {
				found := false
				ast.Inspect(root, func(m ast.Node) bool {
					if rc, ok := m.(*ast.CallExpr); ok && rc.Pos() >= after {
						if rfn := calleeOf(info, rc); rfn != nil && types.Object(rfn) == types.Object(rec.obj) && len(rc.Args) == 1 && types.ExprString(rc.Args[0]) == argTxt {
							found = true
						}
					}
					return true
				})
				return found
			}
			good := false
			if q.writes {
				good = true // the question itself recorded the key
			} else if negated {
				good = recCalls(is.Body, is.Body.Pos())
			} else {
				// `if Q(k) { return }` / `{ continue }` then record later in the function
				good = blockLeaves(is.Body) && recCalls(b.Body, is.End())
			}
			c.check(good, "C12.R1", key, c.pos(call.Pos()), "on the not-yet-rendered side "+rec.fd.Name.Name+"("+argTxt+") records the same key",
				fmt.Sprintf("%s: the query %s(%s) is not followed, on the not-yet-rendered side, by %s(%s): the body would be emitted again on every use", funcKey(p, b.Decl), q.fd.Name.Name, argTxt, rec.fd.Name.Name, argTxt))
			// the emission is on the not-rendered side only
			if !negated && blockLeaves(is.Body) {
				var emits, before int
				ast.Inspect(b.Body, func(m ast.Node) bool {
					if wc, ok := m.(*ast.CallExpr); ok {
						if se, ok := wc.Fun.(*ast.SelectorExpr); ok && se.Sel.Name == "WriteString" && len(wc.Args) == 1 {
							txt := types.ExprString(wc.Args[0])
							if strings.Contains(txt, ".Function") || strings.Contains(txt, ".Class") {
								emits++
								// inside the `already rendered` branch, or ahead of the test in the same loop body
								if is.Body.Pos() <= wc.Pos() && wc.End() <= is.Body.End() {
									before++
								}
								if enc := enclosingLoopBody(b.Body, is); enc != nil && enc.Pos() <= wc.Pos() && wc.End() <= is.Pos() {
									before++
								}
							}
						}
					}
					return true
				})
				if emits > 0 {
					c.check(before == 0, "C12.R1", key+"|emit-guarded", c.pos(is.Pos()), "the body is emitted only after the `already rendered` test let it through",
						fmt.Sprintf("%s: the script/class body is written before or inside the `already rendered` branch (%d of %d writes)", funcKey(p, b.Decl), before, emits))
				}
			}
			if negated {
				var emits, outside int
				// the item the question is about: s in hasScriptBeenRendered(s.Name)
				var item types.Object
				if len(call.Args) == 1 {
					root := ast.Unparen(call.Args[0])
					for {
						if rs, ok := root.(*ast.SelectorExpr); ok {
							root = ast.Unparen(rs.X)
							continue
						}
						break
					}
					if id, ok := root.(*ast.Ident); ok {
						item = info.ObjectOf(id)
					}
				}
				ast.Inspect(b.Body, func(m ast.Node) bool {
					if wc, ok := m.(*ast.CallExpr); ok {
						if se, ok := wc.Fun.(*ast.SelectorExpr); ok && se.Sel.Name == "WriteString" && len(wc.Args) == 1 {
							txt := types.ExprString(wc.Args[0])
							if strings.Contains(txt, ".Function") || strings.Contains(txt, ".Class") {
								emits++
								if !(is.Body.Pos() <= wc.Pos() && wc.End() <= is.Body.End()) {
									outside++
								}
							}
						}
						// … or the item is put on the list of what is still to be written (the writing happens in a later
						// phase, from that list — see the list rule below)
						if id, ok := wc.Fun.(*ast.Ident); ok && id.Name == "append" && info.Uses[id] == types.Universe.Lookup("append") && item != nil {
							for _, a := range wc.Args[1:] {
								if aid, ok := ast.Unparen(a).(*ast.Ident); ok && info.ObjectOf(aid) == item {
									emits++
									collectors[info.Defs[b.Decl.Name]] = true
									if !(is.Body.Pos() <= wc.Pos() && wc.End() <= is.Body.End()) {
										outside++
									}
								}
							}
						}
					}
					return true
				})
				if emits == 0 {
					return true // nothing of a script / class body is written or collected here (a once-handle renders a component)
				}
				c.check(emits >= 1 && outside == 0, "C12.R1", key+"|emit-guarded", c.pos(is.Pos()), "the body is emitted only when not yet rendered",
					fmt.Sprintf("%s: the script/class body is written outside the `not yet rendered` branch (%d of %d writes)", funcKey(p, b.Decl), outside, emits))
			}
			return true
		})
	}
	// asksRegistry: a query method, or a package function whose body calls one (a wrapper that asks and records)
	var asksRegistry func(fn *types.Func, depth int) bool
	asksRegistry = func(fn *types.Func, depth int) bool {
		for i := range methods {
			if methods[i].query && types.Object(methods[i].obj) == types.Object(fn) {
				return true
			}
		}
		if depth >= 2 || fn.Pkg() != p.Types {
			return false
		}
		found := false
		for _, fd := range allFuncDecls(p) {
			if info.Defs[fd.Name] != types.Object(fn) || fd.Body == nil {
				continue
			}
			ast.Inspect(fd.Body, func(n ast.Node) bool {
				if call, ok := n.(*ast.CallExpr); ok {
					if cf := calleeOf(info, call); cf != nil && cf != fn && asksRegistry(cf, depth+1) {
						found = true
					}
				}
				return !found
			})
		}
		return found
	}
	// the list rule: a function that writes the .Function / .Class of every element of a list it is given, without asking
	// the registry itself, may only be given a list that a collector (above) returned
	for _, b := range funcBodies(p) {
		if b.Decl == nil || b.Decl.Recv != nil {
			continue
		}
		asks := false
		var listParam types.Object
		directNodes(b.Body, func(n ast.Node) bool {
			if call, ok := n.(*ast.CallExpr); ok {
				fn := calleeOf(info, call)
				if fn != nil && asksRegistry(fn, 0) {
					asks = true
				}
			}
			if rs, ok := n.(*ast.RangeStmt); ok && rs.Value != nil {
				vid, _ := rs.Value.(*ast.Ident)
				xid, _ := ast.Unparen(rs.X).(*ast.Ident)
				if vid == nil || xid == nil || !isParamOf(info, b.Decl, xid) {
					return true
				}
				ast.Inspect(rs.Body, func(m ast.Node) bool {
					if wc, ok := m.(*ast.CallExpr); ok {
						if se, ok := wc.Fun.(*ast.SelectorExpr); ok && se.Sel.Name == "WriteString" && len(wc.Args) == 1 {
							if fs, ok := ast.Unparen(wc.Args[0]).(*ast.SelectorExpr); ok && (fs.Sel.Name == "Function" || fs.Sel.Name == "Class") {
								if id, ok := ast.Unparen(fs.X).(*ast.Ident); ok && info.ObjectOf(id) == info.ObjectOf(vid) {
									listParam = info.ObjectOf(xid)
								}
							}
						}
					}
					return true
				})
			}
			return true
		})
		if asks || listParam == nil {
			continue
		}
		pidx := -1
		k := 0
		for _, prm := range b.Decl.Type.Params.List {
			for _, nm := range prm.Names {
				if info.Defs[nm] == listParam {
					pidx = k
				}
				k++
			}
		}
		for _, cb := range funcBodies(p) {
			directNodes(cb.Body, func(n ast.Node) bool {
				call, ok := n.(*ast.CallExpr)
				if !ok || types.Object(calleeOf(info, call)) != info.Defs[b.Decl.Name] || pidx < 0 || pidx >= len(call.Args) {
					return true
				}
				// the argument: a call of a collector, or a local assigned (only) from one
				fromCollector := func(e ast.Expr) bool {
					cc, ok := ast.Unparen(e).(*ast.CallExpr)
					return ok && collectors[types.Object(calleeOf(info, cc))]
				}
				good := fromCollector(call.Args[pidx])
				if id, ok := ast.Unparen(call.Args[pidx]).(*ast.Ident); ok && !good {
					n, all := 0, true
					ast.Inspect(cb.Body, func(m ast.Node) bool {
						if as, ok := m.(*ast.AssignStmt); ok && len(as.Lhs) == len(as.Rhs) {
							for i, l := range as.Lhs {
								if lid, ok := l.(*ast.Ident); ok && info.ObjectOf(lid) == info.ObjectOf(id) {
									n++
									if !fromCollector(as.Rhs[i]) {
										all = false
									}
								}
							}
						}
						return true
					})
					good = n > 0 && all
				}
				c.check(good, "C12.R1", fmt.Sprintf("%s|list-for:%s|from-a-collector", funcKey(p, cb.Decl), b.Decl.Name.Name), c.pos(call.Pos()), "the list written is what the not-yet-rendered collector returned",
					fmt.Sprintf("%s hands %s a list (%s) that is not the result of the function that asks the registry: %s writes every element's body, so bodies already rendered in this context are written again", funcKey(p, cb.Decl), b.Decl.Name.Name, types.ExprString(call.Args[pidx]), b.Decl.Name.Name))
				return true
			})
		}
	}
	if nq < 3 {
		c.viol("C12.R1", "anchor-lost:registry-queries", "", fmt.Sprintf("only %d `already rendered?` queries found (scripts, classes, once handles expected)", nq))
	}

	// R3 ------------------------------------------------------------
	type swInfo struct {
		fd    *ast.FuncDecl
		cases map[string]bool // type string → acts (non-empty body)
		pos   token.Pos
	}
	var nameSw, ruleSw *swInfo
	for _, fd := range allFuncDecls(p) {
		ast.Inspect(fd.Body, func(n ast.Node) bool {
			ts, ok := n.(*ast.TypeSwitchStmt)
			if !ok {
				return true
			}
			si := &swInfo{fd: fd, cases: map[string]bool{}, pos: ts.Pos()}
			mentions := false
			for _, cl := range ts.Body.List {
				cc := cl.(*ast.CaseClause)
				for _, e := range cc.List {
					t := info.TypeOf(e)
					if t == nil {
						continue
					}
					ts := types.TypeString(t, func(pk *types.Package) string { return "" })
					si.cases[ts] = len(cc.Body) > 0
					if strings.Contains(ts, "ComponentCSSClass") {
						mentions = true
					}
				}
			}
			if !mentions {
				return true
			}
			// what the switch does with the classes: asks for their ClassName(), or reads the Class field (the CSS rule)
			// of a component class — in its cases, or in a function of the package that a case hands the value to
			var uses func(root ast.Node, depth int, seen map[types.Object]bool) (name, rule bool)
			uses = func(root ast.Node, depth int, seen map[types.Object]bool) (name, rule bool) {
				ast.Inspect(root, func(m ast.Node) bool {
					switch x := m.(type) {
					case *ast.SelectorExpr:
						if sel, ok := info.Selections[x]; ok {
							if sel.Kind() == types.MethodVal && x.Sel.Name == "ClassName" {
								name = true
							}
							if sel.Kind() == types.FieldVal && x.Sel.Name == "Class" && strings.HasSuffix(strings.TrimPrefix(sel.Recv().String(), "*"), ".ComponentCSSClass") {
								rule = true
							}
						}
					case *ast.CallExpr:
						if fn := calleeOf(info, x); fn != nil && fn.Pkg() == p.Types && depth < 2 && !seen[fn] && types.Object(fn) != info.Defs[fd.Name] {
							seen[fn] = true
							for _, cfd := range allFuncDecls(p) {
								if info.Defs[cfd.Name] == types.Object(fn) && cfd.Body != nil {
									// (only helpers that have no type switch of their own: that would be another container switch)
									own := false
									ast.Inspect(cfd.Body, func(q ast.Node) bool {
										if _, isTS := q.(*ast.TypeSwitchStmt); isTS {
											own = true
										}
										return !own
									})
									if !own {
										n2, r2 := uses(cfd.Body, depth+1, seen)
										name, rule = name || n2, rule || r2
									}
								}
							}
						}
					}
					return true
				})
				return
			}
			usesName, usesRule := uses(ts, 0, map[types.Object]bool{})
			if usesName {
				nameSw = si
			} else if usesRule {
				ruleSw = si
			}
			return true
		})
	}
	if nameSw == nil || ruleSw == nil {
		c.viol("C12.R3", "anchor-lost:class-container-switches", "", "could not find the class-name and the CSS-rule type switches over class containers")
	} else {
		componentCapable := func(t string) bool {
			return strings.Contains(strings.ReplaceAll(t, "ConstantCSSClass", ""), "CSSClass")
		}
		var names []string
		for t := range nameSw.cases {
			names = append(names, t)
		}
		sort.Strings(names)
		for _, t := range names {
			if !componentCapable(t) {
				continue
			}
			acts, has := ruleSw.cases[t]
			c.check(has && acts, "C12.R3", funcKey(p, ruleSw.fd)+"|rule-case-for:"+t, c.pos(ruleSw.pos), "the rule switch acts on "+t,
				fmt.Sprintf("the class-name switch (%s) accepts %s, which can carry a component class, but the CSS-rule switch (%s) has no acting case for it: the class name is rendered and its <style> rule is never emitted", nameSw.fd.Name.Name, t, ruleSw.fd.Name.Name))
		}
		var rules []string
		for t := range ruleSw.cases {
			rules = append(rules, t)
		}
		sort.Strings(rules)
		for _, t := range rules {
			if !ruleSw.cases[t] {
				continue
			}
			_, has := nameSw.cases[t]
			c.check(has, "C12.R3", funcKey(p, nameSw.fd)+"|name-case-for:"+t, c.pos(nameSw.pos), "the name switch knows "+t,
				fmt.Sprintf("the CSS-rule switch (%s) emits rules for %s but the class-name switch (%s) has no case for it: the rule is emitted and the element gets the unknown-type class name", ruleSw.fd.Name.Name, t, nameSw.fd.Name.Name))
		}
	}

	// R13: a conditional item — the Key of a templ.KV(key, cond) — has its rule emitted on exactly the paths on which its
	// Value (the condition) is true: decided over the paths of the rule switch's function, helpers enumerated in place.
	if ruleSw != nil {
		fd := ruleSw.fd
		decls := map[types.Object]*ast.FuncDecl{}
		for _, d := range allFuncDecls(p) {
			decls[info.Defs[d.Name]] = d
		}
		den := &denum{info: info, pkg: p.Types, inits: map[types.Object]ast.Expr{}, limit: 20000, opaqueLoops: true, loopsOnce: true, inlineVals: true, decls: decls,
			noInline: map[types.Object]bool{info.Defs[fd.Name]: true}} // (the recursive call on the item is the use that is looked for)
		den.finish(den.run(fd.Body.List, []dstate{{env: map[types.Object]ast.Expr{}}}))
		key := funcKey(p, fd) + "|conditional-items-emitted-iff-enabled"
		if den.undecided != "" {
			c.undec("C12.R13", key, c.pos(fd.Pos()), den.undecided)
		} else {
			isKV := func(e ast.Expr) bool {
				t := info.TypeOf(e)
				return t != nil && strings.Contains(t.String(), ".KeyValue[") && strings.HasSuffix(t.String(), "bool]")
			}
			nuse := 0
			bad := ""
			for _, pth := range den.paths {
				for _, st := range pth.Trace {
					ast.Inspect(st, func(n ast.Node) bool {
						call, ok := n.(*ast.CallExpr)
						if !ok {
							return true
						}
						for _, a := range call.Args {
							ae := ast.Unparen(den.subst(a, pth.Env, 0))
							se, ok := ae.(*ast.SelectorExpr)
							if !ok || se.Sel.Name != "Key" || !isKV(se.X) {
								continue
							}
							nuse++
							want := types.ExprString(se.X) + ".Value"
							enabled, tested := false, false
							for _, pc := range pth.Conds {
								ce := ast.Unparen(den.subst(pc.Expr, pth.Env, 0))
								val := pc.Val
								for {
									if ue, ok := ce.(*ast.UnaryExpr); ok && ue.Op == token.NOT {
										ce, val = ast.Unparen(ue.X), !val
										continue
									}
									break
								}
								if types.ExprString(ce) == want {
									tested, enabled = true, val
								}
							}
							if os.Getenv("TEMPLVET_DEBUG") == "C12R13" {
								var cs []string
								for _, pc := range pth.Conds {
									cs = append(cs, fmt.Sprintf("%s=%v", types.ExprString(den.subst(pc.Expr, pth.Env, 0)), pc.Val))
								}
								fmt.Fprintf(os.Stderr, "DEBUG C12.R13 use %s at %s conds %v\n", types.ExprString(ae), c.pos(call.Pos()), cs)
							}
							if (!tested || !enabled) && bad == "" {
								how := "without its condition having been looked at"
								if tested {
									how = "on the path on which " + want + " is FALSE"
								}
								bad = fmt.Sprintf("%s is handed on for rendering at %s %s", types.ExprString(ae), c.pos(call.Pos()), how)
							}
						}
						return true
					})
				}
			}
			if nuse == 0 {
				c.viol("C12.R13", "anchor-lost:conditional-css-items", "", "no path of "+fd.Name.Name+" hands the Key of a KeyValue[…, bool] on")
			} else {
				c.check(bad == "", "C12.R13", key, c.pos(fd.Pos()), fmt.Sprintf("%d uses of a conditional item's key, each on a path that found its condition true", nuse),
					fmt.Sprintf("%s: %s — a class that is switched on gets its name but no rule, and one that is switched off gets a rule nobody asked for", fd.Name.Name, bad))
			}
		}
	}

	// R14: the short hash in a script's JavaScript name digests the script's body
	hashSumsAreOfWhatWasWritten(c, "C12.R14", "generator", ".")

	// R4 ------------------------------------------------------------
	gHoist(c, "C12.R4")

	// R5 ------------------------------------------------------------
	if fd := findFunc(p, "CSSMiddleware", "ServeHTTP"); fd == nil {
		c.viol("C12.R5", "anchor-lost:CSSMiddleware.ServeHTTP", "", "templ.CSSMiddleware.ServeHTTP (exported) not found")
	} else {
		key := funcKey(p, fd)
		var ctxObj, vObj types.Object
		ast.Inspect(fd.Body, func(n ast.Node) bool {
			if as, ok := n.(*ast.AssignStmt); ok && len(as.Lhs) == 2 && len(as.Rhs) == 1 {
				if call, ok := as.Rhs[0].(*ast.CallExpr); ok {
					if fn := calleeOf(info, call); fn != nil && fn.Name() == "getContext" && len(call.Args) == 1 && strings.Contains(types.ExprString(call.Args[0]), ".Context()") {
						if a, ok := as.Lhs[0].(*ast.Ident); ok {
							ctxObj = info.ObjectOf(a)
						}
						if b, ok := as.Lhs[1].(*ast.Ident); ok {
							vObj = info.ObjectOf(b)
						}
					}
				}
			}
			return true
		})
		// … or the context is prepared by a helper of the package: ctx := h.withRegisteredClasses(r.Context()), where the
		// helper takes the context value of its parameter, records the classes, and returns that context
		recordsIn := ast.Node(fd.Body)
		if ctxObj == nil {
			ast.Inspect(fd.Body, func(n ast.Node) bool {
				as, ok := n.(*ast.AssignStmt)
				if !ok || len(as.Lhs) != 1 || len(as.Rhs) != 1 {
					return true
				}
				call, ok := as.Rhs[0].(*ast.CallExpr)
				if !ok || len(call.Args) != 1 || !strings.Contains(types.ExprString(call.Args[0]), ".Context()") {
					return true
				}
				hfn := calleeOf(info, call)
				if hfn == nil || hfn.Pkg() != p.Types {
					return true
				}
				for _, hfd := range allFuncDecls(p) {
					if info.Defs[hfd.Name] != types.Object(hfn) || hfd.Body == nil {
						continue
					}
					prms := paramObjs(info, hfd)
					if len(prms) != 1 {
						continue
					}
					var hctx, hv types.Object
					ast.Inspect(hfd.Body, func(m ast.Node) bool {
						if has, ok := m.(*ast.AssignStmt); ok && len(has.Lhs) == 2 && len(has.Rhs) == 1 {
							if gc, ok := has.Rhs[0].(*ast.CallExpr); ok && len(gc.Args) == 1 {
								if gfn := calleeOf(info, gc); gfn != nil && gfn.Name() == "getContext" {
									if aid, ok := ast.Unparen(gc.Args[0]).(*ast.Ident); ok && info.ObjectOf(aid) == prms[0] {
										if a, ok := has.Lhs[0].(*ast.Ident); ok {
											hctx = info.ObjectOf(a)
										}
										if b, ok := has.Lhs[1].(*ast.Ident); ok {
											hv = info.ObjectOf(b)
										}
									}
								}
							}
						}
						return true
					})
					returnsCtx := hctx != nil
					ast.Inspect(hfd.Body, func(m ast.Node) bool {
						if ret, ok := m.(*ast.ReturnStmt); ok {
							if len(ret.Results) != 1 {
								returnsCtx = false
							} else if rid, ok := ast.Unparen(ret.Results[0]).(*ast.Ident); !ok || info.ObjectOf(rid) != hctx {
								returnsCtx = false
							}
						}
						return true
					})
					if returnsCtx && hv != nil {
						if lid, ok := as.Lhs[0].(*ast.Ident); ok {
							ctxObj, vObj, recordsIn = info.ObjectOf(lid), hv, hfd.Body
						}
					}
				}
				return true
			})
		}
		records, passes := false, false
		// the class registry: the (map field, key prefix) whose query method is asked about a class ID somewhere in the package
		classKeys := map[string]bool{}
		for _, b := range funcBodies(p) {
			ast.Inspect(b.Body, func(n ast.Node) bool {
				call, ok := n.(*ast.CallExpr)
				if !ok || len(call.Args) != 1 || !strings.HasSuffix(types.ExprString(call.Args[0]), ".ID") {
					return true
				}
				fn := calleeOf(info, call)
				// a test-and-record method of the state that asks through a query method (firstUseOfClass → hasClassBeenRendered)
				if fn != nil {
					for _, tfd := range allFuncDecls(p) {
						if info.Defs[tfd.Name] != types.Object(fn) || tfd.Recv == nil || tfd.Body == nil || recvTypeName(tfd.Recv.List[0].Type) != ctxType {
							continue
						}
						ast.Inspect(tfd.Body, func(y ast.Node) bool {
							if ic, ok := y.(*ast.CallExpr); ok {
								ifn := calleeOf(info, ic)
								for _, m2 := range methods {
									if m2.query && types.Object(m2.obj) == types.Object(ifn) {
										classKeys[m2.field+"|"+m2.pref] = true
									}
								}
							}
							return true
						})
					}
				}
				for _, m := range methods {
					if m.query && types.Object(m.obj) == types.Object(fn) {
						classKeys[m.field+"|"+m.pref] = true
						// a test-and-record method that asks through the query method (firstUseOfClass → hasClassBeenRendered)
						if m.fd.Body != nil {
							ast.Inspect(m.fd.Body, func(y ast.Node) bool {
								if ic, ok := y.(*ast.CallExpr); ok {
									ifn := calleeOf(info, ic)
									for _, m2 := range methods {
										if m2.query && m2.field != "" && types.Object(m2.obj) == types.Object(ifn) {
											classKeys[m2.field+"|"+m2.pref] = true
										}
									}
								}
								return true
							})
						}
					}
				}
				return true
			})
		}
		scanRoots := []ast.Node{fd.Body}
		if recordsIn != ast.Node(fd.Body) {
			scanRoots = append(scanRoots, recordsIn)
		}
		for _, scanRoot := range scanRoots {
			ast.Inspect(scanRoot, func(n ast.Node) bool {
				switch n := n.(type) {
				case *ast.RangeStmt:
					if strings.HasSuffix(types.ExprString(n.X), ".Classes") {
						ast.Inspect(n.Body, func(m ast.Node) bool {
							if call, ok := m.(*ast.CallExpr); ok {
								if se, ok := call.Fun.(*ast.SelectorExpr); ok {
									if id, ok := se.X.(*ast.Ident); ok && info.ObjectOf(id) == vObj && len(call.Args) == 1 && strings.HasSuffix(types.ExprString(call.Args[0]), ".ID") {
										for _, m := range methods {
											if (!m.query || m.writes) && m.fd.Name.Name == se.Sel.Name && classKeys[m.field+"|"+m.pref] {
												records = true
											}
										}
									}
								}
							}
							return true
						})
						// no filter in the loop
						ast.Inspect(n.Body, func(m ast.Node) bool {
							switch m.(type) {
							case *ast.BranchStmt, *ast.ReturnStmt, *ast.IfStmt:
								records = false
							}
							return true
						})
					}
				case *ast.CallExpr:
					if se, ok := n.Fun.(*ast.SelectorExpr); ok && se.Sel.Name == "ServeHTTP" && len(n.Args) == 2 {
						if wc, ok := n.Args[1].(*ast.CallExpr); ok && strings.HasSuffix(types.ExprString(wc.Fun), ".WithContext") && len(wc.Args) == 1 {
							if id, ok := wc.Args[0].(*ast.Ident); ok && info.ObjectOf(id) == ctxObj {
								passes = true
							}
						}
					}
				}
				return true
			})
		}
		c.check(records, "C12.R5", key+"|records-every-registered-class", c.pos(fd.Pos()), "every registered class is recorded as rendered in the request's context value",
			"the CSS middleware does not record every registered class in the context: classes served by the stylesheet would also be inlined")
		c.check(passes, "C12.R5", key+"|passes-that-context-on", c.pos(fd.Pos()), "the next handler receives the request with that context",
			"the CSS middleware does not pass the context holding the recorded classes to the next handler")
		// the stylesheet endpoint serves when the path matches and returns
		served := false
		if len(fd.Body.List) > 0 {
			if is, ok := fd.Body.List[0].(*ast.IfStmt); ok && strings.Contains(types.ExprString(is.Cond), ".Path") && blockAlwaysReturns(is.Body) && strings.Contains(nodeText(c.fset, is.Body), "CSSHandler.ServeHTTP") {
				served = true
			}
		}
		c.check(served, "C12.R5", key+"|serves-stylesheet", c.pos(fd.Pos()), "the stylesheet path is served by the CSS handler", "the stylesheet path is no longer served by the CSS handler")
		stylesheetServedFromLiveList(c, "C12.R5", fd)
	}
	c.floor("C12.R1", 3)
	c.floor("C12.R3", 6)
}

// blockLeaves: the block ends by leaving the enclosing iteration or function (return / continue / break).
func blockLeaves(b *ast.BlockStmt) bool {
	if blockAlwaysReturns(b) {
		return true
	}
	if len(b.List) == 0 {
		return false
	}
	if br, ok := b.List[len(b.List)-1].(*ast.BranchStmt); ok && (br.Tok == token.CONTINUE || br.Tok == token.BREAK) {
		return true
	}
	return false
}

// enclosingLoopBody: the body of the innermost for/range statement that contains n.
func enclosingLoopBody(root ast.Node, n ast.Node) *ast.BlockStmt {
	var out *ast.BlockStmt
	ast.Inspect(root, func(m ast.Node) bool {
		var body *ast.BlockStmt
		switch l := m.(type) {
		case *ast.ForStmt:
			body = l.Body
		case *ast.RangeStmt:
			body = l.Body
		}
		if body != nil && body.Pos() <= n.Pos() && n.End() <= body.End() {
			out = body
		}
		return true
	})
	return out
}

// scriptAttributeSitesAgree: C12.R9 — the generator has two sites that decide whether an attribute is an event
// handler: the collector that emits the script DEFINITIONS ahead of the element, and the attribute writer that emits
// the CALL. Both go through the same predicate; they must also hand it the attribute name in the same form. If one
// lower-cases the name and the other does not, `ONCLICK={ f() }` gets its call written without its definition.
func scriptAttributeSitesAgree(c *Ctx, rule string) {
	g := c.gem()
	info := g.info
	// the predicate: a func(string) bool in the generator whose body tests prefixes "on"
	var pred types.Object
	for _, gf := range g.order {
		sig, ok := gf.Obj.Type().(*types.Signature)
		if !ok || sig.Params().Len() != 1 || sig.Results().Len() != 1 || sig.Results().At(0).Type().String() != "bool" || sig.Params().At(0).Type().String() != "string" {
			continue
		}
		hasOn := false
		ast.Inspect(gf.Decl.Body, func(x ast.Node) bool {
			if e, ok := x.(ast.Expr); ok {
				if s, isC := constString(info, e); isC && s == "on" {
					hasOn = true
				}
			}
			return true
		})
		if hasOn {
			pred = gf.Obj
		}
	}
	if pred == nil {
		c.viol(rule, "anchor-lost:event-handler-predicate", "", "no func(string) bool testing the \"on\" prefix found in the generator")
		return
	}
	forms := map[string][]string{}
	n := 0
	for _, gf := range g.order {
		ast.Inspect(gf.Decl.Body, func(x ast.Node) bool {
			call, ok := x.(*ast.CallExpr)
			if !ok || len(call.Args) != 1 {
				return true
			}
			if fn := calleeOf(info, call); fn == nil || types.Object(fn) != pred {
				return true
			}
			n++
			form := "as written"
			arg := ast.Unparen(call.Args[0])
			// follow one local assignment
			if id, ok := arg.(*ast.Ident); ok {
				ast.Inspect(gf.Decl.Body, func(y ast.Node) bool {
					if as, ok := y.(*ast.AssignStmt); ok && len(as.Lhs) == 1 && len(as.Rhs) == 1 {
						if lid, ok := as.Lhs[0].(*ast.Ident); ok && info.ObjectOf(lid) == info.ObjectOf(id) {
							arg = ast.Unparen(as.Rhs[0])
						}
					}
					return true
				})
			}
			ast.Inspect(arg, func(y ast.Node) bool {
				if c2, ok := y.(*ast.CallExpr); ok {
					if fn := calleeOf(info, c2); fn != nil && (fullName(fn) == "strings.ToLower" || fullName(fn) == "strings.ToUpper") {
						form = fn.Name()
					}
				}
				return true
			})
			forms[form] = append(forms[form], gf.Name+" ("+c.pos(call.Pos())+")")
			return true
		})
	}
	var desc []string
	for f, sites := range forms {
		desc = append(desc, fmt.Sprintf("%s: %s", f, strings.Join(sites, ", ")))
	}
	sort.Strings(desc)
	c.check(len(forms) <= 1 && n >= 2, rule, pkgGenerator+"."+pred.Name()+"|call-sites-pass-the-name-in-one-form", c.pos(pred.Pos()), fmt.Sprintf("%d call sites, one form (%s)", n, strings.Join(desc, "; ")),
		fmt.Sprintf("the call sites of %s hand it the attribute name in different forms (%s): for a name not written in lower case (ONCLICK, onClick) one site treats the attribute as an event handler and the other does not, so the page contains the handler call without the script definition (or the definition without the call)", pred.Name(), strings.Join(desc, "; ")))
}

// scriptsCollectedBeforeAttributes: C12.R10 — sibling agreement between the element emitters. The attribute emitter
// (the function that type-switches over every attribute kind of a []parser.Attribute) writes `on*` attributes as calls
// of script templates; the function definitions those calls need are emitted by the script collector (the function that
// emits templ.RenderScriptItems for the same list). Every emitter of an element kind that hands its attribute list to
// the attribute emitter must therefore have handed that same list to the collector first, on every path; otherwise the
// element's on* attribute calls a function that was never written to the page ("at or before its first use").
func scriptsCollectedBeforeAttributes(c *Ctx, rule string) {
	gp := c.pkg("generator")
	info := gp.TypesInfo
	attrT, _ := c.pkg("parser/v2").Types.Scope().Lookup("Attribute").(*types.TypeName)
	condT, _ := c.pkg("parser/v2").Types.Scope().Lookup("ConditionalAttribute").(*types.TypeName)
	if attrT == nil || condT == nil {
		c.viol(rule, "anchor-lost:parser.Attribute", "", "parser.Attribute / parser.ConditionalAttribute not found")
		return
	}
	isAttrList := func(t types.Type) bool {
		sl, ok := t.(*types.Slice)
		return ok && types.Identical(sl.Elem(), attrT.Type())
	}
	listParam := func(fd *ast.FuncDecl) int {
		obj, _ := info.Defs[fd.Name].(*types.Func)
		if obj == nil {
			return -1
		}
		sig := obj.Type().(*types.Signature)
		for i := 0; i < sig.Params().Len(); i++ {
			if isAttrList(sig.Params().At(i).Type()) {
				return i
			}
		}
		return -1
	}
	var collector, emitter *ast.FuncDecl
	for _, fd := range allFuncDecls(gp) {
		if fd.Body == nil || listParam(fd) < 0 {
			continue
		}
		ast.Inspect(fd.Body, func(n ast.Node) bool {
			switch x := n.(type) {
			case *ast.BasicLit:
				if x.Kind == token.STRING && strings.Contains(x.Value, "RenderScriptItems(") {
					collector = fd
				}
			case *ast.TypeSwitchStmt:
				if len(x.Body.List) >= 4 {
					emitter = fd
				}
			}
			return true
		})
	}
	if collector == nil || emitter == nil || collector == emitter {
		c.viol(rule, "anchor-lost:script-collector-or-attribute-emitter", "", "the generator's script collector (emits templ.RenderScriptItems for an attribute list) or its attribute emitter (type switch over the attribute kinds) was not found")
		return
	}
	// the collector looks into both arms of conditional attributes (so the conditional-attribute writer needs no collector of its own)
	recurses := map[string]bool{}
	var visit func(fd *ast.FuncDecl, depth int)
	seenFd := map[*ast.FuncDecl]bool{}
	byObj := map[types.Object]*ast.FuncDecl{}
	for _, fd := range allFuncDecls(gp) {
		byObj[info.Defs[fd.Name]] = fd
	}
	visit = func(fd *ast.FuncDecl, depth int) {
		if fd == nil || seenFd[fd] || depth > 4 {
			return
		}
		seenFd[fd] = true
		ast.Inspect(fd.Body, func(n ast.Node) bool {
			switch x := n.(type) {
			case *ast.SelectorExpr:
				if t := info.TypeOf(x.X); t != nil && types.Identical(t, condT.Type()) {
					recurses[x.Sel.Name] = true
				}
			case *ast.CallExpr:
				if fn := calleeOf(info, x); fn != nil {
					visit(byObj[fn], depth+1)
				}
			}
			return true
		})
	}
	visit(collector, 0)
	c.check(recurses["Then"] && recurses["Else"], rule, funcKey(gp, collector)+"|looks-into-both-arms-of-conditional-attributes", c.pos(collector.Pos()), "the collector reads ConditionalAttribute.Then and .Else",
		"the script collector no longer looks into both arms of a conditional attribute: an on* attribute inside `if … { onclick={ s() } }` calls a script that was never emitted")
	emObj := info.Defs[emitter.Name]
	colObj := info.Defs[collector.Name]
	ei, ci := listParam(emitter), listParam(collector)
	n := 0
	for _, fd := range allFuncDecls(gp) {
		if fd.Body == nil || fd == emitter {
			continue
		}
		var emits, collects []*ast.CallExpr
		ast.Inspect(fd.Body, func(x ast.Node) bool {
			if call, ok := x.(*ast.CallExpr); ok {
				switch types.Object(calleeOf(info, call)) {
				case emObj:
					emits = append(emits, call)
				case colObj:
					collects = append(collects, call)
				}
			}
			return true
		})
		if len(emits) == 0 {
			continue
		}
		fc := newFnCFG(fd.Body, info)
		ord := 0
		for _, em := range emits {
			if ei >= len(em.Args) {
				continue
			}
			arg := em.Args[ei]
			// an arm of a conditional attribute: covered by the enclosing element's collector (checked above)
			if se, ok := ast.Unparen(arg).(*ast.SelectorExpr); ok {
				if t := info.TypeOf(se.X); t != nil && types.Identical(t, condT.Type()) {
					continue
				}
			}
			ord++
			n++
			want := types.ExprString(arg)
			ok := false
			for _, col := range collects {
				if ci < len(col.Args) && types.ExprString(col.Args[ci]) == want && fc.happensBefore(col, em) {
					ok = true
				}
			}
			c.check(ok, rule, fmt.Sprintf("%s|attributes#%d|scripts-collected-first", funcKey(gp, fd), ord), c.pos(em.Pos()), "the same attribute list went to the script collector on every path to here",
				fmt.Sprintf("%s writes the attributes %s with %s but has not handed that list to %s first (on every path): an on* / hx-on: attribute of this element kind renders a call of a script template whose function definition is never emitted — the other element emitters all collect scripts first", fd.Name.Name, want, emitter.Name.Name, collector.Name.Name))
		}
	}
	c.count("attribute_emitter_call_sites", n)
	c.floor(rule, 4)
}

// scriptCollectorDescends: C12.R11 — conditional attributes nest (`if a { if b { onclick={ f() } } }`). The function that
// collects the script expressions of an element's attributes (it tests for parser.ConditionalAttribute and returns
// strings) must hand the Then / Else lists of a conditional attribute — element by element or as a list — to code that
// itself looks for conditional attributes: itself, or another function with that type test. A helper that only looks
// at expression attributes drops every script below the first level: the on* attribute is rendered, its function
// definition is not.
func scriptCollectorDescends(c *Ctx, rule string) {
	gp := c.pkg("generator")
	info := gp.TypesInfo
	condT, _ := c.pkg("parser/v2").Types.Scope().Lookup("ConditionalAttribute").(*types.TypeName)
	if condT == nil {
		c.viol(rule, "anchor-lost:parser.ConditionalAttribute", "", "parser.ConditionalAttribute not found")
		return
	}
	isCond := func(e ast.Expr) bool {
		t := info.TypeOf(e)
		if pt, ok := t.(*types.Pointer); ok {
			t = pt.Elem()
		}
		return t != nil && types.Identical(t, condT.Type())
	}
	testsCond := map[types.Object]bool{}
	declOf := map[types.Object]*ast.FuncDecl{}
	for _, fd := range allFuncDecls(gp) {
		if fd.Body == nil {
			continue
		}
		declOf[info.Defs[fd.Name]] = fd
		ast.Inspect(fd.Body, func(n ast.Node) bool {
			switch x := n.(type) {
			case *ast.TypeAssertExpr:
				if x.Type != nil && isCond(x.Type) {
					testsCond[info.Defs[fd.Name]] = true
				}
			case *ast.CaseClause:
				for _, te := range x.List {
					if tv, ok := info.Types[te]; ok && tv.IsType() && isCond(te) {
						testsCond[info.Defs[fd.Name]] = true
					}
				}
			}
			return true
		})
	}
	n := 0
	for _, fd := range allFuncDecls(gp) {
		ob := info.Defs[fd.Name]
		if fd.Body == nil || !testsCond[ob] {
			continue
		}
		returnsStrings := false
		var resList []*ast.Field
		if fd.Type.Results != nil {
			resList = fd.Type.Results.List
		}
		for _, r := range resList {
			if t := info.TypeOf(r.Type); t != nil && t.String() == "[]string" {
				returnsStrings = true
			}
		}
		// (or a collector that fills an accumulator it is handed: a set of strings, a *[]string)
		if !returnsStrings && fd.Recv == nil {
			for _, prm := range fd.Type.Params.List {
				switch t := info.TypeOf(prm.Type).(type) {
				case *types.Map:
					if isStringType(t.Key()) {
						returnsStrings = true
					}
				case *types.Pointer:
					if t.Elem().String() == "[]string" {
						returnsStrings = true
					}
				}
			}
		}
		if !returnsStrings {
			continue
		}
		// every use of <conditional>.Then / .Else
		ast.Inspect(fd.Body, func(x ast.Node) bool {
			se, ok := x.(*ast.SelectorExpr)
			if !ok || (se.Sel.Name != "Then" && se.Sel.Name != "Else") || !isCond(se.X) {
				return true
			}
			n++
			key := fmt.Sprintf("%s|%s|nested-conditionals-followed", funcKey(gp, fd), se.Sel.Name)
			// where does the list go? a range statement whose element is handed to a call, or an argument of a call
			var callee types.Object
			ast.Inspect(fd.Body, func(m ast.Node) bool {
				switch y := m.(type) {
				case *ast.RangeStmt:
					if ast.Unparen(y.X) == ast.Expr(se) {
						if vid, ok := y.Value.(*ast.Ident); ok {
							ast.Inspect(y.Body, func(k ast.Node) bool {
								if call, ok := k.(*ast.CallExpr); ok {
									for _, a := range call.Args {
										if aid, ok := ast.Unparen(a).(*ast.Ident); ok && info.ObjectOf(aid) == info.ObjectOf(vid) {
											if fn := calleeOf(info, call); fn != nil {
												callee = fn
											}
										}
									}
								}
								return true
							})
						}
					}
				case *ast.CallExpr:
					for _, a := range y.Args {
						if ast.Unparen(a) == ast.Expr(se) {
							if fn := calleeOf(info, y); fn != nil {
								callee = fn
							}
						}
					}
				}
				return true
			})
			switch {
			case callee == nil:
				c.undec(rule, key, c.pos(se.Pos()), fmt.Sprintf("%s: could not see what the %s list of a conditional attribute is handed to", fd.Name.Name, se.Sel.Name))
			default:
				c.check(testsCond[callee], rule, key, c.pos(se.Pos()), "handed to "+callee.Name()+", which looks for conditional attributes itself",
					fmt.Sprintf("%s hands the %s list of a conditional attribute to %s, which does not look for conditional attributes: the scripts of a conditional attribute nested inside another one are not collected — the element's on* attribute is rendered, the function it calls is never defined on the page", fd.Name.Name, se.Sel.Name, callee.Name()))
			}
			return true
		})
	}
	c.count("conditional_attribute_lists_in_script_collectors", n)
	c.floor(rule, 2)
}
