package main

import (
	"fmt"
	"go/ast"
	"go/types"
)

// findServeMuxUses: uses of net/http's path multiplexer — http.NewServeMux, the ServeMux type, http.Handle / HandleFunc
// (the default mux) and http.DefaultServeMux.
func findServeMuxUses(info *types.Info, root ast.Node) []*ast.Ident {
	var out []*ast.Ident
	ast.Inspect(root, func(n ast.Node) bool {
		id, ok := n.(*ast.Ident)
		if !ok {
			return true
		}
		ob := info.Uses[id]
		if ob == nil || ob.Pkg() == nil || ob.Pkg().Path() != "net/http" {
			return true
		}
		switch ob.Name() {
		case "NewServeMux", "ServeMux", "DefaultServeMux":
			out = append(out, id)
		case "Handle", "HandleFunc":
			if fn, isFn := ob.(*types.Func); isFn && fn.Type().(*types.Signature).Recv() == nil {
				out = append(out, id)
			}
		}
		return true
	})
	return out
}

// findSilentLimiters: readers that END the stream at a byte count without an error — io.LimitReader, io.LimitedReader,
// io.CopyN.
func findSilentLimiters(info *types.Info, root ast.Node) []*ast.Ident {
	var out []*ast.Ident
	ast.Inspect(root, func(n ast.Node) bool {
		id, ok := n.(*ast.Ident)
		if !ok {
			return true
		}
		ob := info.Uses[id]
		if ob == nil || ob.Pkg() == nil || ob.Pkg().Path() != "io" {
			return true
		}
		switch ob.Name() {
		case "LimitReader", "LimitedReader", "CopyN":
			out = append(out, id)
		}
		return true
	})
	return out
}

// requestsReachUpstreamUnrouted: C20.R17 — the development proxy compares the request path with its own two endpoints
// and hands everything else to the reverse proxy as it came. It does not put net/http's ServeMux in front: a ServeMux
// answers every path that is not in canonical form (`//`, `/./`, `/../`) itself, with a 301 to the cleaned path, so the
// upstream's response for such a request — HTML, JSON, the answer to a POST — never passes through at all.
func requestsReachUpstreamUnrouted(c *Ctx, rule string) {
	p := c.pkg("cmd/templ/generatecmd/proxy")
	info := p.TypesInfo
	n := 0
	for _, fd := range allFuncDecls(p) {
		for i, id := range findServeMuxUses(info, fd) {
			n++
			c.viol(rule, fmt.Sprintf("%s|serve-mux#%d", funcKey(p, fd), i+1), c.pos(id.Pos()),
				fmt.Sprintf("%s uses net/http.%s: a ServeMux in front of the reverse proxy answers every request whose path is not in canonical form (an empty or dot segment: /static//data.json, /a/./b) itself with a 301 to the cleaned path — the upstream's response for that request, whatever its type, is replaced and not passed through byte-identical, and an HTML page reached that way gets no reload script", fd.Name.Name, id.Name))
		}
	}
	for _, f := range p.Syntax {
		for _, d := range f.Decls {
			if gd, ok := d.(*ast.GenDecl); ok {
				for i, id := range findServeMuxUses(info, gd) {
					n++
					c.viol(rule, fmt.Sprintf("%s|decl|serve-mux#%d@%s", p.PkgPath, i+1, id.Name), c.pos(id.Pos()), "the proxy package declares a net/http."+id.Name+": a ServeMux in front of the reverse proxy answers requests with non-canonical paths itself (301), so their upstream responses do not pass through")
				}
			}
		}
	}
	fc, finfo, ok := checkSnippet(c, "package control\nimport \"net/http\"\nfunc f(h http.Handler) http.Handler { m := http.NewServeMux(); m.Handle(\"/\", h); return m }\n")
	c.control(rule+":serve-mux-detector", ok && len(findServeMuxUses(finfo, fc)) == 1)
	if n == 0 {
		c.ok(rule, p.PkgPath+"|no-path-multiplexer", "", "the proxy routes by comparing the path itself; no net/http.ServeMux stands between the request and the reverse proxy")
	}
}

// bodiesAreNotCutSilently: C20.R18 — nothing in the proxy reads a response body through a reader that ends the stream
// at a byte count WITHOUT an error (io.LimitReader, io.LimitedReader, io.CopyN): the rewriter would take the truncated
// bytes for the whole document, append the script, and send a shorter page with a Content-Length that matches it — a
// different document, with nothing to tell the browser so. (A limit that fails — http.MaxBytesReader — is an error path.)
func bodiesAreNotCutSilently(c *Ctx, rule string) {
	p := c.pkg("cmd/templ/generatecmd/proxy")
	info := p.TypesInfo
	n := 0
	for _, fd := range allFuncDecls(p) {
		for i, id := range findSilentLimiters(info, fd) {
			n++
			c.viol(rule, fmt.Sprintf("%s|silent-limit#%d", funcKey(p, fd), i+1), c.pos(id.Pos()),
				fmt.Sprintf("%s reads through io.%s: at the limit the reader reports a clean end of the stream, so a document larger than the limit is cut there, the reload script is appended to the cut text, and the response goes out with a Content-Length that matches the cut — the browser decodes a different document than the upstream sent", fd.Name.Name, id.Name))
		}
	}
	for _, f := range p.Syntax {
		for _, d := range f.Decls {
			if gd, ok := d.(*ast.GenDecl); ok {
				for i, id := range findSilentLimiters(info, gd) {
					n++
					c.viol(rule, fmt.Sprintf("%s|decl|silent-limit#%d@%s", p.PkgPath, i+1, id.Name), c.pos(id.Pos()), "a package-level declaration of the proxy reads through io."+id.Name+": a document larger than the limit is cut there without an error and sent on as if complete")
				}
			}
		}
	}
	fc, finfo, ok := checkSnippet(c, "package control\nimport \"io\"\nfunc f(r io.Reader) ([]byte, error) { return io.ReadAll(io.LimitReader(r, 8<<20)) }\n")
	c.control(rule+":silent-limit-detector", ok && len(findSilentLimiters(finfo, fc)) == 1)
	if n == 0 {
		c.ok(rule, p.PkgPath+"|bodies-read-whole", "", "no reader of the proxy ends a body at a byte count without an error")
	}
}
