package main

import (
	"fmt"
	"go/ast"
	"go/constant"
	"go/importer"
	"go/parser"
	"go/token"
	"go/types"
	"sort"
	"strings"
)

func init() {
	register(&propDef{
		ID:          "C04",
		Explanation: "Decides that the URL sanitiser has the allow-list shape with exactly the listed schemes, and the typed routing — not a WHATWG URL parse of the output: R1 templ.URL is walked as a decision function over the truth assignments of its atoms (colon found, slash before the first colon, one case-insensitive comparison per scheme): the input is returned (converted to SafeURL, unmodified) only when no colon was found, or a slash precedes the first colon, or the text before the first colon equals one of the compared constants; every compared constant is one of {http, https, mailto, tel, ftp, ftps}; every other path returns the constant failure URL, whose own scheme is about:; the compared text is the input up to the FIRST colon; no other normalisation of the input takes place; R2 the generator routes at least (a, href) and (form, action) to the emission `var v templ.SafeURL = <expr>` followed by the HTML-escaped write of string(v) (GEM), and type-level witnesses hold: SafeURL is a defined, non-alias type with underlying string, templ.URL has type func(string) templ.SafeURL, and assigning a plain string variable to a SafeURL variable does not type-check. (the attribute names are compared case-insensitively, as browsers do); R3 the escaper the URL is written through (templ.EscapeString) returns html.EscapeString of its argument on every path: an escaper that keeps existing character references would turn the colon-free, hence accepted, `javascript&colon;…` into a javascript: URL in the attribute. NOT decided: how a browser resolves the returned string (trusted argument: a scheme cannot contain '/', and without ':' there is no scheme), href values arriving through spread attributes. R2 also: the element name by which the dispatcher recognises <a href>/<form action> is the element's Name on every call chain that leads to it — through string parameters, fields of carrier structs and functions that derive one carrier from another.",
		Assumptions: []string{"a URL reference is relative when it has no ':' or a '/' occurs before its first ':'", "strings.EqualFold is case-insensitive equality"},
		Trusted:     []string{"go/types", "go/parser", "x/tools go/packages"},
		Run:         runC04,
	})
}

func runC04(c *Ctx) {
	c.load(".", "./generator")
	escaperIdentity(c, c.flow(), "C04.R3")
	p := c.pkg(".")
	info := p.TypesInfo
	fd := findFunc(p, "", "URL")
	if fd == nil {
		c.viol("C04.R1", "anchor-lost:templ.URL", "", "templ.URL (exported) not found")
		return
	}
	key := funcKey(p, fd)
	var param types.Object
	if len(fd.Type.Params.List) == 1 && len(fd.Type.Params.List[0].Names) == 1 {
		param = info.Defs[fd.Type.Params.List[0].Names[0]]
	}
	urlDecision(c, p, fd)
	_ = key
	_ = param

	// R2 ------------------------------------------------------------
	g := c.gem()
	n := g.names()
	// the URL value writer: emits `var GV templ.SafeURL = UX`
	var urlWriter *GFunc
	// the URL writer is found through its dispatcher: the emitting function called under a condition that names
	// the attribute "href" (so that a change of the emission's own text cannot hide it)
	var viaDispatch *GFunc
	for _, gf := range g.order {
		ast.Inspect(gf.Decl.Body, func(x ast.Node) bool {
			is, ok := x.(*ast.IfStmt)
			if !ok {
				return true
			}
			namesHref := false
			ast.Inspect(is.Cond, func(y ast.Node) bool {
				if e, ok := y.(ast.Expr); ok {
					if s, isC := constString(g.info, e); isC && s == "href" {
						namesHref = true
					}
				}
				return true
			})
			if !namesHref {
				return true
			}
			ast.Inspect(is.Body, func(y ast.Node) bool {
				if call, ok := y.(*ast.CallExpr); ok {
					if fn := calleeOf(g.info, call); fn != nil {
						for _, cand := range g.order {
							if cand.Obj == fn && cand.Emits && viaDispatch == nil {
								viaDispatch = cand
							}
						}
					}
				}
				return true
			})
			return true
		})
	}
	for _, gf := range g.order {
		if !gf.Emits {
			continue
		}
		for _, sk := range g.Skeletons(gf) {
			if sk.File == nil {
				continue
			}
			if gf != viaDispatch {
				if !strings.Contains(sk.Src, "templ.SafeURL = ") {
					continue
				}
				direct := gf == g.nearestEmitter("templ.SafeURL = ")
				if !direct {
					continue
				}
			}
			urlWriter = gf
			// shape: var GV templ.SafeURL = UX ; buffer.WriteString(templ.EscapeString(string(GV)))
			okDecl, okSink := false, false
			gv := ""
			ast.Inspect(sk.File, func(x ast.Node) bool {
				switch x := x.(type) {
				case *ast.ValueSpec:
					if x.Type != nil && types.ExprString(x.Type) == "templ.SafeURL" && len(x.Values) == 1 && strings.HasPrefix(types.ExprString(x.Values[0]), "UX") {
						okDecl = true
						gv = x.Names[0].Name
					}
				case *ast.CallExpr:
					if n.ok && callName(x) == n.Buf+".WriteString" && len(x.Args) == 1 {
						if types.ExprString(x.Args[0]) == "templ.EscapeString(string("+gv+"))" && gv != "" {
							okSink = true
						}
					}
				}
				return true
			})
			c.check(okDecl && okSink, "C04.R2", gf.Key+"|typed-then-escaped", c.pos(gf.Decl.Pos()), "var v templ.SafeURL = <expr>; WriteString(templ.EscapeString(string(v)))",
				gf.Name+": the URL attribute emission is not `var v templ.SafeURL = <expr>` followed by the HTML-escaped write of string(v). Only the typed declaration makes the Go compiler reject a plain string; a conversion templ.SafeURL(<expr>) or an untyped := accepts any string, so href={ userInput } compiles and is written unsanitised")
		}
	}
	// for the dispatch rule the URL writer is the function that holds the emitting call itself (its text may be judged
	// in a caller it is evaluated into)
	urlSkeletonOwner := urlWriter
	if lit := g.literalEmitter("templ.SafeURL = "); lit != nil && urlWriter != nil {
		urlWriter = lit
	}
	_ = urlSkeletonOwner
	if urlWriter == nil {
		c.viol("C04.R2", "anchor-lost:url-attribute-writer", "", "no generator function emits `var … templ.SafeURL = <expr>`")
	} else {
		// the dispatcher: the function that calls the URL writer. For concrete (element, attribute) pairs the branch it
		// takes is computed from its source — whatever form the test has (inline condition, helper predicate, switch,
		// table loop): evaluating the path conditions on the constants
		found := false
		gp := c.pkg("generator")
		// the function that holds the emitting call may be a phase of the value writer (declare the variable / write it):
		// the writer the dispatcher hands the attribute to is then its only caller, provided that caller writes nothing
		// on the paths that do not go through it
		takesAttrParam := func(gf *GFunc) (attr, name bool) {
			for _, prm := range gf.Decl.Type.Params.List {
				if t := g.info.TypeOf(prm.Type); t != nil {
					if strings.HasSuffix(t.String(), "parser/v2.ExpressionAttribute") {
						attr = true
					}
					if t.String() == "string" {
						name = true
					}
				}
			}
			return
		}
		for lift := 0; lift < 3; lift++ {
			if attr, _ := takesAttrParam(urlWriter); attr {
				break
			}
			var callers []*GFunc
			for _, gf := range g.order {
				if gf != urlWriter && containsCallToObj(g.info, gf.Decl.Body, urlWriter.Obj) {
					callers = append(callers, gf)
				}
			}
			if len(callers) != 1 || usedAsValue(gp, urlWriter.Obj) {
				break
			}
			cand := callers[0]
			if attr, name := takesAttrParam(cand); !attr || name {
				break
			}
			den := &denum{info: g.info, pkg: gp.Types, inits: map[types.Object]ast.Expr{}, limit: 20000, opaqueLoops: true}
			den.finish(den.run(cand.Decl.Body.List, []dstate{{env: map[types.Object]ast.Expr{}}}))
			always := den.undecided == ""
			for _, pth := range den.paths {
				through, writes := false, false
				for _, st := range pth.Trace {
					ast.Inspect(st, func(y ast.Node) bool {
						if call, ok := y.(*ast.CallExpr); ok {
							if fn := calleeOf(g.info, call); fn != nil {
								if types.Object(fn) == urlWriter.Obj {
									through = true
								} else if cg := g.funcs[fn]; cg != nil && cg.Emits || g.emitterKind(call) != "" {
									writes = true
								}
							}
						}
						return true
					})
					if writes && !through {
						always = false
					}
				}
			}
			if !always {
				break
			}
			urlWriter = cand
		}
		// the URL treatment may also be DATA: a package-level descriptor (a struct literal one of whose text fields
		// names templ.SafeURL) that a selector function returns for the URL attributes and one emitter interprets
		var urlDesc types.Object
		for _, nm := range gp.Types.Scope().Names() {
			v, ok := gp.Types.Scope().Lookup(nm).(*types.Var)
			if !ok {
				continue
			}
			if cl, ok := ast.Unparen(pkgVarInit(gp, nm)).(*ast.CompositeLit); ok && pkgVarInit(gp, nm) != nil {
				for _, el := range cl.Elts {
					if kv, ok := el.(*ast.KeyValueExpr); ok {
						if sv, isC := constString(g.info, kv.Value); isC && strings.Contains(sv, "templ.SafeURL") {
							urlDesc = v
						}
					}
				}
			}
		}
		for _, gf := range g.order {
			calls := false
			if urlDesc != nil {
				// with a descriptor, the dispatcher is whoever names it
				ast.Inspect(gf.Decl.Body, func(y ast.Node) bool {
					if id, ok := y.(*ast.Ident); ok && g.info.Uses[id] == urlDesc {
						calls = true
					}
					return true
				})
			}
			ast.Inspect(gf.Decl.Body, func(y ast.Node) bool {
				if urlDesc != nil {
					return false
				}
				if call, ok := y.(*ast.CallExpr); ok {
					if fn := calleeOf(g.info, call); fn != nil && types.Object(fn) == urlWriter.Obj {
						calls = true
					}
				}
				// … or takes it as a method value, to call it through a variable
				if se, ok := y.(*ast.SelectorExpr); ok && g.info.Uses[se.Sel] == urlWriter.Obj {
					calls = true
				}
				return true
			})
			if !calls || gf == urlWriter && urlDesc == nil {
				continue
			}
			found = true
			// parameters: the element name (string) and the attribute (has a Name field)
			var elemObj types.Object
			attrText := ""
			for _, prm := range gf.Decl.Type.Params.List {
				t := g.info.TypeOf(prm.Type)
				for _, nm := range prm.Names {
					if t != nil && t.String() == "string" {
						elemObj = g.info.Defs[nm]
					}
					if t != nil && strings.HasSuffix(t.String(), "parser/v2.ExpressionAttribute") {
						attrText = nm.Name + ".Name"
					}
				}
			}
			var attrObj types.Object
			if attrText == "" {
				// a selector function (element name, attribute name) → value writer: which string is which is read off
				// its call site, where the attribute name is <ExpressionAttribute>.Name
				var prms []types.Object
				for _, prm := range gf.Decl.Type.Params.List {
					for _, nm := range prm.Names {
						prms = append(prms, g.info.Defs[nm])
					}
				}
				for _, fd2 := range allFuncDecls(gp) {
					ast.Inspect(fd2, func(y ast.Node) bool {
						call, ok := y.(*ast.CallExpr)
						if !ok || types.Object(calleeOf(g.info, call)) != gf.Obj || len(call.Args) != len(prms) {
							return true
						}
						for i, a := range call.Args {
							if se, ok := ast.Unparen(a).(*ast.SelectorExpr); ok && se.Sel.Name == "Name" {
								if t := g.info.TypeOf(se.X); t != nil && strings.HasSuffix(t.String(), "parser/v2.ExpressionAttribute") {
									attrObj = prms[i]
								}
							}
						}
						return true
					})
				}
				elemObj = nil
				for _, pr := range prms {
					if pr != attrObj && pr != nil && pr.Type().String() == "string" {
						elemObj = pr
					}
				}
			}
			if elemObj == nil || attrText == "" && attrObj == nil {
				c.undec("C04.R2", gf.Key+"|url-attributes-routed", c.pos(gf.Decl.Pos()), gf.Name+" calls the URL attribute writer but does not take (element name string, parser.ExpressionAttribute)")
				continue
			}
			if why, links := elementNameArrives(c, gp, gf.Decl, elemObj); true {
				c.check(why == "", "C04.R2", gf.Key+"|element-name-arrives", c.pos(gf.Decl.Pos()), fmt.Sprintf("the element name reaches %s from the element's Name on every call chain (%d links followed)", gf.Name, links),
					"the name by which "+gf.Name+" recognises <a href> and <form action> is not the element's name on every call chain: "+why+" — an attribute on that chain is never routed to the URL sanitiser")
			}
			den := &denum{info: g.info, pkg: gp.Types, inits: map[types.Object]ast.Expr{}, limit: 20000, opaqueLoops: true}
			den.finish(den.run(gf.Decl.Body.List, []dstate{{env: map[types.Object]ast.Expr{}}}))
			if den.undecided != "" {
				c.undec("C04.R2", gf.Key+"|url-attributes-routed", c.pos(gf.Decl.Pos()), gf.Name+": "+den.undecided)
				continue
			}
			// the sibling value writers: package-local callees that receive the attribute
			valueWriter := func(st ast.Stmt, env map[types.Object]ast.Expr) (urlW, other bool) {
				ast.Inspect(st, func(y ast.Node) bool {
					call, ok := y.(*ast.CallExpr)
					if !ok {
						return true
					}
					fn := calleeOf(g.info, call)
					if fn == nil {
						// a call through a local that holds, on this path, a function or method value
						switch fv := den.deref(call.Fun, env).(type) {
						case *ast.SelectorExpr:
							fn, _ = g.info.Uses[fv.Sel].(*types.Func)
						case *ast.Ident:
							fn, _ = g.info.Uses[fv].(*types.Func)
						}
					}
					if fn == nil || fn.Pkg() != gp.Types {
						return true
					}
					takesAttr := false
					for _, a := range call.Args {
						if t := g.info.TypeOf(a); t != nil && strings.HasSuffix(t.String(), "parser/v2.ExpressionAttribute") {
							takesAttr = true
						}
					}
					if !takesAttr {
						return true
					}
					// with a descriptor, what says "URL" is the descriptor handed over, not the callee
					if urlDesc != nil {
						for _, a := range call.Args {
							if aid, ok := ast.Unparen(a).(*ast.Ident); ok {
								if av, ok := g.info.Uses[aid].(*types.Var); ok && av.Parent() == gp.Types.Scope() && types.Identical(av.Type(), urlDesc.Type()) {
									if types.Object(av) == urlDesc {
										urlW = true
									} else {
										other = true
									}
									return true
								}
							}
						}
					}
					if types.Object(fn) == urlWriter.Obj {
						urlW = true
					} else {
						other = true
					}
					return true
				})
				return
			}
			route := func(elem, attr string) (string, bool) {
				ce := newCenv(g.info, gp.Types, allFuncDecls(gp))
				ce.byObj[elemObj] = constant.MakeString(elem)
				if attrObj != nil {
					ce.byObj[attrObj] = constant.MakeString(attr)
				} else {
					ce.byText[attrText] = constant.MakeString(attr)
				}
				toURL, toOther, n := 0, 0, 0
				for _, pth := range den.paths {
					if !ce.feasible(pth) {
						continue
					}
					u, o := false, false
					for _, st := range pth.Trace {
						a, b := valueWriter(st, pth.Env)
						u, o = u || a, o || b
					}
					// a selector function: the writer it returns on this path
					if pth.Ret != nil && len(pth.Ret.Results) == 1 {
						var fn *types.Func
						switch fv := den.deref(pth.Ret.Results[0], pth.Env).(type) {
						case *ast.SelectorExpr:
							fn, _ = g.info.Uses[fv.Sel].(*types.Func)
						case *ast.Ident:
							fn, _ = g.info.Uses[fv].(*types.Func)
						}
						// … or the descriptor it returns
						if rid, ok := den.deref(pth.Ret.Results[0], pth.Env).(*ast.Ident); ok && urlDesc != nil {
							if rv, ok := g.info.Uses[rid].(*types.Var); ok && rv.Parent() == gp.Types.Scope() {
								if types.Object(rv) == urlDesc {
									u = true
								} else if types.Identical(rv.Type(), urlDesc.Type()) {
									o = true
								}
							}
						}
						if fn != nil && fn.Pkg() == gp.Types {
							if types.Object(fn) == urlWriter.Obj {
								u = true
							} else if sig, ok := fn.Type().(*types.Signature); ok {
								for i := 0; i < sig.Params().Len(); i++ {
									if strings.HasSuffix(sig.Params().At(i).Type().String(), "parser/v2.ExpressionAttribute") {
										o = true
									}
								}
							}
						}
					}
					if !u && !o {
						continue // left before the value was written (an earlier write failed)
					}
					n++
					if u {
						toURL++
					}
					if o {
						toOther++
					}
				}
				switch {
				case n == 0:
					return "no path writes a value", false
				case toOther > 0:
					return fmt.Sprintf("%d of %d feasible paths hand the value to another writer", toOther, n), false
				}
				return fmt.Sprintf("%d feasible path(s), all through the URL writer", toURL), true
			}
			var bad []string
			for _, pr := range [][2]string{{"a", "href"}, {"form", "action"}} {
				if why, ok := route(pr[0], pr[1]); !ok {
					bad = append(bad, fmt.Sprintf("<%s %s>: %s", pr[0], pr[1], why))
				}
			}
			c.check(len(bad) == 0, "C04.R2", gf.Key+"|url-attributes-routed", c.pos(gf.Decl.Pos()), "<a href> and <form action> are routed to the SafeURL emission on every path",
				fmt.Sprintf("%s does not route %s to the SafeURL emission, so a plain string compiles as a link target", gf.Name, strings.Join(bad, "; ")))
			var badCase []string
			for _, pr := range [][2]string{{"a", "HREF"}, {"a", "Href"}, {"a", "hReF"}, {"form", "ACTION"}, {"form", "Action"}} {
				if _, ok := route(pr[0], pr[1]); !ok {
					badCase = append(badCase, "<"+pr[0]+" "+pr[1]+">")
				}
			}
			c.check(len(badCase) == 0, "C04.R2", gf.Key+"|url-attribute-names-case-insensitive", c.pos(gf.Decl.Pos()), "attribute names are compared case-insensitively",
				fmt.Sprintf("%s takes the plain-string path for %s: HTML attribute names are case-insensitive, so this is a link target in the browser, but its value compiles from any string and is written without the URL sanitiser's type", gf.Name, strings.Join(badCase, ", ")))
			// and nothing else is sent there by mistake is not a safety matter; but a control: an ordinary attribute is NOT routed to the URL writer
			_, ctl := route("div", "title")
			c.control("C04.R2:dispatch-evaluator-distinguishes", !ctl)
		}
		if !found {
			c.viol("C04.R2", "anchor-lost:url-dispatch", "", "no function hands attributes to the URL attribute writer")
		}
	}
	// type-level witnesses
	safeURL, _ := p.Types.Scope().Lookup("SafeURL").(*types.TypeName)
	okType := safeURL != nil && !safeURL.IsAlias()
	if okType {
		_, isNamed := safeURL.Type().(*types.Named)
		b, isBasic := safeURL.Type().Underlying().(*types.Basic)
		okType = isNamed && isBasic && b.Kind() == types.String
	}
	c.check(okType, "C04.R2", modPath+".SafeURL|defined-string-type", "", "SafeURL is a defined (non-alias) type with underlying string",
		"templ.SafeURL is an alias or not a defined string type: any string is then assignable to it and href/action accept unsanitised values")
	urlFn, _ := p.Types.Scope().Lookup("URL").(*types.Func)
	okSig := false
	if urlFn != nil && safeURL != nil {
		sig := urlFn.Type().(*types.Signature)
		okSig = sig.Params().Len() == 1 && sig.Params().At(0).Type().String() == "string" && sig.Results().Len() == 1 && types.Identical(sig.Results().At(0).Type(), safeURL.Type())
	}
	c.check(okSig, "C04.R2", modPath+".URL|signature", "", "func(string) templ.SafeURL", "templ.URL no longer has the type func(string) templ.SafeURL")
	// compile-fail witness
	errs := typeCheckWitness(c, "package witness\nimport \"github.com/a-h/templ\"\nfunc f(s string) { var v templ.SafeURL = s; _ = v }\n")
	c.check(len(errs) > 0, "C04.R2", "witness|string-not-assignable-to-SafeURL", "", fmt.Sprintf("rejected by the type checker: %v", firstN(errs, 1)),
		"`var v templ.SafeURL = s` with s of type string type-checks: the generated code would accept an unsanitised string as a link target")
	errs2 := typeCheckWitness(c, "package witness\nimport \"github.com/a-h/templ\"\nfunc f(s string) { var v templ.SafeURL = templ.URL(s); _ = v }\n")
	c.check(len(errs2) == 0, "C04.R2", "witness|URL-result-assignable", "", "templ.URL(s) is assignable to a SafeURL variable", fmt.Sprintf("the positive witness does not type-check: %v", firstN(errs2, 1)))
	c.floor("C04.R1", 3)
	c.floor("C04.R2", 5)
}

func keysOfBool(m map[string]bool) []string {
	var out []string
	for k := range m {
		out = append(out, k)
	}
	sort.Strings(out)
	return out
}

func firstN(s []string, n int) []string {
	if len(s) > n {
		return s[:n]
	}
	return s
}

// returnsParam: the expression is the parameter, possibly through conversions.
func returnsParam(info *types.Info, e ast.Expr, param types.Object) bool {
	e = ast.Unparen(e)
	if call, ok := e.(*ast.CallExpr); ok && len(call.Args) == 1 {
		if tv, ok := info.Types[call.Fun]; ok && tv.IsType() {
			return returnsParam(info, call.Args[0], param)
		}
		return false
	}
	id, ok := e.(*ast.Ident)
	return ok && info.ObjectOf(id) == param
}

// typeCheckWitness type-checks a tiny source file against the packages loaded from /repo (nothing is built or run).
func typeCheckWitness(c *Ctx, src string) []string {
	fset := token.NewFileSet()
	f, err := parser.ParseFile(fset, "witness.go", src, 0)
	if err != nil {
		return []string{"parse: " + err.Error()}
	}
	var errs []string
	conf := types.Config{
		Importer: witnessImporter{c: c, fallback: importer.Default()},
		Error:    func(err error) { errs = append(errs, err.Error()) },
	}
	_, _ = conf.Check("witness", fset, []*ast.File{f}, nil)
	return errs
}

type witnessImporter struct {
	c        *Ctx
	fallback types.Importer
}

func (w witnessImporter) Import(path string) (*types.Package, error) {
	if p, ok := w.c.loaded[path]; ok && p.Types != nil {
		return p.Types, nil
	}
	if w.fallback == nil {
		return nil, fmt.Errorf("package %s is not loaded", path)
	}
	return w.fallback.Import(path)
}
