package main

import (
	"fmt"
	"go/ast"
	"go/importer"
	"go/parser"
	"go/token"
	"go/types"
	"sort"
	"strings"
)

func init() {
	register(&propDef{
		ID:          "C04",
		Explanation: "Decides that the URL sanitiser has the allow-list shape with exactly the listed schemes, and the typed routing — not a WHATWG URL parse of the output: R1 templ.URL is walked as a decision function over the truth assignments of its atoms (colon found, slash before the first colon, one case-insensitive comparison per scheme): the input is returned (converted to SafeURL, unmodified) only when no colon was found, or a slash precedes the first colon, or the text before the first colon equals one of the compared constants; every compared constant is one of {http, https, mailto, tel, ftp, ftps}; every other path returns the constant failure URL, whose own scheme is about:; the compared text is the input up to the FIRST colon; no other normalisation of the input takes place; R2 the generator routes at least (a, href) and (form, action) to the emission `var v templ.SafeURL = <expr>` followed by the HTML-escaped write of string(v) (GEM), and type-level witnesses hold: SafeURL is a defined, non-alias type with underlying string, templ.URL has type func(string) templ.SafeURL, and assigning a plain string variable to a SafeURL variable does not type-check. (the attribute names are compared case-insensitively, as browsers do); R3 the escaper the URL is written through (templ.EscapeString) returns html.EscapeString of its argument on every path: an escaper that keeps existing character references would turn the colon-free, hence accepted, `javascript&colon;…` into a javascript: URL in the attribute. NOT decided: how a browser resolves the returned string (trusted argument: a scheme cannot contain '/', and without ':' there is no scheme), href values arriving through spread attributes.",
		Assumptions: []string{"a URL reference is relative when it has no ':' or a '/' occurs before its first ':'", "strings.EqualFold is case-insensitive equality"},
		Trusted:     []string{"go/types", "go/parser", "x/tools go/packages"},
		Run:         runC04,
	})
}

// decisionPaths walks a body made of if / return / assignments and returns, per truth assignment of the atoms,
// the return statement reached.
func decisionWalk(list []ast.Stmt, asg map[string]bool) (*ast.ReturnStmt, bool) {
	for _, st := range list {
		switch s := st.(type) {
		case *ast.ReturnStmt:
			return s, true
		case *ast.IfStmt:
			if evalBool(s.Cond, asg) {
				if r, ok := decisionWalk(s.Body.List, asg); ok {
					return r, true
				}
			} else if s.Else != nil {
				switch e := s.Else.(type) {
				case *ast.BlockStmt:
					if r, ok := decisionWalk(e.List, asg); ok {
						return r, true
					}
				case *ast.IfStmt:
					if r, ok := decisionWalk([]ast.Stmt{e}, asg); ok {
						return r, true
					}
				}
			}
		case *ast.AssignStmt, *ast.DeclStmt, *ast.ExprStmt:
			// no control effect
		default:
			return nil, false
		}
	}
	return nil, false
}

func collectConds(list []ast.Stmt, out *[]ast.Expr) bool {
	for _, st := range list {
		switch s := st.(type) {
		case *ast.IfStmt:
			*out = append(*out, s.Cond)
			if !collectConds(s.Body.List, out) {
				return false
			}
			if s.Else != nil {
				switch e := s.Else.(type) {
				case *ast.BlockStmt:
					if !collectConds(e.List, out) {
						return false
					}
				case *ast.IfStmt:
					if !collectConds([]ast.Stmt{e}, out) {
						return false
					}
				}
			}
		case *ast.ReturnStmt, *ast.AssignStmt, *ast.DeclStmt:
		default:
			return false
		}
	}
	return true
}

func runC04(c *Ctx) {
	c.load(".", "./generator")
	escaperIdentity(c, c.flow(), "C04.R3")
	p := c.pkg(".")
	info := p.TypesInfo
	fd := findFunc(p, "", "URL")
	if fd == nil {
		c.viol("C04.R1", "anchor-lost:templ.URL", "", "templ.URL (exported) not found")
		return
	}
	key := funcKey(p, fd)
	var param types.Object
	if len(fd.Type.Params.List) == 1 && len(fd.Type.Params.List[0].Names) == 1 {
		param = info.Defs[fd.Type.Params.List[0].Names[0]]
	}
	var conds []ast.Expr
	if !collectConds(fd.Body.List, &conds) {
		c.undec("C04.R1", key+"|shape", c.pos(fd.Pos()), "templ.URL is not a tree of if/return statements; its decision table cannot be enumerated")
		return
	}
	atomSet := map[string]ast.Expr{}
	var atoms []string
	for _, cd := range conds {
		for _, a := range boolAtomsRaw(cd) {
			s := canonAtom(a)
			if _, ok := atomSet[s]; !ok {
				atomSet[s] = a
				atoms = append(atoms, s)
			}
		}
	}
	// classify atoms
	var schemes []string
	schemeAtom := map[string]string{}
	colonAtom, slashAtom := "", ""
	var compared ast.Expr
	for _, a := range atoms {
		e := atomSet[a]
		switch x := e.(type) {
		case *ast.CallExpr:
			fn := calleeOf(info, x)
			switch fullName(fn) {
			case "strings.EqualFold":
				if s, ok := constString(info, x.Args[1]); ok {
					schemes = append(schemes, s)
					schemeAtom[a] = s
					compared = x.Args[0]
				} else if s, ok := constString(info, x.Args[0]); ok {
					schemes = append(schemes, s)
					schemeAtom[a] = s
					compared = x.Args[1]
				}
			case "strings.ContainsRune", "strings.Contains", "strings.ContainsAny":
				v := ""
				if k, ok := constInt(info, x.Args[1]); ok {
					v = string(rune(k))
				} else if s, ok := constString(info, x.Args[1]); ok {
					v = s
				}
				if v == "/" {
					slashAtom = a
				}
			}
		case *ast.BinaryExpr:
			if (x.Op == token.GEQ && types.ExprString(x.Y) == "0") || (x.Op == token.NEQ && types.ExprString(x.Y) == "-1") || (x.Op == token.GTR && types.ExprString(x.Y) == "-1") {
				colonAtom = a
			}
		}
	}
	sort.Strings(schemes)
	want := []string{"ftp", "ftps", "http", "https", "mailto", "tel"}
	extraSchemes := []string{}
	for _, s := range schemes {
		found := false
		for _, w := range want {
			if strings.EqualFold(s, w) {
				found = true
			}
		}
		if !found {
			extraSchemes = append(extraSchemes, s)
		}
	}
	c.check(len(extraSchemes) == 0 && len(schemes) > 0, "C04.R1", key+"|scheme-allow-list", c.pos(fd.Pos()), "compared constants: "+strings.Join(schemes, ", ")+" (all within the allowed set)",
		fmt.Sprintf("templ.URL compares the scheme with %v, which are outside the allowed set %v", extraSchemes, want))
	unknown := []string{}
	for _, a := range atoms {
		if a != colonAtom && a != slashAtom && schemeAtom[a] == "" {
			unknown = append(unknown, a)
		}
	}
	if colonAtom == "" || slashAtom == "" || len(unknown) > 0 {
		c.undec("C04.R1", key+"|atoms", c.pos(fd.Pos()), fmt.Sprintf("unrecognised conditions in templ.URL (colon test %q, slash test %q, other %v): the decision table cannot be interpreted. The only accepted reason to let an input with a colon through unchecked is a '/' before the first colon; a test that tries to recognise scheme syntax instead is not, because browsers remove tabs, newlines and leading control characters before they read the scheme (\"java\\tscript:\" is a scheme to them)", colonAtom, slashAtom, unknown))
		return
	}
	// the truth table
	nrows, bad := 0, ""
	for _, asg := range assignments(atoms) {
		nrows++
		ret, ok := decisionWalk(fd.Body.List, asg)
		if !ok || len(ret.Results) != 1 {
			bad = "a path does not end in a return"
			break
		}
		anyScheme := false
		for a := range schemeAtom {
			if asg[a] {
				anyScheme = true
			}
		}
		shouldPass := !asg[colonAtom] || asg[slashAtom] || anyScheme
		passes := returnsParam(info, ret.Results[0], param)
		if passes && !shouldPass { // the property is one-directional: a stricter sanitiser is not a violation
			bad = fmt.Sprintf("with colon-found=%v, slash-before-colon=%v, scheme-matches=%v the function returns %s", asg[colonAtom], asg[slashAtom], anyScheme, types.ExprString(ret.Results[0]))
			break
		}
		if !passes {
			// must be the failure constant
			if tv, ok := info.Types[ret.Results[0]]; !ok || tv.Value == nil || !strings.HasPrefix(strings.Trim(tv.Value.ExactString(), `"`), "about:") {
				bad = "a rejecting path returns " + types.ExprString(ret.Results[0]) + ", which is not the constant about: failure URL"
				break
			}
		}
	}
	c.check(bad == "", "C04.R1", key+"|decision-table", c.pos(fd.Pos()), fmt.Sprintf("%d truth assignments over %d atoms: pass-through only if no colon, or slash before it, or an allowed scheme", nrows, len(atoms)),
		"templ.URL: "+bad+" — the sanitiser no longer has the allow-list shape")
	// the compared text is param[:i] with i the FIRST colon; the slash test looks at the same prefix
	firstColon := false
	var idxObj types.Object
	ast.Inspect(fd.Body, func(n ast.Node) bool {
		if as, ok := n.(*ast.AssignStmt); ok && len(as.Rhs) == 1 && len(as.Lhs) == 1 {
			if call, ok := as.Rhs[0].(*ast.CallExpr); ok {
				if fn := calleeOf(info, call); fn != nil {
					switch fullName(fn) {
					case "strings.IndexRune", "strings.IndexByte", "strings.Index":
						v := ""
						if k, ok := constInt(info, call.Args[1]); ok {
							v = string(rune(k))
						} else if s, ok := constString(info, call.Args[1]); ok {
							v = s
						}
						if id, ok := call.Args[0].(*ast.Ident); ok && info.ObjectOf(id) == param && v == ":" {
							firstColon = true
							if lid, ok := as.Lhs[0].(*ast.Ident); ok {
								idxObj = info.ObjectOf(lid)
							}
						}
					}
				}
			}
		}
		return true
	})
	c.check(firstColon, "C04.R1", key+"|first-colon", c.pos(fd.Pos()), "the scheme ends at the first ':' of the unmodified input", "templ.URL no longer locates the first ':' of its unmodified input")
	isPrefix := func(e ast.Expr) bool { // param[:i]
		e = resolveLocal(info, fd, e)
		sl, ok := ast.Unparen(e).(*ast.SliceExpr)
		if !ok || sl.Low != nil || sl.High == nil {
			return false
		}
		id, ok := sl.X.(*ast.Ident)
		hid, ok2 := sl.High.(*ast.Ident)
		return ok && ok2 && info.ObjectOf(id) == param && info.ObjectOf(hid) == idxObj
	}
	slashOn := false
	if call, ok := atomSet[slashAtom].(*ast.CallExpr); ok {
		slashOn = isPrefix(call.Args[0])
	}
	c.check(compared != nil && isPrefix(compared) && slashOn, "C04.R1", key+"|compares-text-before-first-colon", c.pos(fd.Pos()), "scheme and slash tests look at input[:firstColon]",
		"the scheme comparison or the slash test does not look at exactly the input up to the first colon")
	// no normalisation of the input
	norm := ""
	ast.Inspect(fd.Body, func(n ast.Node) bool {
		if call, ok := n.(*ast.CallExpr); ok {
			if fn := calleeOf(info, call); fn != nil && fn.Pkg() != nil && fn.Pkg().Path() == "strings" {
				switch fn.Name() {
				case "IndexRune", "IndexByte", "Index", "ContainsRune", "Contains", "ContainsAny", "EqualFold":
				default:
					norm = fn.Name()
				}
			}
		}
		return true
	})
	c.check(norm == "", "C04.R1", key+"|no-normalisation", c.pos(fd.Pos()), "the input is compared as given (a browser strips/normalises differently; anything not literally allowed is rejected)",
		"templ.URL transforms its input with strings."+norm+" before deciding: what is compared is no longer what is returned")

	// R2 ------------------------------------------------------------
	g := c.gem()
	n := g.names()
	// the URL value writer: emits `var GV templ.SafeURL = UX`
	var urlWriter *GFunc
	// the URL writer is found through its dispatcher: the emitting function called under a condition that names
	// the attribute "href" (so that a change of the emission's own text cannot hide it)
	var viaDispatch *GFunc
	for _, gf := range g.order {
		ast.Inspect(gf.Decl.Body, func(x ast.Node) bool {
			is, ok := x.(*ast.IfStmt)
			if !ok {
				return true
			}
			namesHref := false
			ast.Inspect(is.Cond, func(y ast.Node) bool {
				if e, ok := y.(ast.Expr); ok {
					if s, isC := constString(g.info, e); isC && s == "href" {
						namesHref = true
					}
				}
				return true
			})
			if !namesHref {
				return true
			}
			ast.Inspect(is.Body, func(y ast.Node) bool {
				if call, ok := y.(*ast.CallExpr); ok {
					if fn := calleeOf(g.info, call); fn != nil {
						for _, cand := range g.order {
							if cand.Obj == fn && cand.Emits && viaDispatch == nil {
								viaDispatch = cand
							}
						}
					}
				}
				return true
			})
			return true
		})
	}
	for _, gf := range g.order {
		if !gf.Emits {
			continue
		}
		for _, sk := range g.Skeletons(gf) {
			if sk.File == nil {
				continue
			}
			if gf != viaDispatch {
				if !strings.Contains(sk.Src, "templ.SafeURL = ") {
					continue
				}
				direct := false
				for _, nd := range gf.Tree {
					if e, ok := nd.(Emit); ok {
						for _, pp := range e.Parts {
							if pp.Kind == PConst && strings.Contains(pp.Const, "templ.SafeURL = ") {
								direct = true
							}
						}
					}
				}
				if !direct {
					continue
				}
			}
			urlWriter = gf
			// shape: var GV templ.SafeURL = UX ; buffer.WriteString(templ.EscapeString(string(GV)))
			okDecl, okSink := false, false
			gv := ""
			ast.Inspect(sk.File, func(x ast.Node) bool {
				switch x := x.(type) {
				case *ast.ValueSpec:
					if x.Type != nil && types.ExprString(x.Type) == "templ.SafeURL" && len(x.Values) == 1 && strings.HasPrefix(types.ExprString(x.Values[0]), "UX") {
						okDecl = true
						gv = x.Names[0].Name
					}
				case *ast.CallExpr:
					if n.ok && callName(x) == n.Buf+".WriteString" && len(x.Args) == 1 {
						if types.ExprString(x.Args[0]) == "templ.EscapeString(string("+gv+"))" && gv != "" {
							okSink = true
						}
					}
				}
				return true
			})
			c.check(okDecl && okSink, "C04.R2", gf.Key+"|typed-then-escaped", c.pos(gf.Decl.Pos()), "var v templ.SafeURL = <expr>; WriteString(templ.EscapeString(string(v)))",
				gf.Name+": the URL attribute emission is not `var v templ.SafeURL = <expr>` followed by the HTML-escaped write of string(v). Only the typed declaration makes the Go compiler reject a plain string; a conversion templ.SafeURL(<expr>) or an untyped := accepts any string, so href={ userInput } compiles and is written unsanitised")
		}
	}
	if urlWriter == nil {
		c.viol("C04.R2", "anchor-lost:url-attribute-writer", "", "no generator function emits `var … templ.SafeURL = <expr>`")
	} else {
		// the dispatcher: the condition that selects the URL writer names (a, href) and (form, action)
		found := false
		for _, gf := range g.order {
			ast.Inspect(gf.Decl.Body, func(x ast.Node) bool {
				is, ok := x.(*ast.IfStmt)
				if !ok {
					return true
				}
				calls := false
				ast.Inspect(is.Body, func(y ast.Node) bool {
					if call, ok := y.(*ast.CallExpr); ok {
						if fn := calleeOf(g.info, call); fn != nil && fn == urlWriter.Obj {
							calls = true
						}
					}
					return true
				})
				if !calls {
					return true
				}
				found = true
				// disjunction of conjunctions elementName == "x" && attr.Name == "y"
				pairs := map[string]bool{}
				var caseSensitive []string
				var walk func(e ast.Expr)
				walk = func(e ast.Expr) {
					e = ast.Unparen(e)
					be, ok := e.(*ast.BinaryExpr)
					if !ok {
						return
					}
					if be.Op == token.LOR {
						walk(be.X)
						walk(be.Y)
						return
					}
					if be.Op == token.LAND {
						var consts []string
						for i, side := range []ast.Expr{be.X, be.Y} {
							if b2, ok := ast.Unparen(side).(*ast.BinaryExpr); ok && b2.Op == token.EQL {
								if s, ok := constString(g.info, b2.Y); ok {
									consts = append(consts, s)
									// the attribute name (second conjunct) compared with ==: exact case only
									if i == 1 && !strings.Contains(types.ExprString(b2.X), "ToLower") {
										caseSensitive = append(caseSensitive, s)
									}
								}
							}
							if call, ok := ast.Unparen(side).(*ast.CallExpr); ok && len(call.Args) == 2 {
								if fn := calleeOf(g.info, call); fn != nil && fullName(fn) == "strings.EqualFold" {
									for _, a := range call.Args {
										if s, ok := constString(g.info, a); ok {
											consts = append(consts, s)
										}
									}
								}
							}
						}
						if len(consts) == 2 {
							pairs[consts[0]+"/"+consts[1]] = true
						}
					}
				}
				walk(is.Cond)
				c.check(pairs["a/href"] && pairs["form/action"], "C04.R2", gf.Key+"|url-attributes-routed", c.pos(is.Pos()), fmt.Sprintf("routed to the SafeURL emission: %v", keysOfBool(pairs)),
					fmt.Sprintf("%s routes %v to the SafeURL emission; (a, href) and (form, action) must be among them, otherwise a plain string compiles as a link target", gf.Name, keysOfBool(pairs)))
				c.check(len(caseSensitive) == 0, "C04.R2", gf.Key+"|url-attribute-names-case-insensitive", c.pos(is.Pos()), "attribute names are compared case-insensitively",
					fmt.Sprintf("%s compares the attribute name with == %q: HTML attribute names are case-insensitive, so <a HREF={ s }> (or Href, hReF …) is a link target in the browser but takes the plain-string path here — a string compiles and is written without templ.URL", gf.Name, caseSensitive))
				// it must be the first alternative (no earlier branch can capture href)
				return true
			})
		}
		if !found {
			c.viol("C04.R2", "anchor-lost:url-dispatch", "", "no condition selects the URL attribute writer")
		}
	}
	// type-level witnesses
	safeURL, _ := p.Types.Scope().Lookup("SafeURL").(*types.TypeName)
	okType := safeURL != nil && !safeURL.IsAlias()
	if okType {
		_, isNamed := safeURL.Type().(*types.Named)
		b, isBasic := safeURL.Type().Underlying().(*types.Basic)
		okType = isNamed && isBasic && b.Kind() == types.String
	}
	c.check(okType, "C04.R2", modPath+".SafeURL|defined-string-type", "", "SafeURL is a defined (non-alias) type with underlying string",
		"templ.SafeURL is an alias or not a defined string type: any string is then assignable to it and href/action accept unsanitised values")
	urlFn, _ := p.Types.Scope().Lookup("URL").(*types.Func)
	okSig := false
	if urlFn != nil && safeURL != nil {
		sig := urlFn.Type().(*types.Signature)
		okSig = sig.Params().Len() == 1 && sig.Params().At(0).Type().String() == "string" && sig.Results().Len() == 1 && types.Identical(sig.Results().At(0).Type(), safeURL.Type())
	}
	c.check(okSig, "C04.R2", modPath+".URL|signature", "", "func(string) templ.SafeURL", "templ.URL no longer has the type func(string) templ.SafeURL")
	// compile-fail witness
	errs := typeCheckWitness(c, "package witness\nimport \"github.com/a-h/templ\"\nfunc f(s string) { var v templ.SafeURL = s; _ = v }\n")
	c.check(len(errs) > 0, "C04.R2", "witness|string-not-assignable-to-SafeURL", "", fmt.Sprintf("rejected by the type checker: %v", firstN(errs, 1)),
		"`var v templ.SafeURL = s` with s of type string type-checks: the generated code would accept an unsanitised string as a link target")
	errs2 := typeCheckWitness(c, "package witness\nimport \"github.com/a-h/templ\"\nfunc f(s string) { var v templ.SafeURL = templ.URL(s); _ = v }\n")
	c.check(len(errs2) == 0, "C04.R2", "witness|URL-result-assignable", "", "templ.URL(s) is assignable to a SafeURL variable", fmt.Sprintf("the positive witness does not type-check: %v", firstN(errs2, 1)))
	c.floor("C04.R1", 5)
	c.floor("C04.R2", 5)
}

func keysOfBool(m map[string]bool) []string {
	var out []string
	for k := range m {
		out = append(out, k)
	}
	sort.Strings(out)
	return out
}

func firstN(s []string, n int) []string {
	if len(s) > n {
		return s[:n]
	}
	return s
}

// returnsParam: the expression is the parameter, possibly through conversions.
func returnsParam(info *types.Info, e ast.Expr, param types.Object) bool {
	e = ast.Unparen(e)
	if call, ok := e.(*ast.CallExpr); ok && len(call.Args) == 1 {
		if tv, ok := info.Types[call.Fun]; ok && tv.IsType() {
			return returnsParam(info, call.Args[0], param)
		}
		return false
	}
	id, ok := e.(*ast.Ident)
	return ok && info.ObjectOf(id) == param
}

// resolveLocal follows a single-assignment local to its defining expression.
func resolveLocal(info *types.Info, fd *ast.FuncDecl, e ast.Expr) ast.Expr {
	id, ok := ast.Unparen(e).(*ast.Ident)
	if !ok {
		return e
	}
	ob := info.ObjectOf(id)
	var defs []ast.Expr
	ast.Inspect(fd.Body, func(n ast.Node) bool {
		if as, ok := n.(*ast.AssignStmt); ok && len(as.Lhs) == len(as.Rhs) {
			for i, l := range as.Lhs {
				if lid, ok := l.(*ast.Ident); ok && info.ObjectOf(lid) == ob {
					defs = append(defs, as.Rhs[i])
				}
			}
		}
		return true
	})
	if len(defs) == 1 {
		return defs[0]
	}
	return e
}

// typeCheckWitness type-checks a tiny source file against the packages loaded from /repo (nothing is built or run).
func typeCheckWitness(c *Ctx, src string) []string {
	fset := token.NewFileSet()
	f, err := parser.ParseFile(fset, "witness.go", src, 0)
	if err != nil {
		return []string{"parse: " + err.Error()}
	}
	var errs []string
	conf := types.Config{
		Importer: witnessImporter{c: c, fallback: importer.Default()},
		Error:    func(err error) { errs = append(errs, err.Error()) },
	}
	_, _ = conf.Check("witness", fset, []*ast.File{f}, nil)
	return errs
}

type witnessImporter struct {
	c        *Ctx
	fallback types.Importer
}

func (w witnessImporter) Import(path string) (*types.Package, error) {
	if p, ok := w.c.loaded[path]; ok && p.Types != nil {
		return p.Types, nil
	}
	if w.fallback == nil {
		return nil, fmt.Errorf("package %s is not loaded", path)
	}
	return w.fallback.Import(path)
}
