package main

import (
	"fmt"
	"go/ast"
	"go/types"
	"strings"
)

// everyChangeOfABatchIsApplied: C17.R13 — a didChange notification carries a LIST of content changes, applied in
// order, each to the result of the one before (a full-text change replaces what came before it — not what follows).
// In a function of the proxy that is handed the list and applies changes to a document: the loop over the list applies
// every element (no filter, no early exit), and no successful return precedes the loop. A shortcut that picks one
// change of the batch (the last full-text one, say) and returns drops the others: the server's copy then differs from
// the editor's after one batched notification.
func everyChangeOfABatchIsApplied(c *Ctx, rule string) {
	p := c.pkg("cmd/templ/lspcmd/proxy")
	info := p.TypesInfo
	n := 0
	for _, fd := range allFuncDecls(p) {
		if fd.Body == nil {
			continue
		}
		var batch types.Object
		for _, prm := range fd.Type.Params.List {
			if t := info.TypeOf(prm.Type); t != nil && strings.HasSuffix(t.String(), "TextDocumentContentChangeEvent") && strings.HasPrefix(t.String(), "[]") && len(prm.Names) == 1 {
				batch = info.Defs[prm.Names[0]]
			}
		}
		if batch == nil {
			continue
		}
		// the applying loop: ranges over the list and calls a method named Apply / Overwrite / Replace with the element's fields
		var loop *ast.RangeStmt
		ast.Inspect(fd.Body, func(x ast.Node) bool {
			rs, ok := x.(*ast.RangeStmt)
			if !ok {
				return true
			}
			if id, ok := ast.Unparen(rs.X).(*ast.Ident); !ok || info.ObjectOf(id) != batch {
				return true
			}
			applies := false
			ast.Inspect(rs.Body, func(y ast.Node) bool {
				if call, ok := y.(*ast.CallExpr); ok {
					for _, a := range call.Args {
						if strings.HasSuffix(types.ExprString(a), ".Text") {
							applies = true
						}
					}
				}
				return true
			})
			if applies {
				loop = rs
			}
			return true
		})
		if loop == nil {
			continue // hands the list on (the LSP method), or only inspects it
		}
		n++
		key := funcKey(p, fd)
		// (a) the loop does not filter or stop
		filter := ""
		for _, st := range loop.Body.List {
			ast.Inspect(st, func(y ast.Node) bool {
				switch t := y.(type) {
				case *ast.FuncLit:
					return false
				case *ast.BranchStmt:
					filter = t.Tok.String() + " at " + c.pos(t.Pos())
				case *ast.ReturnStmt:
					// leaving with an error is not a skip
					if len(t.Results) == 0 || types.ExprString(t.Results[len(t.Results)-1]) == "nil" {
						filter = "return at " + c.pos(t.Pos())
					}
				}
				return true
			})
		}
		c.check(filter == "", rule, key+"|loop-applies-every-change", c.pos(loop.Pos()), "the loop over the batch neither skips an element nor stops early",
			fmt.Sprintf("%s: the loop over the batch of content changes leaves or skips (%s): a change of the notification is not applied and the server's text differs from the editor's", fd.Name.Name, filter))
		// (b) no successful return before the loop
		var errResult types.Object
		if fd.Type.Results != nil {
			for _, r := range fd.Type.Results.List {
				if t := info.TypeOf(r.Type); isErrorType(t) && len(r.Names) == 1 {
					errResult = info.Defs[r.Names[0]]
				}
			}
		}
		early := ""
		var walk func(b *ast.BlockStmt)
		walk = func(b *ast.BlockStmt) {
			errSet := false
			for _, st := range b.List {
				if st.Pos() >= loop.Pos() {
					return
				}
				switch t := st.(type) {
				case *ast.AssignStmt:
					for i, l := range t.Lhs {
						if id, ok := l.(*ast.Ident); ok && errResult != nil && info.ObjectOf(id) == errResult && i < len(t.Rhs) && types.ExprString(t.Rhs[i]) != "nil" {
							errSet = true
						}
					}
				case *ast.ReturnStmt:
					ok := false
					if len(t.Results) == 0 {
						ok = errSet
					} else if last := t.Results[len(t.Results)-1]; isErrorType(info.TypeOf(last)) || info.TypeOf(last) != nil && types.ExprString(last) != "nil" && implementsError(info.TypeOf(last)) {
						ok = types.ExprString(last) != "nil"
					} else if fd.Type.Results == nil {
						ok = false
					}
					if !ok && early == "" {
						early = c.pos(t.Pos())
					}
				case *ast.IfStmt:
					walk(t.Body)
					if eb, isB := t.Else.(*ast.BlockStmt); isB {
						walk(eb)
					}
				case *ast.BlockStmt:
					walk(t)
				}
			}
		}
		walk(fd.Body)
		c.check(early == "", rule, key+"|no-success-before-the-loop", c.pos(fd.Pos()), "every return in front of the loop reports an error",
			fmt.Sprintf("%s returns successfully at %s, in front of the loop that applies the batch: on that path the changes of the notification are not applied one after the other — a shortcut that takes one of them (a full-text change) drops the changes that FOLLOW it, and the server's text differs from the editor's", fd.Name.Name, early))
	}
	c.count("batch_appliers", n)
	c.floor(rule, 2)
}

func implementsError(t types.Type) bool {
	if t == nil {
		return false
	}
	errT := types.Universe.Lookup("error").Type().Underlying().(*types.Interface)
	return types.Implements(t, errT)
}

// linLen: e as a·L + b, where L is len(<x>.Lines) for any x, following locals of `in` and — for a value that comes
// from a call of a package-local function — that function's result in the same position (named result assignments or
// returned expressions). ok is false when e is not of that form.
func linLen(p *pkgView, e ast.Expr, in *ast.FuncDecl, depth int) (a, b int64, ok bool) {
	info := p.info
	if depth > 6 || e == nil {
		return 0, 0, false
	}
	e = ast.Unparen(e)
	if v, isC := constInt(info, e); isC {
		return 0, v, true
	}
	switch t := e.(type) {
	case *ast.CallExpr:
		if len(t.Args) == 1 {
			if tv, isT := info.Types[t.Fun]; isT && tv.IsType() {
				return linLen(p, t.Args[0], in, depth+1) // a conversion
			}
			if id, isID := t.Fun.(*ast.Ident); isID && id.Name == "len" {
				if se, isSel := ast.Unparen(t.Args[0]).(*ast.SelectorExpr); isSel && se.Sel.Name == "Lines" {
					return 1, 0, true
				}
			}
		}
	case *ast.BinaryExpr:
		a1, b1, ok1 := linLen(p, t.X, in, depth+1)
		a2, b2, ok2 := linLen(p, t.Y, in, depth+1)
		if !ok1 || !ok2 {
			return 0, 0, false
		}
		switch t.Op.String() {
		case "+":
			return a1 + a2, b1 + b2, true
		case "-":
			return a1 - a2, b1 - b2, true
		}
	case *ast.Ident:
		ob := info.ObjectOf(t)
		if ob == nil || in == nil {
			return 0, 0, false
		}
		// the single assignment of this local / named result in the function
		var rhs ast.Expr
		var fromCall *ast.CallExpr
		idx, nas := 0, 0
		ast.Inspect(in.Body, func(n ast.Node) bool {
			as, isAs := n.(*ast.AssignStmt)
			if !isAs {
				return true
			}
			for i, l := range as.Lhs {
				if lid, isID := l.(*ast.Ident); isID && info.ObjectOf(lid) == ob {
					nas++
					if len(as.Rhs) == len(as.Lhs) {
						rhs = as.Rhs[i]
					} else if len(as.Rhs) == 1 {
						if call, isCall := ast.Unparen(as.Rhs[0]).(*ast.CallExpr); isCall {
							fromCall, idx = call, i
						}
					}
				}
			}
			return true
		})
		if nas != 1 {
			return 0, 0, false
		}
		if rhs != nil {
			return linLen(p, rhs, in, depth+1)
		}
		if fromCall != nil {
			fn := calleeOf(info, fromCall)
			cfd := p.decls[fn]
			if fn == nil || cfd == nil || cfd.Type.Results == nil {
				return 0, 0, false
			}
			// the named result in that position, or the returned expression
			k := 0
			for _, r := range cfd.Type.Results.List {
				for _, nm := range r.Names {
					if k == idx {
						return linLen(p, nm, cfd, depth+1)
					}
					k++
				}
			}
			var ret ast.Expr
			nret := 0
			ast.Inspect(cfd.Body, func(n ast.Node) bool {
				if r, isRet := n.(*ast.ReturnStmt); isRet && idx < len(r.Results) {
					ret = r.Results[idx]
					nret++
				}
				return true
			})
			if nret == 1 {
				return linLen(p, ret, cfd, depth+1)
			}
		}
	}
	return 0, 0, false
}

type pkgView struct {
	info  *types.Info
	decls map[*types.Func]*ast.FuncDecl
}

// wholeDocumentEndsAtTheLastLine: C17.R15 — the whole-document predicate compares the range's end LINE with the index
// of the last line, len(Lines)-1, whatever accessors the number passes through on its way (d.Len(), a local, a
// conversion): the value is followed into the accessor's definition. An accessor whose meaning changed (the count of
// lines → the index of the last line) while this caller still subtracts one makes the predicate true for a range that
// ends on the line BEFORE the last — an ordinary edit there replaces the whole document in the server's copy.
func wholeDocumentEndsAtTheLastLine(c *Ctx, rule string) {
	p := c.pkg("cmd/templ/lspcmd/proxy")
	info := p.TypesInfo
	pv := &pkgView{info: info, decls: map[*types.Func]*ast.FuncDecl{}}
	for _, fd := range allFuncDecls(p) {
		if fn, ok := info.Defs[fd.Name].(*types.Func); ok {
			pv.decls[fn] = fd
		}
	}
	n := 0
	for _, fd := range allFuncDecls(p) {
		if fd.Recv == nil || recvTypeName(fd.Recv.List[0].Type) != "Document" || fd.Type.Results == nil || len(fd.Type.Results.List) != 1 || fd.Type.Params.NumFields() != 1 {
			continue
		}
		if t := info.TypeOf(fd.Type.Results.List[0].Type); t == nil || t.String() != "bool" {
			continue
		}
		if pt := info.TypeOf(fd.Type.Params.List[0].Type); pt == nil || !strings.HasSuffix(pt.String(), "protocol.Range") {
			continue
		}
		k := 0
		ast.Inspect(fd.Body, func(x ast.Node) bool {
			be, ok := x.(*ast.BinaryExpr)
			if !ok || be.Op.String() != "==" {
				return true
			}
			var other ast.Expr
			if strings.HasSuffix(types.ExprString(be.X), "End.Line") {
				other = be.Y
			} else if strings.HasSuffix(types.ExprString(be.Y), "End.Line") {
				other = be.X
			}
			if other == nil {
				return true
			}
			k++
			n++
			key := fmt.Sprintf("%s|end-line#%d|is-the-last-line-index", funcKey(p, fd), k)
			a, b, okLin := linLen(pv, other, fd, 0)
			if !okLin {
				c.ok(rule, key, c.pos(be.Pos()), "the end line is compared with "+types.ExprString(other)+", which is not a plain count of lines plus a constant (not judged)")
				return true
			}
			c.check(a == 1 && b == -1, rule, key, c.pos(be.Pos()), "the end line is compared with len(Lines)-1, followed through "+types.ExprString(other),
				fmt.Sprintf("%s compares the end line of the range with %s, which — followed through the accessors it comes from — is %d·len(Lines)%+d, not the index of the last line (len(Lines)-1): the predicate holds for a range that does not reach the last line, so an ordinary edit that happens to end at that column replaces the WHOLE document in the server's copy while the editor changed a part of it", fd.Name.Name, types.ExprString(other), a, b))
			return true
		})
	}
	c.count("whole_document_end_line_tests", n)
	if n == 0 {
		c.ok(rule, p.PkgPath+"|no-end-line-equality", "", "no (range) → bool method of Document compares End.Line for equality")
	}
}
