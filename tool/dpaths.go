package main

// A small path enumerator for decision functions: bodies made of if / switch / range-over-constant-list / return /
// simple assignments. Every path to a return is listed with the atoms (non-compound conditions) it took and their
// truth values, so that a rule can be stated over paths instead of over one particular statement shape.

import (
	"go/ast"
	"go/constant"
	"go/token"
	"go/types"
	"strings"
)

type pathCond struct {
	Expr ast.Expr
	Val  bool
	At   int // how many statements the path had executed when the condition was taken
}

type dstate struct {
	conds   []pathCond
	env     map[types.Object]ast.Expr
	trace   []ast.Stmt // simple statements executed so far
	inlined ast.Stmt   // the assignment whose left-hand sides were just bound by inlining its call (transient)
}

type dpath struct {
	Conds []pathCond
	Ret   *ast.ReturnStmt // nil when the path runs off the end of the body
	Exit  string          // "" (return / fall off), "continue" or "break" when the body enumerated is a loop body
	Env   map[types.Object]ast.Expr
	Trace []ast.Stmt
}

type denum struct {
	loopBody    bool // the statements enumerated are the body of a loop: continue / break end a path
	opaqueLoops bool // loops that cannot be unrolled are stepped over instead of making the function undecided
	info        *types.Info
	pkg         *types.Package
	inits       map[types.Object]ast.Expr // package-level initialisers
	paths       []dpath
	undecided   string
	limit       int
	inSwitch    int
	decls       map[types.Object]*ast.FuncDecl // package-local functions that may be inlined when they are used as conditions
	inlineDepth int
	loopsOnce   bool                                                        // loops that are not unrolled are entered zero times or once (their body's branches become path conditions)
	iterExit    *[]dstate                                                   // while the body of such a loop is run: where continue / break go
	tsClause    map[ast.Expr]*ast.CaseClause                                // synthetic type atoms → the clause taken (nil: default / no clause)
	tsSwitch    map[ast.Expr]*ast.TypeSwitchStmt                            // … → their type switch
	inlineVals  bool                                                        // value-returning package-local helpers called in simple statements are inlined: the caller's path forks per path of the helper, its results bound to what that path returns
	callVars    map[*ast.CallExpr]types.Object                              // the synthetic variable holding the result of an inlined call that is not assigned to a variable
	inlStack    []*ast.BlockStmt                                            // the bodies being enumerated in place (a recursive call stays a call)
	noInline    map[types.Object]bool                                       // functions that are never followed into (the calls a rule looks for)
	substCalls  bool                                                        // (expand) bindings to calls are substituted too
	loopHook    func(d *denum, loop ast.Stmt, in []dstate) ([]dstate, bool) // a rule's own summary of a loop it understands (states after the loop; paths that return inside are added by the hook)
}

// expand replaces locals by what they are bound to on the path, bindings to calls included: the expression in terms
// of the function's inputs and the calls made, for a rule that asks where a value comes from (not for recording
// conditions: a call is not re-evaluated where its result is used).
func (d *denum) expand(e ast.Expr, env map[types.Object]ast.Expr) ast.Expr {
	old := d.substCalls
	d.substCalls = true
	defer func() { d.substCalls = old }()
	return d.subst(e, env, 0)
}

// callVar: the synthetic variable that holds, on each path, what an inlined helper call in argument position returned.
func (d *denum) callVar(call *ast.CallExpr) types.Object {
	if d.callVars == nil {
		d.callVars = map[*ast.CallExpr]types.Object{}
	}
	if ob := d.callVars[call]; ob != nil {
		return ob
	}
	ob := types.NewVar(call.Pos(), d.pkg, "·call", d.info.TypeOf(call))
	d.callVars[call] = ob
	return ob
}

// inlTarget: the function a call runs, when its body can be enumerated in place.
type inlTarget struct {
	ftype   *ast.FuncType
	body    *ast.BlockStmt
	recv    *ast.Ident // the receiver's name in the callee (nil: none)
	recvArg ast.Expr
	args    []ast.Expr
}

// resolveCall: a declared function or method of the package (d.decls), or — through the local the call goes through —
// a function literal, a function value or a method value held on this state.
func (d *denum) resolveCall(call *ast.CallExpr, env map[types.Object]ast.Expr) *inlTarget {
	if call.Ellipsis.IsValid() {
		return nil
	}
	fun := ast.Unparen(call.Fun)
	if tv, ok := d.info.Types[fun]; ok && tv.IsType() {
		return nil
	}
	var fn *types.Func
	var sel *ast.SelectorExpr
	if f := calleeOf(d.info, call); f != nil {
		fn = f
		sel, _ = fun.(*ast.SelectorExpr)
	} else if inner, ok := fun.(*ast.CallExpr); ok && d.callVars != nil && d.callVars[inner] != nil {
		// the function called is what an (already enumerated) selector call returned on this path: h.responder()(w, r)
		if b, has := env[d.callVars[inner]]; has {
			switch v := ast.Unparen(b).(type) {
			case *ast.FuncLit:
				return d.checkTarget(&inlTarget{ftype: v.Type, body: v.Body, args: call.Args})
			case *ast.Ident:
				fn, _ = d.info.Uses[v].(*types.Func)
			case *ast.SelectorExpr:
				fn, _ = d.info.Uses[v.Sel].(*types.Func)
				sel = v
			}
		}
	} else if id, ok := fun.(*ast.Ident); ok {
		switch v := d.deref(id, env).(type) {
		case *ast.FuncLit:
			return d.checkTarget(&inlTarget{ftype: v.Type, body: v.Body, args: call.Args})
		case *ast.Ident:
			fn, _ = d.info.Uses[v].(*types.Func)
		case *ast.SelectorExpr:
			fn, _ = d.info.Uses[v.Sel].(*types.Func)
			sel = v
		}
	}
	if fn == nil {
		return nil
	}
	fd := d.decls[fn]
	if fd == nil || fd.Body == nil || d.noInline[fn] {
		return nil
	}
	t := &inlTarget{ftype: fd.Type, body: fd.Body, args: call.Args}
	if fd.Recv != nil {
		if len(fd.Recv.List) == 1 && len(fd.Recv.List[0].Names) == 1 {
			t.recv = fd.Recv.List[0].Names[0]
		}
		if sel == nil {
			return nil
		}
		if s, ok := d.info.Selections[sel]; ok && s.Kind() == types.MethodExpr {
			if len(call.Args) == 0 {
				return nil
			}
			t.recvArg, t.args = call.Args[0], call.Args[1:]
		} else {
			t.recvArg = sel.X
		}
	}
	return d.checkTarget(t)
}

func (d *denum) checkTarget(t *inlTarget) *inlTarget {
	n := 0
	variadic := false
	for _, p := range t.ftype.Params.List {
		if len(p.Names) == 0 {
			return nil
		}
		n += len(p.Names)
		if _, ok := p.Type.(*ast.Ellipsis); ok {
			variadic = true
		}
	}
	if variadic && len(t.args) >= n-1 {
		// f(a, x, y, z) for f(a T, rest ...U): rest is the list {x, y, z} (the call has no `...`: see resolveCall)
		rest := &ast.CompositeLit{Elts: append([]ast.Expr{}, t.args[n-1:]...)}
		t.args = append(append([]ast.Expr{}, t.args[:n-1]...), rest)
	}
	if n != len(t.args) {
		return nil
	}
	for _, b := range d.inlStack {
		if b == t.body {
			return nil // recursion: the call stays a call
		}
	}
	return t
}

type inlResult struct {
	state   dstate
	results []ast.Expr
}

// runInlined enumerates the callee's paths from state s with the receiver and parameters bound to the arguments.
func (d *denum) runInlined(t *inlTarget, s dstate, nres int, named []*ast.Ident) ([]inlResult, bool) {
	sub := &denum{info: d.info, pkg: d.pkg, inits: d.inits, decls: d.decls, limit: d.limit, inlineDepth: d.inlineDepth + 1, opaqueLoops: true, loopsOnce: d.loopsOnce,
		inlineVals: true, callVars: d.callVars, tsClause: d.tsClause, tsSwitch: d.tsSwitch, inlStack: append(append([]*ast.BlockStmt{}, d.inlStack...), t.body), noInline: d.noInline, loopHook: d.loopHook}
	argOf := func(arg ast.Expr) ast.Expr {
		if inner, isCall := ast.Unparen(arg).(*ast.CallExpr); isCall {
			if ob := d.callVars[inner]; ob != nil {
				if b, has := s.env[ob]; has {
					return b
				}
			}
		}
		return d.subst(arg, s.env, 0)
	}
	stt := dstate{conds: s.conds, env: s.env, trace: s.trace}
	if t.recv != nil && t.recv.Name != "_" && t.recvArg != nil {
		stt = stt.bind(d.info.Defs[t.recv], argOf(t.recvArg))
	}
	k := 0
	for _, p := range t.ftype.Params.List {
		for _, nm := range p.Names {
			if nm.Name != "_" {
				stt = stt.bind(d.info.Defs[nm], argOf(t.args[k]))
			}
			k++
		}
	}
	sub.finish(sub.run(t.body.List, []dstate{stt}))
	d.callVars, d.tsClause, d.tsSwitch = sub.callVars, sub.tsClause, sub.tsSwitch
	if sub.undecided != "" {
		return nil, false
	}
	var out []inlResult
	for _, pth := range sub.paths {
		if pth.Exit != "" {
			return nil, false
		}
		var res []ast.Expr
		switch {
		case nres == 0:
		case pth.Ret != nil && len(pth.Ret.Results) == nres:
			res = pth.Ret.Results
		case pth.Ret != nil && len(pth.Ret.Results) == 1 && nres > 1:
			res = append(res, pth.Ret.Results[0])
			for k := 1; k < nres; k++ {
				res = append(res, &ast.IndexExpr{X: pth.Ret.Results[0], Index: &ast.BasicLit{Kind: token.INT, Value: string(rune('0' + k))}})
			}
		case len(named) == nres && (pth.Ret == nil || len(pth.Ret.Results) == 0):
			for _, nm := range named {
				res = append(res, nm)
			}
		default:
			return nil, false
		}
		vals := make([]ast.Expr, len(res))
		for k := range res {
			vals[k] = d.subst(res[k], pth.Env, 0)
		}
		trace := pth.Trace
		if pth.Ret != nil && len(trace) > 0 && trace[len(trace)-1] == ast.Stmt(pth.Ret) {
			trace = trace[:len(trace)-1] // the callee's return statement is not a statement of the caller's path
		}
		out = append(out, inlResult{dstate{conds: pth.Conds, env: pth.Env, trace: trace}, vals})
	}
	return out, true
}

// inlineCallsIn forks the states over the paths of every helper that the simple statement st calls (innermost first):
// package-local functions and methods, and function literals / function values held by locals. The results of a call
// whose value the statement assigns are bound to the left-hand sides directly; a call in argument position is bound to
// a synthetic variable (callVar); a call that is the whole statement is replaced by the statements of its body.
func (d *denum) inlineCallsIn(st ast.Stmt, cur []dstate) []dstate {
	if !d.inlineVals || d.decls == nil || d.inlineDepth >= 4 {
		return cur
	}
	var calls []*ast.CallExpr
	ast.Inspect(st, func(n ast.Node) bool {
		if _, ok := n.(*ast.FuncLit); ok {
			return false
		}
		if _, ok := n.(*ast.DeferStmt); ok {
			return false
		}
		if call, ok := n.(*ast.CallExpr); ok {
			calls = append(calls, call)
		}
		return true
	})
	if len(calls) == 0 {
		return cur
	}
	var out []dstate
	for _, s := range cur {
		states := []dstate{s}
		// innermost first: a later call in pre-order that lies inside an earlier one comes first
		for i := len(calls) - 1; i >= 0 && d.undecided == ""; i-- {
			call := calls[i]
			whole := false
			if es, ok := st.(*ast.ExprStmt); ok && ast.Unparen(es.X) == ast.Expr(call) {
				whole = true
			}
			var next []dstate
			for _, s1 := range states {
				if s1.inlined != nil {
					next = append(next, s1)
					continue
				}
				t := d.resolveCall(call, s1.env)
				if t == nil {
					next = append(next, s1)
					continue
				}
				var named []*ast.Ident
				nres := 0
				if t.ftype.Results != nil {
					for _, r := range t.ftype.Results.List {
						named = append(named, r.Names...)
						if len(r.Names) == 0 {
							nres++
						} else {
							nres += len(r.Names)
						}
					}
				}
				var lhs []ast.Expr
				if as, ok := st.(*ast.AssignStmt); ok && len(as.Rhs) == 1 && ast.Unparen(as.Rhs[0]) == ast.Expr(call) && len(as.Lhs) == nres {
					lhs = as.Lhs
				}
				if lhs == nil && nres != 1 && !whole {
					next = append(next, s1)
					continue
				}
				want := nres
				if whole {
					want = 0
				}
				res, ok := d.runInlined(t, s1, want, named)
				if !ok {
					next = append(next, s1) // this helper cannot be enumerated: the call stays an opaque call
					continue
				}
				for _, r := range res {
					ns := r.state
					switch {
					case whole:
						ns.inlined = st
					case lhs != nil:
						for k, l := range lhs {
							if id, isID := l.(*ast.Ident); isID && id.Name != "_" {
								ns = ns.bind(d.info.ObjectOf(id), r.results[k])
							}
						}
						ns.trace = append(append([]ast.Stmt{}, ns.trace...), st)
						ns.inlined = st
					default:
						ns = ns.bind(d.callVar(call), r.results[0])
					}
					next = append(next, ns)
				}
			}
			states = next
		}
		out = append(out, states...)
	}
	return out
}

func (d *denum) noteTS(atom ast.Expr, cc *ast.CaseClause, s *ast.TypeSwitchStmt) {
	if d.tsClause == nil {
		d.tsClause = map[ast.Expr]*ast.CaseClause{}
		d.tsSwitch = map[ast.Expr]*ast.TypeSwitchStmt{}
	}
	d.tsClause[atom] = cc
	d.tsSwitch[atom] = s
}

// typeAtomHolds: is the synthetic type-switch atom consistent with the dynamic type named kind ("nil" for a nil interface)?
func (d *denum) typeAtomHolds(atom ast.Expr, kind string) bool {
	names := func(cc *ast.CaseClause) map[string]bool {
		m := map[string]bool{}
		for _, e := range cc.List {
			t := d.info.TypeOf(e)
			if nt, ok := t.(*types.Named); ok {
				m[nt.Obj().Name()] = true
			} else if pt, ok := t.(*types.Pointer); ok {
				if nt, ok := pt.Elem().(*types.Named); ok {
					m["*"+nt.Obj().Name()] = true
				}
			} else if id, ok := e.(*ast.Ident); ok && id.Name == "nil" {
				m["nil"] = true
			}
		}
		return m
	}
	sw := d.tsSwitch[atom]
	if sw == nil {
		return true
	}
	if cc := d.tsClause[atom]; cc != nil {
		return names(cc)[kind]
	}
	for _, cl := range sw.Body.List {
		if cc := cl.(*ast.CaseClause); cc.List != nil && names(cc)[kind] {
			return false
		}
	}
	return true
}

func (s dstate) with(e ast.Expr, v bool) dstate {
	n := dstate{conds: append(append([]pathCond{}, s.conds...), pathCond{e, v, len(s.trace)}), env: s.env, trace: s.trace}
	return n
}

// rec records an atom with the local variables it mentions replaced by what they are bound to at this point of the
// path (loop variables of unrolled loops and parameters of inlined predicates change their binding later on).
func (d *denum) rec(s dstate, e ast.Expr, v bool) dstate {
	return s.with(d.subst(e, s.env, 0), v)
}

// contradicts: the state already took the same pure field read (x.f.g, nothing assigned to it on the way) with the
// opposite truth value — the combination is infeasible.
func (d *denum) contradicts(s dstate, e ast.Expr, v bool) bool {
	e = ast.Unparen(d.subst(e, s.env, 0))
	// the pure part the atom reads: x.f.g, or x in `x == nil` / `x != nil`
	var read ast.Expr
	switch x := e.(type) {
	case *ast.SelectorExpr:
		read = x
	case *ast.BinaryExpr:
		if (x.Op == token.EQL || x.Op == token.NEQ) && d.inlineVals {
			if id, ok := ast.Unparen(x.Y).(*ast.Ident); ok && id.Name == "nil" {
				read = ast.Unparen(x.X)
			}
		}
	}
	if read == nil {
		return false
	}
	root := read
	for {
		if x, ok := ast.Unparen(root).(*ast.SelectorExpr); ok {
			root = x.X
			continue
		}
		break
	}
	rid, ok := ast.Unparen(root).(*ast.Ident)
	if !ok {
		return false
	}
	rootOf := func(x ast.Expr) types.Object {
		x = ast.Unparen(x)
		if be, ok := x.(*ast.BinaryExpr); ok {
			x = ast.Unparen(be.X)
		}
		for {
			if se, ok := x.(*ast.SelectorExpr); ok {
				x = ast.Unparen(se.X)
				continue
			}
			break
		}
		if id, ok := x.(*ast.Ident); ok {
			return d.info.ObjectOf(id)
		}
		return nil
	}
	txt := types.ExprString(e)
	rtxt := types.ExprString(read)
	for _, pc := range s.conds {
		if pc.Val == v || types.ExprString(pc.Expr) != txt || rootOf(pc.Expr) != d.info.ObjectOf(rid) {
			continue
		}
		// the same read with the opposite outcome, and nothing assigned to what it reads in between
		assigned := false
		from := pc.At
		if _, isSel := e.(*ast.SelectorExpr); isSel {
			from = 0 // (field reads: as before, any assignment on the path counts)
		}
		for _, t := range s.trace[min(from, len(s.trace)):] {
			if as, ok := t.(*ast.AssignStmt); ok {
				for _, l := range as.Lhs {
					lt := types.ExprString(l)
					if (lt == rtxt || strings.HasPrefix(rtxt, lt+".")) && (from == 0 || rootOf(l) == d.info.ObjectOf(rid)) {
						assigned = true
					}
				}
			}
		}
		if !assigned {
			return true
		}
	}
	return false
}

func (d *denum) subst(e ast.Expr, env map[types.Object]ast.Expr, depth int) ast.Expr {
	if e == nil || depth > 8 || d.info == nil {
		return e
	}
	switch x := e.(type) {
	case *ast.Ident:
		ob := d.info.ObjectOf(x)
		if b, ok := env[ob]; ok && ob != nil && !refersTo(d.info, b, ob) && (callFree(b) || d.substCalls) {
			return d.subst(b, env, depth+1)
		}
		return x
	case *ast.ParenExpr:
		if in := d.subst(x.X, env, depth); in != x.X {
			return &ast.ParenExpr{Lparen: x.Lparen, X: in, Rparen: x.Rparen}
		}
	case *ast.UnaryExpr:
		if in := d.subst(x.X, env, depth); in != x.X {
			return &ast.UnaryExpr{OpPos: x.OpPos, Op: x.Op, X: in}
		}
	case *ast.StarExpr:
		if in := d.subst(x.X, env, depth); in != x.X {
			return &ast.StarExpr{Star: x.Star, X: in}
		}
	case *ast.BinaryExpr:
		a, b := d.subst(x.X, env, depth), d.subst(x.Y, env, depth)
		if a != x.X || b != x.Y {
			return &ast.BinaryExpr{X: a, OpPos: x.OpPos, Op: x.Op, Y: b}
		}
	case *ast.SelectorExpr:
		// only a field selection on a substituted local is rewritten; package-qualified names and methods stay
		if sel, ok := d.info.Selections[x]; ok && sel.Kind() == types.FieldVal {
			in := d.subst(x.X, env, depth)
			if id, isID := ast.Unparen(x.X).(*ast.Ident); isID && in == x.X {
				// a local bound to a struct literal some of whose fields are computed by calls: the literal itself is not
				// substituted, but the field selected from it can be looked up
				if ob := d.info.ObjectOf(id); ob != nil {
					if b, bound := env[ob]; bound && !refersTo(d.info, b, ob) {
						lit := ast.Unparen(b)
						if u, isU := lit.(*ast.UnaryExpr); isU && u.Op == token.AND {
							lit = ast.Unparen(u.X)
						}
						if _, isCL := lit.(*ast.CompositeLit); isCL {
							in = b
						}
					}
				}
			}
			if in != x.X {
				// a field of a struct literal: what the literal gives the field (nil for an absent pointer / interface field)
				lit := ast.Unparen(in)
				if u, isU := lit.(*ast.UnaryExpr); isU && u.Op == token.AND {
					lit = ast.Unparen(u.X)
				}
				if cl, isCL := lit.(*ast.CompositeLit); isCL {
					keyed, found := true, ast.Expr(nil)
					for _, el := range cl.Elts {
						kv, isKV := el.(*ast.KeyValueExpr)
						if !isKV {
							keyed = false
							break
						}
						if k, isID := kv.Key.(*ast.Ident); isID && k.Name == x.Sel.Name {
							found = kv.Value
						}
					}
					if keyed && found != nil {
						if callFree(found) || d.substCalls {
							return d.subst(found, env, depth+1)
						}
						return x
					}
					if keyed {
						switch sel.Obj().Type().Underlying().(type) {
						case *types.Pointer, *types.Interface, *types.Slice, *types.Map, *types.Signature, *types.Chan:
							return ast.NewIdent("nil")
						}
					}
					if !callFree(in) && !d.substCalls {
						return x
					}
				}
				return &ast.SelectorExpr{X: in, Sel: x.Sel}
			}
		}
	case *ast.IndexExpr:
		a, b := d.subst(x.X, env, depth), d.subst(x.Index, env, depth)
		if a != x.X || b != x.Index {
			return &ast.IndexExpr{X: a, Lbrack: x.Lbrack, Index: b, Rbrack: x.Rbrack}
		}
	case *ast.SliceExpr:
		a, lo, hi := d.subst(x.X, env, depth), d.subst(x.Low, env, depth), d.subst(x.High, env, depth)
		if a != x.X || lo != x.Low || hi != x.High {
			return &ast.SliceExpr{X: a, Lbrack: x.Lbrack, Low: lo, High: hi, Max: x.Max, Slice3: x.Slice3, Rbrack: x.Rbrack}
		}
	case *ast.CallExpr:
		// a call whose result was bound when the helper was followed into
		if ob := d.callVars[x]; ob != nil {
			if b, ok := env[ob]; ok && (callFree(b) || d.substCalls) {
				return d.subst(b, env, depth+1)
			}
		}
		changed := false
		args := make([]ast.Expr, len(x.Args))
		for i, a := range x.Args {
			args[i] = d.subst(a, env, depth)
			if args[i] != a {
				changed = true
			}
		}
		if changed {
			return &ast.CallExpr{Fun: x.Fun, Lparen: x.Lparen, Args: args, Ellipsis: x.Ellipsis, Rparen: x.Rparen}
		}
	}
	return e
}

func (s dstate) bind(ob types.Object, e ast.Expr) dstate {
	env := map[types.Object]ast.Expr{}
	for k, v := range s.env {
		env[k] = v
	}
	env[ob] = e
	return dstate{conds: s.conds, env: env, trace: s.trace}
}

// deref follows local bindings of identifiers.
func (d *denum) deref(e ast.Expr, env map[types.Object]ast.Expr) ast.Expr {
	for i := 0; i < 10; i++ {
		id, ok := ast.Unparen(e).(*ast.Ident)
		if !ok {
			return ast.Unparen(e)
		}
		ob := d.info.ObjectOf(id)
		if b, ok := env[ob]; ok {
			e = b
			continue
		}
		return id
	}
	return e
}

// split expands a condition into the states in which it is true and those in which it is false (short-circuit).
func (d *denum) split(cond ast.Expr, in []dstate) (t, f []dstate) {
	cond = ast.Unparen(cond)
	switch c := cond.(type) {
	case *ast.BinaryExpr:
		switch c.Op {
		case token.LAND:
			xt, xf := d.split(c.X, in)
			yt, yf := d.split(c.Y, xt)
			return yt, append(xf, yf...)
		case token.LOR:
			xt, xf := d.split(c.X, in)
			yt, yf := d.split(c.Y, xf)
			return append(xt, yt...), yf
		}
	case *ast.UnaryExpr:
		if c.Op == token.NOT {
			xt, xf := d.split(c.X, in)
			return xf, xt
		}
	}
	// two constants compared (a kind selected by one phase and tested by the next: kind == editInsert)
	if be, ok := cond.(*ast.BinaryExpr); ok && (be.Op == token.EQL || be.Op == token.NEQ) && d.inlineVals && d.info != nil && len(in) > 0 {
		var folded, others []dstate
		var foldedVal []bool
		for _, s := range in {
			x, y := ast.Unparen(d.subst(be.X, s.env, 0)), ast.Unparen(d.subst(be.Y, s.env, 0))
			tx, okx := d.info.Types[x]
			ty, oky := d.info.Types[y]
			if okx && oky && tx.Value != nil && ty.Value != nil {
				folded = append(folded, s)
				foldedVal = append(foldedVal, constant.Compare(tx.Value, token.EQL, ty.Value) == (be.Op == token.EQL))
			} else {
				others = append(others, s)
			}
		}
		if len(folded) > 0 {
			if len(others) > 0 {
				t, f = d.split(cond, others)
			}
			for i, s := range folded {
				if foldedVal[i] {
					t = append(t, s)
				} else {
					f = append(f, s)
				}
			}
			return t, f
		}
	}
	// nil compared with nil (a field that a struct literal leaves out)
	if be, ok := cond.(*ast.BinaryExpr); ok && (be.Op == token.EQL || be.Op == token.NEQ) && len(in) > 0 {
		if y, ok := ast.Unparen(be.Y).(*ast.Ident); ok && y.Name == "nil" {
			var nils, others []dstate
			for _, s := range in {
				x, ok := ast.Unparen(d.subst(be.X, s.env, 0)).(*ast.Ident)
				if ok && x.Name == "nil" && (d.info.ObjectOf(x) == nil || d.info.ObjectOf(x).Pkg() == nil) {
					nils = append(nils, s)
				} else {
					others = append(others, s)
				}
			}
			if len(nils) > 0 {
				if len(others) > 0 {
					t, f = d.split(cond, others)
				}
				if be.Op == token.EQL {
					return append(t, nils...), f
				}
				return t, append(f, nils...)
			}
		}
	}
	// a boolean constant
	if d.info != nil {
		if tv, ok := d.info.Types[cond]; ok && tv.Value != nil && tv.Value.Kind() == constant.Bool {
			if constant.BoolVal(tv.Value) {
				return in, nil
			}
			return nil, in
		}
		if id, ok := cond.(*ast.Ident); ok && (id.Name == "true" || id.Name == "false") && (d.info.ObjectOf(id) == nil || d.info.ObjectOf(id).Pkg() == nil) {
			if id.Name == "true" {
				return in, nil
			}
			return nil, in
		}
	}
	// a field of a local that is bound on this path to a struct literal: the field's value in that literal (its zero value when absent)
	if se, ok := cond.(*ast.SelectorExpr); ok && d.info != nil {
		if id, ok := ast.Unparen(se.X).(*ast.Ident); ok {
			ob := d.info.ObjectOf(id)
			all := ob != nil && len(in) > 0
			var vals []ast.Expr
			for _, s := range in {
				var fv ast.Expr
				if b, bound := s.env[ob]; bound && ob != nil {
					b = ast.Unparen(b)
					if u, isU := b.(*ast.UnaryExpr); isU && u.Op == token.AND {
						b = ast.Unparen(u.X)
					}
					if cl, isCL := b.(*ast.CompositeLit); isCL {
						if t := d.info.TypeOf(cl); t != nil {
							if _, isStruct := t.Underlying().(*types.Struct); isStruct {
								fv = ast.NewIdent("false")
								for _, el := range cl.Elts {
									kv, isKV := el.(*ast.KeyValueExpr)
									if !isKV {
										fv = nil // positional literal: not interpreted
										break
									}
									if k, isID := kv.Key.(*ast.Ident); isID && k.Name == se.Sel.Name {
										fv = kv.Value
									}
								}
							}
						}
					}
				}
				if fv == nil {
					all = false
					break
				}
				vals = append(vals, fv)
			}
			if all {
				for i, s := range in {
					bt, bf := d.split(vals[i], []dstate{s})
					t = append(t, bt...)
					f = append(f, bf...)
				}
				return
			}
		}
	}
	// a boolean variable bound on this path to a compound condition (ok := a && b; if ok {…}): split through the binding
	if id, ok := cond.(*ast.Ident); ok && d.info != nil {
		ob := d.info.ObjectOf(id)
		for _, s := range in {
			b, bound := s.env[ob]
			if bound && ob != nil && !refersTo(d.info, b, ob) {
				// `_, ok := table[key]` over a constant package-level map used as a set: ok ⇔ key == k1 || key == k2 || …
				if memb := d.membership(b); memb != nil {
					bt, bf := d.split(memb, []dstate{s})
					t = append(t, bt...)
					f = append(f, bf...)
					continue
				}
				switch ast.Unparen(b).(type) {
				case *ast.BinaryExpr, *ast.UnaryExpr, *ast.Ident, *ast.SelectorExpr, *ast.CallExpr, *ast.StarExpr:
					if lit, isID := ast.Unparen(b).(*ast.Ident); isID && (lit.Name == "true" || lit.Name == "false") {
						if lit.Name == "true" {
							t = append(t, s)
						} else {
							f = append(f, s)
						}
						continue
					}
					bt, bf := d.split(b, []dstate{s})
					t = append(t, bt...)
					f = append(f, bf...)
					continue
				}
			}
			t = append(t, d.rec(s, cond, true))
			f = append(f, d.rec(s, cond, false))
		}
		return
	}
	// a call of a package-local predicate whose body can be enumerated: its paths are spliced in, with the parameters
	// bound to the arguments (virtual inlining), so a test moved into a helper reads like the inline test
	// slices.ContainsFunc(list, pred) over a list of constants known here is pred(e1) || pred(e2) || …
	if call, ok := cond.(*ast.CallExpr); ok && d.decls != nil && len(call.Args) == 2 && len(in) > 0 {
		if fn := calleeOf(d.info, call); fn != nil && (fullName(fn) == "slices.ContainsFunc" || fullName(fn) == "slices.IndexFunc" && false) {
			list := d.subst(call.Args[0], in[0].env, 0)
			if id, ok := ast.Unparen(list).(*ast.Ident); ok {
				if init, ok := d.inits[d.info.ObjectOf(id)]; ok {
					list = init
				}
			}
			// a field of a package-level struct value: what its literal gives the field
			if se, ok := ast.Unparen(list).(*ast.SelectorExpr); ok {
				if id, ok := ast.Unparen(se.X).(*ast.Ident); ok {
					if lit, ok := ast.Unparen(d.inits[d.info.ObjectOf(id)]).(*ast.CompositeLit); ok && d.inits[d.info.ObjectOf(id)] != nil {
						for _, el := range lit.Elts {
							if kv, ok := el.(*ast.KeyValueExpr); ok {
								if k, ok := kv.Key.(*ast.Ident); ok && k.Name == se.Sel.Name {
									list = kv.Value
								}
							}
						}
					}
				}
			}
			if cl, ok := ast.Unparen(list).(*ast.CompositeLit); ok && len(cl.Elts) > 0 && len(cl.Elts) <= 32 {
				allConst := true
				for _, el := range cl.Elts {
					if tv, ok := d.info.Types[el]; !ok || tv.Value == nil {
						allConst = false
					}
				}
				if allConst {
					var or ast.Expr
					for _, el := range cl.Elts {
						one := &ast.CallExpr{Fun: call.Args[1], Args: []ast.Expr{el}}
						if or == nil {
							or = one
						} else {
							or = &ast.BinaryExpr{X: or, Op: token.LOR, Y: one}
						}
					}
					return d.split(or, in)
				}
			}
		}
	}
	if call, ok := cond.(*ast.CallExpr); ok && d.decls != nil && d.inlineDepth < 3 {
		type fnBody struct {
			Type *ast.FuncType
			Body *ast.BlockStmt
			Recv *ast.Ident // a method's receiver name …
			On   ast.Expr   // … and what it is called on
		}
		var fd *fnBody
		if fn := calleeOf(d.info, call); fn != nil {
			if x := d.decls[fn]; x != nil {
				fd = &fnBody{Type: x.Type, Body: x.Body}
				if x.Recv != nil && len(x.Recv.List) == 1 && len(x.Recv.List[0].Names) == 1 {
					if se, ok := ast.Unparen(call.Fun).(*ast.SelectorExpr); ok {
						fd.Recv, fd.On = x.Recv.List[0].Names[0], se.X
					}
				}
			}
		} else if lit, isLit := ast.Unparen(call.Fun).(*ast.FuncLit); isLit {
			// a predicate literal applied on the spot
			fd = &fnBody{Type: lit.Type, Body: lit.Body}
		} else if id, isID := ast.Unparen(call.Fun).(*ast.Ident); isID && len(in) > 0 {
			// a local predicate closure (is := func(x string) bool {…}): the same literal on every state
			ob := d.info.ObjectOf(id)
			var lit *ast.FuncLit
			for i, s := range in {
				l, _ := ast.Unparen(s.env[ob]).(*ast.FuncLit)
				if l == nil || i > 0 && l != lit {
					lit = nil
					break
				}
				lit = l
			}
			if lit != nil {
				fd = &fnBody{Type: lit.Type, Body: lit.Body}
			}
		}
		if fd != nil {
			if fd.Body != nil && fd.Type.Results != nil && len(fd.Type.Results.List) == 1 {
				if rt := d.info.TypeOf(fd.Type.Results.List[0].Type); rt != nil && rt.String() == "bool" {
					var prms []*ast.Ident
					for _, p := range fd.Type.Params.List {
						prms = append(prms, p.Names...)
					}
					// p(x, "a", "b") for p(s string, rest ...string): rest is the list {"a", "b"}
					variadic := false
					if n := len(fd.Type.Params.List); n > 0 {
						_, variadic = fd.Type.Params.List[n-1].Type.(*ast.Ellipsis)
					}
					if (len(prms) == len(call.Args) && !variadic || variadic && len(call.Args) >= len(prms)-1) && !call.Ellipsis.IsValid() {
						okAll := true
						var tt, ff []dstate
						for _, s := range in {
							sub := &denum{info: d.info, pkg: d.pkg, inits: d.inits, decls: d.decls, limit: d.limit, inlineDepth: d.inlineDepth + 1, opaqueLoops: d.opaqueLoops}
							st := dstate{conds: s.conds, env: s.env, trace: s.trace}
							if fd.Recv != nil && fd.Recv.Name != "_" {
								st = st.bind(d.info.Defs[fd.Recv], d.subst(fd.On, s.env, 0))
							}
							for i, p := range prms {
								if variadic && i == len(prms)-1 {
									rest := &ast.CompositeLit{}
									for _, a := range call.Args[i:] {
										rest.Elts = append(rest.Elts, d.subst(a, s.env, 0))
									}
									if p.Name != "_" {
										st = st.bind(d.info.Defs[p], rest)
									}
									continue
								}
								if p.Name != "_" {
									st = st.bind(d.info.Defs[p], d.subst(call.Args[i], s.env, 0))
								}
							}
							sub.finish(sub.run(fd.Body.List, []dstate{st}))
							if sub.undecided != "" {
								okAll = false
								break
							}
							for _, pth := range sub.paths {
								if pth.Ret == nil || len(pth.Ret.Results) != 1 {
									okAll = false
									break
								}
								id, isID := ast.Unparen(pth.Ret.Results[0]).(*ast.Ident)
								ns := dstate{conds: pth.Conds, env: pth.Env, trace: s.trace}
								switch {
								case isID && id.Name == "true":
									tt = append(tt, ns)
								case isID && id.Name == "false":
									ff = append(ff, ns)
								default:
									// returns a boolean variable or call: split on it in the callee's environment
									rt2, rf2 := sub.split(pth.Ret.Results[0], []dstate{ns})
									tt = append(tt, rt2...)
									ff = append(ff, rf2...)
								}
							}
						}
						if okAll {
							return tt, ff
						}
					}
				}
			}
		}
	}
	for _, s := range in {
		if !d.contradicts(s, cond, true) {
			t = append(t, d.rec(s, cond, true))
		}
		if !d.contradicts(s, cond, false) {
			f = append(f, d.rec(s, cond, false))
		}
	}
	return
}

func refersTo(info *types.Info, e ast.Expr, ob types.Object) bool {
	found := false
	ast.Inspect(e, func(n ast.Node) bool {
		if id, ok := n.(*ast.Ident); ok && info.ObjectOf(id) == ob {
			found = true
		}
		return !found
	})
	return found
}

func (d *denum) assign(lhs, rhs ast.Expr, in []dstate) []dstate {
	id, ok := lhs.(*ast.Ident)
	if !ok || id.Name == "_" {
		return in
	}
	ob := d.info.ObjectOf(id)
	var out []dstate
	for _, s := range in {
		out = append(out, s.bind(ob, rhs))
	}
	return out
}

func (d *denum) run(stmts []ast.Stmt, in []dstate) []dstate {
	cur := in
	for _, st := range stmts {
		if len(cur) == 0 || d.undecided != "" {
			return nil
		}
		if len(d.paths) > d.limit || len(cur) > d.limit {
			d.undecided = "too many paths"
			return nil
		}
		switch s := st.(type) {
		case *ast.ReturnStmt:
			// a bare return in a function with named results returns those
			s = explicitReturn(d.info, s)
			// `return <boolean expression>` is `if <expr> { return true }; return false`
			if len(s.Results) == 1 {
				if tv, ok := d.info.Types[s.Results[0]]; ok && tv.Value == nil && tv.Type != nil && tv.Type.String() == "bool" {
					switch ast.Unparen(s.Results[0]).(type) {
					case *ast.BinaryExpr, *ast.UnaryExpr:
						t, f := d.split(s.Results[0], cur)
						for _, x := range t {
							d.paths = append(d.paths, dpath{Conds: x.conds, Ret: &ast.ReturnStmt{Return: s.Return, Results: []ast.Expr{ast.NewIdent("true")}}, Env: x.env, Trace: append(append([]ast.Stmt{}, x.trace...), s)})
						}
						for _, x := range f {
							d.paths = append(d.paths, dpath{Conds: x.conds, Ret: &ast.ReturnStmt{Return: s.Return, Results: []ast.Expr{ast.NewIdent("false")}}, Env: x.env, Trace: append(append([]ast.Stmt{}, x.trace...), s)})
						}
						return nil
					}
				}
			}
			// `return helper(x)`: the helper is followed into like anywhere else, and the path returns what it returned
			if d.inlineVals && len(s.Results) > 0 {
				cur = d.inlineCallsIn(s, cur)
			}
			for _, x := range cur {
				ret := s
				if d.inlineVals && d.callVars != nil {
					var res []ast.Expr
					changed := false
					for _, r := range s.Results {
						if call, ok := ast.Unparen(r).(*ast.CallExpr); ok {
							if ob := d.callVars[call]; ob != nil {
								if b, has := x.env[ob]; has {
									res = append(res, b)
									changed = true
									continue
								}
							}
						}
						res = append(res, r)
					}
					if changed {
						ret = &ast.ReturnStmt{Return: s.Return, Results: res}
					}
				}
				d.paths = append(d.paths, dpath{Conds: x.conds, Ret: ret, Env: x.env, Trace: append(append([]ast.Stmt{}, x.trace...), s)})
			}
			return nil
		case *ast.AssignStmt:
			cur = d.inlineCallsIn(s, cur)
			var done []dstate
			rest := cur[:0:0]
			for _, x := range cur {
				if x.inlined == ast.Stmt(s) {
					x.inlined = nil
					done = append(done, x)
				} else {
					rest = append(rest, x)
				}
			}
			cur = traced(rest, s)
			if len(cur) == 0 {
				cur = done
				continue
			}
			if len(s.Lhs) == len(s.Rhs) {
				for i := range s.Lhs {
					cur = d.assign(s.Lhs[i], s.Rhs[i], cur)
				}
			} else if len(s.Rhs) == 1 {
				cur = d.assign(s.Lhs[0], s.Rhs[0], cur)
				// the further results of a call: <call>[k] (synthetic), so that a rule can recognise e.g. the `found` of strings.Cut
				for k := 1; k < len(s.Lhs); k++ {
					cur = d.assign(s.Lhs[k], &ast.IndexExpr{X: s.Rhs[0], Index: &ast.BasicLit{Kind: token.INT, Value: string(rune('0' + k))}}, cur)
				}
			}
			cur = append(cur, done...)
		case *ast.DeclStmt:
			cur = traced(cur, s)
			if gd, ok := s.Decl.(*ast.GenDecl); ok {
				for _, sp := range gd.Specs {
					if vs, ok := sp.(*ast.ValueSpec); ok {
						for i, nm := range vs.Names {
							if i < len(vs.Values) {
								cur = d.assign(nm, vs.Values[i], cur)
							} else if len(vs.Values) == 0 {
								// zero value of a boolean variable
								if t := d.info.TypeOf(nm); t != nil {
									if b, ok := t.Underlying().(*types.Basic); ok && b.Kind() == types.Bool {
										cur = d.assign(nm, ast.NewIdent("false"), cur)
									}
								}
							}
						}
					}
				}
			}
		case *ast.ExprStmt, *ast.DeferStmt:
			cur = d.inlineCallsIn(s, cur)
			// a call that was replaced by the statements of its body is not itself a statement of the path
			var done []dstate
			rest := cur[:0:0]
			for _, x := range cur {
				if x.inlined == ast.Stmt(s) {
					x.inlined = nil
					done = append(done, x)
				} else {
					rest = append(rest, x)
				}
			}
			cur = append(traced(rest, s), done...)
		case *ast.EmptyStmt:
		case *ast.BlockStmt:
			cur = d.run(s.List, cur)
		case *ast.IfStmt:
			if s.Init != nil {
				cur = d.run([]ast.Stmt{s.Init}, cur)
			}
			t, f := d.split(s.Cond, cur)
			after := d.run(s.Body.List, t)
			switch e := s.Else.(type) {
			case nil:
				after = append(after, f...)
			case *ast.BlockStmt:
				after = append(after, d.run(e.List, f)...)
			case *ast.IfStmt:
				after = append(after, d.run([]ast.Stmt{e}, f)...)
			}
			cur = after
		case *ast.SwitchStmt:
			if s.Init != nil {
				cur = d.run([]ast.Stmt{s.Init}, cur)
			}
			// the tag is the result of a helper: follow into it (switch e.layout() { … })
			if tag, ok := ast.Unparen(s.Tag).(*ast.CallExpr); ok && s.Tag != nil && d.inlineVals {
				cur = d.inlineCallsIn(&ast.ExprStmt{X: &ast.UnaryExpr{Op: token.ADD, X: tag}}, cur)
			}
			rest := cur
			var after []dstate
			var def *ast.CaseClause
			for _, cl := range s.Body.List {
				cc := cl.(*ast.CaseClause)
				if cc.List == nil {
					def = cc
					continue
				}
				var matched []dstate
				for _, k := range cc.List {
					var cond ast.Expr = k
					if s.Tag != nil {
						cond = &ast.BinaryExpr{X: s.Tag, Op: token.EQL, Y: k, OpPos: k.Pos()}
					}
					t, f := d.split(cond, rest)
					matched = append(matched, t...)
					rest = f
				}
				d.inSwitch++
				after = append(after, d.run(cc.Body, matched)...)
				d.inSwitch--
			}
			if def != nil {
				d.inSwitch++
				after = append(after, d.run(def.Body, rest)...)
				d.inSwitch--
			} else {
				after = append(after, rest...)
			}
			cur = after
		case *ast.TypeSwitchStmt:
			if s.Init != nil {
				cur = d.run([]ast.Stmt{s.Init}, cur)
			}
			// each clause is a branch guarded by the synthetic atom `<clause>` (the clause node's first type expression)
			var after []dstate
			hasDefault := false
			for _, cl := range s.Body.List {
				cc := cl.(*ast.CaseClause)
				var in2 []dstate
				if cc.List == nil {
					hasDefault = true
					atom := &ast.TypeAssertExpr{X: ast.NewIdent("·default"), Lparen: cc.Pos()}
					d.noteTS(atom, nil, s)
					for _, x := range cur {
						in2 = append(in2, x.with(atom, true))
					}
				} else {
					atom := &ast.TypeAssertExpr{X: ast.NewIdent("·type"), Type: cc.List[0], Lparen: cc.Pos()}
					d.noteTS(atom, cc, s)
					for _, x := range cur {
						in2 = append(in2, x.with(atom, true))
					}
				}
				d.inSwitch++
				after = append(after, d.run(cc.Body, in2)...)
				d.inSwitch--
			}
			if !hasDefault {
				atom := &ast.TypeAssertExpr{X: ast.NewIdent("·default"), Lparen: s.End()}
				d.noteTS(atom, nil, s)
				for _, x := range cur {
					after = append(after, x.with(atom, true))
				}
			}
			cur = after
		case *ast.LabeledStmt:
			// outer: for … { … } — the label only matters to the jumps that name it (below)
			cur = d.run([]ast.Stmt{s.Stmt}, cur)
		case *ast.BranchStmt:
			if d.iterExit != nil && s.Label == nil && (s.Tok == token.CONTINUE || s.Tok == token.BREAK && d.inSwitch == 0) {
				*d.iterExit = append(*d.iterExit, cur...)
				return nil
			}
			// a labelled break / continue out of nested loops that are entered at most once: this round of the innermost
			// loop is over, and so are the enclosing ones up to the label — nothing of their bodies follows in the
			// programs this is used on (the jump is the last thing the nest does); the paths after the nest are the same
			if d.iterExit != nil && s.Label != nil && (s.Tok == token.CONTINUE || s.Tok == token.BREAK) {
				*d.iterExit = append(*d.iterExit, cur...)
				return nil
			}
			if d.loopBody && s.Label != nil && (s.Tok == token.CONTINUE || s.Tok == token.BREAK) {
				// a labelled jump out of (or to the head of) an enclosing loop: this iteration is over
				for _, x := range cur {
					d.paths = append(d.paths, dpath{Conds: x.conds, Env: x.env, Trace: x.trace, Exit: s.Tok.String() + " " + s.Label.Name})
				}
				return nil
			}
			if d.loopBody && s.Label == nil && (s.Tok == token.CONTINUE || s.Tok == token.BREAK && d.inSwitch == 0) {
				for _, x := range cur {
					d.paths = append(d.paths, dpath{Conds: x.conds, Env: x.env, Trace: x.trace, Exit: s.Tok.String()})
				}
				return nil
			}
			d.undecided = "a statement the path enumerator does not interpret (" + nodeKind(st) + ")"
			return nil
		case *ast.RangeStmt:
			if d.loopHook != nil {
				if out, ok := d.loopHook(d, s, cur); ok {
					cur = out
					continue
				}
			}
			elems := d.constElems(s.X, cur)
			if elems == nil && d.loopsOnce {
				cur = d.once(s, s.Body, cur)
				continue
			}
			if elems == nil {
				if d.opaqueLoops {
					cur = d.havoc(s, traced(cur, s))
					continue
				}
				d.undecided = "a range statement over something that is not a constant list"
				return nil
			}
			val, _ := s.Value.(*ast.Ident)
			if d.opaqueLoops {
				jumps := false
				ast.Inspect(s.Body, func(n ast.Node) bool {
					if _, ok := n.(*ast.BranchStmt); ok {
						jumps = true
					}
					return true
				})
				if jumps {
					cur = d.havoc(s, traced(cur, s))
					continue
				}
			}
			for _, el := range elems {
				states := cur
				if val != nil && val.Name != "_" {
					states = d.assign(val, el, states)
				}
				hasBranch := false
				ast.Inspect(s.Body, func(n ast.Node) bool {
					if _, ok := n.(*ast.BranchStmt); ok {
						hasBranch = true
					}
					return true
				})
				if hasBranch {
					d.undecided = "break/continue inside a range loop"
					return nil
				}
				cur = d.run(s.Body.List, states)
			}
		case *ast.ForStmt:
			if d.loopHook != nil {
				if out, ok := d.loopHook(d, s, cur); ok {
					cur = out
					continue
				}
			}
			if d.loopsOnce {
				if s.Init != nil {
					cur = d.run([]ast.Stmt{s.Init}, cur)
				}
				cur = d.once(s, s.Body, cur)
				continue
			}
			if d.opaqueLoops {
				cur = d.havoc(s, traced(cur, s))
				continue
			}
			d.undecided = "a for statement"
			return nil
		case *ast.IncDecStmt:
			// indent++ / n--: the variable no longer has the binding it had
			cur = d.havoc(s, traced(cur, s))
		default:
			d.undecided = "a statement the path enumerator does not interpret (" + nodeKind(st) + ")"
			return nil
		}
	}
	return cur
}

func traced(in []dstate, st ast.Stmt) []dstate {
	out := make([]dstate, len(in))
	for i, s := range in {
		out[i] = dstate{conds: s.conds, env: s.env, trace: append(append([]ast.Stmt{}, s.trace...), st)}
	}
	return out
}

// finish records the states that ran off the end of the body as paths without a return statement.
func (d *denum) finish(fall []dstate) {
	for _, x := range fall {
		d.paths = append(d.paths, dpath{Conds: x.conds, Env: x.env, Trace: x.trace})
	}
}

func nodeKind(n ast.Node) string {
	switch n.(type) {
	case *ast.ForStmt:
		return "for"
	case *ast.GoStmt:
		return "go"
	case *ast.BranchStmt:
		return "break/continue/goto"
	case *ast.TypeSwitchStmt:
		return "type switch"
	case *ast.SelectStmt:
		return "select"
	}
	return "statement"
}

// constElems: the elements of a []string composite literal of constants (local or package-level).
func (d *denum) constElems(x ast.Expr, in []dstate) []ast.Expr {
	var env map[types.Object]ast.Expr
	if len(in) > 0 {
		env = in[0].env
	}
	e := d.deref(x, env)
	if id, ok := e.(*ast.Ident); ok {
		if init, ok := d.inits[d.info.ObjectOf(id)]; ok {
			e = init
		}
	}
	// a list built by a constructor of the package from its (variadic) constant arguments, in order:
	// newSchemeList("http", "https", …)
	if call, ok := ast.Unparen(e).(*ast.CallExpr); ok && len(call.Args) > 0 && !call.Ellipsis.IsValid() {
		if fn := calleeOf(d.info, call); fn != nil && fn.Pkg() == d.pkg {
			sig, _ := fn.Type().(*types.Signature)
			if sig != nil && sig.Variadic() && sig.Params().Len() == 1 && sig.Results().Len() == 1 {
				if _, isSlice := sig.Results().At(0).Type().Underlying().(*types.Slice); isSlice {
					var out []ast.Expr
					for _, a := range call.Args {
						if tv, ok := d.info.Types[a]; !ok || tv.Value == nil {
							return nil
						}
						out = append(out, a)
					}
					return out
				}
			}
		}
	}
	cl, ok := ast.Unparen(e).(*ast.CompositeLit)
	if !ok {
		return nil
	}
	var out []ast.Expr
	for _, el := range cl.Elts {
		if tv, ok := d.info.Types[el]; !ok || tv.Value == nil {
			return nil
		}
		out = append(out, el)
	}
	return out
}

// callFree: the expression contains no call (its value does not stand for one particular evaluation).
func callFree(e ast.Expr) bool {
	free := true
	ast.Inspect(e, func(n ast.Node) bool {
		if _, ok := n.(*ast.CallExpr); ok {
			free = false
		}
		return free
	})
	return free
}

// havoc: after a loop (or other statement) that is stepped over, the variables it assigns no longer have a known binding.
func (d *denum) havoc(st ast.Stmt, in []dstate) []dstate {
	// a loop that can return is not stepped over while a helper is being followed into: the paths that return from
	// inside it would be lost, and the caller would see a helper that always takes its last return
	if d.inlineDepth > 0 {
		returns := false
		ast.Inspect(st, func(n ast.Node) bool {
			switch n.(type) {
			case *ast.FuncLit:
				return false
			case *ast.ReturnStmt:
				returns = true
			}
			return true
		})
		if returns {
			d.undecided = "a loop that can return, inside a helper that is followed into"
			return nil
		}
	}
	assigned := map[types.Object]bool{}
	ast.Inspect(st, func(n ast.Node) bool {
		switch x := n.(type) {
		case *ast.AssignStmt:
			for _, l := range x.Lhs {
				if id, ok := l.(*ast.Ident); ok {
					if ob := d.info.ObjectOf(id); ob != nil {
						assigned[ob] = true
					}
				}
			}
		case *ast.IncDecStmt:
			if id, ok := x.X.(*ast.Ident); ok {
				if ob := d.info.ObjectOf(id); ob != nil {
					assigned[ob] = true
				}
			}
		case *ast.RangeStmt:
			for _, e := range []ast.Expr{x.Key, x.Value} {
				if id, ok := e.(*ast.Ident); ok {
					if ob := d.info.ObjectOf(id); ob != nil {
						assigned[ob] = true
					}
				}
			}
		}
		return true
	})
	if len(assigned) == 0 {
		return in
	}
	// a string variable that the loop only ever replaces by a part of itself (u = strings.TrimPrefix(u, p), u = u[1:])
	// holds afterwards some substring of what it held before: <old>[:] rather than nothing
	shrinks := map[types.Object]bool{}
	for ob := range assigned {
		shrinks[ob] = true
	}
	ast.Inspect(st, func(n ast.Node) bool {
		switch x := n.(type) {
		case *ast.AssignStmt:
			for i, l := range x.Lhs {
				id, ok := l.(*ast.Ident)
				if !ok {
					continue
				}
				ob := d.info.ObjectOf(id)
				if len(x.Lhs) != len(x.Rhs) || x.Tok != token.ASSIGN || !d.substringOf(x.Rhs[i], ob) {
					shrinks[ob] = false
				}
			}
		case *ast.IncDecStmt:
			if id, ok := x.X.(*ast.Ident); ok {
				shrinks[d.info.ObjectOf(id)] = false
			}
		case *ast.RangeStmt:
			for _, e := range []ast.Expr{x.Key, x.Value} {
				if id, ok := e.(*ast.Ident); ok {
					shrinks[d.info.ObjectOf(id)] = false
				}
			}
		}
		return true
	})
	out := make([]dstate, len(in))
	for i, s := range in {
		env := map[types.Object]ast.Expr{}
		for k, v := range s.env {
			if !assigned[k] {
				env[k] = v
			} else if shrinks[k] && !refersTo(d.info, v, k) {
				env[k] = &ast.SliceExpr{X: v}
			}
		}
		out[i] = dstate{conds: s.conds, env: env, trace: s.trace}
	}
	return out
}

// substringOf: e is ob, a slice of it, or ob with white space / a given prefix or suffix removed (a cutset trim is not
// included: it removes any run of the cutset's characters, which a validator looking at the result never sees).
func (d *denum) substringOf(e ast.Expr, ob types.Object) bool {
	for i := 0; i < 8; i++ {
		switch x := ast.Unparen(e).(type) {
		case *ast.Ident:
			return ob != nil && d.info.ObjectOf(x) == ob
		case *ast.SliceExpr:
			e = x.X
		case *ast.CallExpr:
			fn := calleeOf(d.info, x)
			if fn == nil || len(x.Args) == 0 {
				return false
			}
			switch fullName(fn) {
			case "strings.TrimSpace", "strings.TrimPrefix", "strings.TrimSuffix":
				e = x.Args[0]
			default:
				return false
			}
		default:
			return false
		}
	}
	return false
}

// membership: b is the synthetic second result of a map index expression (`_, ok := m[k]`) and m is a package-level
// map initialised with a composite literal of constant keys that is never written elsewhere: the equivalent
// disjunction `k == key1 || k == key2 || …` (nil otherwise).
func (d *denum) membership(b ast.Expr) ast.Expr {
	outer, ok := ast.Unparen(b).(*ast.IndexExpr)
	if !ok || outer.Lbrack != token.NoPos {
		return nil
	}
	if bl, ok := outer.Index.(*ast.BasicLit); !ok || bl.Value != "1" {
		return nil
	}
	ix, ok := ast.Unparen(outer.X).(*ast.IndexExpr)
	if !ok {
		return nil
	}
	id, ok := ast.Unparen(ix.X).(*ast.Ident)
	if !ok {
		return nil
	}
	init, ok := d.inits[d.info.ObjectOf(id)]
	if !ok {
		return nil
	}
	cl, ok := ast.Unparen(init).(*ast.CompositeLit)
	if !ok {
		return nil
	}
	if _, isMap := d.info.TypeOf(cl).Underlying().(*types.Map); !isMap {
		return nil
	}
	var out ast.Expr
	for _, el := range cl.Elts {
		kv, ok := el.(*ast.KeyValueExpr)
		if !ok {
			return nil
		}
		if tv, ok := d.info.Types[kv.Key]; !ok || tv.Value == nil {
			return nil
		}
		eq := &ast.BinaryExpr{X: ix.Index, Op: token.EQL, Y: kv.Key, OpPos: kv.Key.Pos()}
		if out == nil {
			out = eq
		} else {
			out = &ast.BinaryExpr{X: out, Op: token.LOR, Y: eq, OpPos: kv.Key.Pos()}
		}
	}
	return out
}

// once: the states after a loop that runs zero times or exactly once (the loop's own variables are unknown).
func (d *denum) once(loop ast.Stmt, body *ast.BlockStmt, in []dstate) []dstate {
	in = d.havoc(loop, in)
	var exits []dstate
	saved, savedSw := d.iterExit, d.inSwitch
	d.iterExit, d.inSwitch = &exits, 0
	after := d.run(body.List, in)
	d.iterExit, d.inSwitch = saved, savedSw
	out := append([]dstate{}, in...) // zero iterations
	out = append(out, after...)
	out = append(out, exits...)
	return d.havoc(loop, out)
}

// loadedSyntax: the files of the module packages loaded (set by Ctx.load), for looking up the function a statement is in.
var loadedSyntax []*ast.File
var bareReturns = map[*ast.ReturnStmt]*ast.ReturnStmt{}

// explicitReturn: `return` in a function with named results is `return r1, r2` (one synthetic statement per bare
// return, its identifiers resolved like written ones).
func explicitReturn(info *types.Info, s *ast.ReturnStmt) *ast.ReturnStmt {
	if len(s.Results) != 0 {
		return s
	}
	if r, ok := bareReturns[s]; ok {
		return r
	}
	bareReturns[s] = s
	for _, f := range loadedSyntax {
		if s.Pos() < f.Pos() || s.Pos() >= f.End() {
			continue
		}
		var ft *ast.FuncType
		ast.Inspect(f, func(n ast.Node) bool {
			if n == nil || s.Pos() < n.Pos() || s.Pos() >= n.End() {
				return n != nil && false
			}
			switch x := n.(type) {
			case *ast.FuncDecl:
				ft = x.Type
			case *ast.FuncLit:
				ft = x.Type
			}
			return true
		})
		if ft == nil || ft.Results == nil {
			return s
		}
		var res []ast.Expr
		for _, fl := range ft.Results.List {
			for _, nm := range fl.Names {
				ob := info.Defs[nm]
				if ob == nil {
					return s
				}
				id := &ast.Ident{NamePos: s.Return, Name: nm.Name}
				info.Uses[id] = ob
				info.Types[id] = types.TypeAndValue{Type: ob.Type()}
				res = append(res, id)
			}
		}
		if len(res) == 0 {
			return s
		}
		r := &ast.ReturnStmt{Return: s.Return, Results: res}
		bareReturns[s] = r
		return r
	}
	return s
}
