package main

// A small path enumerator for decision functions: bodies made of if / switch / range-over-constant-list / return /
// simple assignments. Every path to a return is listed with the atoms (non-compound conditions) it took and their
// truth values, so that a rule can be stated over paths instead of over one particular statement shape.

import (
	"go/ast"
	"go/token"
	"go/types"
	"strings"
)

type pathCond struct {
	Expr ast.Expr
	Val  bool
}

type dstate struct {
	conds []pathCond
	env   map[types.Object]ast.Expr
	trace []ast.Stmt // simple statements executed so far
}

type dpath struct {
	Conds []pathCond
	Ret   *ast.ReturnStmt // nil when the path runs off the end of the body
	Exit  string          // "" (return / fall off), "continue" or "break" when the body enumerated is a loop body
	Env   map[types.Object]ast.Expr
	Trace []ast.Stmt
}

type denum struct {
	loopBody    bool // the statements enumerated are the body of a loop: continue / break end a path
	opaqueLoops bool // loops that cannot be unrolled are stepped over instead of making the function undecided
	info        *types.Info
	pkg         *types.Package
	inits       map[types.Object]ast.Expr // package-level initialisers
	paths       []dpath
	undecided   string
	limit       int
	inSwitch    int
	decls       map[types.Object]*ast.FuncDecl // package-local functions that may be inlined when they are used as conditions
	inlineDepth int
	loopsOnce   bool                             // loops that are not unrolled are entered zero times or once (their body's branches become path conditions)
	iterExit    *[]dstate                        // while the body of such a loop is run: where continue / break go
	tsClause    map[ast.Expr]*ast.CaseClause     // synthetic type atoms → the clause taken (nil: default / no clause)
	tsSwitch    map[ast.Expr]*ast.TypeSwitchStmt // … → their type switch
}

func (d *denum) noteTS(atom ast.Expr, cc *ast.CaseClause, s *ast.TypeSwitchStmt) {
	if d.tsClause == nil {
		d.tsClause = map[ast.Expr]*ast.CaseClause{}
		d.tsSwitch = map[ast.Expr]*ast.TypeSwitchStmt{}
	}
	d.tsClause[atom] = cc
	d.tsSwitch[atom] = s
}

// typeAtomHolds: is the synthetic type-switch atom consistent with the dynamic type named kind ("nil" for a nil interface)?
func (d *denum) typeAtomHolds(atom ast.Expr, kind string) bool {
	names := func(cc *ast.CaseClause) map[string]bool {
		m := map[string]bool{}
		for _, e := range cc.List {
			t := d.info.TypeOf(e)
			if nt, ok := t.(*types.Named); ok {
				m[nt.Obj().Name()] = true
			} else if pt, ok := t.(*types.Pointer); ok {
				if nt, ok := pt.Elem().(*types.Named); ok {
					m["*"+nt.Obj().Name()] = true
				}
			} else if id, ok := e.(*ast.Ident); ok && id.Name == "nil" {
				m["nil"] = true
			}
		}
		return m
	}
	sw := d.tsSwitch[atom]
	if sw == nil {
		return true
	}
	if cc := d.tsClause[atom]; cc != nil {
		return names(cc)[kind]
	}
	for _, cl := range sw.Body.List {
		if cc := cl.(*ast.CaseClause); cc.List != nil && names(cc)[kind] {
			return false
		}
	}
	return true
}

func (s dstate) with(e ast.Expr, v bool) dstate {
	n := dstate{conds: append(append([]pathCond{}, s.conds...), pathCond{e, v}), env: s.env, trace: s.trace}
	return n
}

// rec records an atom with the local variables it mentions replaced by what they are bound to at this point of the
// path (loop variables of unrolled loops and parameters of inlined predicates change their binding later on).
func (d *denum) rec(s dstate, e ast.Expr, v bool) dstate {
	return s.with(d.subst(e, s.env, 0), v)
}

// contradicts: the state already took the same pure field read (x.f.g, nothing assigned to it on the way) with the
// opposite truth value — the combination is infeasible.
func (d *denum) contradicts(s dstate, e ast.Expr, v bool) bool {
	se, ok := ast.Unparen(e).(*ast.SelectorExpr)
	if !ok {
		return false
	}
	root := ast.Expr(se)
	for {
		if x, ok := ast.Unparen(root).(*ast.SelectorExpr); ok {
			root = x.X
			continue
		}
		break
	}
	if _, ok := ast.Unparen(root).(*ast.Ident); !ok {
		return false
	}
	txt := types.ExprString(se)
	for _, t := range s.trace {
		if as, ok := t.(*ast.AssignStmt); ok {
			for _, l := range as.Lhs {
				lt := types.ExprString(l)
				if lt == txt || strings.HasPrefix(txt, lt+".") {
					return false // assigned on the way: the two reads may differ
				}
			}
		}
	}
	for _, pc := range s.conds {
		if pc.Val != v && types.ExprString(pc.Expr) == txt {
			return true
		}
	}
	return false
}

func (d *denum) subst(e ast.Expr, env map[types.Object]ast.Expr, depth int) ast.Expr {
	if e == nil || depth > 8 || d.info == nil {
		return e
	}
	switch x := e.(type) {
	case *ast.Ident:
		ob := d.info.ObjectOf(x)
		if b, ok := env[ob]; ok && ob != nil && !refersTo(d.info, b, ob) && callFree(b) {
			return d.subst(b, env, depth+1)
		}
		return x
	case *ast.ParenExpr:
		if in := d.subst(x.X, env, depth); in != x.X {
			return &ast.ParenExpr{Lparen: x.Lparen, X: in, Rparen: x.Rparen}
		}
	case *ast.UnaryExpr:
		if in := d.subst(x.X, env, depth); in != x.X {
			return &ast.UnaryExpr{OpPos: x.OpPos, Op: x.Op, X: in}
		}
	case *ast.StarExpr:
		if in := d.subst(x.X, env, depth); in != x.X {
			return &ast.StarExpr{Star: x.Star, X: in}
		}
	case *ast.BinaryExpr:
		a, b := d.subst(x.X, env, depth), d.subst(x.Y, env, depth)
		if a != x.X || b != x.Y {
			return &ast.BinaryExpr{X: a, OpPos: x.OpPos, Op: x.Op, Y: b}
		}
	case *ast.SelectorExpr:
		// only a field selection on a substituted local is rewritten; package-qualified names and methods stay
		if sel, ok := d.info.Selections[x]; ok && sel.Kind() == types.FieldVal {
			if in := d.subst(x.X, env, depth); in != x.X {
				return &ast.SelectorExpr{X: in, Sel: x.Sel}
			}
		}
	case *ast.IndexExpr:
		a, b := d.subst(x.X, env, depth), d.subst(x.Index, env, depth)
		if a != x.X || b != x.Index {
			return &ast.IndexExpr{X: a, Lbrack: x.Lbrack, Index: b, Rbrack: x.Rbrack}
		}
	case *ast.SliceExpr:
		a, lo, hi := d.subst(x.X, env, depth), d.subst(x.Low, env, depth), d.subst(x.High, env, depth)
		if a != x.X || lo != x.Low || hi != x.High {
			return &ast.SliceExpr{X: a, Lbrack: x.Lbrack, Low: lo, High: hi, Max: x.Max, Slice3: x.Slice3, Rbrack: x.Rbrack}
		}
	case *ast.CallExpr:
		changed := false
		args := make([]ast.Expr, len(x.Args))
		for i, a := range x.Args {
			args[i] = d.subst(a, env, depth)
			if args[i] != a {
				changed = true
			}
		}
		if changed {
			return &ast.CallExpr{Fun: x.Fun, Lparen: x.Lparen, Args: args, Ellipsis: x.Ellipsis, Rparen: x.Rparen}
		}
	}
	return e
}

func (s dstate) bind(ob types.Object, e ast.Expr) dstate {
	env := map[types.Object]ast.Expr{}
	for k, v := range s.env {
		env[k] = v
	}
	env[ob] = e
	return dstate{conds: s.conds, env: env, trace: s.trace}
}

// deref follows local bindings of identifiers.
func (d *denum) deref(e ast.Expr, env map[types.Object]ast.Expr) ast.Expr {
	for i := 0; i < 10; i++ {
		id, ok := ast.Unparen(e).(*ast.Ident)
		if !ok {
			return ast.Unparen(e)
		}
		ob := d.info.ObjectOf(id)
		if b, ok := env[ob]; ok {
			e = b
			continue
		}
		return id
	}
	return e
}

// split expands a condition into the states in which it is true and those in which it is false (short-circuit).
func (d *denum) split(cond ast.Expr, in []dstate) (t, f []dstate) {
	cond = ast.Unparen(cond)
	switch c := cond.(type) {
	case *ast.BinaryExpr:
		switch c.Op {
		case token.LAND:
			xt, xf := d.split(c.X, in)
			yt, yf := d.split(c.Y, xt)
			return yt, append(xf, yf...)
		case token.LOR:
			xt, xf := d.split(c.X, in)
			yt, yf := d.split(c.Y, xf)
			return append(xt, yt...), yf
		}
	case *ast.UnaryExpr:
		if c.Op == token.NOT {
			xt, xf := d.split(c.X, in)
			return xf, xt
		}
	}
	// a boolean variable bound on this path to a compound condition (ok := a && b; if ok {…}): split through the binding
	if id, ok := cond.(*ast.Ident); ok && d.info != nil {
		ob := d.info.ObjectOf(id)
		for _, s := range in {
			b, bound := s.env[ob]
			if bound && ob != nil && !refersTo(d.info, b, ob) {
				// `_, ok := table[key]` over a constant package-level map used as a set: ok ⇔ key == k1 || key == k2 || …
				if memb := d.membership(b); memb != nil {
					bt, bf := d.split(memb, []dstate{s})
					t = append(t, bt...)
					f = append(f, bf...)
					continue
				}
				switch ast.Unparen(b).(type) {
				case *ast.BinaryExpr, *ast.UnaryExpr, *ast.Ident, *ast.SelectorExpr, *ast.CallExpr, *ast.StarExpr:
					if lit, isID := ast.Unparen(b).(*ast.Ident); isID && (lit.Name == "true" || lit.Name == "false") {
						if lit.Name == "true" {
							t = append(t, s)
						} else {
							f = append(f, s)
						}
						continue
					}
					bt, bf := d.split(b, []dstate{s})
					t = append(t, bt...)
					f = append(f, bf...)
					continue
				}
			}
			t = append(t, d.rec(s, cond, true))
			f = append(f, d.rec(s, cond, false))
		}
		return
	}
	// a call of a package-local predicate whose body can be enumerated: its paths are spliced in, with the parameters
	// bound to the arguments (virtual inlining), so a test moved into a helper reads like the inline test
	if call, ok := cond.(*ast.CallExpr); ok && d.decls != nil && d.inlineDepth < 3 {
		if fn := calleeOf(d.info, call); fn != nil {
			if fd := d.decls[fn]; fd != nil && fd.Body != nil && fd.Type.Results != nil && len(fd.Type.Results.List) == 1 {
				if rt := d.info.TypeOf(fd.Type.Results.List[0].Type); rt != nil && rt.String() == "bool" {
					var prms []*ast.Ident
					for _, p := range fd.Type.Params.List {
						prms = append(prms, p.Names...)
					}
					if len(prms) == len(call.Args) && !call.Ellipsis.IsValid() {
						okAll := true
						var tt, ff []dstate
						for _, s := range in {
							sub := &denum{info: d.info, pkg: d.pkg, inits: d.inits, decls: d.decls, limit: d.limit, inlineDepth: d.inlineDepth + 1, opaqueLoops: d.opaqueLoops}
							st := dstate{conds: s.conds, env: s.env, trace: s.trace}
							for i, p := range prms {
								if p.Name != "_" {
									st = st.bind(d.info.Defs[p], d.subst(call.Args[i], s.env, 0))
								}
							}
							sub.finish(sub.run(fd.Body.List, []dstate{st}))
							if sub.undecided != "" {
								okAll = false
								break
							}
							for _, pth := range sub.paths {
								if pth.Ret == nil || len(pth.Ret.Results) != 1 {
									okAll = false
									break
								}
								id, isID := ast.Unparen(pth.Ret.Results[0]).(*ast.Ident)
								ns := dstate{conds: pth.Conds, env: pth.Env, trace: s.trace}
								switch {
								case isID && id.Name == "true":
									tt = append(tt, ns)
								case isID && id.Name == "false":
									ff = append(ff, ns)
								default:
									// returns a boolean variable or call: split on it in the callee's environment
									rt2, rf2 := sub.split(pth.Ret.Results[0], []dstate{ns})
									tt = append(tt, rt2...)
									ff = append(ff, rf2...)
								}
							}
						}
						if okAll {
							return tt, ff
						}
					}
				}
			}
		}
	}
	for _, s := range in {
		if !d.contradicts(s, cond, true) {
			t = append(t, d.rec(s, cond, true))
		}
		if !d.contradicts(s, cond, false) {
			f = append(f, d.rec(s, cond, false))
		}
	}
	return
}

func refersTo(info *types.Info, e ast.Expr, ob types.Object) bool {
	found := false
	ast.Inspect(e, func(n ast.Node) bool {
		if id, ok := n.(*ast.Ident); ok && info.ObjectOf(id) == ob {
			found = true
		}
		return !found
	})
	return found
}

func (d *denum) assign(lhs, rhs ast.Expr, in []dstate) []dstate {
	id, ok := lhs.(*ast.Ident)
	if !ok || id.Name == "_" {
		return in
	}
	ob := d.info.ObjectOf(id)
	var out []dstate
	for _, s := range in {
		out = append(out, s.bind(ob, rhs))
	}
	return out
}

func (d *denum) run(stmts []ast.Stmt, in []dstate) []dstate {
	cur := in
	for _, st := range stmts {
		if len(cur) == 0 || d.undecided != "" {
			return nil
		}
		if len(d.paths) > d.limit || len(cur) > d.limit {
			d.undecided = "too many paths"
			return nil
		}
		switch s := st.(type) {
		case *ast.ReturnStmt:
			// `return <boolean expression>` is `if <expr> { return true }; return false`
			if len(s.Results) == 1 {
				if tv, ok := d.info.Types[s.Results[0]]; ok && tv.Value == nil && tv.Type != nil && tv.Type.String() == "bool" {
					switch ast.Unparen(s.Results[0]).(type) {
					case *ast.BinaryExpr, *ast.UnaryExpr:
						t, f := d.split(s.Results[0], cur)
						for _, x := range t {
							d.paths = append(d.paths, dpath{Conds: x.conds, Ret: &ast.ReturnStmt{Return: s.Return, Results: []ast.Expr{ast.NewIdent("true")}}, Env: x.env, Trace: append(append([]ast.Stmt{}, x.trace...), s)})
						}
						for _, x := range f {
							d.paths = append(d.paths, dpath{Conds: x.conds, Ret: &ast.ReturnStmt{Return: s.Return, Results: []ast.Expr{ast.NewIdent("false")}}, Env: x.env, Trace: append(append([]ast.Stmt{}, x.trace...), s)})
						}
						return nil
					}
				}
			}
			for _, x := range cur {
				d.paths = append(d.paths, dpath{Conds: x.conds, Ret: s, Env: x.env, Trace: append(append([]ast.Stmt{}, x.trace...), s)})
			}
			return nil
		case *ast.AssignStmt:
			cur = traced(cur, s)
			if len(s.Lhs) == len(s.Rhs) {
				for i := range s.Lhs {
					cur = d.assign(s.Lhs[i], s.Rhs[i], cur)
				}
			} else if len(s.Rhs) == 1 {
				cur = d.assign(s.Lhs[0], s.Rhs[0], cur)
				// the further results of a call: <call>[k] (synthetic), so that a rule can recognise e.g. the `found` of strings.Cut
				for k := 1; k < len(s.Lhs); k++ {
					cur = d.assign(s.Lhs[k], &ast.IndexExpr{X: s.Rhs[0], Index: &ast.BasicLit{Kind: token.INT, Value: string(rune('0' + k))}}, cur)
				}
			}
		case *ast.DeclStmt:
			cur = traced(cur, s)
			if gd, ok := s.Decl.(*ast.GenDecl); ok {
				for _, sp := range gd.Specs {
					if vs, ok := sp.(*ast.ValueSpec); ok {
						for i, nm := range vs.Names {
							if i < len(vs.Values) {
								cur = d.assign(nm, vs.Values[i], cur)
							} else if len(vs.Values) == 0 {
								// zero value of a boolean variable
								if t := d.info.TypeOf(nm); t != nil {
									if b, ok := t.Underlying().(*types.Basic); ok && b.Kind() == types.Bool {
										cur = d.assign(nm, ast.NewIdent("false"), cur)
									}
								}
							}
						}
					}
				}
			}
		case *ast.ExprStmt, *ast.DeferStmt:
			cur = traced(cur, s)
		case *ast.EmptyStmt:
		case *ast.BlockStmt:
			cur = d.run(s.List, cur)
		case *ast.IfStmt:
			if s.Init != nil {
				cur = d.run([]ast.Stmt{s.Init}, cur)
			}
			t, f := d.split(s.Cond, cur)
			after := d.run(s.Body.List, t)
			switch e := s.Else.(type) {
			case nil:
				after = append(after, f...)
			case *ast.BlockStmt:
				after = append(after, d.run(e.List, f)...)
			case *ast.IfStmt:
				after = append(after, d.run([]ast.Stmt{e}, f)...)
			}
			cur = after
		case *ast.SwitchStmt:
			if s.Init != nil {
				cur = d.run([]ast.Stmt{s.Init}, cur)
			}
			rest := cur
			var after []dstate
			var def *ast.CaseClause
			for _, cl := range s.Body.List {
				cc := cl.(*ast.CaseClause)
				if cc.List == nil {
					def = cc
					continue
				}
				var matched []dstate
				for _, k := range cc.List {
					var cond ast.Expr = k
					if s.Tag != nil {
						cond = &ast.BinaryExpr{X: s.Tag, Op: token.EQL, Y: k, OpPos: k.Pos()}
					}
					t, f := d.split(cond, rest)
					matched = append(matched, t...)
					rest = f
				}
				d.inSwitch++
				after = append(after, d.run(cc.Body, matched)...)
				d.inSwitch--
			}
			if def != nil {
				d.inSwitch++
				after = append(after, d.run(def.Body, rest)...)
				d.inSwitch--
			} else {
				after = append(after, rest...)
			}
			cur = after
		case *ast.TypeSwitchStmt:
			if s.Init != nil {
				cur = d.run([]ast.Stmt{s.Init}, cur)
			}
			// each clause is a branch guarded by the synthetic atom `<clause>` (the clause node's first type expression)
			var after []dstate
			hasDefault := false
			for _, cl := range s.Body.List {
				cc := cl.(*ast.CaseClause)
				var in2 []dstate
				if cc.List == nil {
					hasDefault = true
					atom := &ast.TypeAssertExpr{X: ast.NewIdent("·default"), Lparen: cc.Pos()}
					d.noteTS(atom, nil, s)
					for _, x := range cur {
						in2 = append(in2, x.with(atom, true))
					}
				} else {
					atom := &ast.TypeAssertExpr{X: ast.NewIdent("·type"), Type: cc.List[0], Lparen: cc.Pos()}
					d.noteTS(atom, cc, s)
					for _, x := range cur {
						in2 = append(in2, x.with(atom, true))
					}
				}
				d.inSwitch++
				after = append(after, d.run(cc.Body, in2)...)
				d.inSwitch--
			}
			if !hasDefault {
				atom := &ast.TypeAssertExpr{X: ast.NewIdent("·default"), Lparen: s.End()}
				d.noteTS(atom, nil, s)
				for _, x := range cur {
					after = append(after, x.with(atom, true))
				}
			}
			cur = after
		case *ast.BranchStmt:
			if d.iterExit != nil && s.Label == nil && (s.Tok == token.CONTINUE || s.Tok == token.BREAK && d.inSwitch == 0) {
				*d.iterExit = append(*d.iterExit, cur...)
				return nil
			}
			if d.loopBody && s.Label != nil && (s.Tok == token.CONTINUE || s.Tok == token.BREAK) {
				// a labelled jump out of (or to the head of) an enclosing loop: this iteration is over
				for _, x := range cur {
					d.paths = append(d.paths, dpath{Conds: x.conds, Env: x.env, Trace: x.trace, Exit: s.Tok.String() + " " + s.Label.Name})
				}
				return nil
			}
			if d.loopBody && s.Label == nil && (s.Tok == token.CONTINUE || s.Tok == token.BREAK && d.inSwitch == 0) {
				for _, x := range cur {
					d.paths = append(d.paths, dpath{Conds: x.conds, Env: x.env, Trace: x.trace, Exit: s.Tok.String()})
				}
				return nil
			}
			d.undecided = "a statement the path enumerator does not interpret (" + nodeKind(st) + ")"
			return nil
		case *ast.RangeStmt:
			elems := d.constElems(s.X, cur)
			if elems == nil && d.loopsOnce {
				cur = d.once(s, s.Body, cur)
				continue
			}
			if elems == nil {
				if d.opaqueLoops {
					cur = d.havoc(s, traced(cur, s))
					continue
				}
				d.undecided = "a range statement over something that is not a constant list"
				return nil
			}
			val, _ := s.Value.(*ast.Ident)
			if d.opaqueLoops {
				jumps := false
				ast.Inspect(s.Body, func(n ast.Node) bool {
					if _, ok := n.(*ast.BranchStmt); ok {
						jumps = true
					}
					return true
				})
				if jumps {
					cur = d.havoc(s, traced(cur, s))
					continue
				}
			}
			for _, el := range elems {
				states := cur
				if val != nil && val.Name != "_" {
					states = d.assign(val, el, states)
				}
				hasBranch := false
				ast.Inspect(s.Body, func(n ast.Node) bool {
					if _, ok := n.(*ast.BranchStmt); ok {
						hasBranch = true
					}
					return true
				})
				if hasBranch {
					d.undecided = "break/continue inside a range loop"
					return nil
				}
				cur = d.run(s.Body.List, states)
			}
		case *ast.ForStmt:
			if d.loopsOnce {
				if s.Init != nil {
					cur = d.run([]ast.Stmt{s.Init}, cur)
				}
				cur = d.once(s, s.Body, cur)
				continue
			}
			if d.opaqueLoops {
				cur = d.havoc(s, traced(cur, s))
				continue
			}
			d.undecided = "a for statement"
			return nil
		default:
			d.undecided = "a statement the path enumerator does not interpret (" + nodeKind(st) + ")"
			return nil
		}
	}
	return cur
}

func traced(in []dstate, st ast.Stmt) []dstate {
	out := make([]dstate, len(in))
	for i, s := range in {
		out[i] = dstate{conds: s.conds, env: s.env, trace: append(append([]ast.Stmt{}, s.trace...), st)}
	}
	return out
}

// finish records the states that ran off the end of the body as paths without a return statement.
func (d *denum) finish(fall []dstate) {
	for _, x := range fall {
		d.paths = append(d.paths, dpath{Conds: x.conds, Env: x.env, Trace: x.trace})
	}
}

func nodeKind(n ast.Node) string {
	switch n.(type) {
	case *ast.ForStmt:
		return "for"
	case *ast.GoStmt:
		return "go"
	case *ast.BranchStmt:
		return "break/continue/goto"
	case *ast.TypeSwitchStmt:
		return "type switch"
	case *ast.SelectStmt:
		return "select"
	}
	return "statement"
}

// constElems: the elements of a []string composite literal of constants (local or package-level).
func (d *denum) constElems(x ast.Expr, in []dstate) []ast.Expr {
	var env map[types.Object]ast.Expr
	if len(in) > 0 {
		env = in[0].env
	}
	e := d.deref(x, env)
	if id, ok := e.(*ast.Ident); ok {
		if init, ok := d.inits[d.info.ObjectOf(id)]; ok {
			e = init
		}
	}
	cl, ok := ast.Unparen(e).(*ast.CompositeLit)
	if !ok {
		return nil
	}
	var out []ast.Expr
	for _, el := range cl.Elts {
		if tv, ok := d.info.Types[el]; !ok || tv.Value == nil {
			return nil
		}
		out = append(out, el)
	}
	return out
}

// callFree: the expression contains no call (its value does not stand for one particular evaluation).
func callFree(e ast.Expr) bool {
	free := true
	ast.Inspect(e, func(n ast.Node) bool {
		if _, ok := n.(*ast.CallExpr); ok {
			free = false
		}
		return free
	})
	return free
}

// havoc: after a loop (or other statement) that is stepped over, the variables it assigns no longer have a known binding.
func (d *denum) havoc(st ast.Stmt, in []dstate) []dstate {
	assigned := map[types.Object]bool{}
	ast.Inspect(st, func(n ast.Node) bool {
		switch x := n.(type) {
		case *ast.AssignStmt:
			for _, l := range x.Lhs {
				if id, ok := l.(*ast.Ident); ok {
					if ob := d.info.ObjectOf(id); ob != nil {
						assigned[ob] = true
					}
				}
			}
		case *ast.IncDecStmt:
			if id, ok := x.X.(*ast.Ident); ok {
				if ob := d.info.ObjectOf(id); ob != nil {
					assigned[ob] = true
				}
			}
		case *ast.RangeStmt:
			for _, e := range []ast.Expr{x.Key, x.Value} {
				if id, ok := e.(*ast.Ident); ok {
					if ob := d.info.ObjectOf(id); ob != nil {
						assigned[ob] = true
					}
				}
			}
		}
		return true
	})
	if len(assigned) == 0 {
		return in
	}
	out := make([]dstate, len(in))
	for i, s := range in {
		env := map[types.Object]ast.Expr{}
		for k, v := range s.env {
			if !assigned[k] {
				env[k] = v
			}
		}
		out[i] = dstate{conds: s.conds, env: env, trace: s.trace}
	}
	return out
}

// membership: b is the synthetic second result of a map index expression (`_, ok := m[k]`) and m is a package-level
// map initialised with a composite literal of constant keys that is never written elsewhere: the equivalent
// disjunction `k == key1 || k == key2 || …` (nil otherwise).
func (d *denum) membership(b ast.Expr) ast.Expr {
	outer, ok := ast.Unparen(b).(*ast.IndexExpr)
	if !ok || outer.Lbrack != token.NoPos {
		return nil
	}
	if bl, ok := outer.Index.(*ast.BasicLit); !ok || bl.Value != "1" {
		return nil
	}
	ix, ok := ast.Unparen(outer.X).(*ast.IndexExpr)
	if !ok {
		return nil
	}
	id, ok := ast.Unparen(ix.X).(*ast.Ident)
	if !ok {
		return nil
	}
	init, ok := d.inits[d.info.ObjectOf(id)]
	if !ok {
		return nil
	}
	cl, ok := ast.Unparen(init).(*ast.CompositeLit)
	if !ok {
		return nil
	}
	if _, isMap := d.info.TypeOf(cl).Underlying().(*types.Map); !isMap {
		return nil
	}
	var out ast.Expr
	for _, el := range cl.Elts {
		kv, ok := el.(*ast.KeyValueExpr)
		if !ok {
			return nil
		}
		if tv, ok := d.info.Types[kv.Key]; !ok || tv.Value == nil {
			return nil
		}
		eq := &ast.BinaryExpr{X: ix.Index, Op: token.EQL, Y: kv.Key, OpPos: kv.Key.Pos()}
		if out == nil {
			out = eq
		} else {
			out = &ast.BinaryExpr{X: out, Op: token.LOR, Y: eq, OpPos: kv.Key.Pos()}
		}
	}
	return out
}

// once: the states after a loop that runs zero times or exactly once (the loop's own variables are unknown).
func (d *denum) once(loop ast.Stmt, body *ast.BlockStmt, in []dstate) []dstate {
	in = d.havoc(loop, in)
	var exits []dstate
	saved, savedSw := d.iterExit, d.inSwitch
	d.iterExit, d.inSwitch = &exits, 0
	after := d.run(body.List, in)
	d.iterExit, d.inSwitch = saved, savedSw
	out := append([]dstate{}, in...) // zero iterations
	out = append(out, after...)
	out = append(out, exits...)
	return d.havoc(loop, out)
}
