package main

// A small path enumerator for decision functions: bodies made of if / switch / range-over-constant-list / return /
// simple assignments. Every path to a return is listed with the atoms (non-compound conditions) it took and their
// truth values, so that a rule can be stated over paths instead of over one particular statement shape.

import (
	"go/ast"
	"go/token"
	"go/types"
)

type pathCond struct {
	Expr ast.Expr
	Val  bool
}

type dstate struct {
	conds []pathCond
	env   map[types.Object]ast.Expr
	trace []ast.Stmt // simple statements executed so far
}

type dpath struct {
	Conds []pathCond
	Ret   *ast.ReturnStmt // nil when the path runs off the end of the body
	Env   map[types.Object]ast.Expr
	Trace []ast.Stmt
}

type denum struct {
	opaqueLoops bool // loops that cannot be unrolled are stepped over instead of making the function undecided
	info        *types.Info
	pkg         *types.Package
	inits       map[types.Object]ast.Expr // package-level initialisers
	paths       []dpath
	undecided   string
	limit       int
}

func (s dstate) with(e ast.Expr, v bool) dstate {
	n := dstate{conds: append(append([]pathCond{}, s.conds...), pathCond{e, v}), env: s.env, trace: s.trace}
	return n
}

func (s dstate) bind(ob types.Object, e ast.Expr) dstate {
	env := map[types.Object]ast.Expr{}
	for k, v := range s.env {
		env[k] = v
	}
	env[ob] = e
	return dstate{conds: s.conds, env: env, trace: s.trace}
}

// deref follows local bindings of identifiers.
func (d *denum) deref(e ast.Expr, env map[types.Object]ast.Expr) ast.Expr {
	for i := 0; i < 10; i++ {
		id, ok := ast.Unparen(e).(*ast.Ident)
		if !ok {
			return ast.Unparen(e)
		}
		ob := d.info.ObjectOf(id)
		if b, ok := env[ob]; ok {
			e = b
			continue
		}
		return id
	}
	return e
}

// split expands a condition into the states in which it is true and those in which it is false (short-circuit).
func (d *denum) split(cond ast.Expr, in []dstate) (t, f []dstate) {
	cond = ast.Unparen(cond)
	switch c := cond.(type) {
	case *ast.BinaryExpr:
		switch c.Op {
		case token.LAND:
			xt, xf := d.split(c.X, in)
			yt, yf := d.split(c.Y, xt)
			return yt, append(xf, yf...)
		case token.LOR:
			xt, xf := d.split(c.X, in)
			yt, yf := d.split(c.Y, xf)
			return append(xt, yt...), yf
		}
	case *ast.UnaryExpr:
		if c.Op == token.NOT {
			xt, xf := d.split(c.X, in)
			return xf, xt
		}
	}
	for _, s := range in {
		t = append(t, s.with(cond, true))
		f = append(f, s.with(cond, false))
	}
	return
}

func (d *denum) assign(lhs, rhs ast.Expr, in []dstate) []dstate {
	id, ok := lhs.(*ast.Ident)
	if !ok || id.Name == "_" {
		return in
	}
	ob := d.info.ObjectOf(id)
	var out []dstate
	for _, s := range in {
		out = append(out, s.bind(ob, rhs))
	}
	return out
}

func (d *denum) run(stmts []ast.Stmt, in []dstate) []dstate {
	cur := in
	for _, st := range stmts {
		if len(cur) == 0 || d.undecided != "" {
			return nil
		}
		if len(d.paths) > d.limit || len(cur) > d.limit {
			d.undecided = "too many paths"
			return nil
		}
		switch s := st.(type) {
		case *ast.ReturnStmt:
			// `return <boolean expression>` is `if <expr> { return true }; return false`
			if len(s.Results) == 1 {
				if tv, ok := d.info.Types[s.Results[0]]; ok && tv.Value == nil && tv.Type != nil && tv.Type.String() == "bool" {
					switch ast.Unparen(s.Results[0]).(type) {
					case *ast.BinaryExpr, *ast.UnaryExpr:
						t, f := d.split(s.Results[0], cur)
						for _, x := range t {
							d.paths = append(d.paths, dpath{Conds: x.conds, Ret: &ast.ReturnStmt{Return: s.Return, Results: []ast.Expr{ast.NewIdent("true")}}, Env: x.env, Trace: append(append([]ast.Stmt{}, x.trace...), s)})
						}
						for _, x := range f {
							d.paths = append(d.paths, dpath{Conds: x.conds, Ret: &ast.ReturnStmt{Return: s.Return, Results: []ast.Expr{ast.NewIdent("false")}}, Env: x.env, Trace: append(append([]ast.Stmt{}, x.trace...), s)})
						}
						return nil
					}
				}
			}
			for _, x := range cur {
				d.paths = append(d.paths, dpath{Conds: x.conds, Ret: s, Env: x.env, Trace: append(append([]ast.Stmt{}, x.trace...), s)})
			}
			return nil
		case *ast.AssignStmt:
			cur = traced(cur, s)
			if len(s.Lhs) == len(s.Rhs) {
				for i := range s.Lhs {
					cur = d.assign(s.Lhs[i], s.Rhs[i], cur)
				}
			} else if len(s.Rhs) == 1 {
				cur = d.assign(s.Lhs[0], s.Rhs[0], cur)
			}
		case *ast.DeclStmt:
			cur = traced(cur, s)
			if gd, ok := s.Decl.(*ast.GenDecl); ok {
				for _, sp := range gd.Specs {
					if vs, ok := sp.(*ast.ValueSpec); ok {
						for i, nm := range vs.Names {
							if i < len(vs.Values) {
								cur = d.assign(nm, vs.Values[i], cur)
							}
						}
					}
				}
			}
		case *ast.ExprStmt, *ast.DeferStmt:
			cur = traced(cur, s)
		case *ast.EmptyStmt:
		case *ast.BlockStmt:
			cur = d.run(s.List, cur)
		case *ast.IfStmt:
			if s.Init != nil {
				cur = d.run([]ast.Stmt{s.Init}, cur)
			}
			t, f := d.split(s.Cond, cur)
			after := d.run(s.Body.List, t)
			switch e := s.Else.(type) {
			case nil:
				after = append(after, f...)
			case *ast.BlockStmt:
				after = append(after, d.run(e.List, f)...)
			case *ast.IfStmt:
				after = append(after, d.run([]ast.Stmt{e}, f)...)
			}
			cur = after
		case *ast.SwitchStmt:
			if s.Init != nil {
				cur = d.run([]ast.Stmt{s.Init}, cur)
			}
			rest := cur
			var after []dstate
			var def *ast.CaseClause
			for _, cl := range s.Body.List {
				cc := cl.(*ast.CaseClause)
				if cc.List == nil {
					def = cc
					continue
				}
				var matched []dstate
				for _, k := range cc.List {
					var cond ast.Expr = k
					if s.Tag != nil {
						cond = &ast.BinaryExpr{X: s.Tag, Op: token.EQL, Y: k, OpPos: k.Pos()}
					}
					t, f := d.split(cond, rest)
					matched = append(matched, t...)
					rest = f
				}
				after = append(after, d.run(cc.Body, matched)...)
			}
			if def != nil {
				after = append(after, d.run(def.Body, rest)...)
			} else {
				after = append(after, rest...)
			}
			cur = after
		case *ast.RangeStmt:
			elems := d.constElems(s.X, cur)
			if elems == nil {
				if d.opaqueLoops {
					cur = traced(cur, s)
					continue
				}
				d.undecided = "a range statement over something that is not a constant list"
				return nil
			}
			val, _ := s.Value.(*ast.Ident)
			for _, el := range elems {
				states := cur
				if val != nil && val.Name != "_" {
					states = d.assign(val, el, states)
				}
				hasBranch := false
				ast.Inspect(s.Body, func(n ast.Node) bool {
					if _, ok := n.(*ast.BranchStmt); ok {
						hasBranch = true
					}
					return true
				})
				if hasBranch {
					d.undecided = "break/continue inside a range loop"
					return nil
				}
				cur = d.run(s.Body.List, states)
			}
		case *ast.ForStmt:
			if d.opaqueLoops {
				cur = traced(cur, s)
				continue
			}
			d.undecided = "a for statement"
			return nil
		default:
			d.undecided = "a statement the path enumerator does not interpret (" + nodeKind(st) + ")"
			return nil
		}
	}
	return cur
}

func traced(in []dstate, st ast.Stmt) []dstate {
	out := make([]dstate, len(in))
	for i, s := range in {
		out[i] = dstate{conds: s.conds, env: s.env, trace: append(append([]ast.Stmt{}, s.trace...), st)}
	}
	return out
}

// finish records the states that ran off the end of the body as paths without a return statement.
func (d *denum) finish(fall []dstate) {
	for _, x := range fall {
		d.paths = append(d.paths, dpath{Conds: x.conds, Env: x.env, Trace: x.trace})
	}
}

func nodeKind(n ast.Node) string {
	switch n.(type) {
	case *ast.ForStmt:
		return "for"
	case *ast.GoStmt:
		return "go"
	case *ast.BranchStmt:
		return "break/continue/goto"
	case *ast.TypeSwitchStmt:
		return "type switch"
	case *ast.SelectStmt:
		return "select"
	}
	return "statement"
}

// constElems: the elements of a []string composite literal of constants (local or package-level).
func (d *denum) constElems(x ast.Expr, in []dstate) []ast.Expr {
	var env map[types.Object]ast.Expr
	if len(in) > 0 {
		env = in[0].env
	}
	e := d.deref(x, env)
	if id, ok := e.(*ast.Ident); ok {
		if init, ok := d.inits[d.info.ObjectOf(id)]; ok {
			e = init
		}
	}
	cl, ok := ast.Unparen(e).(*ast.CompositeLit)
	if !ok {
		return nil
	}
	var out []ast.Expr
	for _, el := range cl.Elts {
		if tv, ok := d.info.Types[el]; !ok || tv.Value == nil {
			return nil
		}
		out = append(out, el)
	}
	return out
}
