package main

import (
	"fmt"
	"go/ast"
	"go/types"
	"strings"
)

// linesOfGoTextKeepTheirOwnIndent: C08.R19 — the formatter's writers (the Write(io.Writer, int) methods of the syntax
// tree and the functions they call in the package) remove leading white space only from an expression's text as a
// WHOLE, never from one LINE of Go text that was split into lines: a continuation line of a multi-line raw string
// literal owns its leading white space — it is part of the string's value. Whether a line is such a continuation is
// found by a gofmt probe that cannot run on text gofmt rejects; so a writer that strips and re-indents single lines
// changes the value of a raw string in exactly the expressions the probe cannot see (a call spread over lines without
// a trailing comma), and the formatted template renders other bytes.
func linesOfGoTextKeepTheirOwnIndent(c *Ctx, rule string) {
	p := c.pkg("parser/v2")
	info := p.TypesInfo
	decls := map[types.Object]*ast.FuncDecl{}
	for _, fd := range allFuncDecls(p) {
		decls[info.Defs[fd.Name]] = fd
	}
	region := map[*ast.FuncDecl]bool{}
	var add func(fd *ast.FuncDecl, depth int)
	add = func(fd *ast.FuncDecl, depth int) {
		if fd == nil || fd.Body == nil || region[fd] || depth > 3 {
			return
		}
		region[fd] = true
		ast.Inspect(fd.Body, func(x ast.Node) bool {
			if call, ok := x.(*ast.CallExpr); ok {
				if fn := calleeOf(info, call); fn != nil {
					add(decls[fn], depth+1)
				}
			}
			return true
		})
	}
	nWrite := 0
	for _, fd := range allFuncDecls(p) {
		if fd.Recv == nil || fd.Name.Name != "Write" || fd.Type.Params.NumFields() != 2 {
			continue
		}
		sig, _ := info.Defs[fd.Name].Type().(*types.Signature)
		if sig == nil || sig.Params().Len() != 2 || sig.Params().At(0).Type().String() != "io.Writer" || sig.Params().At(1).Type().String() != "int" {
			continue
		}
		nWrite++
		add(fd, 0)
	}
	lineSlice := func(t types.Type) bool {
		if t == nil {
			return false
		}
		s := t.String()
		return s == "[]string" || s == "[][]byte"
	}
	n := 0
	for fd := range region {
		// range values over a slice of lines
		lineVars := map[types.Object]bool{}
		ast.Inspect(fd.Body, func(x ast.Node) bool {
			if rs, ok := x.(*ast.RangeStmt); ok && lineSlice(info.TypeOf(rs.X)) {
				if id, ok := rs.Value.(*ast.Ident); ok {
					lineVars[info.ObjectOf(id)] = true
				}
			}
			return true
		})
		k := 0
		// a trimmed copy that is only compared or measured (is the line blank?) is not what gets written
		onlyTested := map[*ast.CallExpr]bool{}
		ast.Inspect(fd.Body, func(x ast.Node) bool {
			switch t := x.(type) {
			case *ast.BinaryExpr:
				switch t.Op.String() {
				case "==", "!=":
					for _, side := range []ast.Expr{t.X, t.Y} {
						if c2, ok := ast.Unparen(side).(*ast.CallExpr); ok {
							onlyTested[c2] = true
						}
					}
				}
			case *ast.CallExpr:
				if id, ok := t.Fun.(*ast.Ident); ok && id.Name == "len" && len(t.Args) == 1 {
					if c2, ok := ast.Unparen(t.Args[0]).(*ast.CallExpr); ok {
						onlyTested[c2] = true
					}
				}
			}
			return true
		})
		ast.Inspect(fd.Body, func(x ast.Node) bool {
			call, ok := x.(*ast.CallExpr)
			if !ok || len(call.Args) == 0 || onlyTested[call] {
				return true
			}
			fn := calleeOf(info, call)
			if fn == nil || fn.Pkg() == nil || (fn.Pkg().Path() != "strings" && fn.Pkg().Path() != "bytes") {
				return true
			}
			switch fn.Name() {
			case "TrimLeft", "TrimSpace", "TrimLeftFunc", "Trim", "TrimFunc":
			default:
				return true
			}
			arg := ast.Unparen(call.Args[0])
			// string(lines[i]) / []byte(line)
			if conv, ok := arg.(*ast.CallExpr); ok && len(conv.Args) == 1 {
				if tv, ok := info.Types[conv.Fun]; ok && tv.IsType() {
					arg = ast.Unparen(conv.Args[0])
				}
			}
			isLine := false
			switch a := arg.(type) {
			case *ast.IndexExpr:
				isLine = lineSlice(info.TypeOf(a.X))
			case *ast.Ident:
				isLine = lineVars[info.ObjectOf(a)]
			}
			if !isLine {
				return true
			}
			k++
			n++
			c.viol(rule, fmt.Sprintf("%s|line-trim#%d", funcKey(p, fd), k), c.pos(call.Pos()),
				fmt.Sprintf("%s strips the leading white space of ONE line of split Go text (%s(%s…)): a continuation line of a multi-line raw string literal owns that white space — it is part of the string. Whether a line is one is found by a gofmt probe that cannot run on text gofmt rejected, so for such expressions (a call spread over lines, no trailing comma) the string's value changes and the formatted template renders other bytes", fd.Name.Name, fn.Pkg().Name()+"."+fn.Name(), types.ExprString(call.Args[0])))
			return true
		})
	}
	c.count("formatter_writers", nWrite)
	c.count("formatter_writer_region", len(region))
	if nWrite < 20 {
		c.viol(rule, "anchor-lost:"+rule, "", fmt.Sprintf("only %d Write(io.Writer, int) methods found in parser/v2 (at least 20 were confirmed by reading the pinned tree)", nWrite))
	}
	fc, finfo, ok := checkSnippet(c, "package control\nimport \"strings\"\nfunc f(lines []string) (out []string) { for i := range lines { out = append(out, strings.TrimLeft(lines[i], \" \\t\")) }; return }\n")
	hit := 0
	if ok {
		ast.Inspect(fc, func(x ast.Node) bool {
			if call, isCall := x.(*ast.CallExpr); isCall && len(call.Args) > 0 {
				if fn := calleeOf(finfo, call); fn != nil && fn.Name() == "TrimLeft" {
					if ix, isIx := ast.Unparen(call.Args[0]).(*ast.IndexExpr); isIx && lineSlice(finfo.TypeOf(ix.X)) {
						hit++
					}
				}
			}
			return true
		})
	}
	c.control(rule+":line-trim-detector", hit == 1)
	if n == 0 {
		c.ok(rule, p.PkgPath+"|no-line-of-go-text-is-stripped", "", fmt.Sprintf("none of the %d functions of the formatter's writers strips the leading white space of a single line of split text", len(region)))
	}
	_ = strings.TrimSpace
}
