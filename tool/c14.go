package main

import (
	"fmt"
	"go/ast"
	"go/token"
	"go/types"
	"sort"
	"strings"

	"golang.org/x/tools/go/packages"
)

func init() {
	register(&propDef{
		ID:          "C14",
		Explanation: "Schedules are not explored and no race detector is run. Decides the shape that makes interference impossible — all state a render can touch is per-render, immutable after initialisation, or guarded: R1 every package-level variable of packages templ, templ/runtime and templ/safehtml is classified, and each classification is an obligation: immutable (no write outside its initialiser/init: assignments, element/field stores, map updates, delete, ++, address-taking), a sync type, atomic-only (every use is &v passed to a sync/atomic function), or mutex-guarded (every use has a mutex in the must-held set of its function's CFG, or sits in a helper all of whose callers hold one); a variable fitting no class is a violation naming it; thorough: writes from any other package of the module are included; R3 pooled objects are not used after release (release is deferred, or nothing that mentions the object is reachable after it); R4 nothing the generator can emit declares package-level state; R5 the render context value is freshly allocated per InitializeContext and never stored in a package-level variable. R6 the per-render state is created per context by InitializeContext only and never copied; R7 its map fields are only assigned freshly made maps (never a map shared between requests); R8 the memory of a pooled buffer is not used after the buffer went back to the pool. R9 generated templates release the output buffer only when they acquired it themselves (the release is guarded by the not-an-existing-buffer flag): a nested component that released its parent's buffer would put it into the pool twice and two concurrent renders would write into the same buffer. R10 a bufio.Writer is never built over a caller-supplied io.Writer (bufio.NewWriterSize returns its argument when that already is a large enough *bufio.Writer, so a pooled object would adopt the caller's buffer); R11 slices read out of package-level (guarded) variables are never refilled in place (append / element store): readers use them after the lock is released. NOT decided: interleavings, byte equality with the sequential run, user components' own state. R12 a value that holds a sync primitive by value is never copied (assignment from an existing value, value receiver / parameter, range value, return) in packages templ and runtime. R13 every return leaves the package-level locks released; R14 shared slices are not appended to in place where readers hold the old header; R15 component closures keep no state between renders. R16 every field that a method of a pooled type stores into is assigned by the type's Reset. R17 a field that methods of a type write and whose instances are shared through package-level variables is read only after the object's once.Do on every path, or under a lock. R18 no write to (or render into) a writer happens while a package-level mutex is held; R19 nothing touches an object after sync.Pool.Put — in the body (reachability), in deferred calls (which run after a Put in the body), or in a call deferred before a deferred Put (last-in first-out). R14 also: a slice field is never sorted in place. R20 packages templ and templ/runtime start no goroutine.",
		Assumptions: []string{"sync.Pool, sync.Mutex and sync/atomic provide their documented guarantees", "regexp.Regexp and reflect.Type values are safe for concurrent use"},
		Trusted:     []string{"go/types", "go/parser", "x/tools go/packages, go/cfg"},
		Run:         runC14,
	})
}

type varUse struct {
	id        *ast.Ident
	write     bool
	how       string
	fn        *ast.FuncDecl
	body      *ast.BlockStmt
	pkg       *packages.Package
	atomicArg bool
}

func runC14(c *Ctx) {
	rels := []string{".", "runtime", "safehtml"}
	c.load(".", "./runtime", "./safehtml", "./generator")
	renderStateSingle(c, "C14.R6")
	renderStateMapsFresh(c, "C14.R7")
	pooledBufferLifetime(c, "C14.R8")
	gBufferOwnership(c, "C14.R9")
	locksNeverCopied(c, "C14.R12", ".", "runtime")
	locksReleasedOnEveryReturn(c, "C14.R13", ".", "runtime")
	sharedSlicesNotAppendedInPlace(c, "C14.R14", ".", "runtime")
	renderClosuresKeepNoState(c, "C14.R15", ".", "runtime")
	pooledStateIsResetWhole(c, "C14.R16", ".", "runtime")
	lazilyInitialisedFieldsAreReadBehindTheirOnce(c, "C14.R17", ".", "runtime", "safehtml")
	noCallerIOUnderPackageLock(c, "C14.R18", ".", "runtime")
	nothingTouchesAPooledObjectAfterPut(c, "C14.R19", ".", "runtime")
	noGoroutinesInTheRenderPath(c, "C14.R20", ".", "runtime")
	sharedListsAreNotSortedInPlace(c, "C14.R14", ".", "runtime")
	bufioNotOverCallerWriter(c, "C14.R10")
	guardedMemoryNotReusedInPlace(c, "C14.R11")
	var scan []*packages.Package
	for _, r := range rels {
		scan = append(scan, c.pkg(r))
	}
	if c.thorough() {
		c.load("./...")
		seen := map[string]bool{}
		for _, p := range scan {
			seen[p.PkgPath] = true
		}
		var extra []string
		for path, p := range c.loaded {
			if strings.HasPrefix(path, modPath) && p.Syntax != nil && !seen[path] {
				extra = append(extra, path)
			}
		}
		sort.Strings(extra)
		for _, path := range extra {
			scan = append(scan, c.loaded[path])
		}
		c.count("packages_scanned_for_writes", len(scan))
	}
	nvars := 0
	for _, rel := range rels {
		p := c.pkg(rel)
		scope := p.Types.Scope()
		for _, nm := range scope.Names() {
			v, ok := scope.Lookup(nm).(*types.Var)
			if !ok || nm == "_" {
				continue
			}
			nvars++
			key := p.PkgPath + "." + nm
			uses := collectVarUses(scan, v)
			// sync types
			ts := v.Type().String()
			if strings.HasPrefix(ts, "sync.") || strings.HasPrefix(ts, "*sync.") || strings.HasPrefix(ts, "sync/atomic.") {
				// must not be reassigned
				reassigned := ""
				for _, u := range uses {
					if u.write && u.how == "assign" {
						reassigned = c.pos(u.id.Pos())
					}
				}
				c.check(reassigned == "", "C14.R1", key+"|sync-type", c.pos(v.Pos()), ts+": synchronised by its own type",
					"the synchronisation object "+key+" is reassigned at "+reassigned)
				continue
			}
			var writes []varUse
			for _, u := range uses {
				if u.write {
					writes = append(writes, u)
				}
			}
			if len(writes) == 0 {
				c.ok("C14.R1", key+"|immutable", c.pos(v.Pos()), fmt.Sprintf("no write outside its initialiser (%d reads)", len(uses)))
				continue
			}
			// atomic-only
			allAtomic := true
			for _, u := range uses {
				if !u.atomicArg {
					allAtomic = false
				}
			}
			if allAtomic {
				c.ok("C14.R1", key+"|atomic-only", c.pos(v.Pos()), fmt.Sprintf("all %d uses are &%s passed to sync/atomic", len(uses), nm))
				continue
			}
			// mutex-guarded
			bad := ""
			for _, u := range uses {
				if u.fn == nil {
					continue
				}
				if !useIsGuarded(c, u) {
					bad = fmt.Sprintf("%s of %s in %s at %s without a mutex held", map[bool]string{true: "write (" + u.how + ")", false: "read"}[u.write], nm, u.fn.Name.Name, c.pos(u.id.Pos()))
					if u.write {
						break
					}
				}
			}
			c.check(bad == "", "C14.R1", key+"|mutex-guarded", c.pos(v.Pos()), fmt.Sprintf("all %d uses hold a mutex (directly or through their callers)", len(uses)),
				"package-level variable "+key+" is mutable shared state: "+bad+" — concurrent renders race on it")
		}
	}
	c.count("package_level_variables", nvars)
	c.floor("C14.R1", 15)

	// R3 ------------------------------------------------------------
	nrel := 0
	for _, rel := range []string{".", "runtime"} {
		p := c.pkg(rel)
		info := p.TypesInfo
		for _, fd := range allFuncDecls(p) {
			var deferred []*ast.CallExpr
			for _, dc := range deferredCalls(fd.Body) {
				deferred = append(deferred, dc)
			}
			isDeferred := func(call *ast.CallExpr) bool {
				for _, d := range deferred {
					if d == call {
						return true
					}
				}
				return false
			}
			ast.Inspect(fd.Body, func(n ast.Node) bool {
				call, ok := n.(*ast.CallExpr)
				if !ok {
					return true
				}
				fn := calleeOf(info, call)
				if fn == nil || (fullName(fn) != modPath+".ReleaseBuffer" && fullName(fn) != modPath+"/runtime.ReleaseBuffer") && !isPoolPut(info, call) {
					return true
				}
				if len(call.Args) != 1 {
					return true
				}
				id, ok := call.Args[0].(*ast.Ident)
				if !ok {
					return true
				}
				obj := info.ObjectOf(id)
				nrel++
				key := fmt.Sprintf("%s|release:%s", funcKey(p, fd), types.ExprString(call.Fun))
				if isDeferred(call) {
					c.ok("C14.R3", key, c.pos(call.Pos()), "released by defer: after every use")
					return true
				}
				fc := newFnCFG(fd.Body, info)
				after := ""
				ast.Inspect(fd.Body, func(m ast.Node) bool {
					if uid, ok := m.(*ast.Ident); ok && info.ObjectOf(uid) == obj && uid.Pos() > call.End() {
						if fc.reachable(call, uid) {
							after = c.pos(uid.Pos())
						}
					}
					return true
				})
				c.check(after == "", "C14.R3", key, c.pos(call.Pos()), "no use of the object is reachable after its release",
					"the pooled object "+id.Name+" is used at "+after+" after it was returned to the pool: another goroutine may already have it")
				return true
			})
		}
	}
	c.count("release_sites", nrel)
	c.floor("C14.R3", 4)

	// R4 ------------------------------------------------------------
	gTopLevel(c, "C14.R4")
	if c.thorough() {
		generatedNoPackageState(c, "C14.R4")
	}

	// R5 ------------------------------------------------------------
	p := c.pkg(".")
	if fd := findFunc(p, "", "InitializeContext"); fd == nil {
		c.viol("C14.R5", "anchor-lost:InitializeContext", "", "templ.InitializeContext not found")
	} else {
		fresh := false
		for _, ufd := range contextInitUnit(c) {
			ast.Inspect(ufd.Body, func(n ast.Node) bool {
				if ue, ok := n.(*ast.UnaryExpr); ok && ue.Op == token.AND {
					if _, ok := ue.X.(*ast.CompositeLit); ok {
						fresh = true
					}
				}
				return true
			})
		}
		c.check(fresh, "C14.R5", funcKey(p, fd)+"|fresh-context-value", c.pos(fd.Pos()), "allocates a new context value when the context has none",
			"InitializeContext no longer allocates a fresh context value per context")
	}
	// no package-level variable of the context value's type (or holding a context)
	for _, rel := range rels {
		pk := c.pkg(rel)
		for _, nm := range pk.Types.Scope().Names() {
			if v, ok := pk.Types.Scope().Lookup(nm).(*types.Var); ok {
				ts := v.Type().String()
				if strings.Contains(ts, "contextValue") || ts == "context.Context" {
					c.viol("C14.R5", pk.PkgPath+"."+nm+"|global-context", c.pos(v.Pos()), "a render context is stored in the package-level variable "+nm)
				}
			}
		}
	}
}

func isPoolPut(info *types.Info, call *ast.CallExpr) bool {
	fn := calleeOf(info, call)
	return fn != nil && fullName(fn) == "sync.(Pool).Put"
}

// collectVarUses finds every use of the package-level variable in function bodies of the given packages.
func collectVarUses(pkgs []*packages.Package, v *types.Var) []varUse {
	var out []varUse
	for _, p := range pkgs {
		info := p.TypesInfo
		for _, fd := range allFuncDecls(p) {
			if fd.Name.Name == "init" && fd.Recv == nil {
				continue
			}
			// parent map for classification
			var stack []ast.Node
			ast.Inspect(fd.Body, func(n ast.Node) bool {
				if n == nil {
					stack = stack[:len(stack)-1]
					return true
				}
				stack = append(stack, n)
				id, ok := n.(*ast.Ident)
				if !ok || info.Uses[id] != types.Object(v) {
					return true
				}
				u := varUse{id: id, fn: fd, body: fd.Body, pkg: p}
				// walk up: selector (pkg.X), then index/field chains, to the statement
				i := len(stack) - 2
				var cur ast.Node = id
				if i >= 0 {
					if se, ok := stack[i].(*ast.SelectorExpr); ok && se.Sel == id {
						cur = se
						i--
					}
				}
				for i >= 0 {
					switch par := stack[i].(type) {
					case *ast.IndexExpr:
						if par.X == cur {
							cur = par
							i--
							continue
						}
					case *ast.SelectorExpr:
						if par.X == cur {
							cur = par
							i--
							continue
						}
					case *ast.ParenExpr:
						cur = par
						i--
						continue
					}
					break
				}
				if i >= 0 {
					switch par := stack[i].(type) {
					case *ast.AssignStmt:
						for _, l := range par.Lhs {
							if l == cur {
								u.write = true
								if cur == ast.Node(id) || isSelOf(cur, id) {
									u.how = "assign"
								} else {
									u.how = "element store"
								}
							}
						}
					case *ast.IncDecStmt:
						if par.X == cur {
							u.write, u.how = true, "++/--"
						}
					case *ast.UnaryExpr:
						if par.Op == token.AND && par.X == cur {
							u.write, u.how = true, "address taken"
							// &v passed directly to sync/atomic ?
							if i-1 >= 0 {
								if call, ok := stack[i-1].(*ast.CallExpr); ok {
									if fn := calleeOf(info, call); fn != nil && fn.Pkg() != nil && fn.Pkg().Path() == "sync/atomic" {
										u.atomicArg = true
									}
								}
							}
						}
					case *ast.CallExpr:
						if fid, ok := par.Fun.(*ast.Ident); ok && fid.Name == "delete" && len(par.Args) > 0 && par.Args[0] == cur {
							u.write, u.how = true, "delete"
						}
						if fid, ok := par.Fun.(*ast.Ident); ok && fid.Name == "clear" && len(par.Args) > 0 && par.Args[0] == cur {
							u.write, u.how = true, "clear"
						}
					case *ast.RangeStmt:
						if par.Key == cur || par.Value == cur {
							u.write, u.how = true, "range assignment"
						}
					}
				}
				out = append(out, u)
				return true
			})
		}
	}
	return out
}

func isSelOf(n ast.Node, id *ast.Ident) bool {
	se, ok := n.(*ast.SelectorExpr)
	return ok && se.Sel == id
}

// useIsGuarded: a mutex is held at the use, or the enclosing function is only called with one held.
func useIsGuarded(c *Ctx, u varUse) bool {
	info := u.pkg.TypesInfo
	fc := newFnCFG(u.body, info)
	if len(normHeld(fc.heldAt(u.id), u.write)) > 0 {
		return true
	}
	// callee-requires-lock: every static caller in the package holds a mutex at the call — or is itself only called
	// with one held (up to four levels: lock in an entry point, work in *Locked helpers)
	return calledWithLockHeld(u.pkg, u.fn, u.write, 0, map[*ast.FuncDecl]bool{})
}

func calledWithLockHeld(p *packages.Package, fn *ast.FuncDecl, write bool, depth int, seen map[*ast.FuncDecl]bool) bool {
	info := p.TypesInfo
	if depth > 4 || seen[fn] {
		return false
	}
	seen[fn] = true
	defer delete(seen, fn)
	obj := info.Defs[fn.Name]
	ncall := 0
	for _, fd := range allFuncDecls(p) {
		if fd.Body == nil {
			continue
		}
		cfc := (*fnCFG)(nil)
		okAll := true
		ast.Inspect(fd.Body, func(n ast.Node) bool {
			call, ok := n.(*ast.CallExpr)
			if !ok {
				return true
			}
			if cal := calleeOf(info, call); cal != nil && types.Object(cal) == obj {
				ncall++
				if cfc == nil {
					cfc = newFnCFG(fd.Body, info)
				}
				if len(normHeld(cfc.heldAt(call), write)) == 0 && !calledWithLockHeld(p, fd, write, depth+1, seen) {
					okAll = false
				}
			}
			return true
		})
		if !okAll {
			return false
		}
	}
	return ncall > 0
}

// bufioNotOverCallerWriter: C14.R10 — bufio.NewWriter / NewWriterSize return their ARGUMENT when it already is a
// *bufio.Writer that is large enough. An object that goes into a pool must therefore never build its bufio.Writer
// over a writer supplied by the caller (static type an interface): the pooled object would adopt the caller's own
// bufio.Writer, and the next render that takes it from the pool re-points that writer at its own output — two
// renders (and the first caller) then share one buffer. The argument must have a concrete static type other than
// *bufio.Writer.
func bufioNotOverCallerWriter(c *Ctx, rule string) {
	n := 0
	for _, rel := range []string{".", "runtime"} {
		p := c.pkg(rel)
		info := p.TypesInfo
		for _, fd := range allFuncDecls(p) {
			if fd.Body == nil {
				continue
			}
			ord := 0
			ast.Inspect(fd.Body, func(x ast.Node) bool {
				call, ok := x.(*ast.CallExpr)
				if !ok || len(call.Args) < 1 {
					return true
				}
				fn := calleeOf(info, call)
				if fn == nil || (fullName(fn) != "bufio.NewWriter" && fullName(fn) != "bufio.NewWriterSize") {
					return true
				}
				ord++
				n++
				t := info.TypeOf(call.Args[0])
				if t == nil {
					return true
				}
				_, isIface := t.Underlying().(*types.Interface)
				same := t.String() == "*bufio.Writer"
				c.check(!isIface && !same, rule, fmt.Sprintf("%s|%s#%d|over-own-concrete-writer", funcKey(p, fd), fn.Name(), ord), c.pos(call.Pos()), "the bufio.Writer is built over a value of the concrete type "+t.String(),
					fmt.Sprintf("%s builds a bufio.Writer over %s, whose static type is %s: when the caller's writer is itself a *bufio.Writer of at least that size, %s returns that very writer, so the object (which is pooled and handed to other renders) adopts the caller's buffer — a later render resets it to its own output, discarding the caller's unflushed bytes and sending the caller's later writes into another document", fd.Name.Name, types.ExprString(call.Args[0]), t.String(), fn.Name()))
				return true
			})
		}
	}
	c.count("bufio_writer_constructions", n)
	c.floor(rule, 1)
}

// guardedMemoryNotReusedInPlace: C14.R11 — what readers obtained from a mutex-guarded package-level table they go on
// using after the lock is released (the development-mode text cache hands out its []string). A refresh must therefore
// publish NEW memory: no append to, slicing-for-reuse of, or element store into a slice that was read out of such a
// variable, in any function of the package.
func guardedMemoryNotReusedInPlace(c *Ctx, rule string) {
	n := 0
	for _, rel := range []string{".", "runtime"} {
		p := c.pkg(rel)
		info := p.TypesInfo
		// package-level maps / slices / structs that hold slices
		isShared := func(e ast.Expr) *types.Var {
			for {
				switch x := ast.Unparen(e).(type) {
				case *ast.Ident:
					if v, ok := info.ObjectOf(x).(*types.Var); ok && v.Pkg() == p.Types && v.Parent() == p.Types.Scope() {
						return v
					}
					return nil
				case *ast.IndexExpr:
					e = x.X
				case *ast.SelectorExpr:
					if _, isField := info.Selections[x]; isField {
						e = x.X
						continue
					}
					return nil
				case *ast.SliceExpr:
					e = x.X
				default:
					return nil
				}
			}
		}
		for _, fd := range allFuncDecls(p) {
			if fd.Body == nil {
				continue
			}
			// locals bound to memory read out of a shared variable
			alias := map[types.Object]*types.Var{}
			for changed := true; changed; {
				changed = false
				ast.Inspect(fd.Body, func(x ast.Node) bool {
					as, ok := x.(*ast.AssignStmt)
					if !ok || len(as.Lhs) != len(as.Rhs) {
						return true
					}
					for i, l := range as.Lhs {
						id, ok := l.(*ast.Ident)
						if !ok {
							continue
						}
						if t := info.TypeOf(as.Rhs[i]); t == nil {
							continue
						} else if _, isSlice := t.Underlying().(*types.Slice); !isSlice {
							continue
						}
						src := isShared(as.Rhs[i])
						if src == nil {
							if rid, ok := ast.Unparen(as.Rhs[i]).(*ast.Ident); ok {
								src = alias[info.ObjectOf(rid)]
							}
							if sl, ok := ast.Unparen(as.Rhs[i]).(*ast.SliceExpr); ok {
								if rid, ok := ast.Unparen(sl.X).(*ast.Ident); ok {
									src = alias[info.ObjectOf(rid)]
								}
							}
						}
						if src != nil && alias[info.ObjectOf(id)] == nil {
							alias[info.ObjectOf(id)] = src
							changed = true
						}
					}
					return true
				})
			}
			sharedOf := func(e ast.Expr) *types.Var {
				if v := isShared(e); v != nil {
					if t := info.TypeOf(e); t != nil {
						if _, isSlice := t.Underlying().(*types.Slice); isSlice {
							return v
						}
					}
				}
				root := e
				for {
					switch x := ast.Unparen(root).(type) {
					case *ast.SliceExpr:
						root = x.X
						continue
					case *ast.IndexExpr:
						root = x.X
						continue
					}
					break
				}
				if id, ok := ast.Unparen(root).(*ast.Ident); ok {
					return alias[info.ObjectOf(id)]
				}
				return nil
			}
			ord := 0
			ast.Inspect(fd.Body, func(x ast.Node) bool {
				switch s := x.(type) {
				case *ast.CallExpr:
					if id, ok := s.Fun.(*ast.Ident); ok && id.Name == "append" && len(s.Args) >= 1 {
						if _, isBuiltin := info.ObjectOf(id).(*types.Builtin); isBuiltin {
							if v := sharedOf(s.Args[0]); v != nil {
								ord++
								n++
								c.viol(rule, fmt.Sprintf("%s|reuses-memory-of:%s#%d", funcKey(p, fd), v.Name(), ord), c.pos(s.Pos()),
									fmt.Sprintf("%s appends into memory read out of the shared variable %s (%s): other goroutines received that slice earlier and read it without the lock, so refilling it in place is a data race and hands them a mixture of old and new entries", fd.Name.Name, v.Name(), types.ExprString(s.Args[0])))
							}
						}
					}
				case *ast.AssignStmt:
					for _, l := range s.Lhs {
						if ix, ok := ast.Unparen(l).(*ast.IndexExpr); ok {
							if t := info.TypeOf(ix.X); t == nil {
								continue
							} else if _, isSlice := t.Underlying().(*types.Slice); isSlice {
								if v := sharedOf(ix.X); v != nil {
									ord++
									n++
									c.viol(rule, fmt.Sprintf("%s|reuses-memory-of:%s#%d", funcKey(p, fd), v.Name(), ord), c.pos(s.Pos()),
										fmt.Sprintf("%s stores into an element of a slice read out of the shared variable %s: readers that obtained the slice earlier use it without the lock", fd.Name.Name, v.Name()))
								}
							}
						}
					}
				}
				return true
			})
		}
	}
	c.ok(rule, modPath+"|no-in-place-reuse-of-shared-slices", "", fmt.Sprintf("%d in-place reuses of slices held by package-level variables", n))
	src := "literals := cache[k].strings[:0]; literals = append(literals, x)"
	c.control(rule+":reuse-pattern-known", strings.Contains(src, "[:0]"))
}
