package main

// E2 — SSA value classifier. A backward walk over SSA definitions that describes where the text of a
// written operand comes from. No code is executed and no path condition is solved; unknown constructs
// classify as DYN and therefore fail the obligation that asked.

import (
	"fmt"
	"go/constant"
	"go/token"
	"go/types"
	"sort"
	"strings"

	"golang.org/x/tools/go/ssa"
)

type leaf struct {
	Kind  string // CONST ESCAPED SAFE TYPE FIELD PARAM GLOBAL BUILDER CALL DYN FREEVAR
	Info  string
	Inner []leaf
	Pos   token.Pos
	Const string
	Res   int // FPARAM: which result of the applied function value
}

func (l leaf) String() string {
	s := l.Kind
	if l.Info != "" {
		s += ":" + l.Info
	}
	if len(l.Inner) > 0 {
		s += "[" + leavesString(l.Inner) + "]"
	}
	return s
}

func leavesString(ls []leaf) string {
	seen := map[string]bool{}
	var out []string
	for _, l := range ls {
		s := l.String()
		if !seen[s] {
			seen[s] = true
			out = append(out, s)
		}
	}
	sort.Strings(out)
	return strings.Join(out, " | ")
}

type flow struct {
	c         *Ctx
	prog      *ssa.Program
	maxDepth  int
	fieldBusy map[string]bool
}

func (c *Ctx) flow() *flow {
	c.buildSSA()
	return &flow{c: c, prog: c.prog, maxDepth: 14}
}

// allFuncs lists the source functions of a package: functions, methods, and their anonymous functions.
func ssaFuncs(prog *ssa.Program, sp *ssa.Package) []*ssa.Function {
	var out []*ssa.Function
	seen := map[*ssa.Function]bool{}
	var add func(f *ssa.Function)
	add = func(f *ssa.Function) {
		if f == nil || seen[f] || f.Blocks == nil {
			return
		}
		seen[f] = true
		out = append(out, f)
		for _, af := range f.AnonFuncs {
			add(af)
		}
	}
	var names []string
	for n := range sp.Members {
		names = append(names, n)
	}
	sort.Strings(names)
	for _, n := range names {
		switch m := sp.Members[n].(type) {
		case *ssa.Function:
			if m.Synthetic == "" || m.Name() == "init" {
				add(m)
			}
		case *ssa.Type:
			for _, recv := range []types.Type{m.Type(), types.NewPointer(m.Type())} {
				ms := prog.MethodSets.MethodSet(recv)
				for i := 0; i < ms.Len(); i++ {
					f := prog.MethodValue(ms.At(i))
					if f != nil && f.Pkg == sp && f.Synthetic == "" {
						add(f)
					}
				}
			}
		}
	}
	return out
}

func namedTypeString(t types.Type) string {
	t = types.Unalias(t)
	if nt, ok := t.(*types.Named); ok {
		if nt.Obj().Pkg() != nil {
			return nt.Obj().Pkg().Path() + "." + nt.Obj().Name()
		}
		return nt.Obj().Name()
	}
	return ""
}

func ssaFuncName(f *ssa.Function) string {
	if f == nil {
		return ""
	}
	if f.Origin() != nil {
		f = f.Origin()
	}
	if obj, ok := f.Object().(*types.Func); ok && obj != nil {
		return fullName(obj)
	}
	if f.Parent() != nil {
		return ssaFuncName(f.Parent()) + "$" + strings.TrimPrefix(f.Name(), f.Parent().Name()+"$")
	}
	return f.String()
}

// trustedTypes: values of these defined string types are produced by sanitisers or by the caller's explicit,
// documented opt-out; rules about how they are produced live in C03–C05.
var trustedTypes = map[string]string{
	modPath + ".SafeCSS":         "sanitised CSS (C05) or explicit caller opt-in",
	modPath + ".SafeCSSProperty": "explicit caller opt-in for a CSS value (C05.R3 bounds where it bypasses)",
	modPath + ".SafeURL":         "sanitised URL (C04)",
	"html/template.HTML":         "html/template output",
}

func (f *flow) classify(v ssa.Value) []leaf { return f.cl(v, 0, map[ssa.Value]bool{}) }

func (f *flow) cl(v ssa.Value, depth int, seen map[ssa.Value]bool) []leaf {
	if v == nil {
		return nil
	}
	if depth > f.maxDepth {
		return []leaf{{Kind: "DYN", Info: "depth"}}
	}
	if seen[v] {
		return nil
	}
	seen[v] = true
	defer delete(seen, v)

	if tn := namedTypeString(v.Type()); tn != "" {
		if _, ok := trustedTypes[tn]; ok {
			if _, isConst := v.(*ssa.Const); !isConst {
				return []leaf{{Kind: "TYPE", Info: tn, Pos: v.Pos()}}
			}
		}
	}
	switch v := v.(type) {
	case *ssa.Const:
		s := ""
		if v.Value != nil && v.Value.Kind() == constant.String {
			s = constant.StringVal(v.Value)
		} else if v.Value != nil {
			s = v.Value.ExactString()
		}
		return []leaf{{Kind: "CONST", Const: s, Pos: v.Pos()}}
	case *ssa.BinOp:
		if v.Op == token.ADD {
			return append(f.cl(v.X, depth+1, seen), f.cl(v.Y, depth+1, seen)...)
		}
		return []leaf{{Kind: "SAFE", Info: "arith"}}
	case *ssa.Phi:
		var out []leaf
		for _, e := range v.Edges {
			out = append(out, f.cl(e, depth+1, seen)...)
		}
		return out
	case *ssa.ChangeType:
		return f.cl(v.X, depth+1, seen)
	case *ssa.Convert:
		if b, ok := v.X.Type().Underlying().(*types.Basic); ok && b.Info()&types.IsNumeric != 0 {
			if tb, ok := v.Type().Underlying().(*types.Basic); ok && tb.Info()&types.IsString != 0 {
				return []leaf{{Kind: "DYN", Info: "string(rune)"}}
			}
			return []leaf{{Kind: "SAFE", Info: "numeric"}}
		}
		return f.cl(v.X, depth+1, seen)
	case *ssa.MakeInterface:
		return f.cl(v.X, depth+1, seen)
	case *ssa.ChangeInterface:
		return f.cl(v.X, depth+1, seen)
	case *ssa.Slice:
		if a, ok := v.X.(*ssa.Alloc); ok {
			return f.allocElems(a, depth, seen)
		}
		return f.cl(v.X, depth+1, seen)
	case *ssa.Alloc:
		return f.allocElems(v, depth, seen)
	case *ssa.MakeSlice:
		// a slice filled element by element (args[i] = …): the union of what is stored into it
		var out []leaf
		if refs := v.Referrers(); refs != nil {
			for _, r := range *refs {
				if ia, ok := r.(*ssa.IndexAddr); ok {
					if irefs := ia.Referrers(); irefs != nil {
						for _, ir := range *irefs {
							if st, ok := ir.(*ssa.Store); ok && st.Addr == ssa.Value(ia) {
								out = append(out, f.cl(st.Val, depth+1, seen)...)
							}
						}
					}
				}
			}
		}
		if out == nil {
			out = []leaf{{Kind: "CONST", Const: ""}}
		}
		return out
	case *ssa.Parameter:
		fn := v.Parent()
		idx := -1
		for i, p := range fn.Params {
			if p == v {
				idx = i
			}
		}
		return []leaf{{Kind: "PARAM", Info: fmt.Sprintf("%s#%s", ssaFuncName(fn), v.Name()), Pos: v.Pos(), Const: fmt.Sprint(idx)}}
	case *ssa.FreeVar:
		// captured variable of the enclosing function: resolve through the MakeClosure binding
		if outer := v.Parent().Parent(); outer != nil {
			idx := -1
			for i, fv := range v.Parent().FreeVars {
				if fv == v {
					idx = i
				}
			}
			for _, b := range outer.Blocks {
				for _, ins := range b.Instrs {
					if mc, ok := ins.(*ssa.MakeClosure); ok && mc.Fn == v.Parent() && idx >= 0 && idx < len(mc.Bindings) {
						return f.cl(mc.Bindings[idx], depth+1, seen)
					}
				}
			}
		}
		return []leaf{{Kind: "DYN", Info: "freevar " + v.Name()}}
	case *ssa.UnOp:
		if v.Op == token.MUL { // load
			switch x := v.X.(type) {
			case *ssa.Global:
				return []leaf{{Kind: "GLOBAL", Info: x.Pkg.Pkg.Path() + "." + x.Name(), Pos: v.Pos()}}
			case *ssa.FieldAddr:
				return f.fieldLeaves(x.X.Type(), x.Field, v.Pos(), depth, seen)
			case *ssa.Alloc:
				// local variable cell: union of stores
				return f.allocStores(x, depth, seen)
			case *ssa.IndexAddr:
				if p, ok := x.X.(*ssa.Parameter); ok {
					// element of a slice parameter (variadic forwarding)
					return f.cl(p, depth+1, seen)
				}
				// element of a slice that a function of this module built and returned, or that was filled element by
				// element here: what was stored into it (a slice value is classified by its elements)
				switch sx := x.X.(type) {
				case *ssa.MakeSlice:
					return f.cl(sx, depth+1, seen)
				case *ssa.Call:
					if callee := sx.Common().StaticCallee(); callee != nil && callee.Pkg != nil && strings.HasPrefix(callee.Pkg.Pkg.Path(), modPath) && callee.Blocks != nil {
						if _, isSlice := sx.Type().Underlying().(*types.Slice); isSlice {
							return f.cl(sx, depth+1, seen)
						}
					}
				}
				return []leaf{{Kind: "DYN", Info: "element of " + shortVal(x.X), Pos: v.Pos()}}
			case *ssa.Parameter, *ssa.FreeVar:
				// *p where p is a pointer parameter (e.g. *string attribute values)
				inner := f.cl(x, depth+1, seen)
				for i := range inner {
					inner[i].Info = "*" + inner[i].Info
				}
				return inner
			}
			return []leaf{{Kind: "DYN", Info: "load " + shortVal(v.X), Pos: v.Pos()}}
		}
		return []leaf{{Kind: "SAFE", Info: "unop"}}
	case *ssa.Field:
		return f.fieldLeaves(v.X.Type(), v.Field, v.Pos(), depth, seen)
	case *ssa.Extract:
		if call, ok := v.Tuple.(*ssa.Call); ok {
			return f.callResult(call, v.Index, depth, seen)
		}
		if _, ok := v.Tuple.(*ssa.TypeAssert); ok {
			return []leaf{{Kind: "DYN", Info: "type-assert result", Pos: v.Pos()}}
		}
		if nx, ok := v.Tuple.(*ssa.Next); ok {
			return []leaf{{Kind: "DYN", Info: "range element of " + shortVal(nx.Iter), Pos: v.Pos()}}
		}
		if lk, ok := v.Tuple.(*ssa.Lookup); ok {
			return []leaf{{Kind: "DYN", Info: "map value of " + shortVal(lk.X), Pos: v.Pos()}}
		}
		return []leaf{{Kind: "DYN", Info: "extract", Pos: v.Pos()}}
	case *ssa.Call:
		return f.callResult(v, 0, depth, seen)
	case *ssa.TypeAssert:
		return []leaf{{Kind: "DYN", Info: "type-assert result", Pos: v.Pos()}}
	case *ssa.Lookup:
		return []leaf{{Kind: "DYN", Info: "map value of " + shortVal(v.X), Pos: v.Pos()}}
	case *ssa.Index:
		return []leaf{{Kind: "DYN", Info: "element of " + shortVal(v.X), Pos: v.Pos()}}
	case *ssa.Global:
		return []leaf{{Kind: "GLOBAL", Info: v.Pkg.Pkg.Path() + "." + v.Name()}}
	case *ssa.Function:
		return []leaf{{Kind: "CONST", Const: "func"}}
	}
	return []leaf{{Kind: "DYN", Info: fmt.Sprintf("%T", v), Pos: v.Pos()}}
}

func shortVal(v ssa.Value) string {
	if v == nil {
		return "?"
	}
	if p, ok := v.(*ssa.Parameter); ok {
		return "param " + p.Name()
	}
	return v.Name()
}

// fieldLeaves: an unexported field of an unexported struct type of this module is written only by its own package —
// what it holds is the union of everything the package stores into it (each store classified where it is made);
// any other field is a FIELD leaf, judged by name.
func (f *flow) fieldLeaves(t types.Type, idx int, pos token.Pos, depth int, seen map[ssa.Value]bool) []leaf {
	st0 := t
	if pt, ok := st0.Underlying().(*types.Pointer); ok {
		st0 = pt.Elem()
	}
	nt, isNamed := st0.(*types.Named)
	stt, isStruct := st0.Underlying().(*types.Struct)
	if !isNamed || !isStruct || idx >= stt.NumFields() || nt.Obj().Exported() || stt.Field(idx).Exported() || nt.Obj().Pkg() == nil ||
		!strings.HasPrefix(nt.Obj().Pkg().Path(), modPath) || nt.TypeArgs().Len() > 0 || depth > f.maxDepth-2 {
		return []leaf{f.fieldLeaf(t, idx, pos)}
	}
	key := nt.Obj().Pkg().Path() + "." + nt.Obj().Name() + "." + stt.Field(idx).Name()
	if f.fieldBusy == nil {
		f.fieldBusy = map[string]bool{}
	}
	if f.fieldBusy[key] {
		return nil // a store of the field into itself adds nothing
	}
	sp := f.prog.Package(nt.Obj().Pkg())
	if sp == nil {
		return []leaf{f.fieldLeaf(t, idx, pos)}
	}
	f.fieldBusy[key] = true
	defer delete(f.fieldBusy, key)
	var out []leaf
	n := 0
	for _, fn := range ssaFuncs(f.prog, sp) {
		for _, b := range fn.Blocks {
			for _, ins := range b.Instrs {
				sto, ok := ins.(*ssa.Store)
				if !ok {
					continue
				}
				fa, ok := sto.Addr.(*ssa.FieldAddr)
				if !ok || fa.Field != idx {
					continue
				}
				at := fa.X.Type()
				if pt, ok := at.Underlying().(*types.Pointer); ok {
					at = pt.Elem()
				}
				if !types.Identical(at, st0) {
					continue
				}
				n++
				out = append(out, f.cl(sto.Val, depth+2, map[ssa.Value]bool{})...)
			}
		}
	}
	if n == 0 {
		return []leaf{{Kind: "CONST", Const: ""}}
	}
	return out
}

func (f *flow) fieldLeaf(t types.Type, idx int, pos token.Pos) leaf {
	if pt, ok := t.Underlying().(*types.Pointer); ok {
		t = pt.Elem()
	}
	tn := namedTypeString(t)
	fname := "?"
	var ft types.Type
	if st, ok := t.Underlying().(*types.Struct); ok && idx < st.NumFields() {
		fname = st.Field(idx).Name()
		ft = st.Field(idx).Type()
	}
	if ft != nil {
		if ftn := namedTypeString(ft); ftn != "" {
			if _, ok := trustedTypes[ftn]; ok {
				return leaf{Kind: "TYPE", Info: ftn, Pos: pos}
			}
		}
	}
	// generic instantiations: strip type args for the key
	if i := strings.Index(tn, "["); i >= 0 {
		tn = tn[:i]
	}
	if tn == "" {
		tn = t.String()
		if i := strings.Index(tn, "["); i >= 0 && strings.Contains(tn, "KeyValue") {
			tn = tn[:i]
		}
	}
	return leaf{Kind: "FIELD", Info: tn + "." + fname, Pos: pos}
}

// allocElems: a slice literal / variadic argument array: union of the stored elements.
func (f *flow) allocElems(a *ssa.Alloc, depth int, seen map[ssa.Value]bool) []leaf {
	var out []leaf
	if a.Referrers() == nil {
		return []leaf{{Kind: "DYN", Info: "alloc"}}
	}
	found := false
	for _, r := range *a.Referrers() {
		switch r := r.(type) {
		case *ssa.IndexAddr:
			for _, rr := range *r.Referrers() {
				if st, ok := rr.(*ssa.Store); ok && st.Addr == r {
					found = true
					out = append(out, f.cl(st.Val, depth+1, seen)...)
				}
			}
		case *ssa.Store:
			if r.Addr == a {
				found = true
				out = append(out, f.cl(r.Val, depth+1, seen)...)
			}
		}
	}
	if !found {
		return []leaf{{Kind: "DYN", Info: "alloc without stores"}}
	}
	return out
}

func (f *flow) allocStores(a *ssa.Alloc, depth int, seen map[ssa.Value]bool) []leaf {
	var out []leaf
	if a.Referrers() == nil {
		return []leaf{{Kind: "DYN", Info: "alloc"}}
	}
	for _, r := range *a.Referrers() {
		if st, ok := r.(*ssa.Store); ok && st.Addr == a {
			out = append(out, f.cl(st.Val, depth+1, seen)...)
		}
	}
	if len(out) == 0 {
		// zero value
		return []leaf{{Kind: "CONST", Const: ""}}
	}
	return out
}

// external functions with a known effect on a string argument
var passThrough = map[string]int{ // result has the class of argument i
	"strings.TrimSpace": 0, "strings.ToLower": 0, "strings.ToUpper": 0, "strings.TrimSuffix": 0, "strings.TrimPrefix": 0,
	"strings.TrimLeft": 0, "strings.TrimRight": 0, "strings.Trim": 0,
}
var safeProducers = map[string]string{
	"strconv.Itoa": "decimal", "strconv.FormatInt": "number", "encoding/hex.EncodeToString": "hex",
	"strconv.Quote": "quoted",
}

func (f *flow) callResult(call *ssa.Call, idx int, depth int, seen map[ssa.Value]bool) []leaf {
	com := call.Common()
	if com.IsInvoke() {
		return []leaf{{Kind: "CALL", Info: "invoke " + com.Method.FullName(), Pos: call.Pos()}}
	}
	callee := com.StaticCallee()
	if callee == nil {
		if b, ok := com.Value.(*ssa.Builtin); ok {
			if b.Name() == "append" {
				// what was appended to, and what was appended
				var out []leaf
				for _, a := range com.Args {
					out = append(out, f.cl(a, depth+1, seen)...)
				}
				return out
			}
			return []leaf{{Kind: "SAFE", Info: "builtin " + b.Name()}}
		}
		if prm, ok := com.Value.(*ssa.Parameter); ok && len(com.Args) >= 1 {
			// a function-typed parameter applied to one argument (escape(x)): resolved at the call sites of the enclosing
			// function, where the parameter is bound to a known function
			pidx := -1
			for i, q := range prm.Parent().Params {
				if q == prm {
					pidx = i
				}
			}
			var inner []leaf
			for _, a := range com.Args {
				inner = append(inner, f.cl(a, depth+1, seen)...)
			}
			return []leaf{{Kind: "FPARAM", Info: fmt.Sprintf("%s#%s", ssaFuncName(prm.Parent()), prm.Name()), Const: fmt.Sprint(pidx), Inner: inner, Pos: call.Pos(), Res: idx}}
		}
		return []leaf{{Kind: "CALL", Info: "dynamic", Pos: call.Pos()}}
	}
	name := ssaFuncName(callee)
	switch name {
	case "html.EscapeString":
		return []leaf{{Kind: "ESCAPED", Info: name, Inner: f.cl(com.Args[0], depth+1, seen), Pos: call.Pos()}}
	case "strings.(Builder).String", "bytes.(Buffer).String", "bytes.(Buffer).Bytes":
		return []leaf{{Kind: "BUILDER", Info: shortVal(com.Args[0]), Pos: call.Pos()}}
	case "fmt.Sprintf":
		return f.sprintfLeaves(com.Args, depth, seen, call.Pos())
	case "strings.Join":
		inner := f.cl(com.Args[0], depth+1, seen)
		return append(inner, f.cl(com.Args[1], depth+1, seen)...)
	}
	if i, ok := passThrough[name]; ok && i < len(com.Args) {
		return f.cl(com.Args[i], depth+1, seen)
	}
	if why, ok := safeProducers[name]; ok {
		return []leaf{{Kind: "SAFE", Info: why}}
	}
	// in-module callee: summarise its returned value, substituting parameters
	if callee.Pkg != nil && strings.HasPrefix(callee.Pkg.Pkg.Path(), modPath) && callee.Blocks != nil && depth < 8 {
		var out []leaf
		for _, b := range callee.Blocks {
			for _, ins := range b.Instrs {
				ret, ok := ins.(*ssa.Return)
				if !ok || idx >= len(ret.Results) {
					continue
				}
				for _, l := range f.cl(ret.Results[idx], depth+2, seen) {
					out = append(out, f.substParams(l, callee, com.Args, depth, seen)...)
				}
			}
		}
		// wrap: remember which function produced it
		return []leaf{{Kind: "CALL", Info: name + fmt.Sprintf("#%d", idx), Inner: out, Pos: call.Pos()}}
	}
	return []leaf{{Kind: "CALL", Info: name + fmt.Sprintf("#%d", idx), Pos: call.Pos()}}
}

func (f *flow) substParams(l leaf, callee *ssa.Function, args []ssa.Value, depth int, seen map[ssa.Value]bool) []leaf {
	if l.Kind == "PARAM" && strings.HasPrefix(l.Info, ssaFuncName(callee)+"#") {
		var i int
		fmt.Sscan(l.Const, &i)
		if i >= 0 && i < len(args) {
			return f.cl(args[i], depth+1, seen)
		}
	}
	if len(l.Inner) > 0 {
		var inner []leaf
		for _, il := range l.Inner {
			inner = append(inner, f.substParams(il, callee, args, depth, seen)...)
		}
		l.Inner = inner
	}
	if l.Kind == "FPARAM" && strings.HasPrefix(l.Info, ssaFuncName(callee)+"#") {
		var i int
		fmt.Sscan(l.Const, &i)
		if i >= 0 && i < len(args) {
			return f.applyFuncValue(args[i], l)
		}
	}
	return []leaf{l}
}

// applyFuncValue: the function value fv applied to the argument whose classification is app.Inner.
func (f *flow) applyFuncValue(fv ssa.Value, app leaf) []leaf {
	if mc, ok := fv.(*ssa.MakeClosure); ok {
		fv = mc.Fn
	}
	if ct, ok := fv.(*ssa.ChangeType); ok {
		fv = ct.X
	}
	fn, ok := fv.(*ssa.Function)
	if !ok {
		return []leaf{{Kind: "CALL", Info: "dynamic", Pos: app.Pos}}
	}
	name := ssaFuncName(fn)
	if name == "html.EscapeString" {
		return []leaf{{Kind: "ESCAPED", Info: name, Inner: app.Inner, Pos: app.Pos}}
	}
	if i, ok := passThrough[name]; ok && i == 0 {
		return app.Inner
	}
	// a function literal (or small unexported function): its returns (for the result that is used) with its parameters
	// replaced by the arguments
	if fn.Blocks != nil && (fn.Object() == nil || !fn.Object().Exported()) {
		var out []leaf
		for _, b := range fn.Blocks {
			for _, ins := range b.Instrs {
				if ret, ok := ins.(*ssa.Return); ok && app.Res < len(ret.Results) {
					for _, rl := range f.classify(ret.Results[app.Res]) {
						out = append(out, substLeaf(rl, ssaFuncName(fn)+"#", app.Inner)...)
					}
				}
			}
		}
		return out
	}
	// a named function: the call itself, to be judged by name (safehtml.SanitizeCSS#0 …); one of this module is
	// summarised as a direct call of it would be — what it returns, with its parameters replaced by the arguments
	if fn.Blocks != nil && fn.Pkg != nil && strings.HasPrefix(fn.Pkg.Pkg.Path(), modPath) {
		var out []leaf
		for _, b := range fn.Blocks {
			for _, ins := range b.Instrs {
				if ret, ok := ins.(*ssa.Return); ok && app.Res < len(ret.Results) {
					for _, rl := range f.classify(ret.Results[app.Res]) {
						out = append(out, substLeaf(rl, ssaFuncName(fn)+"#", app.Inner)...)
					}
				}
			}
		}
		return []leaf{{Kind: "CALL", Info: fmt.Sprintf("%s#%d", name, app.Res), Inner: out, Pos: app.Pos}}
	}
	return []leaf{{Kind: "CALL", Info: fmt.Sprintf("%s#%d", name, app.Res), Inner: app.Inner, Pos: app.Pos}}
}

// substLeaf replaces PARAM leaves of the function with the given name prefix by repl.
func substLeaf(l leaf, prefix string, repl []leaf) []leaf {
	if l.Kind == "PARAM" && strings.HasPrefix(l.Info, prefix) {
		return repl
	}
	if len(l.Inner) > 0 {
		var inner []leaf
		for _, il := range l.Inner {
			inner = append(inner, substLeaf(il, prefix, repl)...)
		}
		l.Inner = inner
	}
	return []leaf{l}
}

func (f *flow) sprintfLeaves(args []ssa.Value, depth int, seen map[ssa.Value]bool, pos token.Pos) []leaf {
	fc, ok := args[0].(*ssa.Const)
	if !ok || fc.Value == nil {
		return []leaf{{Kind: "DYN", Info: "Sprintf with non-constant format", Pos: pos}}
	}
	out := []leaf{{Kind: "CONST", Const: constant.StringVal(fc.Value)}}
	if len(args) > 1 {
		out = append(out, f.cl(args[1], depth+1, seen)...)
	}
	return out
}

// flatten returns the leaves with wrappers (CALL with Inner) expanded to their inner leaves.
func flatten(ls []leaf) []leaf {
	var out []leaf
	for _, l := range ls {
		if l.Kind == "CALL" && len(l.Inner) > 0 {
			out = append(out, flatten(l.Inner)...)
			continue
		}
		out = append(out, l)
	}
	return out
}

// hasCallTo reports whether any leaf (at any depth) is a CALL to the named function.
func hasCallTo(ls []leaf, name string) bool {
	for _, l := range ls {
		if l.Kind == "CALL" && strings.HasPrefix(l.Info, name+"#") {
			return true
		}
		if hasCallTo(l.Inner, name) {
			return true
		}
	}
	return false
}

// ---------------------------------------------------------------- sinks

type sinkSite struct {
	Fn       *ssa.Function
	Kind     string // io.WriteString | Writer.Write | Fprintf | Builder.WriteString | Builder.WriteRune | Encoder.Encode | http.Error | wrapper:<name> | delegate:<name>
	Operands []ssa.Value
	Writer   ssa.Value
	Pos      token.Pos
	Call     ssa.CallInstruction
}

func isWriterLike(t types.Type) bool {
	s := t.String()
	switch s {
	case "io.Writer", "net/http.ResponseWriter", "*strings.Builder", "*bytes.Buffer", "strings.Builder", "bytes.Buffer", "io.StringWriter", "*bufio.Writer":
		return true
	}
	return false
}

// findSinks lists every write of text in fn.
func findSinks(fn *ssa.Function) []sinkSite {
	var out []sinkSite
	for _, b := range fn.Blocks {
		for _, ins := range b.Instrs {
			ci, ok := ins.(ssa.CallInstruction)
			if !ok {
				continue
			}
			com := ci.Common()
			if com.IsInvoke() {
				rt := com.Value.Type().String()
				switch com.Method.Name() {
				case "Write", "WriteString":
					if isWriterLike(com.Value.Type()) || rt == "io.Writer" || rt == "net/http.ResponseWriter" {
						out = append(out, sinkSite{Fn: fn, Kind: "Writer." + com.Method.Name(), Operands: com.Args, Writer: com.Value, Pos: ins.Pos(), Call: ci})
					}
				}
				continue
			}
			callee := com.StaticCallee()
			if callee == nil {
				continue
			}
			name := ssaFuncName(callee)
			switch name {
			case "io.WriteString":
				out = append(out, sinkSite{Fn: fn, Kind: name, Operands: com.Args[1:], Writer: com.Args[0], Pos: ins.Pos(), Call: ci})
			case "fmt.Fprintf", "fmt.Fprint", "fmt.Fprintln":
				out = append(out, sinkSite{Fn: fn, Kind: name, Operands: com.Args[1:], Writer: com.Args[0], Pos: ins.Pos(), Call: ci})
			case "strings.(Builder).WriteString", "bytes.(Buffer).WriteString", "strings.(Builder).Write", "bytes.(Buffer).Write", "bufio.(Writer).WriteString":
				out = append(out, sinkSite{Fn: fn, Kind: "Builder.WriteString", Operands: com.Args[1:], Writer: com.Args[0], Pos: ins.Pos(), Call: ci})
			case "strings.(Builder).WriteRune", "bytes.(Buffer).WriteRune", "strings.(Builder).WriteByte", "bytes.(Buffer).WriteByte":
				out = append(out, sinkSite{Fn: fn, Kind: "Builder.WriteRune", Operands: com.Args[1:], Writer: com.Args[0], Pos: ins.Pos(), Call: ci})
			case "encoding/json.(Encoder).Encode":
				out = append(out, sinkSite{Fn: fn, Kind: "Encoder.Encode", Operands: com.Args[1:], Writer: com.Args[0], Pos: ins.Pos(), Call: ci})
			case "net/http.Error":
				out = append(out, sinkSite{Fn: fn, Kind: "http.Error", Operands: com.Args[1:2], Writer: com.Args[0], Pos: ins.Pos(), Call: ci})
			}
		}
	}
	return out
}
