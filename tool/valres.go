package main

import (
	"go/ast"
	"go/token"
	"go/types"

	"golang.org/x/tools/go/packages"
)

// fieldStore: one place where a struct field is given a value — `x.f = rhs`, `x.f, err = call(…)` (result Res of the
// call) or a keyed composite literal T{f: rhs}.
type fieldStore struct {
	Fn  *ast.FuncDecl
	Rhs ast.Expr
	Res int // which result of Rhs, when Rhs is a call assigned to several left-hand sides (else 0)
}

// fieldStoresOf lists every store into the field in the package. Meaningful as "all values the field can hold" for an
// unexported field of a package-local struct type (nobody else can write it).
func fieldStoresOf(p *packages.Package, field *types.Var) []fieldStore {
	info := p.TypesInfo
	var out []fieldStore
	for _, fd := range allFuncDecls(p) {
		if fd.Body == nil {
			continue
		}
		ast.Inspect(fd.Body, func(n ast.Node) bool {
			switch x := n.(type) {
			case *ast.AssignStmt:
				for i, l := range x.Lhs {
					se, ok := ast.Unparen(l).(*ast.SelectorExpr)
					if !ok {
						continue
					}
					sel, ok := info.Selections[se]
					if !ok || sel.Obj() != types.Object(field) {
						continue
					}
					if len(x.Lhs) == len(x.Rhs) {
						out = append(out, fieldStore{fd, x.Rhs[i], 0})
					} else if len(x.Rhs) == 1 {
						out = append(out, fieldStore{fd, x.Rhs[0], i})
					}
				}
			case *ast.CompositeLit:
				for _, el := range x.Elts {
					if kv, ok := el.(*ast.KeyValueExpr); ok {
						if k, ok := kv.Key.(*ast.Ident); ok && info.Uses[k] == types.Object(field) {
							out = append(out, fieldStore{fd, kv.Value, 0})
						}
					}
				}
			}
			return true
		})
	}
	return out
}

// privateField: e is x.f with f an unexported field of a struct type declared in this package.
func privateField(p *packages.Package, e ast.Expr) *types.Var {
	se, ok := ast.Unparen(e).(*ast.SelectorExpr)
	if !ok {
		return nil
	}
	sel, ok := p.TypesInfo.Selections[se]
	if !ok || sel.Kind() != types.FieldVal {
		return nil
	}
	f, ok := sel.Obj().(*types.Var)
	if !ok || f.Exported() || f.Pkg() != p.Types {
		return nil
	}
	return f
}

// resolvesToCall: following local assignments and private-field stores (flow-insensitively: every definition must
// agree), e is result res of the given call.
func resolvesToCall(p *packages.Package, fd *ast.FuncDecl, e ast.Expr, target *ast.CallExpr, res, depth int) bool {
	info := p.TypesInfo
	e = ast.Unparen(e)
	if depth > 6 {
		return false
	}
	if e == ast.Expr(target) {
		return res == 0
	}
	switch x := e.(type) {
	case *ast.Ident:
		ob := info.ObjectOf(x)
		n, all := 0, true
		ast.Inspect(fd.Body, func(m ast.Node) bool {
			as, ok := m.(*ast.AssignStmt)
			if !ok {
				return true
			}
			for i, l := range as.Lhs {
				if id, ok := l.(*ast.Ident); ok && info.ObjectOf(id) == ob && ob != nil {
					n++
					switch {
					case len(as.Lhs) == len(as.Rhs):
						if !resolvesToCall(p, fd, as.Rhs[i], target, 0, depth+1) {
							all = false
						}
					case len(as.Rhs) == 1 && ast.Unparen(as.Rhs[0]) == ast.Expr(target):
						if i != 0 {
							all = false
						}
					default:
						all = false
					}
				}
			}
			return true
		})
		return n > 0 && all
	case *ast.SelectorExpr:
		f := privateField(p, x)
		if f == nil {
			return false
		}
		stores := fieldStoresOf(p, f)
		if len(stores) == 0 {
			return false
		}
		for _, st := range stores {
			if ast.Unparen(st.Rhs) == ast.Expr(target) {
				if st.Res != 0 {
					return false
				}
				continue
			}
			if st.Res != 0 || !resolvesToCall(p, st.Fn, st.Rhs, target, 0, depth+1) {
				return false
			}
		}
		return true
	}
	return false
}

// unfold rewrites e with every local that is assigned exactly once in its function replaced by what it is assigned
// (a value cached in a local reads like the expression it caches), and every parameter of an unexported function that
// the package calls at exactly one place replaced by the argument at that place (a phase split off into a helper reads
// like the code it was split from). Call nodes keep their original Fun, so callees still resolve.
func unfold(p *packages.Package, fd *ast.FuncDecl, e ast.Expr, depth int) ast.Expr {
	if e == nil || depth > 8 || fd == nil || fd.Body == nil {
		return e
	}
	info := p.TypesInfo
	switch x := e.(type) {
	case *ast.ParenExpr:
		return unfold(p, fd, x.X, depth)
	case *ast.Ident:
		v, ok := info.ObjectOf(x).(*types.Var)
		if !ok || v.IsField() || v.Parent() == nil || v.Parent() == p.Types.Scope() {
			return e
		}
		// a parameter of fd
		k := 0
		var plist []*ast.Field
		if fd.Type != nil && fd.Type.Params != nil {
			plist = fd.Type.Params.List
		}
		for _, prm := range plist {
			for _, nm := range prm.Names {
				if info.Defs[nm] == types.Object(v) {
					if fd.Name.IsExported() || assignedAnywhere(info, fd, v) || unfoldLocalsOnly {
						return e
					}
					var site *ast.CallExpr
					var siteFn *ast.FuncDecl
					n, uses := 0, 0
					for _, g := range allFuncDecls(p) {
						if g.Body == nil {
							continue
						}
						ast.Inspect(g.Body, func(m ast.Node) bool {
							switch y := m.(type) {
							case *ast.CallExpr:
								if types.Object(calleeOf(info, y)) == info.Defs[fd.Name] {
									n++
									site, siteFn = y, g
								}
							case *ast.Ident:
								// every mention is counted: a use as a value means more call sites than can be seen
								if info.Uses[y] == info.Defs[fd.Name] {
									uses++
								}
							}
							return true
						})
					}
					if n == 1 && uses == 1 && site != nil && k < len(site.Args) && !site.Ellipsis.IsValid() && siteFn != fd {
						return unfold(p, siteFn, site.Args[k], depth+1)
					}
					return e
				}
				k++
			}
		}
		// a local assigned exactly once
		var rhs ast.Expr
		n := 0
		ast.Inspect(fd.Body, func(m ast.Node) bool {
			switch y := m.(type) {
			case *ast.AssignStmt:
				for i, l := range y.Lhs {
					if id, ok := l.(*ast.Ident); ok && info.ObjectOf(id) == types.Object(v) {
						n++
						if len(y.Lhs) == len(y.Rhs) && (y.Tok.String() == ":=" || y.Tok.String() == "=") {
							rhs = y.Rhs[i]
						} else {
							n += 10
						}
					}
				}
			case *ast.ValueSpec:
				for i, nm := range y.Names {
					if info.Defs[nm] == types.Object(v) {
						if i < len(y.Values) {
							n++
							rhs = y.Values[i]
						} else if len(y.Values) == 0 {
							n += 0 // declared without a value: the assignments count
						}
					}
				}
			case *ast.IncDecStmt:
				if id, ok := y.X.(*ast.Ident); ok && info.ObjectOf(id) == types.Object(v) {
					n += 10
				}
			case *ast.UnaryExpr:
				if id, ok := ast.Unparen(y.X).(*ast.Ident); ok && y.Op.String() == "&" && info.ObjectOf(id) == types.Object(v) {
					n += 10
				}
			case *ast.RangeStmt:
				for _, l := range []ast.Expr{y.Key, y.Value} {
					if id, ok := l.(*ast.Ident); ok && info.ObjectOf(id) == types.Object(v) {
						n += 10
					}
				}
			}
			return true
		})
		if n == 1 && rhs != nil {
			// a local that names an object (an allocation, an address, a literal) is that object, not a cached value
			switch r := ast.Unparen(rhs).(type) {
			case *ast.CompositeLit, *ast.FuncLit:
				return e
			case *ast.UnaryExpr:
				if r.Op.String() == "&" {
					return e
				}
			case *ast.CallExpr:
				if id, ok := r.Fun.(*ast.Ident); ok && (id.Name == "new" || id.Name == "make") && info.Uses[id] != nil && info.Uses[id].Pkg() == nil {
					return e
				}
			}
			return unfold(p, fd, rhs, depth+1)
		}
		return e
	case *ast.CallExpr:
		args := make([]ast.Expr, len(x.Args))
		changed := false
		for i, a := range x.Args {
			args[i] = unfold(p, fd, a, depth)
			changed = changed || args[i] != a
		}
		fun := x.Fun
		if se, ok := x.Fun.(*ast.SelectorExpr); ok {
			if _, isField := info.Selections[se]; isField {
				if nx := unfold(p, fd, se.X, depth); nx != se.X {
					// keep the selector node's identity for callee resolution: only rebuild when the receiver changed
					ns := &ast.SelectorExpr{X: nx, Sel: se.Sel}
					fun = ns
					changed = true
				}
			}
		}
		if !changed {
			return e
		}
		return &ast.CallExpr{Fun: fun, Lparen: x.Lparen, Args: args, Ellipsis: x.Ellipsis, Rparen: x.Rparen}
	case *ast.SelectorExpr:
		if _, isField := info.Selections[x]; isField {
			if nx := unfold(p, fd, x.X, depth); nx != x.X {
				return &ast.SelectorExpr{X: nx, Sel: x.Sel}
			}
		}
	case *ast.UnaryExpr:
		if nx := unfold(p, fd, x.X, depth); nx != x.X {
			return &ast.UnaryExpr{OpPos: x.OpPos, Op: x.Op, X: nx}
		}
	case *ast.StarExpr:
		if nx := unfold(p, fd, x.X, depth); nx != x.X {
			return &ast.StarExpr{Star: x.Star, X: nx}
		}
	case *ast.BinaryExpr:
		a, b := unfold(p, fd, x.X, depth), unfold(p, fd, x.Y, depth)
		if a != x.X || b != x.Y {
			return &ast.BinaryExpr{X: a, OpPos: x.OpPos, Op: x.Op, Y: b}
		}
	case *ast.IndexExpr:
		a, b := unfold(p, fd, x.X, depth), unfold(p, fd, x.Index, depth)
		if a != x.X || b != x.Index {
			return &ast.IndexExpr{X: a, Lbrack: x.Lbrack, Index: b, Rbrack: x.Rbrack}
		}
	}
	return e
}

// unfoldLocalsOnly: parameters are kept (for a rule that identifies an object by the variable that names it).
var unfoldLocalsOnly bool

func unfoldLocals(p *packages.Package, fd *ast.FuncDecl, e ast.Expr) ast.Expr {
	unfoldLocalsOnly = true
	defer func() { unfoldLocalsOnly = false }()
	return unfold(p, fd, e, 0)
}

func assignedAnywhere(info *types.Info, fd *ast.FuncDecl, v *types.Var) bool {
	found := false
	ast.Inspect(fd.Body, func(m ast.Node) bool {
		if as, ok := m.(*ast.AssignStmt); ok {
			for _, l := range as.Lhs {
				if id, ok := l.(*ast.Ident); ok && info.ObjectOf(id) == types.Object(v) {
					found = true
				}
			}
		}
		return true
	})
	return found
}

// phaseUnit: fd and the unexported functions of the package it calls, directly or through one of them (the phases a
// long function was split into).
func phaseUnit(p *packages.Package, fd *ast.FuncDecl) []*ast.FuncDecl {
	info := p.TypesInfo
	unit := []*ast.FuncDecl{fd}
	for k := 0; k < len(unit) && len(unit) < 12; k++ {
		ast.Inspect(unit[k].Body, func(n ast.Node) bool {
			call, ok := n.(*ast.CallExpr)
			if !ok {
				return true
			}
			fn := calleeOf(info, call)
			if fn == nil || fn.Pkg() != p.Types || fn.Exported() {
				return true
			}
			for _, h := range allFuncDecls(p) {
				if info.Defs[h.Name] != types.Object(fn) || h.Body == nil {
					continue
				}
				seen := false
				for _, u := range unit {
					seen = seen || u == h
				}
				if !seen {
					unit = append(unit, h)
				}
			}
			return true
		})
	}
	return unit
}

// usedAsValue: the function is mentioned somewhere other than as the callee of a call (stored, passed on), so its call
// sites are not all known.
func usedAsValue(p *packages.Package, fn *types.Func) bool {
	if fn == nil {
		return true
	}
	callees := map[*ast.Ident]bool{}
	for _, f := range p.Syntax {
		ast.Inspect(f, func(n ast.Node) bool {
			if call, ok := n.(*ast.CallExpr); ok {
				switch fun := ast.Unparen(call.Fun).(type) {
				case *ast.Ident:
					callees[fun] = true
				case *ast.SelectorExpr:
					callees[fun.Sel] = true
				}
			}
			return true
		})
	}
	used := false
	for _, f := range p.Syntax {
		ast.Inspect(f, func(n ast.Node) bool {
			if id, ok := n.(*ast.Ident); ok && p.TypesInfo.Uses[id] == types.Object(fn) && !callees[id] {
				used = true
			}
			return true
		})
	}
	return used
}

// containsCallToObj: n contains a direct call of the function (or method) fn.
func containsCallToObj(info *types.Info, n ast.Node, fn types.Object) bool {
	found := false
	ast.Inspect(n, func(m ast.Node) bool {
		if call, ok := m.(*ast.CallExpr); ok {
			if f := calleeOf(info, call); f != nil && types.Object(f) == fn {
				found = true
			}
		}
		return !found
	})
	return found
}

// paramSelectors visits every field selection whose chain starts at the parameter prm of fd (prm.A.B visits prm.A and
// prm.A.B), in fd and in the package-local functions fd hands the parameter on to as it is (two levels).
func paramSelectors(p *packages.Package, fd *ast.FuncDecl, prm types.Object, depth int, visit func(se *ast.SelectorExpr)) {
	if fd == nil || fd.Body == nil || prm == nil || depth > 2 {
		return
	}
	info := p.TypesInfo
	ast.Inspect(fd.Body, func(n ast.Node) bool {
		switch x := n.(type) {
		case *ast.SelectorExpr:
			root := ast.Expr(x)
			for {
				if s2, ok := ast.Unparen(root).(*ast.SelectorExpr); ok {
					root = s2.X
					continue
				}
				break
			}
			if id, ok := ast.Unparen(root).(*ast.Ident); ok && info.ObjectOf(id) == prm {
				visit(x)
			}
		case *ast.CallExpr:
			fn := calleeOf(info, x)
			if fn == nil || fn.Pkg() != p.Types {
				return true
			}
			for i, a := range x.Args {
				if id, ok := ast.Unparen(a).(*ast.Ident); ok && info.ObjectOf(id) == prm {
					for _, h := range allFuncDecls(p) {
						if info.Defs[h.Name] == types.Object(fn) {
							if ps := paramObjs(info, h); i < len(ps) {
								paramSelectors(p, h, ps[i], depth+1, visit)
							}
						}
					}
				}
			}
		}
		return true
	})
}

// goTarget: the function a go (or defer) statement's call runs, as a function literal: the literal itself, the literal
// a local it names was assigned (once), or a declared function / method of the package (its declaration presented as a
// literal). nil when it is none of these.
func goTarget(p *packages.Package, root ast.Node, call *ast.CallExpr) *ast.FuncLit {
	info := p.TypesInfo
	switch f := ast.Unparen(call.Fun).(type) {
	case *ast.FuncLit:
		return f
	case *ast.Ident:
		if ob, ok := info.ObjectOf(f).(*types.Var); ok {
			var lit *ast.FuncLit
			n := 0
			ast.Inspect(root, func(m ast.Node) bool {
				switch st := m.(type) {
				case *ast.AssignStmt:
					for i, l := range st.Lhs {
						if id, ok := l.(*ast.Ident); ok && info.ObjectOf(id) == types.Object(ob) {
							n++
							if len(st.Lhs) == len(st.Rhs) {
								lit, _ = ast.Unparen(st.Rhs[i]).(*ast.FuncLit)
							}
						}
					}
				case *ast.ValueSpec:
					for i, nm := range st.Names {
						if info.Defs[nm] == types.Object(ob) && i < len(st.Values) {
							n++
							lit, _ = ast.Unparen(st.Values[i]).(*ast.FuncLit)
						}
					}
				}
				return true
			})
			if n == 1 {
				return lit
			}
			return nil
		}
	}
	if fn := calleeOf(info, call); fn != nil && fn.Pkg() == p.Types {
		for _, fd := range allFuncDecls(p) {
			if info.Defs[fd.Name] == types.Object(fn) && fd.Body != nil {
				return &ast.FuncLit{Type: fd.Type, Body: fd.Body}
			}
		}
	}
	return nil
}

// pkgVarField: e is v.f where v is a package-level variable of p that is initialised with a struct literal and that
// nothing in the package assigns to, takes the address of, or stores a field of: the value written for f in the
// literal (nil when e is not that, or the field is absent from the literal).
func pkgVarField(p *packages.Package, e ast.Expr) ast.Expr {
	info := p.TypesInfo
	se, ok := ast.Unparen(e).(*ast.SelectorExpr)
	if !ok {
		return nil
	}
	id, ok := ast.Unparen(se.X).(*ast.Ident)
	if !ok {
		return nil
	}
	v, ok := info.ObjectOf(id).(*types.Var)
	if !ok || v.Pkg() != p.Types || v.Parent() != p.Types.Scope() {
		return nil
	}
	cl, ok := ast.Unparen(pkgVarInit(p, v.Name())).(*ast.CompositeLit)
	if !ok || pkgVarInit(p, v.Name()) == nil {
		return nil
	}
	mutated := false
	for _, f := range p.Syntax {
		ast.Inspect(f, func(n ast.Node) bool {
			switch x := n.(type) {
			case *ast.AssignStmt:
				for _, l := range x.Lhs {
					root := ast.Unparen(l)
					for {
						switch r := root.(type) {
						case *ast.SelectorExpr:
							root = ast.Unparen(r.X)
							continue
						case *ast.IndexExpr:
							root = ast.Unparen(r.X)
							continue
						}
						break
					}
					if rid, ok := root.(*ast.Ident); ok && info.ObjectOf(rid) == types.Object(v) {
						mutated = true
					}
				}
			case *ast.UnaryExpr:
				if x.Op == token.AND {
					root := ast.Unparen(x.X)
					for {
						if r, ok := root.(*ast.SelectorExpr); ok {
							root = ast.Unparen(r.X)
							continue
						}
						break
					}
					if rid, ok := root.(*ast.Ident); ok && info.ObjectOf(rid) == types.Object(v) {
						mutated = true
					}
				}
			}
			return true
		})
	}
	if mutated {
		return nil
	}
	st, _ := info.TypeOf(cl).Underlying().(*types.Struct)
	for i, el := range cl.Elts {
		if kv, ok := el.(*ast.KeyValueExpr); ok {
			if k, ok := kv.Key.(*ast.Ident); ok && k.Name == se.Sel.Name {
				return kv.Value
			}
		} else if st != nil && i < st.NumFields() && st.Field(i).Name() == se.Sel.Name {
			return el
		}
	}
	return nil
}
