package main

import (
	"fmt"
	"go/ast"
	"go/token"
	"go/types"
	"strings"

	"golang.org/x/tools/go/packages"
)

func init() {
	register(&propDef{
		ID:          "C10",
		Explanation: "Decides the error discipline and buffer ownership on every path of generated and runtime code: R1 every statement the generator can emit that assigns the render error from a call (writes, literal writes, nested Render, RenderAttributes/CSS/Script items, expression evaluation) is immediately followed by an emitted `if err != nil { return … }` (all GEM emission paths, incl. the literal-closing template of the range writer); R2 expression evaluations are followed by the handler that wraps the error in templ.Error{FileName, Line from that same expression}; R3 the emitted template body returns ctx.Err() before acquiring the buffer or writing anything; R4 the emitted body releases the buffer only in a defer, only when it acquired it, and adopts the flush error iff no earlier error; R5 in packages templ and templ/runtime every error returned by a write to / render into the writer is propagated to a return on every path (no dropped or overwritten error); R6 pooled buffers are reset (on acquisition or before release) and flushed before being returned to the pool. R8 every runtime function that takes the expression's errors as a variadic ...error parameter hands the whole list to errors.Join or to another such function, and no condition inspects a single element of it (a guard on errs[0] alone drops an error that arrives second, as in `{{ v, errA, errB }}`); R9 the memory of a pooled buffer is not used after the buffer went back to the pool. R10 (= C15.R8) the generator options handed to concurrent workers are not appended to in place on a slice with spare capacity (a worker would otherwise generate a file with another template's file name in its error locations). R11 a parser.Expression literal built by the generator that embeds a user expression's text keeps that expression's Range (the emitted error handler takes Line/Col from it), and the handler emitter reads that Range; R12 no runtime function writes to the buffer's underlying writer itself — only the bufio.Writer does, which is what turns a short write with a nil error into io.ErrShortWrite. NOT decided: the prefix property at each byte offset, behaviour of user writers. R13 element-write loops are left early only with the write error; R14 a style-value handler never returns (not handled, error value); R15 every path of (*Buffer).Flush calls the bufio writer's Flush (which reports the remembered write error). R16 no error result of packages templ / runtime / safehtml is dropped (implicitly, or stored and overwritten before it is read); R17 an error that was detected is returned on that path; R18 a component closure keeps no state between renders. R5 also, for writes made through a sticky error cell (a struct that keeps the first write error; its storing methods start with `if r.err != nil { return }`): every return reachable from a write through the cell hands back the cell's error or follows a test of it, and the cell's error is not assigned directly after a write. R19 fmt.Errorf uses %w for every error argument (the cause stays in the chain). R20 no deferred call writes to the render writer (a closing tag after a failed body). R21 (= C11.R12) bytes.NewBuffer is never given a zero-filled make([]byte, n). R8 also: no early return is chosen by len(errs) — the emitter spreads a (value, error) call into (v, errs...), so a successful call arrives with errs == [nil]. R14 also for named results: a bare return in the branch taken for a non-nil error while the `handled` result was never set. R22 (= C11.R13) a deferred function literal assigns a named error result only where it is still nil, or joins it; R23 runtime.GetBuffer recognises the render buffer by the writer's own dynamic type (no Unwrap chains); R24 (= C12.R17) OnceHandle.Once records the handle before it renders the content. R17 also (round 11): a path that obtained an error from a call and never looked at it does not answer with another call's error either (return w.Flush() after err = children.Render(...)).",
		Assumptions: []string{"bufio.Writer reports a short write as an error; a returned error aborts the caller's rendering (checked for generated callers by R1)"},
		Trusted:     []string{"go/types", "go/parser", "x/tools go/packages, go/cfg"},
		Run:         runC10,
	})
}

func runC10(c *Ctx) {
	c.load(".", "./runtime", "./generator", "./cmd/templ/generatecmd")
	gErr(c, "C10.R1")
	gErrExpr(c, "C10.R2")
	gCtxFirst(c, "C10.R3")
	gBufferOwnership(c, "C10.R4")
	errorsNotLost(c, "C10.R16", ".", "runtime")
	errorsFoundAreReported(c, "C10.R17", ".", "runtime")
	renderClosuresKeepNoState(c, "C10.R18", ".", "runtime")
	causesAreWrapped(c, "C10.R19", ".", "runtime", "safehtml")
	noWritesFromDefers(c, "C10.R20", ".", "runtime")
	freshBuffersAreEmpty(c, "C10.R21", ".", "runtime")
	deferredResultIsNotOverwritten(c, "C10.R22", ".", "runtime")
	existingBufferIsTheWriterItself(c, "C10.R23")
	onceMarksBeforeItRenders(c, "C10.R24")
	for _, rel := range []string{".", "runtime"} {
		errorPropagation(c, c.pkg(rel), "C10.R5")
		stickyErrorsReachReturn(c, c.pkg(rel), "C10.R5")
	}
	c.floor("C10.R5", 25)
	poolDiscipline(c, "C10.R6")
	variadicErrors(c, "C10.R8")
	pooledBufferLifetime(c, "C10.R9")
	sharedSliceAppends(c, "C10.R10")
	errorLineFromUserExpression(c, "C10.R11")
	bufferOnlyBufioWritesUnderlying(c, "C10.R12")
	writeLoopsLeaveOnlyOnError(c, "C10.R13")
	unhandledCarriesNoError(c, "C10.R14")
	flushAlwaysReachesBufio(c, "C10.R15")
	if c.thorough() {
		generatedErrHandling(c, "C10.R7")
	}
}

func isErrorType(t types.Type) bool { return t != nil && t.String() == "error" }

// writerCall: a call whose error result reports a failed write/render/flush.
func writerCall(info *types.Info, call *ast.CallExpr) (errIdx int, what string, ok bool) {
	t := info.TypeOf(call)
	if t == nil {
		return 0, "", false
	}
	errIdx = -1
	n := 1
	if tup, isTup := t.(*types.Tuple); isTup {
		n = tup.Len()
		for i := 0; i < tup.Len(); i++ {
			if isErrorType(tup.At(i).Type()) {
				errIdx = i
			}
		}
	} else if isErrorType(t) {
		errIdx = 0
	}
	_ = n
	if errIdx < 0 {
		return 0, "", false
	}
	// does the call write to (or render/flush into) a fallible writer? In-memory builders cannot fail and are excluded.
	fallible := func(t types.Type) bool {
		if t == nil {
			return false
		}
		switch t.String() {
		case "io.Writer", "net/http.ResponseWriter", "*bufio.Writer", "io.StringWriter":
			return true
		}
		return strings.HasSuffix(t.String(), "/runtime.Buffer")
	}
	takesWriter := false
	for _, a := range call.Args {
		if fallible(info.TypeOf(a)) {
			takesWriter = true
		}
	}
	name := types.ExprString(call.Fun)
	if se, ok := ast.Unparen(call.Fun).(*ast.SelectorExpr); ok {
		if fallible(info.TypeOf(se.X)) {
			switch se.Sel.Name {
			case "Write", "WriteString", "Flush", "WriteRune", "WriteByte":
				takesWriter = true
			}
		}
		switch se.Sel.Name {
		case "Render", "Execute", "Encode":
			takesWriter = true
		case "Flush":
			if rt := info.TypeOf(se.X); rt != nil && !isWriterLike(rt) {
				takesWriter = true
			}
		}
	}
	if !takesWriter {
		return 0, "", false
	}
	return errIdx, name, true
}

// errorPropagation: C10.R5 on one package.
func errorPropagation(c *Ctx, p *packages.Package, rule string) {
	info := p.TypesInfo
	type fnBody struct {
		key  string
		typ  *ast.FuncType
		body *ast.BlockStmt
	}
	var bodies []fnBody
	for _, fd := range allFuncDecls(p) {
		bodies = append(bodies, fnBody{funcKey(p, fd), fd.Type, fd.Body})
		n := 0
		ast.Inspect(fd.Body, func(x ast.Node) bool {
			if fl, ok := x.(*ast.FuncLit); ok {
				n++
				bodies = append(bodies, fnBody{fmt.Sprintf("%s$%d", funcKey(p, fd), n), fl.Type, fl.Body})
			}
			return true
		})
	}
	for _, b := range bodies {
		// only functions that can return an error
		var namedErr types.Object
		hasErr := false
		if b.typ.Results != nil {
			for _, r := range b.typ.Results.List {
				if isErrorType(info.TypeOf(r.Type)) {
					hasErr = true
					for _, nm := range r.Names {
						namedErr = info.Defs[nm]
					}
				}
			}
		}
		if !hasErr {
			continue
		}
		ord := map[string]int{}
		var visitList func(list []ast.Stmt)
		checkCall := func(call *ast.CallExpr, st ast.Stmt, list []ast.Stmt, idx int, ifInit *ast.IfStmt) {
			errIdx, what, ok := writerCall(info, call)
			if !ok {
				return
			}
			ord[what]++
			key := fmt.Sprintf("%s|%s#%d", b.key, what, ord[what])
			pos := c.pos(call.Pos())
			switch s := st.(type) {
			case *ast.ReturnStmt:
				c.ok(rule, key, pos, "error returned directly")
				return
			case *ast.ExprStmt:
				c.viol(rule, key, pos, fmt.Sprintf("%s: the error of %s is dropped — a failed write would go unnoticed and rendering would continue", b.key, what))
				return
			case *ast.AssignStmt:
				if len(s.Rhs) != 1 || errIdx >= len(s.Lhs) {
					c.undec(rule, key, pos, "unrecognised assignment shape")
					return
				}
				id, isId := s.Lhs[errIdx].(*ast.Ident)
				if !isId {
					// stored into a sticky error cell of the function (ew.err = f(w)): decided by stickyErrorsReachReturn
					if se, ok := ast.Unparen(s.Lhs[errIdx]).(*ast.SelectorExpr); ok {
						if xid, ok := ast.Unparen(se.X).(*ast.Ident); ok {
							if v, ok := info.ObjectOf(xid).(*types.Var); ok && !v.IsField() {
								if f, _ := stickyCell(p, v.Type()); f != nil && info.ObjectOf(se.Sel) == types.Object(f) {
									c.ok(rule, key, pos, "error stored in the sticky error cell "+xid.Name+" (its way to the return is decided separately)")
									return
								}
							}
						}
					}
					c.undec(rule, key, pos, "error assigned to a non-identifier")
					return
				}
				if id.Name == "_" {
					c.viol(rule, key, pos, fmt.Sprintf("%s: the error of %s is assigned to _", b.key, what))
					return
				}
				v := info.ObjectOf(id)
				if ifInit != nil {
					if condTestsNonNil(info, ifInit.Cond, v) && blockReturnsErr(info, ifInit.Body, v, namedErr) {
						c.ok(rule, key, pos, "checked in the same if statement and returned")
						return
					}
					c.viol(rule, key, pos, fmt.Sprintf("%s: the error of %s is assigned in an if statement that does not test it and return it", b.key, what))
					return
				}
				// look ahead in the same statement list
				for j := idx + 1; j < len(list); j++ {
					switch nx := list[j].(type) {
					case *ast.IfStmt:
						if nx.Init == nil && condTestsNonNil(info, nx.Cond, v) && blockReturnsErr(info, nx.Body, v, namedErr) {
							c.ok(rule, key, pos, "checked by the following if statement and returned")
							return
						}
					case *ast.ReturnStmt:
						if len(nx.Results) == 0 && v == namedErr {
							c.ok(rule, key, pos, "named result returned")
							return
						}
						for _, r := range nx.Results {
							if rid, ok := r.(*ast.Ident); ok && info.ObjectOf(rid) == v {
								c.ok(rule, key, pos, "returned later without being overwritten")
								return
							}
						}
					}
					if assignsTo(info, list[j], v) {
						c.viol(rule, key, pos, fmt.Sprintf("%s: the error of %s is overwritten at %s before it is checked or returned", b.key, what, c.pos(list[j].Pos())))
						return
					}
				}
				if v == namedErr && idx == len(list)-1 {
					c.ok(rule, key, pos, "named result at the end of the function")
					return
				}
				// other arrangements (assigned inside a branch and returned after it, …): decided over the paths of the body
				if okPaths, n := errReachesReturnOnPaths(info, p.Types, b.body, s, v, namedErr); okPaths && n > 0 {
					c.ok(rule, key, pos, fmt.Sprintf("returned on each of the %d path(s) that run this call (no overwrite in between)", n))
					return
				}
				c.viol(rule, key, pos, fmt.Sprintf("%s: the error of %s is neither checked nor returned on this path", b.key, what))
			default:
				c.undec(rule, key, pos, fmt.Sprintf("call to %s in an unrecognised statement form %T", what, st))
			}
		}
		visitStmt := func(st ast.Stmt, list []ast.Stmt, idx int) {}
		visitStmt = func(st ast.Stmt, list []ast.Stmt, idx int) {
			switch s := st.(type) {
			case *ast.IfStmt:
				if s.Init != nil {
					for _, call := range directCalls(s.Init) {
						checkCall(call, s.Init, list, idx, s)
					}
				}
				for _, call := range directCallsExpr(s.Cond) {
					checkCall(call, &ast.ExprStmt{X: call}, list, idx, nil)
				}
				visitList(s.Body.List)
				if s.Else != nil {
					if eb, ok := s.Else.(*ast.BlockStmt); ok {
						visitList(eb.List)
					} else {
						visitStmt(s.Else, []ast.Stmt{s.Else}, 0)
					}
				}
			case *ast.BlockStmt:
				visitList(s.List)
			case *ast.ForStmt:
				visitList(s.Body.List)
			case *ast.RangeStmt:
				visitList(s.Body.List)
			case *ast.SwitchStmt:
				for _, cc := range s.Body.List {
					visitList(cc.(*ast.CaseClause).Body)
				}
			case *ast.TypeSwitchStmt:
				for _, cc := range s.Body.List {
					visitList(cc.(*ast.CaseClause).Body)
				}
			case *ast.SelectStmt:
				for _, cc := range s.Body.List {
					visitList(cc.(*ast.CommClause).Body)
				}
			case *ast.LabeledStmt:
				visitStmt(s.Stmt, list, idx)
			case *ast.DeferStmt, *ast.GoStmt:
				// deferred Close etc. are not render writes
			default:
				for _, call := range directCalls(st) {
					checkCall(call, st, list, idx, nil)
				}
			}
		}
		visitList = func(list []ast.Stmt) {
			for i, st := range list {
				visitStmt(st, list, i)
			}
		}
		visitList(b.body.List)
	}
}

// directCalls: call expressions of a simple statement, outermost first, not inside function literals.
func directCalls(st ast.Stmt) []*ast.CallExpr {
	var out []*ast.CallExpr
	ast.Inspect(st, func(n ast.Node) bool {
		switch n := n.(type) {
		case *ast.FuncLit:
			return false
		case *ast.CallExpr:
			out = append(out, n)
			return false // only outermost: inner calls' errors flow through the outer expression
		}
		return true
	})
	return out
}

func directCallsExpr(e ast.Expr) []*ast.CallExpr {
	if e == nil {
		return nil
	}
	return directCalls(&ast.ExprStmt{X: e})
}

func condTestsNonNil(info *types.Info, cond ast.Expr, v types.Object) bool {
	found := false
	ast.Inspect(cond, func(n ast.Node) bool {
		if be, ok := n.(*ast.BinaryExpr); ok && be.Op == token.NEQ {
			if id, ok := be.X.(*ast.Ident); ok && info.ObjectOf(id) == v && types.ExprString(be.Y) == "nil" {
				found = true
			}
		}
		return true
	})
	return found
}

// blockReturnsErr: the block ends in a return that carries v (or a value built from it / the named result).
func blockReturnsErr(info *types.Info, b *ast.BlockStmt, v, named types.Object) bool {
	if len(b.List) == 0 {
		return false
	}
	ret, ok := b.List[len(b.List)-1].(*ast.ReturnStmt)
	if !ok {
		return false
	}
	if len(ret.Results) == 0 {
		return v == named || assignsNamedFrom(info, b, named, v)
	}
	for _, r := range ret.Results {
		mentions := false
		ast.Inspect(r, func(n ast.Node) bool {
			if id, ok := n.(*ast.Ident); ok && info.ObjectOf(id) == v {
				mentions = true
			}
			return true
		})
		if mentions {
			return true
		}
	}
	return false
}

func assignsNamedFrom(info *types.Info, b *ast.BlockStmt, named, v types.Object) bool {
	res := false
	for _, st := range b.List {
		if as, ok := st.(*ast.AssignStmt); ok && len(as.Lhs) == 1 && len(as.Rhs) == 1 {
			if l, ok := as.Lhs[0].(*ast.Ident); ok && info.ObjectOf(l) == named {
				ast.Inspect(as.Rhs[0], func(n ast.Node) bool {
					if id, ok := n.(*ast.Ident); ok && info.ObjectOf(id) == v {
						res = true
					}
					return true
				})
			}
		}
	}
	return res
}

func assignsTo(info *types.Info, st ast.Stmt, v types.Object) bool {
	res := false
	ast.Inspect(st, func(n ast.Node) bool {
		switch n := n.(type) {
		case *ast.FuncLit:
			return false
		case *ast.AssignStmt:
			for _, l := range n.Lhs {
				if id, ok := l.(*ast.Ident); ok && info.ObjectOf(id) == v {
					res = true
				}
			}
		}
		return true
	})
	return res
}

// poolDiscipline: C10.R6.
type poolSite struct {
	fd   *ast.FuncDecl
	call *ast.CallExpr
}

func poolDiscipline(c *Ctx, rule string) {
	for _, rel := range []string{".", "runtime"} {
		p := c.pkg(rel)
		info := p.TypesInfo
		// package-level sync.Pool variables
		scope := p.Types.Scope()
		for _, nm := range scope.Names() {
			pv, ok := scope.Lookup(nm).(*types.Var)
			if !ok {
				continue
			}
			// a sync.Pool — or a package-local type that wraps one and forwards to it (a typed pool): its methods that call
			// Get / Put on the wrapped pool stand for Get / Put
			getNames, putNames := map[string]bool{}, map[string]bool{}
			var innerGets, innerPuts []poolSite
			if pv.Type().String() == "sync.Pool" {
				getNames["Get"], putNames["Put"] = true, true
			} else {
				wt := pv.Type()
				if pt, ok := wt.(*types.Pointer); ok {
					wt = pt.Elem()
				}
				nt, ok := wt.(*types.Named)
				if !ok || nt.Obj().Pkg() != p.Types {
					continue
				}
				stt, ok := nt.Underlying().(*types.Struct)
				if !ok {
					continue
				}
				wraps := false
				for i := 0; i < stt.NumFields(); i++ {
					if stt.Field(i).Type().String() == "sync.Pool" {
						wraps = true
					}
				}
				if !wraps {
					continue
				}
				for _, mfd := range allFuncDecls(p) {
					if mfd.Recv == nil || recvTypeName(mfd.Recv.List[0].Type) != nt.Obj().Name() || mfd.Body == nil {
						continue
					}
					// a method that only forwards is a Get / Put by another name: its call sites are the sites. A method that
					// also resets or flushes the object does the pool's discipline itself: the inner call is the site.
					doesDiscipline := false
					ast.Inspect(mfd.Body, func(n ast.Node) bool {
						if call, ok := n.(*ast.CallExpr); ok {
							if se, ok := call.Fun.(*ast.SelectorExpr); ok && (se.Sel.Name == "Reset" || se.Sel.Name == "Flush") {
								doesDiscipline = true
							}
						}
						return true
					})
					ast.Inspect(mfd.Body, func(n ast.Node) bool {
						if call, ok := n.(*ast.CallExpr); ok {
							if se, ok := call.Fun.(*ast.SelectorExpr); ok {
								if t := info.TypeOf(se.X); t != nil && strings.TrimPrefix(t.String(), "*") == "sync.Pool" {
									switch se.Sel.Name {
									case "Get":
										if doesDiscipline {
											innerGets = append(innerGets, poolSite{mfd, call})
										}
										getNames[mfd.Name.Name] = !doesDiscipline
									case "Put":
										if doesDiscipline {
											innerPuts = append(innerPuts, poolSite{mfd, call})
										}
										putNames[mfd.Name.Name] = !doesDiscipline
									}
								}
							}
						}
						return true
					})
				}
				if len(getNames)+len(innerGets) == 0 || len(putNames)+len(innerPuts) == 0 {
					continue
				}
			}
			poolKey := p.PkgPath + "." + nm
			var gets, puts []struct {
				fd   *ast.FuncDecl
				call *ast.CallExpr
			}
			for _, fd := range allFuncDecls(p) {
				ast.Inspect(fd.Body, func(n ast.Node) bool {
					call, ok := n.(*ast.CallExpr)
					if !ok {
						return true
					}
					se, ok := call.Fun.(*ast.SelectorExpr)
					if !ok {
						return true
					}
					id, ok := se.X.(*ast.Ident)
					if !ok || info.ObjectOf(id) != types.Object(pv) {
						return true
					}
					switch {
					case getNames[se.Sel.Name]:
						gets = append(gets, struct {
							fd   *ast.FuncDecl
							call *ast.CallExpr
						}{fd, call})
					case putNames[se.Sel.Name]:
						puts = append(puts, struct {
							fd   *ast.FuncDecl
							call *ast.CallExpr
						}{fd, call})
					}
					return true
				})
			}
			for _, g := range innerGets {
				gets = append(gets, struct {
					fd   *ast.FuncDecl
					call *ast.CallExpr
				}{g.fd, g.call})
			}
			for _, pt := range innerPuts {
				puts = append(puts, struct {
					fd   *ast.FuncDecl
					call *ast.CallExpr
				}{pt.fd, pt.call})
			}
			if len(gets) == 0 || len(puts) == 0 {
				c.viol(rule, poolKey+"|get/put", "", fmt.Sprintf("pool %s has %d Get and %d Put sites", poolKey, len(gets), len(puts)))
				continue
			}
			// reset-on-get: the object obtained is reset before the function returns it
			getOK := true
			getWhy := ""
			for _, g := range gets {
				fc := newFnCFG(g.fd.Body, info)
				obj := assignedObject(info, g.fd.Body, g.call)
				if obj == nil {
					getOK = false
					getWhy = "pool value not bound to a variable"
					continue
				}
				resets := methodCallsOn(info, g.fd.Body, obj, "Reset")
				// every return after the Get that returns obj must be dominated by a reset
				ast.Inspect(g.fd.Body, func(n ast.Node) bool {
					ret, ok := n.(*ast.ReturnStmt)
					if !ok || !fc.reachable(g.call, ret) {
						return true
					}
					dominated := false
					for _, r := range resets {
						if fc.dominates(r, ret) && fc.dominates(g.call, r) {
							dominated = true
						}
					}
					if !dominated {
						getOK = false
						getWhy = "a return after pool.Get() is not dominated by a Reset of the pooled object (" + c.pos(ret.Pos()) + ")"
					}
					return true
				})
			}
			// reset-before-put
			putOK := true
			putWhy := ""
			for _, pt := range puts {
				fc := newFnCFG(pt.fd.Body, info)
				if len(pt.call.Args) != 1 {
					putOK = false
					continue
				}
				id, ok := pt.call.Args[0].(*ast.Ident)
				if !ok {
					if okFresh, why := freshEmptyValue(info, pt.call.Args[0]); okFresh {
						continue // a fresh, empty object needs no reset
					} else {
						putOK = false
						putWhy = "Put(" + types.ExprString(pt.call.Args[0]) + ") at " + c.pos(pt.call.Pos()) + ": " + why
					}
					continue
				}
				obj := info.ObjectOf(id)
				dominated := false
				for _, r := range methodCallsOn(info, pt.fd.Body, obj, "Reset") {
					if fc.happensBefore(r, pt.call) {
						dominated = true
					}
				}
				if !dominated {
					putOK = false
					if putWhy == "" {
						putWhy = "Put(" + id.Name + ") at " + c.pos(pt.call.Pos()) + " is not dominated by " + id.Name + ".Reset()"
					}
				}
			}
			if getWhy == "" {
				getWhy = putWhy
			} else if putWhy != "" {
				getWhy += "; " + putWhy
			}
			c.check(getOK || putOK, rule, poolKey+"|reset-discipline", c.pos(pv.Pos()),
				fmt.Sprintf("pooled objects are reset (on acquisition: %v, before release: %v)", getOK, putOK),
				fmt.Sprintf("pool %s: objects are neither reset on every acquisition nor before every release (%s): a render would start with the previous render's bytes or writer", poolKey, getWhy))
			// flush-before-put for buffers that have a Flush() error method
			for i, pt := range puts {
				id, ok := pt.call.Args[0].(*ast.Ident)
				if !ok {
					continue
				}
				obj := info.ObjectOf(id)
				if !hasMethod(obj.Type(), "Flush") {
					continue
				}
				fc := newFnCFG(pt.fd.Body, info)
				flushed := false
				for _, fl := range methodCallsOn(info, pt.fd.Body, obj, "Flush") {
					if fc.happensBefore(fl, pt.call) {
						flushed = true
					}
				}
				c.check(flushed, rule, fmt.Sprintf("%s|flush-before-put#%d", poolKey, i+1), c.pos(pt.call.Pos()), "buffer is flushed before it returns to the pool",
					"a buffered writer is returned to the pool without a Flush before the Put (no flush at all, or only after the buffer is already back in the pool, where another render can take it): the tail of the document is lost or mixed with another render's")
			}
		}
	}
	// Buffer.Reset resets the bufio writer on every path and records the underlying writer
	p := c.pkg("runtime")
	if fd := findFunc(p, "Buffer", "Reset"); fd != nil {
		fc := newFnCFG(fd.Body, p.TypesInfo)
		var inner []*ast.CallExpr
		setsUnderlying := false
		ast.Inspect(fd.Body, func(n ast.Node) bool {
			switch n := n.(type) {
			case *ast.CallExpr:
				if se, ok := n.Fun.(*ast.SelectorExpr); ok && se.Sel.Name == "Reset" && len(n.Args) == 1 {
					if aid, ok := n.Args[0].(*ast.Ident); ok {
						if _, isParam := p.TypesInfo.ObjectOf(aid).(*types.Var); isParam {
							inner = append(inner, n)
						}
					}
				}
			case *ast.AssignStmt:
				if len(n.Lhs) == 1 {
					if se, ok := n.Lhs[0].(*ast.SelectorExpr); ok && se.Sel.Name == "Underlying" {
						setsUnderlying = true
					}
				}
			}
			return true
		})
		okAll := false
		for _, call := range inner {
			all := true
			ast.Inspect(fd.Body, func(n ast.Node) bool {
				if ret, ok := n.(*ast.ReturnStmt); ok && !fc.dominates(call, ret) {
					all = false
				}
				return true
			})
			// the implicit return at the end: the call must be at the top level of the body
			top := false
			for _, st := range fd.Body.List {
				if es, ok := st.(*ast.ExprStmt); ok && es.X == ast.Expr(call) {
					top = true
				}
			}
			if all && top {
				okAll = true
			}
		}
		c.check(okAll && setsUnderlying, rule, funcKey(p, fd)+"|resets-bufio-and-underlying", c.pos(fd.Pos()), "Reset(w) re-targets the bufio writer and records w on every path",
			"runtime.Buffer.Reset no longer resets the internal bufio.Writer to w (and sets Underlying) on every path: a pooled buffer would keep writing to the previous render's writer")
	} else {
		c.viol(rule, "anchor-lost:runtime.Buffer.Reset", "", "runtime.(*Buffer).Reset not found (exported API used by GetBuffer)")
	}
	c.floor(rule, 4)
}

func hasMethod(t types.Type, name string) bool {
	ms := types.NewMethodSet(t)
	for i := 0; i < ms.Len(); i++ {
		if ms.At(i).Obj().Name() == name {
			return true
		}
	}
	if _, ok := t.(*types.Pointer); !ok {
		ms = types.NewMethodSet(types.NewPointer(t))
		for i := 0; i < ms.Len(); i++ {
			if ms.At(i).Obj().Name() == name {
				return true
			}
		}
	}
	return false
}

// assignedObject: the variable that receives the value of call (possibly through a type assertion).
func assignedObject(info *types.Info, body *ast.BlockStmt, call *ast.CallExpr) types.Object {
	var res types.Object
	ast.Inspect(body, func(n ast.Node) bool {
		as, ok := n.(*ast.AssignStmt)
		if !ok {
			return true
		}
		for i, r := range as.Rhs {
			if r.Pos() <= call.Pos() && call.End() <= r.End() && i < len(as.Lhs) {
				if id, ok := as.Lhs[i].(*ast.Ident); ok {
					res = info.ObjectOf(id)
				}
			}
		}
		return true
	})
	return res
}

func methodCallsOn(info *types.Info, body *ast.BlockStmt, obj types.Object, method string) []*ast.CallExpr {
	var out []*ast.CallExpr
	ast.Inspect(body, func(n ast.Node) bool {
		call, ok := n.(*ast.CallExpr)
		if !ok {
			return true
		}
		se, ok := call.Fun.(*ast.SelectorExpr)
		if !ok || se.Sel.Name != method {
			return true
		}
		if id, ok := se.X.(*ast.Ident); ok && info.ObjectOf(id) == obj {
			out = append(out, call)
		}
		return true
	})
	return out
}

// variadicErrors: C10.R8.
func variadicErrors(c *Ctx, rule string) {
	n := 0
	for _, rel := range []string{".", "runtime"} {
		p := c.pkg(rel)
		info := p.TypesInfo
		for _, fd := range allFuncDecls(p) {
			var errsObj types.Object
			for _, prm := range fd.Type.Params.List {
				if el, ok := prm.Type.(*ast.Ellipsis); ok && len(prm.Names) == 1 {
					if t := info.TypeOf(el.Elt); isErrorType(t) {
						errsObj = info.Defs[prm.Names[0]]
					}
				}
			}
			if errsObj == nil {
				continue
			}
			n++
			key := funcKey(p, fd)
			nspread := 0
			bad := ""
			badLen := ""
			ast.Inspect(fd.Body, func(x ast.Node) bool {
				switch x := x.(type) {
				case *ast.CallExpr:
					if x.Ellipsis.IsValid() && len(x.Args) > 0 {
						if id, ok := ast.Unparen(x.Args[len(x.Args)-1]).(*ast.Ident); ok && info.ObjectOf(id) == errsObj {
							fn := calleeOf(info, x)
							if fn != nil && (fullName(fn) == "errors.Join" || (fn.Pkg() != nil && strings.HasPrefix(fn.Pkg().Path(), modPath))) {
								nspread++
							}
						}
					}
				case *ast.KeyValueExpr:
					// … or the list is kept in a private field of a value whose method joins it: T{errs: errs} … errors.Join(r.errs...)
					if id, ok := ast.Unparen(x.Value).(*ast.Ident); ok && info.ObjectOf(id) == errsObj {
						if k, ok := x.Key.(*ast.Ident); ok {
							if f, isField := info.Uses[k].(*types.Var); isField && f.IsField() && !f.Exported() {
								for _, g := range allFuncDecls(p) {
									if g.Body == nil {
										continue
									}
									ast.Inspect(g.Body, func(y ast.Node) bool {
										if jc, ok := y.(*ast.CallExpr); ok && jc.Ellipsis.IsValid() && len(jc.Args) > 0 {
											if jf := calleeOf(info, jc); jf != nil && fullName(jf) == "errors.Join" {
												if se, ok := ast.Unparen(jc.Args[len(jc.Args)-1]).(*ast.SelectorExpr); ok && info.Uses[se.Sel] == types.Object(f) {
													nspread++
												}
											}
										}
										return true
									})
								}
							}
						}
					}
				case *ast.IfStmt:
					countsList := false
					ast.Inspect(x.Cond, func(y ast.Node) bool {
						if ix, ok := y.(*ast.IndexExpr); ok {
							if id, ok := ast.Unparen(ix.X).(*ast.Ident); ok && info.ObjectOf(id) == errsObj {
								bad = "the condition `" + types.ExprString(x.Cond) + "` at " + c.pos(x.Pos()) + " inspects a single element of the error list"
							}
						}
						if lc, ok := y.(*ast.CallExpr); ok && len(lc.Args) == 1 {
							if f, ok := ast.Unparen(lc.Fun).(*ast.Ident); ok && f.Name == "len" {
								if id, ok := ast.Unparen(lc.Args[0]).(*ast.Ident); ok && info.ObjectOf(id) == errsObj {
									countsList = true
								}
							}
						}
						return true
					})
					// the list being non-empty is not a failure: the emitter spreads a (value, error) pair into (v, errs...),
					// so a call that succeeded arrives as errs == [nil]. A branch chosen by len(errs) that leaves the function
					// discards the value of every such expression while the render goes on to report success.
					if countsList && badLen == "" {
						for _, st := range x.Body.List {
							if _, isRet := st.(*ast.ReturnStmt); isRet {
								badLen = "the branch at " + c.pos(x.Pos()) + " is taken on `" + types.ExprString(x.Cond) + "` and returns"
							}
						}
					}
				}
				return true
			})
			switch {
			case bad != "":
				c.viol(rule, key+"|all-error-arguments-considered", c.pos(fd.Pos()), fd.Name.Name+": "+bad+": an error that is not in that position (e.g. the third value of `{{ v, errA, errB }}`) is dropped, the render returns nil and the document is written as if the expression had succeeded")
			case nspread == 0:
				c.viol(rule, key+"|all-error-arguments-considered", c.pos(fd.Pos()), fd.Name.Name+" takes the expression's errors as ..."+"error but never hands the list to errors.Join or to another function of the module: the errors are dropped")
			default:
				c.ok(rule, key+"|all-error-arguments-considered", c.pos(fd.Pos()), fmt.Sprintf("the whole list is handed on %d time(s); no single-element test", nspread))
			}
			c.check(badLen == "", rule, key+"|a-nil-error-in-the-list-is-success", c.pos(fd.Pos()), "no early return is chosen by the length of the list",
				fd.Name.Name+": "+badLen+": the emitter hands a (value, error) call over as (v, errs...), so a call that succeeded arrives with errs == [nil]; the function then returns no value with a nil error — the expression is written empty and Render reports success for a document that is not the full one")
		}
	}
	c.count("variadic_error_functions", n)
	c.floor(rule, 4)
}

// freshEmptyValue: new(T), &T{}, bytes.NewBuffer(nil), bytes.NewBuffer(make([]byte, 0[, n])), bytes.NewBufferString("").
func freshEmptyValue(info *types.Info, e ast.Expr) (bool, string) {
	e = ast.Unparen(e)
	switch x := e.(type) {
	case *ast.UnaryExpr:
		if x.Op == token.AND {
			if cl, ok := ast.Unparen(x.X).(*ast.CompositeLit); ok && len(cl.Elts) == 0 {
				return true, ""
			}
		}
	case *ast.CallExpr:
		if id, ok := x.Fun.(*ast.Ident); ok && id.Name == "new" {
			return true, ""
		}
		if fn := calleeOf(info, x); fn != nil && fullName(fn) == "bytes.NewBuffer" && len(x.Args) == 1 {
			a := ast.Unparen(x.Args[0])
			if id, ok := a.(*ast.Ident); ok && id.Name == "nil" {
				return true, ""
			}
			if mk, ok := a.(*ast.CallExpr); ok {
				if id, ok := mk.Fun.(*ast.Ident); ok && id.Name == "make" && len(mk.Args) >= 2 {
					if v, isC := constInt(info, mk.Args[1]); isC && v == 0 {
						return true, ""
					}
					return false, "the buffer is created over make([]byte, " + types.ExprString(mk.Args[1]) + "), whose LENGTH is not zero: it already contains that many zero bytes, which the next render sends ahead of its document (the size belongs in the capacity argument)"
				}
			}
		}
	}
	return false, "the value put into the pool is neither a variable that was reset nor a fresh empty object"
}

// errorLineFromUserExpression: C10.R11 — an expression error carries "a source line inside that expression". The
// emitted handler takes Line/Col from the Range of the parser.Expression it is given, so an expression that contains
// the user's code must carry the user's Range: a parser.Expression literal built in the generator whose Value embeds
// some <expr>.Value (user text that can fail at render time) but whose Range is not that same <expr>.Range reports every
// failure of that code at line 1 (zero Range) or at an unrelated place.
func errorLineFromUserExpression(c *Ctx, rule string) {
	g := c.gem()
	n := 0
	for _, gf := range g.order {
		ord := 0
		ast.Inspect(gf.Decl.Body, func(x ast.Node) bool {
			cl, ok := x.(*ast.CompositeLit)
			if !ok {
				return true
			}
			t := g.info.TypeOf(cl)
			if t == nil || !types.Identical(t, g.exprType) {
				return true
			}
			ord++
			n++
			var rangeExpr string
			var valueExpr ast.Expr
			for _, el := range cl.Elts {
				if kv, ok := el.(*ast.KeyValueExpr); ok {
					switch types.ExprString(kv.Key) {
					case "Range":
						rangeExpr = types.ExprString(kv.Value)
					case "Value":
						valueExpr = kv.Value
					}
				}
			}
			embedded := ""
			if valueExpr != nil {
				ast.Inspect(valueExpr, func(y ast.Node) bool {
					if se, ok := y.(*ast.SelectorExpr); ok && se.Sel.Name == "Value" {
						if tt := g.info.TypeOf(se.X); tt != nil && types.Identical(tt, g.exprType) {
							embedded = types.ExprString(se.X)
						}
					}
					return true
				})
			}
			key := fmt.Sprintf("%s|expression-literal#%d|user-code-keeps-its-range", gf.Key, ord)
			if embedded == "" {
				c.ok(rule, key, c.pos(cl.Pos()), "the literal's text contains no user expression (nothing in it can fail at render time)")
				return true
			}
			c.check(rangeExpr == embedded+".Range", rule, key, c.pos(cl.Pos()), "the literal keeps the Range of the user expression it embeds",
				fmt.Sprintf("%s wraps the user's code %s.Value in a new parser.Expression whose Range is %s: the emitted error handler takes Line and Col from that Range, so a failure of the user's expression is reported at line 1, column 0 (or an unrelated place) instead of a line inside the expression", gf.Name, embedded, map[bool]string{true: "left zero", false: rangeExpr}[rangeExpr == ""]))
			return true
		})
	}
	c.count("expression_literals_in_generator", n)
	// the handler really reads the Range of the expression it is given (otherwise this rule is about nothing)
	reads := false
	for _, gf := range g.order {
		if !strings.Contains(gf.Name, "ErrorHandler") {
			continue
		}
		ast.Inspect(gf.Decl.Body, func(y ast.Node) bool {
			if se, ok := y.(*ast.SelectorExpr); ok && se.Sel.Name == "Range" {
				if tt := g.info.TypeOf(se.X); tt != nil && types.Identical(tt, g.exprType) {
					reads = true
				}
			}
			return true
		})
		// … or in a helper it hands the expression to (locate the error, then write the handler)
		for _, prm := range paramObjs(g.info, gf.Decl) {
			if prm != nil && types.Identical(prm.Type(), g.exprType) {
				paramSelectors(g.pkg, gf.Decl, prm, 0, func(se *ast.SelectorExpr) {
					if se.Sel.Name == "Range" {
						reads = true
					}
				})
			}
		}
	}
	c.check(reads, rule, pkgGenerator+"|error-handler-reads-expression-range", "", "the emitted error handler takes its line from the Range of the expression it is given",
		"no error-handler emitter reads the Range of a parser.Expression: the source line in templ.Error no longer comes from the failing expression")
}

// errReachesReturnOnPaths: on every path of body that executes the assignment st (which sets the error variable v),
// the path either tests v and — when it found it non-nil — returns it, or ends in a return of v (a bare return when v is
// the named result), and v is not assigned again between st and that return.
func errReachesReturnOnPaths(info *types.Info, pkg *types.Package, body *ast.BlockStmt, st ast.Stmt, v, namedErr types.Object) (bool, int) {
	den := &denum{info: info, pkg: pkg, inits: map[types.Object]ast.Expr{}, limit: 5000, opaqueLoops: true}
	den.finish(den.run(body.List, []dstate{{env: map[types.Object]ast.Expr{}}}))
	if den.undecided != "" {
		return false, 0
	}
	returnsV := func(r *ast.ReturnStmt) bool {
		if r == nil {
			return v == namedErr // falls off the end of a function with named results: impossible in Go unless no results; be strict
		}
		if len(r.Results) == 0 {
			return v == namedErr
		}
		for _, e := range r.Results {
			if id, ok := ast.Unparen(e).(*ast.Ident); ok && info.ObjectOf(id) == v {
				return true
			}
		}
		return false
	}
	n := 0
	for _, pth := range den.paths {
		at := -1
		for i, t := range pth.Trace {
			if t == st {
				at = i
			}
		}
		if at < 0 {
			continue
		}
		n++
		for _, t := range pth.Trace[at+1:] {
			if assignsTo(info, t, v) {
				return false, n
			}
		}
		tested, nonNil := false, false
		for _, pc := range pth.Conds {
			be, ok := ast.Unparen(pc.Expr).(*ast.BinaryExpr)
			if !ok || (be.Op != token.NEQ && be.Op != token.EQL) || types.ExprString(be.Y) != "nil" {
				continue
			}
			if id, ok := ast.Unparen(be.X).(*ast.Ident); ok && info.ObjectOf(id) == v {
				tested = true
				nonNil = pc.Val == (be.Op == token.NEQ)
			}
		}
		if tested && !nonNil {
			continue
		}
		if !returnsV(pth.Ret) {
			return false, n
		}
	}
	return true, n
}

// writeLoopsLeaveOnlyOnError: C10.R13 (also run as C01.R8) — a loop that writes the elements of a sequence one after the
// other (`for _, s := range ss { io.WriteString(w, s) }`) may be left early only with the error of a write: a return
// inside the loop on a path where that error is nil (for example "the writer accepted 0 bytes", which is what writing an
// empty string reports) silently drops the remaining elements — the closing quote of an attribute, the end tag.
func writeLoopsLeaveOnlyOnError(c *Ctx, rule string) {
	n := 0
	for _, rel := range []string{".", "runtime"} {
		p := c.pkg(rel)
		if p == nil {
			continue
		}
		info := p.TypesInfo
		for _, fd := range allFuncDecls(p) {
			if fd.Body == nil {
				continue
			}
			ord := 0
			ast.Inspect(fd.Body, func(x ast.Node) bool {
				rs, ok := x.(*ast.RangeStmt)
				if !ok || rs.Value == nil {
					return true
				}
				vid, ok := rs.Value.(*ast.Ident)
				if !ok || vid.Name == "_" {
					return true
				}
				vobj := info.ObjectOf(vid)
				// the loop writes its element: io.WriteString(w, s) / w.Write([]byte(s)) / w.WriteString(s)
				var write *ast.CallExpr
				ast.Inspect(rs.Body, func(y ast.Node) bool {
					call, ok := y.(*ast.CallExpr)
					if !ok || len(call.Args) == 0 {
						return true
					}
					name := ""
					if fn := calleeOf(info, call); fn != nil {
						name = fn.Name()
					}
					if name != "WriteString" && name != "Write" {
						return true
					}
					last := ast.Unparen(call.Args[len(call.Args)-1])
					if conv, isConv := last.(*ast.CallExpr); isConv && len(conv.Args) == 1 {
						last = ast.Unparen(conv.Args[0])
					}
					if id, ok := last.(*ast.Ident); ok && info.ObjectOf(id) == vobj {
						write = call
					}
					return true
				})
				if write == nil {
					return true
				}
				ord++
				n++
				key := fmt.Sprintf("%s|write-loop#%d|left-only-with-the-write-error", funcKey(p, fd), ord)
				den := &denum{info: info, pkg: p.Types, inits: map[types.Object]ast.Expr{}, limit: 5000, loopBody: true, opaqueLoops: true}
				den.finish(den.run(rs.Body.List, []dstate{{env: map[types.Object]ast.Expr{}}}))
				if den.undecided != "" {
					c.undec(rule, key, c.pos(rs.Pos()), fd.Name.Name+": the write loop contains "+den.undecided)
					return true
				}
				bad := ""
				for _, pth := range den.paths {
					if pth.Ret == nil && pth.Exit != "break" {
						continue
					}
					withErr := false
					for _, pc := range pth.Conds {
						be, ok := ast.Unparen(pc.Expr).(*ast.BinaryExpr)
						if !ok || types.ExprString(be.Y) != "nil" {
							continue
						}
						if t := info.TypeOf(be.X); t == nil || t.String() != "error" {
							continue
						}
						if pc.Val == (be.Op == token.NEQ) {
							withErr = true
						}
					}
					if !withErr {
						var took []string
						for _, pc := range pth.Conds {
							took = append(took, fmt.Sprintf("%s=%v", types.ExprString(pc.Expr), pc.Val))
						}
						bad = "a path leaves the loop with [" + strings.Join(took, ", ") + "]"
					}
				}
				c.check(bad == "", rule, key, c.pos(rs.Pos()), "every early exit of the loop is on a path that took the write error as non-nil",
					fmt.Sprintf("%s: %s — without an error: the remaining elements are silently not written (an empty string is a write of 0 bytes: `alt=\"` then loses its closing quote and the next attribute is read as part of the value)", fd.Name.Name, bad))
				return true
			})
		}
	}
	c.count("element_write_loops", n)
	c.floor(rule, 1)
}

// unhandledCarriesNoError: C10.R14 — the style-attribute value handlers return (handled bool, err error) and their
// caller looks at err only when handled is true (`if handled, err := h(v); handled { return err }`). So a handler may
// not return false together with an error: the error would be dropped, the fallback text written and Render would
// report success.
func unhandledCarriesNoError(c *Ctx, rule string) {
	p := c.pkg("runtime")
	info := p.TypesInfo
	n := 0
	for _, fd := range allFuncDecls(p) {
		if fd.Body == nil || fd.Type.Results == nil {
			continue
		}
		var rts []types.Type
		for _, r := range fd.Type.Results.List {
			k := len(r.Names)
			if k == 0 {
				k = 1
			}
			for i := 0; i < k; i++ {
				rts = append(rts, info.TypeOf(r.Type))
			}
		}
		if len(rts) != 2 || rts[0] == nil || rts[1] == nil || rts[0].String() != "bool" || rts[1].String() != "error" {
			continue
		}
		// only where some caller reads the error under the flag
		guarded := false
		for _, g := range allFuncDecls(p) {
			ast.Inspect(g.Body, func(x ast.Node) bool {
				is, ok := x.(*ast.IfStmt)
				if !ok || is.Init == nil {
					return true
				}
				as, ok := is.Init.(*ast.AssignStmt)
				if !ok || len(as.Lhs) != 2 || len(as.Rhs) != 1 {
					return true
				}
				call, ok := as.Rhs[0].(*ast.CallExpr)
				if !ok || types.Object(calleeOf(info, call)) != info.Defs[fd.Name] {
					return true
				}
				if types.ExprString(is.Cond) == types.ExprString(as.Lhs[0]) {
					guarded = true
				}
				return true
			})
		}
		if !guarded {
			continue
		}
		ord := 0
		// named results: a bare `return` hands back whatever they hold. The flag is false there unless it was assigned,
		// and the error is set when the return stands in the branch taken for a non-nil error.
		var flagObj, errObj types.Object
		if rl := fd.Type.Results.List; len(rl) == 1 && len(rl[0].Names) == 2 {
			flagObj, errObj = info.Defs[rl[0].Names[0]], info.Defs[rl[0].Names[1]]
		} else if len(rl) == 2 && len(rl[0].Names) == 1 && len(rl[1].Names) == 1 {
			flagObj, errObj = info.Defs[rl[0].Names[0]], info.Defs[rl[1].Names[0]]
		}
		if flagObj != nil && errObj != nil {
			flagSet := false
			ast.Inspect(fd.Body, func(x ast.Node) bool {
				if as, ok := x.(*ast.AssignStmt); ok {
					for _, l := range as.Lhs {
						if id, ok := l.(*ast.Ident); ok && info.ObjectOf(id) == flagObj {
							flagSet = true
						}
					}
				}
				return true
			})
			var ifs []*ast.IfStmt
			var walk func(root ast.Node)
			walk = func(root ast.Node) {
				ast.Inspect(root, func(x ast.Node) bool {
					switch t := x.(type) {
					case *ast.FuncLit:
						return false
					case *ast.IfStmt:
						if t.Init != nil {
							walk(t.Init)
						}
						ifs = append(ifs, t)
						walk(t.Body)
						ifs = ifs[:len(ifs)-1]
						if t.Else != nil {
							walk(t.Else)
						}
						return false
					case *ast.ReturnStmt:
						if len(t.Results) != 0 || flagSet {
							return true
						}
						inErrBranch := false
						for _, is := range ifs {
							if condTestsNonNil(info, is.Cond, errObj) {
								inErrBranch = true
							}
						}
						if !inErrBranch {
							return true
						}
						ord++
						n++
						c.viol(rule, fmt.Sprintf("%s|return-false#%d|no-error", funcKey(p, fd), ord), c.pos(t.Pos()),
							fmt.Sprintf("%s leaves with a bare return in the branch taken for a non-nil %s while its result %s was never set (false): its caller reads the error only when the value was handled, so this error is dropped — the unsupported-value text is written and Render returns nil although a style function failed", fd.Name.Name, errObj.Name(), flagObj.Name()))
					}
					return true
				})
			}
			walk(fd.Body)
		}
		ast.Inspect(fd.Body, func(x ast.Node) bool {
			if _, isLit := x.(*ast.FuncLit); isLit {
				return false
			}
			ret, ok := x.(*ast.ReturnStmt)
			if !ok || len(ret.Results) != 2 {
				return true
			}
			tv, ok := info.Types[ret.Results[0]]
			if !ok || tv.Value == nil || tv.Value.String() != "false" {
				return true
			}
			ord++
			n++
			// an error the handler makes up to describe a value it does not support (a sentinel, fmt.Errorf) is not the
			// failure of an expression: the caller goes on to the unsupported-value text, as for any other unsupported
			// value. What must not be lost is an error VALUE that came back from evaluating something.
			if id, isID := ast.Unparen(ret.Results[1]).(*ast.Ident); !isID || id.Name == "nil" {
				c.ok(rule, fmt.Sprintf("%s|return-false#%d|no-error", funcKey(p, fd), ord), c.pos(ret.Pos()), "`not handled` is returned with nil or with a description of the unsupported value")
				return true
			} else if v, isVar := info.ObjectOf(id).(*types.Var); !isVar || v.Parent() == p.Types.Scope() {
				c.ok(rule, fmt.Sprintf("%s|return-false#%d|no-error", funcKey(p, fd), ord), c.pos(ret.Pos()), "`not handled` is returned with a package-level description of the unsupported value")
				return true
			}
			c.check(types.ExprString(ret.Results[1]) == "nil", rule, fmt.Sprintf("%s|return-false#%d|no-error", funcKey(p, fd), ord), c.pos(ret.Pos()), "`not handled` is returned with a nil error",
				fmt.Sprintf("%s returns (false, %s): its caller reads the error only when the value was handled, so this error is dropped — the unsupported-value text is written and Render returns nil although a style function failed", fd.Name.Name, types.ExprString(ret.Results[1])))
			return true
		})
	}
	c.count("unhandled_returns", n)
	c.floor(rule, 2)
}

// flushAlwaysReachesBufio: C10.R15 — a bufio.Writer remembers the first write error and reports it from Flush, also
// when nothing is buffered any more. ReleaseBuffer relies on that: the final (*Buffer).Flush is where a failed write of
// a large chunk (written through, not buffered) surfaces. So every path of (*Buffer).Flush calls the bufio writer's
// Flush: an early `nothing buffered, return nil` loses the error and Render reports success for a truncated document.
func flushAlwaysReachesBufio(c *Ctx, rule string) {
	p := c.pkg("runtime")
	info := p.TypesInfo
	fd := findFunc(p, "Buffer", "Flush")
	if fd == nil {
		c.viol(rule, "anchor-lost:runtime.Buffer.Flush", "", "runtime.(*Buffer).Flush (exported) not found")
		return
	}
	key := funcKey(p, fd)
	den := &denum{info: info, pkg: p.Types, inits: map[types.Object]ast.Expr{}, limit: 5000}
	den.finish(den.run(fd.Body.List, []dstate{{env: map[types.Object]ast.Expr{}}}))
	if den.undecided != "" {
		c.undec(rule, key+"|always-flushes-bufio", c.pos(fd.Pos()), "Buffer.Flush contains "+den.undecided)
		return
	}
	bad := ""
	for _, pth := range den.paths {
		flushed := false
		var nodes []ast.Node
		for _, st := range pth.Trace {
			nodes = append(nodes, st)
		}
		for _, nd := range nodes {
			ast.Inspect(nd, func(x ast.Node) bool {
				if call, ok := x.(*ast.CallExpr); ok {
					if fn := calleeOf(info, call); fn != nil && fullName(fn) == "bufio.(Writer).Flush" {
						flushed = true
					}
				}
				return true
			})
		}
		if !flushed {
			where := "the end of the function"
			if pth.Ret != nil {
				where = c.pos(pth.Ret.Pos())
			}
			bad = "the path that returns at " + where + " does not call the bufio writer's Flush"
		}
	}
	c.check(bad == "" && len(den.paths) > 0, rule, key+"|always-flushes-bufio", c.pos(fd.Pos()), fmt.Sprintf("%d paths, each through bufio.(*Writer).Flush", len(den.paths)),
		"(*Buffer).Flush: "+bad+": the write error the bufio writer remembered is never reported, so a render whose last large write failed returns nil")
}

// stickyCell: t is (a pointer to) an unexported struct type of the package that keeps the first error of a series of
// writes — it has exactly one error field E, at least one method assigns r.E, and every method that does so starts with
// `if r.E != nil { return }`: once E is set, nothing is written and E is not overwritten. Returns the field and the
// methods that store into it.
func stickyCell(p *packages.Package, t types.Type) (*types.Var, map[types.Object]bool) {
	if t == nil {
		return nil, nil
	}
	if pt, ok := t.(*types.Pointer); ok {
		t = pt.Elem()
	}
	nt, ok := t.(*types.Named)
	if !ok || nt.Obj().Pkg() != p.Types || nt.Obj().Exported() {
		return nil, nil
	}
	st, ok := nt.Underlying().(*types.Struct)
	if !ok {
		return nil, nil
	}
	var field *types.Var
	for i := 0; i < st.NumFields(); i++ {
		if isErrorType(st.Field(i).Type()) {
			if field != nil {
				return nil, nil
			}
			field = st.Field(i)
		}
	}
	if field == nil {
		return nil, nil
	}
	info := p.TypesInfo
	stores := map[types.Object]bool{}
	for _, fd := range allFuncDecls(p) {
		if fd.Recv == nil || fd.Body == nil || len(fd.Recv.List) != 1 || len(fd.Recv.List[0].Names) != 1 || recvTypeName(fd.Recv.List[0].Type) != nt.Obj().Name() {
			continue
		}
		robj := info.Defs[fd.Recv.List[0].Names[0]]
		isE := func(e ast.Expr) bool {
			se, ok := ast.Unparen(e).(*ast.SelectorExpr)
			if !ok || info.ObjectOf(se.Sel) != types.Object(field) {
				return false
			}
			id, ok := ast.Unparen(se.X).(*ast.Ident)
			return ok && info.ObjectOf(id) == robj
		}
		assigns := false
		ast.Inspect(fd.Body, func(n ast.Node) bool {
			if as, ok := n.(*ast.AssignStmt); ok {
				for _, l := range as.Lhs {
					if isE(l) {
						assigns = true
					}
				}
			}
			return true
		})
		if !assigns {
			continue
		}
		// a store without the guard (or through a value receiver, which stores into a copy): not a sticky cell
		if _, ptr := fd.Recv.List[0].Type.(*ast.StarExpr); !ptr {
			return nil, nil
		}
		guarded := false
		if len(fd.Body.List) > 0 {
			if is, ok := fd.Body.List[0].(*ast.IfStmt); ok && is.Init == nil && is.Else == nil && len(is.Body.List) == 1 {
				if be, ok := ast.Unparen(is.Cond).(*ast.BinaryExpr); ok && be.Op == token.NEQ && isE(be.X) && types.ExprString(be.Y) == "nil" {
					if _, isRet := is.Body.List[0].(*ast.ReturnStmt); isRet {
						guarded = true
					}
				}
			}
		}
		if !guarded {
			return nil, nil
		}
		stores[info.Defs[fd.Name]] = true
	}
	if len(stores) == 0 {
		return nil, nil
	}
	return field, stores
}

// stickyErrorsReachReturn: C10.R5 for writes made through a sticky error cell (`ew := errWriter{w: w}; ew.write(a);
// ew.write(b); return ew.err`). The write methods return nothing, so the per-call rule has nothing to look at; what
// must hold instead is that every path of the function that made a write through the cell returns the cell's error —
// `return X.E` (or a return after `X.E` was tested and found nil, with no write in between).
func stickyErrorsReachReturn(c *Ctx, p *packages.Package, rule string) {
	info := p.TypesInfo
	for _, fd := range allFuncDecls(p) {
		if fd.Body == nil || fd.Type.Results == nil {
			continue
		}
		returnsErr := false
		for _, r := range fd.Type.Results.List {
			if isErrorType(info.TypeOf(r.Type)) {
				returnsErr = true
			}
		}
		// the sticky locals of the function
		type cell struct {
			field  *types.Var
			stores map[types.Object]bool
		}
		cells := map[types.Object]cell{}
		ast.Inspect(fd.Body, func(n ast.Node) bool {
			if id, ok := n.(*ast.Ident); ok {
				if v, ok := info.Defs[id].(*types.Var); ok && !v.IsField() {
					if f, st := stickyCell(p, v.Type()); f != nil {
						cells[v] = cell{f, st}
					}
				}
			}
			return true
		})
		if len(cells) == 0 {
			continue
		}
		for x, cl := range cells {
			key := fmt.Sprintf("%s|sticky:%s.%s|reaches-return", funcKey(p, fd), x.Name(), cl.field.Name())
			if !returnsErr {
				c.viol(rule, key, c.pos(x.Pos()), fmt.Sprintf("%s collects write errors in %s.%s but has no error result to report them through", fd.Name.Name, x.Name(), cl.field.Name()))
				continue
			}
			isXE := func(e ast.Expr) bool {
				se, ok := ast.Unparen(e).(*ast.SelectorExpr)
				if !ok || info.ObjectOf(se.Sel) != types.Object(cl.field) {
					return false
				}
				id, ok := ast.Unparen(se.X).(*ast.Ident)
				return ok && info.ObjectOf(id) == x
			}
			// a statement that stores into the cell: a call of a storing method on X, or an assignment to X.E
			storesIn := func(st ast.Stmt) bool {
				found := false
				ast.Inspect(st, func(n ast.Node) bool {
					switch v := n.(type) {
					case *ast.FuncLit:
						return false
					case *ast.CallExpr:
						if se, ok := ast.Unparen(v.Fun).(*ast.SelectorExpr); ok {
							if id, ok := ast.Unparen(se.X).(*ast.Ident); ok && info.ObjectOf(id) == x && cl.stores[info.ObjectOf(se.Sel)] {
								found = true
							}
						}
					case *ast.AssignStmt:
						for _, l := range v.Lhs {
							if isXE(l) {
								found = true
							}
						}
					}
					return true
				})
				return found
			}
			// the cell must stay in the function: X is used only as the receiver of its methods, in X.E, and in its declaration
			escapes := ""
			var stack []ast.Node
			ast.Inspect(fd.Body, func(n ast.Node) bool {
				if n == nil {
					stack = stack[:len(stack)-1]
					return true
				}
				stack = append(stack, n)
				id, ok := n.(*ast.Ident)
				if !ok || info.Uses[id] != types.Object(x) || len(stack) < 2 {
					return true
				}
				if se, ok := stack[len(stack)-2].(*ast.SelectorExpr); ok && se.X == ast.Expr(id) {
					return true
				}
				escapes = c.pos(id.Pos())
				return true
			})
			if escapes != "" {
				c.undec(rule, key, c.pos(x.Pos()), fmt.Sprintf("the error cell %s is used as a value at %s (copied or handed on): not followed", x.Name(), escapes))
				continue
			}
			// over the flow graph: a return that does not hand back X.E must not be reachable from a write through the
			// cell — unless a test `if X.E != nil { return … }` lies between them (it dominates the return, the write
			// reaches it, and no further write lies between the test and the return)
			g := newFnCFG(fd.Body, info)
			var stores []ast.Stmt
			var tests []*ast.IfStmt
			var rets []*ast.ReturnStmt
			ast.Inspect(fd.Body, func(n ast.Node) bool {
				switch v := n.(type) {
				case *ast.FuncLit:
					return false
				case *ast.ExprStmt:
					if storesIn(v) {
						stores = append(stores, v)
					}
				case *ast.AssignStmt:
					if storesIn(v) {
						stores = append(stores, v)
					}
				case *ast.IfStmt:
					if be, ok := ast.Unparen(v.Cond).(*ast.BinaryExpr); ok && be.Op == token.NEQ && types.ExprString(be.Y) == "nil" && isXE(be.X) && len(v.Body.List) > 0 {
						if _, isRet := v.Body.List[len(v.Body.List)-1].(*ast.ReturnStmt); isRet {
							tests = append(tests, v)
						}
					}
				case *ast.ReturnStmt:
					rets = append(rets, v)
				}
				return true
			})
			bad := ""
			npaths := 0
			for _, st := range stores {
				as, isAs := st.(*ast.AssignStmt)
				if !isAs {
					continue
				}
				direct := false
				for _, l := range as.Lhs {
					if isXE(l) {
						direct = true
					}
				}
				if !direct {
					continue
				}
				for _, s0 := range stores {
					if s0 != st && g.reachable(s0, st) && bad == "" {
						bad = fmt.Sprintf("%s.%s is assigned at %s after a write through the cell at %s: the earlier write's error is overwritten", x.Name(), cl.field.Name(), c.pos(st.Pos()), c.pos(s0.Pos()))
					}
				}
			}
			for _, r := range rets {
				returnsXE := false
				for _, res := range r.Results {
					if isXE(res) {
						returnsXE = true
					}
				}
				for _, s0 := range stores {
					if !g.reachable(s0, r) {
						continue
					}
					npaths++
					if returnsXE {
						continue
					}
					covered := false
					for _, t := range tests {
						if t.Body.Pos() <= r.Pos() && r.End() <= t.Body.End() {
							continue
						}
						if !g.reachable(s0, t.Cond) || !g.dominates(t.Cond, r) {
							continue
						}
						again := false
						for _, s2 := range stores {
							if g.reachable(t.Cond, s2) && g.reachable(s2, r) {
								again = true
							}
						}
						if !again {
							covered = true
						}
					}
					if !covered && bad == "" {
						bad = fmt.Sprintf("the return at %s can be reached after the write through %s at %s, does not return %s.%s, and no test of it lies between them", c.pos(r.Pos()), x.Name(), c.pos(s0.Pos()), x.Name(), cl.field.Name())
					}
				}
			}
			c.check(bad == "", rule, key, c.pos(x.Pos()), fmt.Sprintf("every return reachable from a write through the cell hands back its error, or follows a test of it (%d write→return pairs)", npaths),
				fmt.Sprintf("%s: %s — a failed write would go unnoticed and the render would report success", fd.Name.Name, bad))
		}
	}
}
