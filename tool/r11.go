package main

// Rules and clauses added in seed round 11.

import (
	"fmt"
	"go/ast"
	"go/constant"
	"go/token"
	"go/types"
	"strings"

	"golang.org/x/tools/go/packages"
)

// impliesPresence: what the truth (or falsity) of cond says about the row ix (T[k]) of a two-level table:
// +1 the row is present, -1 the row is absent, 0 nothing. Understood: the ok of a comma-ok fetch of the same T[k],
// T[k] == nil / != nil, row == nil / != nil for a local fetched from the same T[k], and ! && || over those.
func impliesPresence(info *types.Info, roots []*ast.FuncDecl, cond ast.Expr, truth bool, ix *ast.IndexExpr) int {
	want := types.ExprString(ix)
	fetched := func(id *ast.Ident, slot int) bool {
		ob := info.ObjectOf(id)
		if ob == nil {
			return false
		}
		found := false
		for _, r := range roots {
			ast.Inspect(r.Body, func(n ast.Node) bool {
				as, ok := n.(*ast.AssignStmt)
				if !ok || len(as.Rhs) != 1 || len(as.Lhs) <= slot {
					return true
				}
				l, ok := ast.Unparen(as.Lhs[slot]).(*ast.Ident)
				if !ok || info.ObjectOf(l) != ob {
					return true
				}
				if r, ok := ast.Unparen(as.Rhs[0]).(*ast.IndexExpr); ok && types.ExprString(r) == want && (slot == 0 || len(as.Lhs) == 2) {
					found = true
				}
				return true
			})
		}
		return found
	}
	isRow := func(e ast.Expr) bool {
		e = ast.Unparen(e)
		if types.ExprString(e) == want {
			return true
		}
		if id, ok := e.(*ast.Ident); ok {
			return fetched(id, 0)
		}
		return false
	}
	isNil := func(e ast.Expr) bool {
		id, ok := ast.Unparen(e).(*ast.Ident)
		return ok && id.Name == "nil" && info.Types[e].IsNil()
	}
	sign := func(b bool) int {
		if b {
			return 1
		}
		return -1
	}
	var rec func(e ast.Expr, truth bool) int
	rec = func(e ast.Expr, truth bool) int {
		switch x := ast.Unparen(e).(type) {
		case *ast.UnaryExpr:
			if x.Op == token.NOT {
				return rec(x.X, !truth)
			}
		case *ast.Ident:
			if fetched(x, 1) {
				return sign(truth)
			}
		case *ast.BinaryExpr:
			switch x.Op {
			case token.LAND, token.LOR:
				a, b := rec(x.X, truth), rec(x.Y, truth)
				// a && b true (a || b false): both operands are known; otherwise only one of them is
				both := (x.Op == token.LAND) == truth
				if both {
					if a != 0 {
						return a
					}
					return b
				}
				if a == b {
					return a
				}
				return 0
			case token.EQL, token.NEQ:
				if (isRow(x.X) && isNil(x.Y)) || (isRow(x.Y) && isNil(x.X)) {
					return -sign((x.Op == token.EQL) == truth)
				}
			}
		}
		return 0
	}
	return rec(cond, truth)
}

// rowsCreatedOnlyWhenAbsent (C07.R3 clause): in SourceMap.Add and the helpers it is split into, a row of the two
// line tables (map[line]map[col]Position) is stored only where the fetch of that very row missed. A row that is replaced
// although it exists forgets every expression recorded on that line before: an expression that shares a source line
// with the continuation line of a multi-line expression (children on the last line of a call) loses its mapping.
func rowsCreatedOnlyWhenAbsent(c *Ctx, rule, key string, pp *packages.Package, unit []*ast.FuncDecl) {
	info := pp.TypesInfo
	isTable := func(e ast.Expr) bool {
		t := info.TypeOf(e)
		if t == nil {
			return false
		}
		m, ok := t.Underlying().(*types.Map)
		if !ok {
			return false
		}
		m2, ok := m.Elem().Underlying().(*types.Map)
		if !ok {
			return false
		}
		nt, ok := m2.Elem().(*types.Named)
		return ok && nt.Obj().Name() == "Position" && nt.Obj().Pkg() == pp.Types
	}
	terminates := func(b *ast.BlockStmt) bool {
		if len(b.List) == 0 {
			return false
		}
		switch s := b.List[len(b.List)-1].(type) {
		case *ast.ReturnStmt:
			return true
		case *ast.BranchStmt:
			return s.Tok == token.CONTINUE || s.Tok == token.BREAK
		}
		return false
	}
	n := 0
	// which of the source map's tables a store serves: the field it names, or — in a helper that takes the table as a
	// parameter — the fields handed to that parameter at the helper's call sites in the unit
	covered := map[string]bool{}
	tableOf := func(u *ast.FuncDecl, e ast.Expr) {
		switch x := ast.Unparen(e).(type) {
		case *ast.SelectorExpr:
			covered[x.Sel.Name] = true
		case *ast.Ident:
			for i, prm := range paramObjs(info, u) {
				if prm == nil || prm != info.ObjectOf(x) {
					continue
				}
				for _, cu := range unit {
					ast.Inspect(cu.Body, func(m ast.Node) bool {
						if call, ok := m.(*ast.CallExpr); ok && i < len(call.Args) && types.Object(calleeOf(info, call)) == info.Defs[u.Name] {
							if se, ok := ast.Unparen(call.Args[i]).(*ast.SelectorExpr); ok {
								covered[se.Sel.Name] = true
							}
						}
						return true
					})
				}
			}
		}
	}
	for _, u := range unit {
		var stack []ast.Node
		ast.Inspect(u.Body, func(nd ast.Node) bool {
			if nd == nil {
				stack = stack[:len(stack)-1]
				return true
			}
			stack = append(stack, nd)
			as, ok := nd.(*ast.AssignStmt)
			if !ok {
				return true
			}
			for _, l := range as.Lhs {
				ix, ok := ast.Unparen(l).(*ast.IndexExpr)
				if !ok || !isTable(ix.X) {
					continue
				}
				n++
				tableOf(u, ix.X)
				guarded := false
				for k := len(stack) - 2; k >= 0 && !guarded; k-- {
					switch anc := stack[k].(type) {
					case *ast.IfStmt:
						inBody := as.Pos() >= anc.Body.Pos() && as.End() <= anc.Body.End()
						inElse := anc.Else != nil && as.Pos() >= anc.Else.Pos() && as.End() <= anc.Else.End()
						if inBody && impliesPresence(info, unit, anc.Cond, true, ix) == -1 {
							guarded = true
						}
						if inElse && impliesPresence(info, unit, anc.Cond, false, ix) == -1 {
							guarded = true
						}
					case *ast.BlockStmt:
						// an earlier `if present { return / continue }` in a block the store lies in
						for _, st := range anc.List {
							if st.End() > as.Pos() {
								break
							}
							if is, ok := st.(*ast.IfStmt); ok && is.Else == nil && terminates(is.Body) && impliesPresence(info, unit, is.Cond, true, ix) == 1 {
								guarded = true
							}
						}
					}
				}
				c.check(guarded, rule, key+"|row-stored-only-when-absent:"+types.ExprString(ix.X), c.pos(as.Pos()),
					"the row "+types.ExprString(ix)+" is stored only where its fetch missed",
					fmt.Sprintf("%s stores a row into %s where the row may already exist (the store is not confined to the miss of a fetch of %s): the positions recorded on that line by an earlier Add are forgotten — an expression sharing a line with a continuation line of a multi-line expression no longer maps", u.Name.Name, types.ExprString(ix.X), types.ExprString(ix)))
			}
			return true
		})
	}
	if len(covered) < 2 {
		c.viol(rule, "anchor-lost:"+key+"|row-stores", "", fmt.Sprintf("found %d store(s) of rows serving %d of the two line tables of the source map (both confirmed by reading): the code the clause is anchored in could not be found, so nothing is decided", n, len(covered)))
	}
}

// encodedLenVar: every assignment to the local `name` in the bodies gives it the encoded length of the rune:
// utf8.RuneLen / utf8.EncodeRune (also under max(…, 1)), another expression built on a utf8 call or len(), or the
// constant 1 under an exact ASCII test of a rune (r < utf8.RuneSelf, r < 0x80, r <= 0x7f) whose other arm takes the
// encoded length. Returns "" or what is wrong.
func encodedLenVar(info *types.Info, bodies []ast.Node, name string) string {
	type asg struct {
		as  *ast.AssignStmt
		rhs ast.Expr
	}
	var consts, encs []asg
	bad := ""
	usesLen := func(e ast.Expr) bool {
		found := false
		ast.Inspect(e, func(n ast.Node) bool {
			if call, ok := n.(*ast.CallExpr); ok {
				if fn := calleeOf(info, call); fn != nil && fn.Pkg() != nil && fn.Pkg().Path() == "unicode/utf8" {
					found = true
				}
				if id, ok := call.Fun.(*ast.Ident); ok && id.Name == "len" {
					found = true
				}
				if runeLenHelper != nil && runeLenHelper(call) {
					found = true
				}
			}
			return true
		})
		return found
	}
	// `if rlen < 0 { rlen = 1 }`: the fix-up of an invalid rune's length (-1) is not a choice of length
	var fixups []*ast.BlockStmt
	for _, b := range bodies {
		ast.Inspect(b, func(n ast.Node) bool {
			if is, ok := n.(*ast.IfStmt); ok {
				if be, ok := ast.Unparen(is.Cond).(*ast.BinaryExpr); ok && types.ExprString(be.X) == name && (be.Op == token.LSS || be.Op == token.LEQ) {
					if y := types.ExprString(be.Y); y == "0" || (y == "1" && be.Op == token.LSS) {
						fixups = append(fixups, is.Body)
					}
				}
			}
			return true
		})
	}
	inFixup := func(n ast.Node) bool {
		for _, f := range fixups {
			if n.Pos() >= f.Pos() && n.End() <= f.End() {
				return true
			}
		}
		return false
	}
	for _, b := range bodies {
		ast.Inspect(b, func(n ast.Node) bool {
			switch n := n.(type) {
			case *ast.AssignStmt:
				if (n.Tok != token.ASSIGN && n.Tok != token.DEFINE) || inFixup(n) {
					return true
				}
				for i, l := range n.Lhs {
					id, ok := ast.Unparen(l).(*ast.Ident)
					if !ok || id.Name != name || len(n.Rhs) != len(n.Lhs) {
						continue
					}
					r := n.Rhs[i]
					if tv, ok := info.Types[r]; ok && tv.Value != nil {
						consts = append(consts, asg{n, r})
					} else if usesLen(r) {
						encs = append(encs, asg{n, r})
					} else {
						bad = "`" + name + " " + n.Tok.String() + " " + types.ExprString(r) + "`, which is not built on the rune's encoded length"
					}
				}
			case *ast.ValueSpec:
				for i, id := range n.Names {
					if id.Name == name && i < len(n.Values) {
						if tv, ok := info.Types[n.Values[i]]; ok && tv.Value != nil {
							consts = append(consts, asg{nil, n.Values[i]})
						}
					}
				}
			}
			return true
		})
	}
	if bad != "" {
		return bad
	}
	if len(consts) == 0 {
		return ""
	}
	// constants: all 1, and an exact ASCII test decides between the constant and the encoded length
	for _, k := range consts {
		if v, ok := constant.Int64Val(constant.ToInt(info.Types[k.rhs].Value)); !ok || v != 1 {
			return "`" + name + "` is set to the constant " + types.ExprString(k.rhs)
		}
	}
	asciiArm := func(cond ast.Expr) (body bool, ok bool) {
		be, isB := ast.Unparen(cond).(*ast.BinaryExpr)
		if !isB {
			return false, false
		}
		val := func(e ast.Expr) (int64, bool) {
			tv, ok := info.Types[e]
			if !ok || tv.Value == nil {
				return 0, false
			}
			return constant.Int64Val(constant.ToInt(tv.Value))
		}
		isRune := func(e ast.Expr) bool {
			t := info.TypeOf(e)
			if t == nil {
				return false
			}
			b, ok := t.Underlying().(*types.Basic)
			return ok && b.Info()&types.IsInteger != 0 && info.Types[e].Value == nil
		}
		x, y, op := be.X, be.Y, be.Op
		if _, isC := val(x); isC {
			// constant on the left: mirror
			x, y = y, x
			switch op {
			case token.LSS:
				op = token.GTR
			case token.LEQ:
				op = token.GEQ
			case token.GTR:
				op = token.LSS
			case token.GEQ:
				op = token.LEQ
			}
		}
		v, isC := val(y)
		if !isC || !isRune(x) {
			return false, false
		}
		switch {
		case op == token.LSS && v == 0x80, op == token.LEQ && v == 0x7f:
			return true, true // the body is the ASCII arm
		case op == token.GEQ && v == 0x80, op == token.GTR && v == 0x7f:
			return false, true // the else is the ASCII arm
		}
		return false, false
	}
	within := func(n ast.Node, outer ast.Node) bool {
		return outer != nil && n != nil && n.Pos() >= outer.Pos() && n.End() <= outer.End()
	}
	decided := false
	why := "`" + name + "` is set to the constant 1 without an exact ASCII test (< 0x80) choosing between it and the encoded length"
	for _, b := range bodies {
		ast.Inspect(b, func(n ast.Node) bool {
			is, ok := n.(*ast.IfStmt)
			if !ok {
				return true
			}
			bodyIsASCII, ok := asciiArm(is.Cond)
			if !ok {
				// a test of a rune against a constant that is not the ASCII boundary, deciding the length
				if be, isB := ast.Unparen(is.Cond).(*ast.BinaryExpr); isB {
					for _, k := range consts {
						if k.as != nil && (within(k.as, is.Body) || within(k.as, is.Else)) {
							why = "`" + name + "` is set to 1 under `" + types.ExprString(be) + "`, which is not the ASCII boundary (runes below 0x80 are the ones encoded in one byte)"
						}
					}
					for _, k := range encs {
						if within(k.as, is.Body) || within(k.as, is.Else) {
							if _, isOrd := map[token.Token]bool{token.LSS: true, token.LEQ: true, token.GTR: true, token.GEQ: true}[be.Op]; isOrd {
								why = "the encoded length is taken only under `" + types.ExprString(be) + "`, which is not the ASCII boundary (runes below 0x80 are the ones encoded in one byte): a rune on the wrong side is counted as one byte"
							}
						}
					}
				}
				return true
			}
			var asciiBlk, otherBlk ast.Node = is.Body, is.Else
			if !bodyIsASCII {
				asciiBlk, otherBlk = is.Else, is.Body
			}
			// the non-ASCII arm takes the encoded length; no constant is assigned there
			takes := false
			for _, k := range encs {
				if within(k.as, otherBlk) {
					takes = true
				}
			}
			okConsts := true
			for _, k := range consts {
				if k.as == nil {
					continue
				}
				if within(k.as, otherBlk) {
					okConsts = false
				}
				if !within(k.as, asciiBlk) && !(k.as.End() <= is.Pos()) {
					okConsts = false
				}
			}
			if takes && okConsts {
				decided = true
			}
			return true
		})
	}
	if decided {
		return ""
	}
	return why
}

// changesHandedOnWhole (C17.R16): the list of content changes that DidChange hands to the document store is the
// notification's list itself. A list that was cut or filtered on the way (a slice expression, an append into a new
// list, an element picked out) drops edits the editor has applied: a full replacement followed by a range edit in
// one notification is two changes, both of which the editor's copy has seen.
func changesHandedOnWhole(c *Ctx, rule string) {
	p := c.pkg("cmd/templ/lspcmd/proxy")
	info := p.TypesInfo
	fd := findFunc(p, "Server", "DidChange")
	if fd == nil {
		c.viol(rule, "anchor-lost:Server.DidChange", "", "proxy.Server.DidChange not found")
		return
	}
	var apply *ast.CallExpr
	ast.Inspect(fd.Body, func(n ast.Node) bool {
		if call, ok := n.(*ast.CallExpr); ok && len(call.Args) == 2 {
			if fn := calleeOf(info, call); fn != nil && fn.Name() == "Apply" && fn.Pkg() == p.Types {
				apply = call
			}
		}
		return true
	})
	scope := fd
	if apply == nil {
		if _, h, inner := applyThroughHelper(p, fd); inner != nil && len(inner.Args) == 2 {
			apply, scope = inner, h
		}
	}
	if apply == nil {
		c.viol(rule, "anchor-lost:"+funcKey(p, fd)+"|apply", "", "DidChange no longer hands the changes to the document store's Apply")
		return
	}
	bad := ""
	seen := map[types.Object]bool{}
	var look func(e ast.Expr)
	look = func(e ast.Expr) {
		switch x := ast.Unparen(e).(type) {
		case *ast.SelectorExpr:
			if _, isField := info.Selections[x]; isField && x.Sel.Name == "ContentChanges" {
				return
			}
			bad = types.ExprString(x) + " at " + c.pos(x.Pos())
		case *ast.Ident:
			ob := info.ObjectOf(x)
			if ob == nil || seen[ob] {
				return
			}
			seen[ob] = true
			n := 0
			ast.Inspect(scope.Body, func(m ast.Node) bool {
				if as, ok := m.(*ast.AssignStmt); ok && len(as.Lhs) == len(as.Rhs) {
					for i, l := range as.Lhs {
						if lid, ok := ast.Unparen(l).(*ast.Ident); ok && info.ObjectOf(lid) == ob {
							n++
							look(as.Rhs[i])
						}
					}
				}
				if rs, ok := m.(*ast.RangeStmt); ok {
					for _, kv := range []ast.Expr{rs.Key, rs.Value} {
						if lid, ok := kv.(*ast.Ident); ok && info.ObjectOf(lid) == ob {
							bad = "an element picked out by the loop at " + c.pos(rs.Pos())
						}
					}
				}
				return true
			})
			if n == 0 {
				bad = x.Name + ", which is not assigned from the notification in DidChange"
			}
		default:
			bad = types.ExprString(e) + " at " + c.pos(e.Pos())
		}
	}
	look(apply.Args[1])
	c.check(bad == "", rule, funcKey(p, fd)+"|changes-handed-on-whole", c.pos(apply.Pos()), "Apply receives params.ContentChanges itself",
		"DidChange hands the document store "+bad+" instead of the notification's ContentChanges as they came: changes the editor has applied (range edits sent together with a full replacement) are dropped, and the server's copy differs from the editor's from then on")
}

// firstNonceWins (C20.R19): in the function that reads the nonce out of the Content-Security-Policy header — loops over
// directives, then over the sources of script-src — an assignment of the result inside the inner loop is followed by
// leaving BOTH loops (return, or break with the outer loop's label), or the outer loop tests the result after the inner
// one and leaves. Otherwise a later script-src directive overwrites the nonce of the first: browsers ignore a repeated
// directive, so the reload script carries a nonce that is not the page's.
func firstNonceWins(c *Ctx, rule string) {
	p := c.pkg("cmd/templ/generatecmd/proxy")
	info := p.TypesInfo
	for _, fd := range allFuncDecls(p) {
		if fd.Body == nil {
			continue
		}
		hasDir, hasPrefix := false, false
		ast.Inspect(fd.Body, func(n ast.Node) bool {
			if e, ok := n.(ast.Expr); ok {
				if s, isC := constString(info, e); isC {
					hasDir = hasDir || s == "script-src"
					hasPrefix = hasPrefix || s == "nonce-"
				}
			}
			return true
		})
		if !hasDir || !hasPrefix {
			continue
		}
		key := funcKey(p, fd) + "|first-nonce-wins"
		// loops, with their labels
		label := map[ast.Stmt]string{}
		var stack []ast.Node
		n, bad := 0, ""
		mentionsPrefix := func(nd ast.Node) bool {
			found := false
			if nd == nil {
				return false
			}
			ast.Inspect(nd, func(m ast.Node) bool {
				if e, ok := m.(ast.Expr); ok {
					if s, isC := constString(info, e); isC && s == "nonce-" {
						found = true
					}
				}
				return true
			})
			return found
		}
		ast.Inspect(fd.Body, func(nd ast.Node) bool {
			if nd == nil {
				stack = stack[:len(stack)-1]
				return true
			}
			stack = append(stack, nd)
			if ls, ok := nd.(*ast.LabeledStmt); ok {
				label[ls.Stmt] = ls.Label.Name
			}
			as, ok := nd.(*ast.AssignStmt)
			if !ok || len(as.Lhs) != 1 || (as.Tok != token.ASSIGN) {
				return true
			}
			lid, ok := ast.Unparen(as.Lhs[0]).(*ast.Ident)
			if !ok {
				return true
			}
			if t := info.TypeOf(lid); t == nil || !types.Identical(t.Underlying(), types.Typ[types.String]) {
				return true
			}
			// enclosing loops, innermost first; the if that recognises the prefix; the block the assignment is in
			var loops []ast.Stmt
			var blk *ast.BlockStmt
			underPrefixTest := false
			for k := len(stack) - 2; k >= 0; k-- {
				switch anc := stack[k].(type) {
				case *ast.RangeStmt:
					loops = append(loops, anc)
				case *ast.ForStmt:
					loops = append(loops, anc)
				case *ast.BlockStmt:
					if blk == nil {
						blk = anc
					}
				case *ast.IfStmt:
					if mentionsPrefix(anc.Cond) || mentionsPrefix(anc.Init) {
						underPrefixTest = true
					}
				case *ast.FuncLit:
					k = -1
				}
			}
			if len(loops) < 2 || !underPrefixTest || blk == nil {
				return true
			}
			n++
			outer := loops[len(loops)-1]
			leaves := false
			after := false
			for _, st := range blk.List {
				if st == ast.Stmt(as) {
					after = true
					continue
				}
				if !after {
					continue
				}
				switch s := st.(type) {
				case *ast.ReturnStmt:
					leaves = true
				case *ast.BranchStmt:
					if s.Tok == token.BREAK && s.Label != nil && s.Label.Name == label[outer] {
						leaves = true
					}
					if s.Tok == token.GOTO {
						leaves = true
					}
				}
			}
			// … or the outer loop looks at the result after the inner loop and leaves
			if !leaves {
				var body *ast.BlockStmt
				switch o := outer.(type) {
				case *ast.RangeStmt:
					body = o.Body
				case *ast.ForStmt:
					body = o.Body
				}
				for _, st := range body.List {
					is, ok := st.(*ast.IfStmt)
					if !ok || is.Pos() < as.Pos() {
						continue
					}
					tests := false
					ast.Inspect(is.Cond, func(m ast.Node) bool {
						if id, ok := m.(*ast.Ident); ok && info.ObjectOf(id) == info.ObjectOf(lid) {
							tests = true
						}
						return true
					})
					if tests && len(is.Body.List) > 0 {
						switch s := is.Body.List[len(is.Body.List)-1].(type) {
						case *ast.ReturnStmt:
							leaves = true
						case *ast.BranchStmt:
							leaves = leaves || s.Tok == token.BREAK
						}
					}
				}
				// … or the outer loop's own condition / a guard at its top skips the rest once the result is set
				for _, st := range body.List {
					if is, ok := st.(*ast.IfStmt); ok && is.End() < as.Pos() {
						tests := false
						ast.Inspect(is.Cond, func(m ast.Node) bool {
							if id, ok := m.(*ast.Ident); ok && info.ObjectOf(id) == info.ObjectOf(lid) {
								tests = true
							}
							return true
						})
						if tests && len(is.Body.List) > 0 {
							switch s := is.Body.List[len(is.Body.List)-1].(type) {
							case *ast.ReturnStmt:
								leaves = true
							case *ast.BranchStmt:
								leaves = leaves || s.Tok == token.BREAK
							}
						}
					}
				}
			}
			if !leaves {
				bad = fmt.Sprintf("%s = %s at %s", lid.Name, types.ExprString(as.Rhs[0]), c.pos(as.Pos()))
			}
			return true
		})
		if n == 0 {
			continue
		}
		c.check(bad == "", rule, key, c.pos(fd.Pos()), "once a nonce is found both loops are left",
			fmt.Sprintf("%s sets the nonce inside the loop over a directive's sources (%s) and goes on with the next directive: a later script-src directive overwrites the nonce of the first, but browsers use the first occurrence of a directive and ignore repeats — the reload script gets a nonce the page's policy does not allow, and live reload silently stops", fd.Name.Name, bad))
	}
}

// flagsParallelToLines (C08.R22 = C09.R19): where the formatter marks lines of gofmt's output with a flag per line
// (F[i] = A[i] != B[i] in a loop) and hands lines and flags on as a pair, (1) the loop visits every line that is
// handed on and (2) the two slices handed on are cut at the same place: flag k belongs to line k. A loop that stops
// one line early leaves the last continuation line of a raw string unmarked (it is re-indented on every run); flags
// cut at another offset than the lines mark the wrong lines (code is written unindented, string content is indented).
func flagsParallelToLines(c *Ctx, rule string) {
	p := c.pkg("parser/v2")
	info := p.TypesInfo
	for _, fd := range allFuncDecls(p) {
		if fd.Body == nil || fd.Type.Results == nil {
			continue
		}
		// the flag store: F[i] = A[i] != B[i], all with the same index variable
		var store *ast.AssignStmt
		var fOb, aOb, bOb, iOb types.Object
		var loop ast.Stmt
		var stack []ast.Node
		ast.Inspect(fd.Body, func(n ast.Node) bool {
			if n == nil {
				stack = stack[:len(stack)-1]
				return true
			}
			stack = append(stack, n)
			as, ok := n.(*ast.AssignStmt)
			if !ok || len(as.Lhs) != 1 || len(as.Rhs) != 1 || as.Tok != token.ASSIGN {
				return true
			}
			lx, ok := ast.Unparen(as.Lhs[0]).(*ast.IndexExpr)
			be, ok2 := ast.Unparen(as.Rhs[0]).(*ast.BinaryExpr)
			if !ok || !ok2 || (be.Op != token.NEQ && be.Op != token.EQL) {
				return true
			}
			ax, ok := ast.Unparen(be.X).(*ast.IndexExpr)
			bx, ok2 := ast.Unparen(be.Y).(*ast.IndexExpr)
			if !ok || !ok2 {
				return true
			}
			ids := []*ast.Ident{}
			for _, e := range []ast.Expr{lx.X, ax.X, bx.X, lx.Index, ax.Index, bx.Index} {
				id, ok := ast.Unparen(e).(*ast.Ident)
				if !ok {
					return true
				}
				ids = append(ids, id)
			}
			if info.ObjectOf(ids[3]) != info.ObjectOf(ids[4]) || info.ObjectOf(ids[3]) != info.ObjectOf(ids[5]) {
				return true
			}
			store = as
			fOb, aOb, bOb, iOb = info.ObjectOf(ids[0]), info.ObjectOf(ids[1]), info.ObjectOf(ids[2]), info.ObjectOf(ids[3])
			for k := len(stack) - 2; k >= 0; k-- {
				switch l := stack[k].(type) {
				case *ast.RangeStmt:
					if loop == nil {
						loop = l
					}
				case *ast.ForStmt:
					if loop == nil {
						loop = l
					}
				}
			}
			return true
		})
		if store == nil || loop == nil {
			continue
		}
		key := funcKey(p, fd) + "|flags-parallel-to-lines"
		// what a local stands for: X[a:b] of one of the three slices (offset a), or the slice itself
		type cut struct {
			base   types.Object
			lo, hi string
		}
		var resolve func(e ast.Expr, depth int) (cut, bool)
		resolve = func(e ast.Expr, depth int) (cut, bool) {
			switch x := ast.Unparen(e).(type) {
			case *ast.Ident:
				ob := info.ObjectOf(x)
				if ob == fOb || ob == aOb || ob == bOb {
					return cut{ob, "", ""}, true
				}
				if depth > 2 {
					return cut{}, false
				}
				var got *cut
				n := 0
				ast.Inspect(fd.Body, func(m ast.Node) bool {
					if as, ok := m.(*ast.AssignStmt); ok && len(as.Lhs) == len(as.Rhs) {
						for i, l := range as.Lhs {
							if lid, ok := ast.Unparen(l).(*ast.Ident); ok && info.ObjectOf(lid) == ob {
								n++
								if cc, ok := resolve(as.Rhs[i], depth+1); ok {
									got = &cc
								}
							}
						}
					}
					return true
				})
				if n == 1 && got != nil {
					return *got, true
				}
			case *ast.SliceExpr:
				if cc, ok := resolve(x.X, depth+1); ok && cc.lo == "" && cc.hi == "" {
					lo, hi := "", ""
					if x.Low != nil {
						lo = types.ExprString(x.Low)
					}
					if x.High != nil {
						hi = types.ExprString(x.High)
					}
					if lo == "0" {
						lo = ""
					}
					return cut{cc.base, lo, hi}, true
				}
			}
			return cut{}, false
		}
		lineSide := func(ob types.Object) bool { return ob == aOb || ob == bOb }
		why := ""
		// (2) every return that hands on a pair (lines, flags) cuts both at the same place
		var retLo, retHi string
		haveRet := false
		ast.Inspect(fd.Body, func(m ast.Node) bool {
			if _, isLit := m.(*ast.FuncLit); isLit {
				return false
			}
			ret, ok := m.(*ast.ReturnStmt)
			if !ok || ret.Pos() < store.Pos() {
				return true
			}
			res := ret.Results
			if len(res) == 0 {
				// named results
				for _, f := range fd.Type.Results.List {
					for _, nm := range f.Names {
						res = append(res, nm)
					}
				}
			}
			var lc, fc *cut
			for _, r := range res {
				if cc, ok := resolve(r, 0); ok {
					cc := cc
					if cc.base == fOb {
						fc = &cc
					} else if lineSide(cc.base) {
						lc = &cc
					}
				}
			}
			if lc == nil || fc == nil {
				return true
			}
			haveRet = true
			retLo, retHi = lc.lo, lc.hi
			if lc.lo != fc.lo {
				why = fmt.Sprintf("the lines are handed on from index %q and the flags from index %q (return at %s): flag k no longer belongs to line k", orZero(lc.lo), orZero(fc.lo), c.pos(ret.Pos()))
			}
			return true
		})
		if !haveRet {
			continue
		}
		// (1) the loop visits every line that is handed on
		switch l := loop.(type) {
		case *ast.RangeStmt:
			if cc, ok := resolve(l.X, 0); !ok || cc.lo != "" || (cc.hi != "" && cc.hi != retHi) {
				if why == "" {
					why = fmt.Sprintf("the loop that computes the flags ranges over %s, indexing the lines from 0, which is not every line handed on (lines %s:%s)", types.ExprString(l.X), orZero(retLo), retHi)
				}
			} else if ok && cc.lo == "" && cc.hi == "" && cc.base != fOb && !lineSide(cc.base) {
				why = "the loop that computes the flags ranges over another slice than the lines or the flags"
			}
		case *ast.ForStmt:
			lo, hi := "?", "?"
			if as, ok := l.Init.(*ast.AssignStmt); ok && len(as.Lhs) == 1 && len(as.Rhs) == 1 {
				if id, ok := as.Lhs[0].(*ast.Ident); ok && info.ObjectOf(id) == iOb {
					lo = types.ExprString(as.Rhs[0])
					if lo == "0" {
						lo = ""
					}
				}
			}
			if be, ok := ast.Unparen(l.Cond).(*ast.BinaryExpr); ok && be.Op == token.LSS {
				if id, ok := ast.Unparen(be.X).(*ast.Ident); ok && info.ObjectOf(id) == iOb {
					hi = types.ExprString(be.Y)
				}
			}
			full := func(h string) bool {
				for _, ob := range []types.Object{aOb, bOb, fOb} {
					if h == "len("+ob.Name()+")" {
						return true
					}
				}
				return false
			}
			okLo := lo == "" || lo == retLo
			okHi := full(hi) || (retHi != "" && hi == retHi)
			if (!okLo || !okHi) && why == "" {
				why = fmt.Sprintf("the loop that computes the flags runs from %s to below %s while the lines handed on are %s:%s — a line that is handed on is never looked at, its flag stays false", orZero(lo), hi, orZero(retLo), retHi)
			}
		}
		c.check(why == "", rule, key, c.pos(store.Pos()), "the flag loop visits every line handed on, and lines and flags are cut at the same place",
			fd.Name.Name+": "+why+" — a continuation line of a raw string literal that is not marked is indented by the formatter (the string's value changes, and again on every run), a line of code that is marked is written without indentation")
	}
	// (no floor: the clause speaks about lines and flags kept in two parallel slices; a formatter that keeps them in one
	// slice of pairs has nothing to cut apart, and its coverage is not decided by this clause)
}

func orZero(s string) string {
	if s == "" {
		return "0"
	}
	return s
}

// applyThroughHelper: DidChange hands the changes to the document store inside a helper of the package —
// `d, err := p.applyContentChanges(params)` — whose body makes the one TemplSource.Apply call and whose every return
// hands back the document that call returned. Returns the call in fd that stands for the update, the helper and the
// Apply call inside it.
func applyThroughHelper(p *packages.Package, fd *ast.FuncDecl) (outer *ast.CallExpr, helper *ast.FuncDecl, inner *ast.CallExpr) {
	info := p.TypesInfo
	directNodes(fd.Body, func(n ast.Node) bool {
		call, ok := n.(*ast.CallExpr)
		if !ok || outer != nil {
			return true
		}
		fn := calleeOf(info, call)
		if fn == nil || fn.Pkg() != p.Types {
			return true
		}
		for _, hfd := range allFuncDecls(p) {
			if info.Defs[hfd.Name] != types.Object(fn) || hfd.Body == nil || hfd == fd {
				continue
			}
			var applies []*ast.CallExpr
			ast.Inspect(hfd.Body, func(m ast.Node) bool {
				if c2, ok := m.(*ast.CallExpr); ok && strings.HasSuffix(types.ExprString(c2.Fun), "TemplSource.Apply") {
					applies = append(applies, c2)
				}
				return true
			})
			if len(applies) != 1 {
				continue
			}
			// the document every return hands back is the one Apply returned
			var dObj types.Object
			ast.Inspect(hfd.Body, func(m ast.Node) bool {
				if as, ok := m.(*ast.AssignStmt); ok && len(as.Rhs) == 1 && as.Rhs[0] == ast.Expr(applies[0]) {
					if id, ok := as.Lhs[0].(*ast.Ident); ok {
						dObj = info.ObjectOf(id)
					}
				}
				return true
			})
			okRet, nret := true, 0
			ast.Inspect(hfd.Body, func(m ast.Node) bool {
				if _, isLit := m.(*ast.FuncLit); isLit {
					return false
				}
				ret, ok := m.(*ast.ReturnStmt)
				if !ok {
					return true
				}
				nret++
				r := explicitReturn(info, ret)
				if len(r.Results) == 0 {
					okRet = false
					return true
				}
				first := ast.Unparen(r.Results[0])
				if first == ast.Expr(applies[0]) {
					return true
				}
				if id, ok := first.(*ast.Ident); !ok || dObj == nil || info.ObjectOf(id) != dObj {
					okRet = false
				}
				return true
			})
			if okRet && nret > 0 {
				outer, helper, inner = call, hfd, applies[0]
			}
		}
		return true
	})
	return
}

// callsEncodedLenHelper: the call goes to a function of package p with one rune parameter and an integer result whose
// body takes utf8.RuneLen / EncodeRune / AppendRune of it, and whose every return is a value built on that call or
// the constant 1 (the width of an invalid rune).
func callsEncodedLenHelper(p *packages.Package, call *ast.CallExpr) bool {
	if p == nil {
		return false
	}
	info := p.TypesInfo
	fn := calleeOf(info, call)
	if fn == nil || fn.Pkg() != p.Types {
		return false
	}
	for _, fd := range allFuncDecls(p) {
		if info.Defs[fd.Name] != types.Object(fn) || fd.Body == nil {
			continue
		}
		takes := false
		lenVars := map[types.Object]bool{}
		isLenCall := func(e ast.Expr) bool {
			c2, ok := ast.Unparen(e).(*ast.CallExpr)
			if !ok {
				return false
			}
			f2 := calleeOf(info, c2)
			return f2 != nil && f2.Pkg() != nil && f2.Pkg().Path() == "unicode/utf8" && (f2.Name() == "RuneLen" || f2.Name() == "EncodeRune")
		}
		ast.Inspect(fd.Body, func(n ast.Node) bool {
			if as, ok := n.(*ast.AssignStmt); ok && len(as.Lhs) == 1 && len(as.Rhs) == 1 && isLenCall(as.Rhs[0]) {
				if id, ok := as.Lhs[0].(*ast.Ident); ok {
					lenVars[info.ObjectOf(id)] = true
					takes = true
				}
			}
			return true
		})
		okRet, nret := true, 0
		ast.Inspect(fd.Body, func(n ast.Node) bool {
			ret, ok := n.(*ast.ReturnStmt)
			if !ok {
				return true
			}
			nret++
			if len(ret.Results) != 1 {
				okRet = false
				return true
			}
			r := ast.Unparen(ret.Results[0])
			if isLenCall(r) {
				takes = true
				return true
			}
			if id, ok := r.(*ast.Ident); ok && lenVars[info.ObjectOf(id)] {
				return true
			}
			if tv, ok := info.Types[r]; ok && tv.Value != nil {
				if v, ok := constant.Int64Val(constant.ToInt(tv.Value)); ok && v == 1 {
					return true
				}
			}
			// max(utf8.RuneLen(r), 1)
			if c2, ok := r.(*ast.CallExpr); ok {
				if id, ok := c2.Fun.(*ast.Ident); ok && id.Name == "max" && len(c2.Args) == 2 && (isLenCall(c2.Args[0]) || isLenCall(c2.Args[1])) {
					takes = true
					return true
				}
			}
			okRet = false
			return true
		})
		return takes && okRet && nret > 0
	}
	return false
}

// lineLengthsAreByteLengths (C17.R17): the document's methods cut lines at a column with slice expressions
// (d.Lines[l][:col]) — a column is a byte offset there — so the table of line lengths that positions are clamped
// against holds byte lengths: every element stored by the method of Document that builds an []int over d.Lines is
// len(<that line>). A table in another unit (runes, UTF-16 units) clamps a column on a line with a multi-byte
// character short of the line's end: an edit at the end of such a line lands inside the character before it.
func lineLengthsAreByteLengths(c *Ctx, rule string) {
	p := c.pkg("cmd/templ/lspcmd/proxy")
	info := p.TypesInfo
	isString := func(e ast.Expr) bool {
		t := info.TypeOf(e)
		if t == nil {
			return false
		}
		b, ok := t.Underlying().(*types.Basic)
		return ok && b.Info()&types.IsString != 0
	}
	var methods []*ast.FuncDecl
	for _, fd := range allFuncDecls(p) {
		if fd.Recv != nil && fd.Body != nil && recvTypeName(fd.Recv.List[0].Type) == "Document" {
			methods = append(methods, fd)
		}
	}
	// the anchor: lines are cut at columns
	cuts := 0
	for _, fd := range methods {
		ast.Inspect(fd.Body, func(n ast.Node) bool {
			if se, ok := n.(*ast.SliceExpr); ok && isString(se.X) && (se.Low != nil || se.High != nil) {
				cuts++
			}
			return true
		})
	}
	if cuts == 0 {
		c.ok(rule, p.PkgPath+".Document|lines-are-cut-at-byte-columns", "", "no method of Document slices a line at a column: the unit of the length table is not constrained by this clause")
		return
	}
	n := 0
	for _, fd := range methods {
		if fd.Type.Results == nil || len(fd.Type.Results.List) != 1 {
			continue
		}
		if sl, ok := info.TypeOf(fd.Type.Results.List[0].Type).(*types.Slice); !ok || !types.Identical(sl.Elem(), types.Typ[types.Int]) {
			continue
		}
		ast.Inspect(fd.Body, func(x ast.Node) bool {
			rs, ok := x.(*ast.RangeStmt)
			if !ok || !strings.HasSuffix(types.ExprString(rs.X), ".Lines") {
				return true
			}
			var valOb types.Object
			if v, ok := rs.Value.(*ast.Ident); ok {
				valOb = info.ObjectOf(v)
			}
			ast.Inspect(rs.Body, func(y ast.Node) bool {
				as, ok := y.(*ast.AssignStmt)
				if !ok || len(as.Lhs) != 1 || len(as.Rhs) != 1 {
					return true
				}
				var stored ast.Expr
				if _, isIdx := ast.Unparen(as.Lhs[0]).(*ast.IndexExpr); isIdx {
					stored = as.Rhs[0]
				} else if call, ok := ast.Unparen(as.Rhs[0]).(*ast.CallExpr); ok && types.ExprString(call.Fun) == "append" && len(call.Args) == 2 {
					stored = call.Args[1]
				}
				if stored == nil {
					return true
				}
				n++
				good := false
				if call, ok := ast.Unparen(stored).(*ast.CallExpr); ok && len(call.Args) == 1 {
					if id, ok := call.Fun.(*ast.Ident); ok && id.Name == "len" && isString(call.Args[0]) {
						switch a := ast.Unparen(call.Args[0]).(type) {
						case *ast.Ident:
							good = valOb != nil && info.ObjectOf(a) == valOb
						case *ast.IndexExpr:
							good = strings.HasSuffix(types.ExprString(a.X), ".Lines")
						}
					}
				}
				c.check(good, rule, funcKey(p, fd)+"|line-length-is-byte-length", c.pos(as.Pos()), "the stored length is len(line): bytes, the unit the lines are cut in",
					fmt.Sprintf("%s stores %s as the length of a line, while %d slice expression(s) of Document's methods cut lines at a column as a byte offset: on a line with a multi-byte character a position at the end of the line is clamped short, and an edit there lands inside the line (or splits a character) — the server's copy differs from the editor's", fd.Name.Name, types.ExprString(stored), cuts))
				return true
			})
			return true
		})
	}
	if n == 0 {
		c.viol(rule, "anchor-lost:"+p.PkgPath+".Document|line-lengths", "", "no method of Document builds the table of line lengths by ranging over its Lines (one confirmed by reading): nothing is decided")
	}
}

// recordedRegardlessOfValue (C02.R26): a method that stores a flag for a name in a map (M[name] = enabled) and records
// the name in an ordered list appends the name whatever the flag is — the append may be confined to "name not seen
// yet", never to the flag's value. The rendering pass reads the FINAL flag of every listed name: a name first given
// disabled and later enabled (templ.KV("active", false) … templ.KV("active", true)) must be in the list.
func recordedRegardlessOfValue(c *Ctx, rule string) {
	p := c.pkg(".")
	info := p.TypesInfo
	n := 0
	for _, fd := range allFuncDecls(p) {
		if fd.Body == nil || fd.Recv == nil {
			continue
		}
		// M[k] = v with M a map[string]bool field, v a bool variable
		var keyOb, valOb types.Object
		ast.Inspect(fd.Body, func(x ast.Node) bool {
			as, ok := x.(*ast.AssignStmt)
			if !ok || len(as.Lhs) != 1 || len(as.Rhs) != 1 {
				return true
			}
			ix, ok := ast.Unparen(as.Lhs[0]).(*ast.IndexExpr)
			if !ok {
				return true
			}
			if _, isSel := ast.Unparen(ix.X).(*ast.SelectorExpr); !isSel {
				return true
			}
			mt, ok := info.TypeOf(ix.X).Underlying().(*types.Map)
			if !ok || !types.Identical(mt.Elem().Underlying(), types.Typ[types.Bool]) {
				return true
			}
			k, ok1 := ast.Unparen(ix.Index).(*ast.Ident)
			v, ok2 := ast.Unparen(as.Rhs[0]).(*ast.Ident)
			if ok1 && ok2 {
				if _, isVar := info.ObjectOf(v).(*types.Var); isVar {
					keyOb, valOb = info.ObjectOf(k), info.ObjectOf(v)
				}
			}
			return true
		})
		if keyOb == nil {
			continue
		}
		var stack []ast.Node
		ast.Inspect(fd.Body, func(x ast.Node) bool {
			if x == nil {
				stack = stack[:len(stack)-1]
				return true
			}
			stack = append(stack, x)
			as, ok := x.(*ast.AssignStmt)
			if !ok || len(as.Lhs) != 1 || len(as.Rhs) != 1 {
				return true
			}
			call, ok := ast.Unparen(as.Rhs[0]).(*ast.CallExpr)
			if !ok || types.ExprString(call.Fun) != "append" || len(call.Args) != 2 {
				return true
			}
			if _, isSel := ast.Unparen(as.Lhs[0]).(*ast.SelectorExpr); !isSel {
				return true
			}
			if id, ok := ast.Unparen(call.Args[1]).(*ast.Ident); !ok || info.ObjectOf(id) != keyOb {
				return true
			}
			n++
			bad := ""
			for k := len(stack) - 2; k >= 0; k-- {
				if is, ok := stack[k].(*ast.IfStmt); ok {
					ast.Inspect(is.Cond, func(y ast.Node) bool {
						if id, ok := y.(*ast.Ident); ok && info.ObjectOf(id) == valOb {
							bad = types.ExprString(is.Cond)
						}
						return true
					})
				}
			}
			c.check(bad == "", rule, funcKey(p, fd)+"|name-recorded-whatever-its-flag", c.pos(as.Pos()), "the name is appended to the ordered list whatever flag is stored for it",
				fmt.Sprintf("%s appends the name to %s only under `%s`, which reads the flag that is being stored: a name that is first given with the flag off and later with the flag on is in the map as on but never in the list the output is made from — the class is missing from the rendered attribute", fd.Name.Name, types.ExprString(as.Lhs[0]), bad))
			return true
		})
	}
	if n == 0 {
		c.viol(rule, "anchor-lost:"+rule, "", "no method of package templ stores a flag per name and appends the name to an ordered list (the class processor's AddClassName was confirmed by reading): nothing is decided")
	}
}
